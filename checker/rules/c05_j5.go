package rules

import (
	"go/types"

	"osmcheck/core"
)

// c05MarshalOf observes a MarshalJSON method of a named type of package osm under a scenario for its receiver:
// per returning path, the marshal operations and the returned bytes.
type c05MarshalObs struct {
	fi    *FuncInfo
	x     *c03Interp
	paths []*c03Path
	cx    *c05Codec
}

func c05ObserveMarshal(r *core.R, typeName string, recvZero tri, tag string) *c05MarshalObs {
	pk := c03OsmPkg(r.P)
	o := pk.Types.Scope().Lookup(typeName)
	if o == nil {
		r.Anchor("osm." + typeName)
		return nil
	}
	fi := c03FuncInfoOf(r.P, c03Method(o.Type(), "MarshalJSON"))
	if fi == nil {
		r.Anchor("osm." + typeName + ".MarshalJSON")
		return nil
	}
	cx := c05NewCodec(r.P)
	recv := c03Receiver(fi)
	x := cx.interp(fi, c05Scen{Tag: tag})
	base := x.Init
	x.Init = func(v *c03V) *c03V {
		v = base(v)
		if v.IsInit("param") && v.Root.Obj == recv {
			v.Z = recvZero // the receiver itself and everything below it
		}
		return v
	}
	paths := x.Run(fi, nil)
	c03DumpPaths(r.P, fi, tag, paths)
	return &c05MarshalObs{fi: fi, x: x, paths: paths, cx: cx}
}

// single returns the one marshal operation of every returning path (nil when some path has none or several).
func (o *c05MarshalObs) single() []c05Op {
	var out []c05Op
	for _, pa := range o.paths {
		if pa.End != "return" {
			return nil
		}
		var ms []c05Op
		for _, op := range o.cx.ops(pa) {
			if op.dir == "marshal" {
				ms = append(ms, op)
			}
		}
		if len(ms) != 1 {
			return nil
		}
		out = append(out, ms[0])
	}
	return out
}

func c05J5(r *core.R) {
	c03Init(r)
	pk := c03OsmPkg(r.P)

	// (g) strings written by hand (also tells whether Tags writes its object by hand)
	tagsByHand := c05HandStrings(r)

	// (a) Tags -> map[string]string
	if o := c05ObserveMarshal(r, "Tags", triF, "tags set"); o != nil {
		c := "shape@Tags.MarshalJSON"
		isStr := func(t types.Type) bool {
			b, ok := t.Underlying().(*types.Basic)
			return ok && b.Kind() == types.String
		}
		ops := o.single()
		switch {
		case o.x.Aborted != "":
			r.Unknown(c, o.fi.Decl.Pos(), "Tags.MarshalJSON could not be explored completely: %s", o.x.Aborted)
		case len(ops) == 0 && tagsByHand == "ok":
			r.OK(c, o.fi.Decl.Pos(), "writes the JSON object by hand: the output is delimited by { and } and every key and value is encoded by a codec marshal operation on the string (see strings@Tags.MarshalJSON); separators are not decided")
		case len(ops) == 0 && tagsByHand == "bad":
			r.Bad(c, o.fi.Decl.Pos(), "Tags.MarshalJSON no longer marshals a map[string]string and what it writes by hand is not a JSON object of codec-encoded key/value strings (see strings@Tags.MarshalJSON)")
		case len(ops) == 0:
			r.Unknown(c, o.fi.Decl.Pos(), "expected exactly one marshal operation on every path of Tags.MarshalJSON")
		default:
			bad := false
			for _, op := range ops {
				m, ok := op.t.Underlying().(*types.Map)
				if !ok || !isStr(m.Key()) || !isStr(m.Elem()) {
					r.Bad(c, op.ev.Node.Pos(), "Tags.MarshalJSON marshals `%s` of type %s; osmjson requires tags as a JSON object, i.e. a map[string]string", src(r.P.Fset, op.ev.Call.Args[0]), c03Short(op.t))
					bad = true
					break
				}
			}
			if !bad {
				r.OK(c, ops[0].ev.Node.Pos(), "marshals a %s: a JSON object of key/value strings", c03Short(ops[0].t))
			}
		}
	}

	// (b) WayNodes -> []int64 of ID
	if o := c05ObserveMarshal(r, "WayNodes", triF, "waynodes set"); o != nil {
		c := "shape@WayNodes.MarshalJSON"
		recv := c03Receiver(o.fi)
		ops := o.single()
		if o.x.Aborted != "" {
			r.Unknown(c, o.fi.Decl.Pos(), "WayNodes.MarshalJSON could not be explored completely: %s", o.x.Aborted)
		} else if len(ops) == 0 {
			r.Unknown(c, o.fi.Decl.Pos(), "expected exactly one marshal operation on every path of WayNodes.MarshalJSON")
		} else {
			verdict, nw := "", 0
			for _, op := range ops {
				sl, ok := op.t.Underlying().(*types.Slice)
				isInt := false
				if ok {
					if b, ok := sl.Elem().Underlying().(*types.Basic); ok && b.Info()&types.IsInteger != 0 && c05Neutral(r.P, sl.Elem()) {
						isInt = true
					}
				}
				if !isInt {
					verdict = "WayNodes.MarshalJSON marshals a " + c03Short(op.t) + "; osmjson requires way nodes as an array of node ids (plain integers)"
					break
				}
				// every element written into the list is the ID of a way node of the receiver
				var vals []*c03V
				if op.operand.K == c03KList {
					vals = append(vals, op.operand.Elems...)
				}
				for _, pa := range o.paths {
					for _, e := range pa.St.Trace {
						if e.Kind == "store" && e.Why == "indexed store" && e.Target != nil && e.Target.K == c03KList && op.operand.K == c03KList && e.Target.Site == op.operand.Site {
							vals = append(vals, e.Val)
						}
					}
				}
				for _, v := range vals {
					nw++
					fromRecv := v.IsInit("elem") && v.Root.Of.IsInit("param") && v.Root.Of.Root.Obj == recv && len(v.Root.Of.Path) == 0
					if !fromRecv || len(v.Path) != 1 || v.Path[0].Name() != "ID" {
						verdict = "the array marshalled for a way's nodes is filled from `" + v.PathString() + "`, not from the way node's ID"
					}
				}
			}
			switch {
			case verdict != "":
				r.Bad(c, ops[0].ev.Node.Pos(), "%s", verdict)
			case nw == 0:
				r.Unknown(c, ops[0].ev.Node.Pos(), "no element is seen being written into the marshalled list")
			default:
				r.OK(c, ops[0].ev.Node.Pos(), "marshals %s filled with the ID of every way node of the receiver", c03Short(ops[0].t))
			}
		}
	}

	// (c) Relation.Members never omitted; the empty value marshals as []
	if relNT, _ := structType(pk, "Relation"); relNT == nil {
		r.Anchor("osm.Relation")
	} else {
		jf := c03JSONKey(relNT, "members")
		switch {
		case jf == nil:
			r.Bad("shape@Relation.Members", relNT.Obj().Pos(), "osm.Relation has no field with JSON key `members`")
		case jf.OmitEmpty:
			r.Bad("shape@Relation.Members", jf.Var.Pos(), "Relation.%s is tagged omitempty: a relation without members is written without a `members` key (encoding/json omits an empty slice before it ever calls Members.MarshalJSON); osmjson consumers expect the array", jf.Var.Name())
		default:
			r.OK("shape@Relation.Members", jf.Var.Pos(), "JSON key `members` on Relation.%s, not omitempty", jf.Var.Name())
		}
	}
	c05EmptyValue(r, "Members", "[]", "a relation without members must marshal as \"members\":[] — with a nil slice encoding/json would write null")
	// (d) zero Date -> null
	c05EmptyValue(r, "Date", "null", "an unset note date must marshal as null, not as year 1")

	// (e) osmjson key names
	c05Keys(r)

	// (h) unknown keys are tolerated
	c05UnknownKeys(r)

	// (f) codec routing
	c05Routing(r, c05Helpers(r.P))
}

// c05EmptyValue: with the receiver empty (nil/len 0/zero time), every path of T.MarshalJSON returns the literal lit
// without consulting a codec.
func c05EmptyValue(r *core.R, typeName, lit, why string) {
	o := c05ObserveMarshal(r, typeName, triT, typeName+" empty")
	if o == nil {
		return
	}
	c := "shape@" + typeName + ".MarshalJSON"
	pos := o.fi.Decl.Pos()
	if o.x.Aborted != "" || len(o.paths) == 0 {
		r.Unknown(c, pos, "%s.MarshalJSON could not be explored: %s", typeName, o.x.Aborted)
		return
	}
	for _, pa := range o.paths {
		got := ""
		switch {
		case pa.End != "return" || len(pa.Ret) != 2:
			got = "a path that ends with " + pa.End
		case len(o.cx.ops(pa)) > 0:
			got = "the result of marshalling the empty value through the codec"
		case !c05IsBytesConst(pa.Ret[0]):
			got = "<" + pa.Ret[0].String() + ">"
		case c05BytesText(pa.Ret[0]) != lit:
			got = c05BytesText(pa.Ret[0])
		default:
			pos = pa.Pos
			continue
		}
		r.Bad(c, c05PosOr(pa.Pos, pos), "for the empty value %s.MarshalJSON returns %s instead of the literal %s: %s", typeName, got, lit, why)
		return
	}
	r.OK(c, pos, "for the empty value every path returns the literal `%s`", lit)
}

func c05IsBytesConst(v *c03V) bool { _, ok := c03BytesConst(v); return ok }

func c05BytesText(v *c03V) string { s, _ := c03BytesConst(v); return s }
