package rules

import ()

// Behaviour-preserving variants of polygon.go (the robustness suite of C18). Each entry replaces one
// contiguous region of the pinned source by an equivalent spelling; every rule of C18 must stay silent.

const c18SrcPrefix = `	if len(w.Nodes) <= 3 {
		// need more than 3 nodes to be a polygon since first/last is repeated.
		return false
	}

	if w.Nodes[0].ID != w.Nodes[len(w.Nodes)-1].ID {
		// must be closed
		return false
	}

	if area := w.Tags.Find("area"); area == "no" {
		return false
	} else if area != "" {
		return true
	}
`

const c18SrcLoop = `	for _, c := range polyConditions {
		v := w.Tags.Find(c.Key)
		if v == "" || v == "no" {
			continue
		}

		if c.Condition == conditionAll {
			return true
		} else if c.Condition == conditionWhitelist {
			index := sort.SearchStrings(c.Values, v)
			if index != len(c.Values) && c.Values[index] == v {
				return true
			}
		} else if c.Condition == conditionBlacklist {
			index := sort.SearchStrings(c.Values, v)
			if index == len(c.Values) || c.Values[index] != v {
				return true
			}
		}
	}

	return false
}
`

const c18SrcChain = `		if c.Condition == conditionAll {
			return true
		} else if c.Condition == conditionWhitelist {
			index := sort.SearchStrings(c.Values, v)
			if index != len(c.Values) && c.Values[index] == v {
				return true
			}
		} else if c.Condition == conditionBlacklist {
			index := sort.SearchStrings(c.Values, v)
			if index == len(c.Values) || c.Values[index] != v {
				return true
			}
		}
`

const c18SrcInit = `func init() {
	err := json.Unmarshal(polygonJSON, &polyConditions)
	if err != nil {
		// This must be valid json
		panic(err)
	}

	for _, p := range polyConditions {
		sort.StringSlice(p.Values).Sort()
	}
}
`

const c18SrcInitAndTypes = c18SrcInit + `
var polyConditions []polyCondition

type polyCondition struct {
	Key       string        ` + "`json:\"key\"`" + `
	Condition conditionType ` + "`json:\"polygon\"`" + `
	Values    []string      ` + "`json:\"values\"`" + `
}
type conditionType string
`

const c18SrcRel = `	t := r.Tags.Find("type")
	return t == "multipolygon" || t == "boundary"
`

// The replacement texts of some variants are named: the sensitivity suite seeds defects into these shapes too.

const c18ShapeHelpers = `	if !w.closedRing() {
		return false
	}

	switch w.Tags.Find("area") {
	case "no":
		return false
	case "":
	default:
		return true
	}

	return w.matchesPolygonFeature()
}

// closedRing: more than 3 refs and first == last.
func (w *Way) closedRing() bool {
	if len(w.Nodes) <= 3 {
		return false
	}
	return w.Nodes[0].ID == w.Nodes[len(w.Nodes)-1].ID
}

func (w *Way) matchesPolygonFeature() bool {
	for _, rule := range polyConditions {
		if rule.accepts(w.Tags.Find(rule.Key)) {
			return true
		}
	}
	return false
}

func (pc polyCondition) accepts(val string) bool {
	if val == "" || val == "no" {
		return false
	}
	switch pc.Condition {
	case conditionAll:
		return true
	case conditionWhitelist:
		return inSorted(pc.Values, val)
	case conditionBlacklist:
		return !inSorted(pc.Values, val)
	}
	return false
}

func inSorted(list []string, s string) bool {
	at := sort.SearchStrings(list, s)
	return at < len(list) && list[at] == s
}
`

const c18ShapeFlag = `	isArea := false
	for _, c := range polyConditions {
		v := w.Tags.Find(c.Key)
		if v == "" || v == "no" {
			continue
		}

		matched := false
		switch c.Condition {
		case conditionAll:
			matched = true
		case conditionWhitelist:
			index := sort.SearchStrings(c.Values, v)
			matched = index != len(c.Values) && c.Values[index] == v
		case conditionBlacklist:
			index := sort.SearchStrings(c.Values, v)
			matched = index == len(c.Values) || c.Values[index] != v
		}
		if matched {
			isArea = true
			break
		}
	}

	return isArea
}
`

const c18ShapeIndexLoop = `	for i := 0; i < len(polyConditions); i++ {
		c := polyConditions[i]
		v := w.Tags.Find(c.Key)
		if len(v) == 0 || v == "no" {
			continue
		}

		listed := func() bool {
			index := sort.SearchStrings(c.Values, v)
			return index < len(c.Values) && c.Values[index] == v
		}

		if c.Condition == conditionAll {
			return true
		} else if c.Condition == conditionWhitelist && listed() {
			return true
		} else if c.Condition == conditionBlacklist && !listed() {
			return true
		}
	}

	return false
}
`

const c18ShapeInitHelpers = `func init() {
	mustDecode(polygonJSON, &polyConditions)
	sortConditionValues()
}

func mustDecode(data []byte, into interface{}) {
	if err := json.Unmarshal(data, into); err != nil {
		// This must be valid json
		panic(err)
	}
}

// the values are looked up with a binary search.
func sortConditionValues() {
	for i := 0; i < len(polyConditions); i++ {
		sortStrings(polyConditions[i].Values)
	}
}

func sortStrings(list []string) { sort.Strings(list) }
`

const c18ShapeAlias = `	nodes, tags := w.Nodes, w.Tags
	n := len(nodes)
	if n <= 3 {
		return false
	}

	first, last := nodes[0], nodes[n-1]
	if first.ID != last.ID {
		return false
	}

	if area := tags.Find("area"); area == "no" {
		return false
	} else if area != "" {
		return true
	}

	for i := range polyConditions {
		c := &polyConditions[i]
		v := tags.Find(c.Key)
		if v == "" || v == "no" {
			continue
		}

		vals := c.Values
		if c.Condition == conditionAll {
			return true
		} else if c.Condition == conditionWhitelist {
			index := sort.SearchStrings(vals, v)
			if index != len(vals) && vals[index] == v {
				return true
			}
		} else if c.Condition == conditionBlacklist {
			index := sort.SearchStrings(vals, v)
			if index == len(vals) || vals[index] != v {
				return true
			}
		}
	}

	return false
}
`

const c18ShapeInitMethod = `func init() {
	if err := json.Unmarshal(polygonJSON, &polyConditions); err != nil {
		panic(err)
	}

	for i := range polyConditions {
		pc := &polyConditions[i]
		pc.sortValues()
	}
}

func (pc *polyCondition) sortValues() {
	vals := pc.Values
	if len(vals) < 2 {
		sort.Strings(vals)
		return
	}
	sort.Sort(sort.StringSlice(vals))
}
`

// c18SrcWayPolygon is the whole (*Way).Polygon declaration (up to init), c18SrcPolygonToTable reaches to the table declaration.
const c18SrcWayPolygon = "func (w *Way) Polygon() bool {\n" + c18SrcPrefix + "\n" + c18SrcLoop + "\n"

const c18SrcPolygonToTable = c18SrcWayPolygon + c18SrcInit + "\nvar polyConditions []polyCondition\n"

const c18ShapeNamedResultTuples = `func (w *Way) Polygon() (isPoly bool) {
	ring := len(w.Nodes) > 3 && w.Nodes[0].ID == w.Nodes[len(w.Nodes)-1].ID
	if !ring {
		return
	}

	if decided, area := w.explicitArea(); decided {
		return area
	}

outer:
	for _, c := range polyConditions {
		v := w.Tags.Find(c.Key)
		switch v {
		case "", "no":
			continue outer
		}

		switch c.Condition {
		case conditionAll:
			isPoly = true
			return
		case conditionWhitelist, conditionBlacklist:
			_, listed := lookup(c.Values, v)
			if listed == (c.Condition == conditionWhitelist) {
				return true
			}
		}
	}

	return
}

func (w *Way) explicitArea() (decided, isArea bool) {
	area := w.Tags.Find("area")
	if area == "" {
		return false, false
	}
	return true, area != "no"
}

func lookup(sorted []string, s string) (int, bool) {
	i := sort.SearchStrings(sorted, s)
	if i >= len(sorted) {
		return i, false
	}
	return i, sorted[i] == s
}

`

const c18ShapeTableTypeMethods = `func (w *Way) Polygon() bool {
	if len(w.Nodes) <= 3 {
		return false
	}

	if w.Nodes[0].ID != w.Nodes[len(w.Nodes)-1].ID {
		return false
	}

	find := w.Tags.Find
	if area := find("area"); area == "no" {
		return false
	} else if area != "" {
		return true
	}

	return polyConditions.match(w.Tags)
}

type polyConditionList []polyCondition

func (l polyConditionList) match(tags Tags) bool {
	for _, c := range l {
		v := tags.Find(c.Key)
		if v == "" || v == "no" {
			continue
		}

		if c.Condition == conditionAll {
			return true
		} else if c.Condition == conditionWhitelist {
			index := sort.SearchStrings(c.Values, v)
			if index != len(c.Values) && c.Values[index] == v {
				return true
			}
		} else if c.Condition == conditionBlacklist {
			index := sort.SearchStrings(c.Values, v)
			if index == len(c.Values) || c.Values[index] != v {
				return true
			}
		}
	}

	return false
}

func (l polyConditionList) sortValues() {
	for i := range l {
		sort.Strings(l[i].Values)
	}
}

func init() {
	err := json.Unmarshal(polygonJSON, &polyConditions)
	if err != nil {
		// This must be valid json
		panic(err)
	}

	polyConditions.sortValues()
}

var polyConditions polyConditionList
`
