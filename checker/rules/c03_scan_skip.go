package rules

import (
	"fmt"
	"go/token"
	"go/types"
	"sort"
	"strings"

	"osmcheck/core"
)

// What the streaming scan does with a start element that is no object (C03.T3, restated for the repaired scanner).
//
// Whole-document decoding (xml.Unmarshal into osm.OSM / osm.Change / osm.Diff) reaches an object only through the
// elements the struct tags name, and "any unexpected element is ignored together with its content" (encoding/xml,
// Unmarshal: an XML element that matches no field is skipped by (*Decoder).Skip). The scan agrees with that iff
//
//   - it walks into the containers of the three formats, and into nothing else: the containers are derived from
//     tables/osmxml.json (the document elements of OSM, Change and Diff, and every element on the way from them to
//     a list of objects: osm, osmChange, create, modify, delete, action, old, new; references: OSM_XML, OsmChange,
//     Overpass_API/Augmented_Diffs on wiki.openstreetmap.org, listed in the table);
//   - every other start element that is no object has its content skipped on the decoder the token came from, before
//     the next token is read, and an error of that Skip ends the scan and stays in the scanner (the input ended, or is
//     malformed, inside the skipped element);
//   - the one exception is the document element (whatever its name): the scan may walk into it, on a condition that
//     holds for the first start element only (a receiver field that is zero in a new scanner and non-zero after any
//     start element was bound).

// c03ScanContainers derives the container element names from the table.
func c03ScanContainers(p *core.Program, tbl *c03Table) ([]string, map[string]bool) {
	objects := map[string]bool{}
	if o := tbl.Type("OSM"); o != nil {
		for _, e := range o.Entries {
			if e.Kind == "element" {
				objects[e.XML] = true
			}
		}
	}
	set := map[string]bool{}
	seen := map[string]bool{}
	var visit func(goName string)
	visit = func(goName string) {
		tt := tbl.Type(goName)
		if tt == nil || seen[goName] {
			return
		}
		seen[goName] = true
		set[tt.Element] = true
		nt, _ := structType(c03OsmPkg(p), goName)
		for _, e := range tt.Entries {
			if e.Kind != "element" || objects[e.XML] || strings.Contains(e.XML, "/") {
				continue
			}
			set[e.XML] = true
			if nt == nil {
				continue
			}
			if res := c03ResolveXMLPath(nt, e.XML); res.Leaf != nil {
				if n, ok := c03ElemType(res.Leaf.Var.Type()).(*types.Named); ok {
					visit(n.Obj().Name())
				}
			}
		}
	}
	for _, doc := range []string{"OSM", "Change", "Diff"} {
		visit(doc)
	}
	var out []string
	for n := range set {
		out = append(out, n)
	}
	sort.Strings(out)
	return out, objects
}

// c03NameVariants are spellings that only a dispatch on something other than the element name itself (case folding,
// trimming, prefix or suffix tests) treats like n.
func c03NameVariants(n string) []string {
	if n == "" {
		return nil
	}
	return []string{strings.ToUpper(n[:1]) + n[1:], strings.ToUpper(n), " " + n, n + "s", "x" + n}
}

// c03RootCondition finds the receiver field whose zero value, established on path `it`, lets the scan walk into an
// unknown element: the "no start element seen yet" state.
func (m *c03ScanModel) c03RootCondition(it *c03Iter) *types.Var {
	st := it.path.St
	rv := st.Var(m.recv)
	if rv == nil || rv.K != c03KInit {
		return nil
	}
	stT, ok := c03Deref(m.recv.Type()).Underlying().(*types.Struct)
	if !ok {
		return nil
	}
	for i := 0; i < stT.NumFields(); i++ {
		f := stT.Field(i)
		if b, ok := f.Type().Underlying().(*types.Basic); !ok || b.Info()&(types.IsBoolean|types.IsInteger) == 0 {
			continue
		}
		if st.Zero(it.x.fieldInit(rv, f)) == triT {
			return f
		}
	}
	return nil
}

// c03FieldAtEnd is the value of receiver field f when the path ends.
func (m *c03ScanModel) c03FieldAtEnd(it *c03Iter, f *types.Var) *c03V {
	return it.x.field(it.path.St, it.path.St.Var(m.recv), f, m.fi.Decl, nil)
}

// c03ErrField finds the receiver field that holds the result of call `ev` when the path ends.
func (m *c03ScanModel) c03ErrField(it *c03Iter, ev *c03Event) *types.Var {
	stT, ok := c03Deref(m.recv.Type()).Underlying().(*types.Struct)
	if !ok || ev == nil {
		return nil
	}
	for i := 0; i < stT.NumFields(); i++ {
		f := stT.Field(i)
		if v := m.c03FieldAtEnd(it, f); v != nil && v.Call != nil && v.Call == ev.Call {
			return f
		}
	}
	return nil
}

// c03SkipOutcome judges one path that skipped an element: "" when it is a faithful skip.
func (m *c03ScanModel) c03SkipOutcome(it *c03Iter, tokenLoop bool, errField *types.Var) string {
	sk := it.skip[0]
	if len(it.skip) > 1 {
		return "more than one Skip call for one start element: the second one skips the rest of the enclosing element"
	}
	if it.token == nil || sk.Recv == nil || it.token.Recv == nil || sk.Recv.Key == "" || sk.Recv.Key != it.token.Recv.Key {
		return "Skip is called on a different decoder than the one the token was read from"
	}
	var res *c03V
	if len(sk.Results) > 0 {
		res = sk.Results[0]
	}
	failed := triU
	if res != nil {
		failed = triNot(it.path.St.Zero(res))
	}
	if tokenLoop {
		if failed != triF {
			return "the scan goes on reading tokens whether or not Skip failed: its error (input that ends or is malformed inside the skipped element) is not looked at, the scan reports a clean end of input or runs on through a broken document"
		}
		return ""
	}
	ret, v := it.returned()
	switch {
	case !ret || v == nil || v.K != c03KBool:
		return "after the Skip the iteration neither reads the next token nor returns a constant"
	case v.Bool:
		return "Scan returns true after skipping the element: Object() yields nil or a stale object"
	case failed != triT:
		return "Scan returns false after a Skip that did not fail: the rest of the document is never scanned"
	}
	got := m.c03ErrField(it, sk)
	switch {
	case got == nil:
		return "the error of Skip (input that ends or is malformed inside the skipped element) ends the scan but is not kept in the scanner: Err() reports a clean end of input"
	case errField != nil && got != errField:
		return fmt.Sprintf("the error of Skip is kept in Scanner.%s, the error of Token in Scanner.%s", got.Name(), errField.Name())
	}
	return ""
}

// c03TokenErrField: the receiver field the error of a failed Token call is kept in.
func (m *c03ScanModel) c03TokenErrField() *types.Var {
	for _, it := range m.runs[""] {
		if it.assert != nil {
			continue
		}
		tr := it.path.St.Trace
		for i := range tr {
			if c03IsDecoderCall(&tr[i], "Token") {
				if f := m.c03ErrField(it, &tr[i]); f != nil {
					return f
				}
			}
		}
	}
	return nil
}

func c03PosOr(e *c03Event, it *c03Iter, fallback token.Pos) token.Pos {
	if e != nil {
		return c03EvPos(e, fallback)
	}
	return c03EvPos(it.assert, fallback)
}
