package rules

import "osmcheck/core"

// Round 5, part 2: representation changes of the scan state and of the values threaded through the loops.

const c13SrcFindAll = c13SrcFindNode + "\n" + c13SrcFindWay + "\n" + c13SrcFindRel

// c13ScanIndexOK: one shared scan over indices with a version callback, returning (index, ok) instead of a -1 sentinel.
const c13ScanIndexOK = `func findPreviousNode(ctx context.Context, n *osm.Node, ds osm.HistoryDatasourcer, ignoreMissing bool) (*osm.Node, error) {
	nodes, err := ds.NodeHistory(ctx, n.ID)
	if err != nil {
		return nil, err
	}
	pos, found := newestBefore(len(nodes), n.Version, func(i int) int { return nodes[i].Version })
	if !found {
		return nil, noPrevious(n.FeatureID(), ignoreMissing)
	}
	return nodes[pos], nil
}

func findPreviousWay(ctx context.Context, w *osm.Way, ds osm.HistoryDatasourcer, ignoreMissing bool) (*osm.Way, error) {
	ways, err := ds.WayHistory(ctx, w.ID)
	if err != nil {
		return nil, err
	}
	pos, found := newestBefore(len(ways), w.Version, func(i int) int { return ways[i].Version })
	if !found {
		return nil, noPrevious(w.FeatureID(), ignoreMissing)
	}
	return ways[pos], nil
}

func findPreviousRelation(ctx context.Context, r *osm.Relation, ds osm.HistoryDatasourcer, ignoreMissing bool) (*osm.Relation, error) {
	relations, err := ds.RelationHistory(ctx, r.ID)
	if err != nil {
		return nil, err
	}
	pos, found := newestBefore(len(relations), r.Version, func(i int) int { return relations[i].Version })
	if !found {
		return nil, noPrevious(r.FeatureID(), ignoreMissing)
	}
	return relations[pos], nil
}

func newestBefore(count, limit int, at func(i int) int) (pos int, found bool) {
	top := -1
	for i := 0; i < count; i++ {
		if v := at(i); v < limit && v > top {
			top = v
			pos, found = i, true
		}
	}
	return pos, found
}

func noPrevious(id osm.FeatureID, ignoreMissing bool) error {
	if ignoreMissing {
		return nil
	}
	return &NoVisibleChildError{ID: id}
}
`

// c13UpdaterStruct: the values threaded through the loops become fields of a struct with one method per kind.
var c13UpdaterStruct = `type sectionWriter struct {
	src     osm.HistoryDatasourcer
	lenient bool
	kind    osm.ActionType
	shown   bool
}

func addUpdate(ctx context.Context, actions []osm.Action, o *osm.OSM, actionType osm.ActionType, ds osm.HistoryDatasourcer, ignoreMissing bool) ([]osm.Action, error) {
	if o == nil {
		return actions, nil
	}
	sw := sectionWriter{src: ds, lenient: ignoreMissing, kind: actionType, shown: actionType != osm.ActionDelete}
	actions, err := sw.nodes(ctx, actions, o.Nodes)
	if err != nil {
		return nil, err
	}
	if actions, err = sw.ways(ctx, actions, o.Ways); err != nil {
		return nil, err
	}
	return sw.relations(ctx, actions, o.Relations)
}

func (sw sectionWriter) nodes(ctx context.Context, actions []osm.Action, list osm.Nodes) ([]osm.Action, error) {
` + c13Sub(c13SrcNodeLoop, "o.Nodes", "list", "ds, ignoreMissing", "sw.src, sw.lenient", "currentVisible", "sw.shown", "actionType", "sw.kind") + `	return actions, nil
}

func (sw sectionWriter) ways(ctx context.Context, actions []osm.Action, list osm.Ways) ([]osm.Action, error) {
` + c13Sub(c13SrcWayLoop, "o.Ways", "list", "ds, ignoreMissing", "sw.src, sw.lenient", "currentVisible", "sw.shown", "actionType", "sw.kind") + `	return actions, nil
}

func (sw *sectionWriter) relations(ctx context.Context, actions []osm.Action, list osm.Relations) ([]osm.Action, error) {
` + c13Sub(c13SrcRelLoop, "o.Relations", "list", "ds, ignoreMissing", "sw.src, sw.lenient", "currentVisible", "sw.shown", "actionType", "sw.kind") + `	return actions, nil
}
`

var c13Benign5b = []core.Mutant{
	{Name: "scan-index-ok-results-with-callback", File: c13Chg, Find: c13SrcFindAll, Replace: c13ScanIndexOK},
	{Name: "loop-invariants-in-struct-with-methods", File: c13Chg, Find: c13SrcAddUpdate, Replace: c13UpdaterStruct},
	{Name: "scan-pointer-version-and-flag", File: c13Chg, Find: c13SrcFindNode, Replace: `func findPreviousNode(ctx context.Context, n *osm.Node, ds osm.HistoryDatasourcer, ignoreMissing bool) (*osm.Node, error) {
	nodes, err := ds.NodeHistory(ctx, n.ID)
	if err != nil {
		return nil, err
	}
	var (
		best  *osm.Node
		bestV = -1
		found bool
	)
	for _, node := range nodes {
		if node.Version < n.Version && node.Version > bestV {
			best, bestV, found = node, node.Version, true
		}
	}
	switch {
	case found:
		return best, nil
	case ignoreMissing:
		return nil, nil
	}
	return nil, &NoVisibleChildError{ID: n.FeatureID()}
}
`},
}

var c13Mutants5b = []core.Mutant{
	{Name: "callback-scan-not-strict", File: c13Chg, Find: c13SrcFindAll, Replace: c13Sub(c13ScanIndexOK, "v < limit && v > top", "v < limit && v >= top"),
		ExpectRule: "S2", ExpectConstruct: "select@Way"},
	{Name: "callback-scan-flag-from-length", File: c13Chg, Find: c13SrcFindAll,
		Replace:    c13Sub(c13ScanIndexOK, "\t\t\tpos, found = i, true\n", "\t\t\tpos = i\n", "\treturn pos, found\n", "\treturn pos, count > 0\n"),
		ExpectRule: "S2", ExpectConstruct: "notfound@Relation"},
	{Name: "callback-scan-caller-tests-index-not-flag", File: c13Chg, Find: c13SrcFindAll,
		Replace:    c13Sub(c13ScanIndexOK, "pos, found := newestBefore(len(ways)", "pos, _ := newestBefore(len(ways)", "\tif !found {\n\t\treturn nil, noPrevious(w.FeatureID(), ignoreMissing)", "\tif pos < 0 {\n\t\treturn nil, noPrevious(w.FeatureID(), ignoreMissing)"),
		ExpectRule: "S2", ExpectConstruct: "notfound@Way"},
	{Name: "callback-scan-flag-starts-true", File: c13Chg, Find: c13SrcFindAll,
		Replace:    c13Sub(c13ScanIndexOK, "\ttop := -1\n", "\ttop := -1\n\tfound = true\n"),
		ExpectRule: "S2", ExpectConstruct: "init@Node"},
	{Name: "struct-visibility-inverted", File: c13Chg, Find: c13SrcAddUpdate, Replace: c13Sub(c13UpdaterStruct, "shown: actionType != osm.ActionDelete", "shown: actionType == osm.ActionDelete"),
		ExpectRule: "S4", ExpectConstruct: "update@Delete/Node"},
	{Name: "struct-option-field-dropped", File: c13Chg, Find: c13SrcAddUpdate, Replace: c13Sub(c13UpdaterStruct, "sw := sectionWriter{src: ds, lenient: ignoreMissing,", "sw := sectionWriter{src: ds,"),
		ExpectRule: "S5", ExpectConstruct: "errmap@Way not-found+ignore"},
}
