package rules

import (
	"fmt"
	"go/ast"
	"go/token"
	"go/types"

	"osmcheck/core"
)

// c09World is one abstract outcome of the consumer's receive from the ordered queue.
type c09World struct {
	name string
	ok   bool // the queue was open (second result of the receive)
	eof  bool // the pair carries io.EOF
}

// c09B4: typestate of the consumer's next-object method over every path, through helpers, evaluated once per outcome
// of the receive (a normal block / queue closed / the EOF pair): for a normal block, before the next receive and before
// returning, previous := current, then current := pair.offset, and the pair becomes the current block; nothing but the
// closed/EOF outcome may bypass that (guard whitelist: branches on the receive's ok flag and on pair.err == io.EOF are
// decided by the outcome, every other branch is taken both ways). For the closed/EOF outcomes the offsets do not move.
func c09B4(r *core.R) {
	m := modelOrAnchor(r)
	if m == nil {
		return
	}
	f := c09Resolve(r, m)
	if f == nil || m.next == nil {
		return
	}
	info := m.info
	nx := m.next
	errOut := c09FieldOfKind(f.outPairT, pbfIsError)
	isDec := func(e ast.Expr) *types.Var {
		return c09DecoderField(m, e)
	}
	isPair := func(e ast.Expr) bool {
		o := rootObj(info, e)
		return o != nil && c09RecvPair(m, o, f.queue, map[types.Object]bool{})
	}
	// atoms of the guard whitelist
	var atom func(e ast.Expr, w c09World, depth int) tri
	b2t := func(b bool) tri {
		if b {
			return triT
		}
		return triF
	}
	atom = func(e ast.Expr, w c09World, depth int) tri {
		e = ast.Unparen(e)
		if id, ok := e.(*ast.Ident); ok && depth < 4 {
			o, _ := objOf(info, id).(*types.Var)
			if o == nil {
				return triU
			}
			defs := m.defsOf(o)
			if len(defs) == 0 {
				return triU
			}
			v := tri(-1)
			for _, d := range defs {
				var dv tri
				switch {
				case d.kind == "recv" && d.idx == 1 && m.chanClass(nil, d.e) == f.queue:
					dv = b2t(w.ok)
				case (d.kind == "arg" || d.kind == "assign") && d.e != nil:
					dv = evalTri(d.e, func(a ast.Expr) tri { return atom(a, w, depth+1) })
				case d.kind == "result":
					// a flag computed by a helper: every return of the helper must give the same value
					call, _ := ast.Unparen(d.e).(*ast.CallExpr)
					var fi *FuncInfo
					if call != nil {
						if fn := callee(info, call); fn != nil {
							fi = m.funcs[fn]
						}
					}
					if fi == nil {
						return triU
					}
					dv = tri(-1)
					for _, ret := range m.returnsOf(fi, d.idx) {
						if ret == nil {
							return triU
						}
						rv := evalTri(ret, func(a ast.Expr) tri { return atom(a, w, depth+1) })
						if dv != tri(-1) && dv != rv {
							return triU
						}
						dv = rv
					}
					if dv == tri(-1) {
						return triU
					}
				default:
					return triU
				}
				if v != tri(-1) && v != dv {
					return triU
				}
				v = dv
			}
			return v
		}
		if call, ok := e.(*ast.CallExpr); ok && isPkgFunc(callee(info, call), "errors", "Is") && len(call.Args) == 2 {
			if errOut != nil && fieldOf(info, call.Args[0]) == errOut && isPair(call.Args[0]) && c09IsEOF(info, call.Args[1]) {
				return b2t(w.ok && w.eof)
			}
			return triU
		}
		l, op, rr, ok := cmpNorm(e)
		if !ok || (op != token.EQL && op != token.NEQ) || errOut == nil {
			return triU
		}
		var side ast.Expr
		switch {
		case c09IsEOF(info, rr):
			side = l
		case c09IsEOF(info, l):
			side = rr
		default:
			return triU
		}
		if fieldOf(info, side) != errOut || !isPair(side) {
			return triU
		}
		v := b2t(w.ok && w.eof)
		if op == token.NEQ {
			v = triNot(v)
		}
		return v
	}
	const (
		taken = 1 << iota
		prevDone
		curDone
		stored
	)
	complete := taken | prevDone | curDone | stored
	var orderV, bypassV []c02Viol
	nRecv, nP, nC := 0, 0, 0
	for _, w := range []c09World{{"a normal block", true, false}, {"the queue closed", false, false}, {"the EOF pair", true, true}} {
		w := w
		nominal := w.ok && !w.eof
		t := m.newTracer()
		t.inlineOnly(m, func(u *unit) bool {
			return m.hasChanOp(u) || unitWritesField(m, u, f.current) || unitWritesField(m, u, f.previous)
		})
		t.Edge = func(st int, cond ast.Expr, val bool, _ *FuncInfo) (int, bool) {
			if st&taken == 0 {
				return st, true
			}
			v := evalTri(cond, func(a ast.Expr) tri { return atom(a, w, 0) })
			return st, v == triU || (v == triT) == val
		}
		recv := func(st int, pos token.Pos) int {
			nRecv++
			if nominal && st&taken != 0 && st != complete {
				bypassV = append(bypassV, c02Viol{pos, fmt.Sprintf("a block taken from the queue can be passed over (the next receive is reached) without the %s/%s shift: only the closed/EOF exit may bypass it, otherwise the reported offsets skip that block", f.previous.Name(), f.current.Name())})
			}
			return taken
		}
		t.Event = func(st int, ev *pbfEvent) int {
			switch ev.kind {
			case "range":
				if rs := ev.n.(*ast.RangeStmt); m.chanClass(nil, rs.X) == f.queue {
					return recv(st, rs.Pos())
				}
			case "comm":
				if from, _ := c02CommRecv(ev.n.(*ast.CommClause)); from != nil && m.chanClass(nil, from) == f.queue {
					return recv(st, ev.n.Pos())
				}
			case "return":
				if ev.depth == 0 && nominal && st&taken != 0 && st != complete {
					pos := nx.Decl.Pos()
					if ev.n != nil {
						pos = ev.n.Pos()
					}
					bypassV = append(bypassV, c02Viol{pos, "the consumer can return after taking a normal block from the queue without shifting the offsets and making it the current block"})
				}
			case "node":
				as, ok := ev.n.(*ast.AssignStmt)
				if !ok {
					return st
				}
				if from, _ := c02BareRecv(as); from != nil && m.chanClass(nil, from) == f.queue {
					return recv(st, as.Pos())
				}
				if len(as.Lhs) != len(as.Rhs) {
					return st
				}
				for i, l := range as.Lhs {
					lf := isDec(l)
					if lf == nil {
						continue
					}
					rhs := as.Rhs[i]
					switch {
					case lf == f.previous:
						nP++
						switch {
						case isDec(rhs) != f.current:
							orderV = append(orderV, c02Viol{as.Pos(), fmt.Sprintf("`%s`: the previous offset must receive the current offset %s", src(r.P.Fset, as), f.current.Name())})
						case !nominal && st&taken != 0, st&taken == 0:
							bypassV = append(bypassV, c02Viol{as.Pos(), fmt.Sprintf("`%s` is executed on a path where no new block is taken (%s): the reported offsets would move without an object of that block having been returned", src(r.P.Fset, as), map[bool]string{true: "before any receive", false: "after the receive returned " + w.name}[st&taken == 0])})
						case st&curDone != 0:
							orderV = append(orderV, c02Viol{as.Pos(), fmt.Sprintf("`%s` executes after the current offset was overwritten: the previous offset receives the NEW block's offset", src(r.P.Fset, as))})
						case st&prevDone != 0:
							orderV = append(orderV, c02Viol{as.Pos(), fmt.Sprintf("`%s` executes twice for one block", src(r.P.Fset, as))})
						}
						st |= prevDone
					case lf == f.current:
						nC++
						switch {
						case !c09AllDefs(m, rhs, map[types.Object]bool{}, func(o pbfOrigin) bool {
							return o.kind == "assign" && o.e != nil && fieldOf(info, o.e) == f.pairOffsetOut && isPair(o.e)
						}):
							orderV = append(orderV, c02Viol{as.Pos(), fmt.Sprintf("`%s`: the current offset must receive the offset of the pair just taken from the queue", src(r.P.Fset, as))})
						case !nominal && st&taken != 0, st&taken == 0:
							bypassV = append(bypassV, c02Viol{as.Pos(), fmt.Sprintf("`%s` is executed on a path where no new block is taken", src(r.P.Fset, as))})
						case st&prevDone == 0:
							orderV = append(orderV, c02Viol{as.Pos(), fmt.Sprintf("`%s` executes before the old current offset was saved as the previous offset (it must come immediately after `%s = %s` on the same path)", src(r.P.Fset, as), f.previous.Name(), f.current.Name())})
						}
						st |= curDone
					case c09NamedOf(lf.Type()) == f.outPairT && objOf(info, rhs) != nil && isPair(rhs):
						st |= stored
					case c02IsAddrOfPair(info, rhs, isPair) && namedPath(lf.Type()) == namedPath(f.outPairT):
						// the consumer keeps a pointer to the received pair
						st |= stored
					case fieldOf(info, rhs) == f.objsOut && isPair(rhs):
						// the consumer keeps the current block as separate fields: storing the pair's objects makes it current
						st |= stored
					}
				}
			}
			return st
		}
		t.Run(nx, nx.Decl.Body, 0)
		if len(t.incomplete) > 0 {
			r.Unknown("shift@consumer", nx.Decl.Pos(), "the consumer could not be followed on every path: %v", t.incomplete)
			return
		}
	}
	if nRecv == 0 {
		r.Anchor("receive from the ordered queue in the consumer")
		return
	}
	if nP == 0 || nC == 0 {
		orderV = append(orderV, c02Viol{nx.Decl.Pos(), fmt.Sprintf("the consumer must contain `%s = %s` and `%s = pair.%s` (found %d / %d executions)", f.previous.Name(), f.current.Name(), f.current.Name(), f.pairOffsetOut.Name(), nP, nC)})
	}
	c02Report(r, "shift@consumer", nx.Decl.Pos(), orderV, nil, fmt.Sprintf("on every path `%s = %s` precedes `%s = pair.%s` for the block just received", f.previous.Name(), f.current.Name(), f.current.Name(), f.pairOffsetOut.Name()))
	c02Report(r, "shift-only-on-new-block@consumer", nx.Decl.Pos(), bypassV, nil, "evaluated for the three outcomes of the receive (normal block / queue closed / EOF pair): a normal block always passes the shift and becomes the current block before the next receive or return, whatever other branches are taken; on the closed/EOF outcomes the offsets do not move")
}

func c09NamedOf(t types.Type) *types.Named {
	nt, _ := t.(*types.Named)
	return nt
}

func c09IsEOF(info *types.Info, e ast.Expr) bool {
	sel, ok := ast.Unparen(e).(*ast.SelectorExpr)
	if !ok {
		return false
	}
	o := info.Uses[sel.Sel]
	return o != nil && o.Pkg() != nil && o.Pkg().Path() == "io" && o.Name() == "EOF"
}

// c09B5: the exported accessors report the current / the previous offset.
func c09B5(r *core.R) {
	m := modelOrAnchor(r)
	if m == nil {
		return
	}
	f := c09Resolve(r, m)
	if f == nil {
		return
	}
	info := m.info
	// decoder fields mentioned by the result expressions of fi (following calls of declared functions)
	var fieldsOf func(fi *FuncInfo, depth int) []*types.Var
	fieldsOf = func(fi *FuncInfo, depth int) []*types.Var {
		var got []*types.Var
		for _, ret := range m.returnsOf(fi, 0) {
			if ret == nil {
				continue
			}
			e := ret
			if o, ok := objOf(info, ret).(*types.Var); ok && !o.IsField() {
				if defs := m.defsOf(o); len(defs) == 1 && defs[0].kind == "assign" {
					e = defs[0].e
				}
			}
			ast.Inspect(e, func(x ast.Node) bool {
				switch y := x.(type) {
				case *ast.SelectorExpr:
					if fl := c09DecoderField(m, y); fl != nil {
						got = append(got, fl)
						return false // the leaf field of the chain is what is returned
					}
				case *ast.CallExpr:
					if fn := callee(info, y); fn != nil && m.funcs[fn] != nil && depth < 3 {
						got = append(got, fieldsOf(m.funcs[fn], depth+1)...)
					}
				}
				return true
			})
		}
		return got
	}
	for _, spec := range []struct {
		name string
		want *types.Var
		what string
	}{{"(*Scanner).FullyScannedBytes", f.current, "current"}, {"(*Scanner).PreviousFullyScannedBytes", f.previous, "previous"}} {
		fi := findFunc(m.pk, spec.name)
		c := "accessor@" + spec.name
		if fi == nil {
			r.Anchor(spec.name)
			continue
		}
		got := fieldsOf(fi, 0)
		ok := len(got) > 0
		for _, g := range got {
			if g != spec.want {
				ok = false
			}
		}
		if ok {
			r.OK(c, fi.Decl.Pos(), "returns the %s offset field %s", spec.what, spec.want.Name())
		} else {
			var names []string
			for _, v := range got {
				names = append(names, v.Name())
			}
			r.Bad(c, fi.Decl.Pos(), "returns %v; it must return the %s offset (%s), the field %s", names, spec.what, spec.want.Name(), map[string]string{"current": "assigned from the block the last object came from", "previous": "holding the value that was current during the preceding block"}[spec.what])
		}
	}
}

// c02IsAddrOfPair: e is `&v` with v the received pair.
func c02IsAddrOfPair(info *types.Info, e ast.Expr, isPair func(ast.Expr) bool) bool {
	ue, ok := ast.Unparen(e).(*ast.UnaryExpr)
	return ok && ue.Op == token.AND && objOf(info, ue.X) != nil && isPair(ue.X)
}
