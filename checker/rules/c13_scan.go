package rules

import "fmt"

// searchInit checks the values the variables of a history scan start with.
func (m *c13Model) searchInit(s *c13Search) {
	var oks []string
	bad := func(format string, args ...interface{}) {
		if s.initBad == "" {
			s.initBad = fmt.Sprintf(format, args...)
		}
	}
	if s.max != nil {
		mi, isC := c13IntOf(s.max.pre)
		switch {
		case !isC:
			bad("the running maximum %s starts at the non-constant `%s`", s.max.Name(), m.show(s.max.pre))
		case mi > 0:
			bad("the running maximum %s starts at %d: a history entry with version %d (a valid version >= 1) is never above it and cannot be selected, e.g. version 1 as predecessor of version 2", s.max.Name(), mi, mi)
		default:
			oks = append(oks, fmt.Sprintf("the running maximum %s starts at the constant %d (< 1, below every valid version)", s.max.Name(), mi))
		}
	}
	if s.flag != nil {
		if b, isC := c13BoolOf(s.flag.pre); !isC || b {
			bad("the found flag %s starts at `%s`, not false: an empty history would count as found", s.flag.Name(), m.show(s.flag.pre))
		} else {
			oks = append(oks, fmt.Sprintf("the found flag %s starts false", s.flag.Name()))
		}
	}
	if s.best != nil {
		if s.best.pre.op != c13OpNil {
			bad("the best entry %s starts at `%s`, not nil", s.best.Name(), m.show(s.best.pre))
		} else {
			oks = append(oks, fmt.Sprintf("the best entry %s starts at nil", s.best.Name()))
		}
	}
	if s.loc != nil {
		li, isC := c13IntOf(s.loc.pre)
		switch {
		case !isC:
			bad("the index %s starts at the non-constant `%s`", s.loc.Name(), m.show(s.loc.pre))
		case li >= 0 && s.flag == nil && s.best == nil:
			bad("the not-found sentinel of %s is %d, which is a valid index into the history", s.loc.Name(), li)
		case li >= 0:
			oks = append(oks, fmt.Sprintf("%s starts at %d and is not used as the not-found indicator", s.loc.Name(), li))
		default:
			oks = append(oks, fmt.Sprintf("%s starts at the sentinel %d (not an index)", s.loc.Name(), li))
		}
	}
	if s.initBad == "" {
		s.initOK = ""
		for i, o := range oks {
			if i > 0 {
				s.initOK += "; "
			}
			s.initOK += o
		}
	}
}

func c13IsNilTest(a *c13Term, key string) bool {
	return a.op == c13OpEq && (a.args[0].key == key && a.args[1].op == c13OpNil || a.args[1].key == key && a.args[0].op == c13OpNil)
}

// foundTruth interprets a condition on the search result after the loop: truth when nothing was found / when an
// entry was found (1, 0, -1 = the test does not separate the two). Every not-found indicator the scan maintains may
// be tested: the best entry against nil, the found flag, the index against its negative sentinel, the running
// maximum against its initial value.
func (s *c13Search) foundTruth(m *c13Model, a *c13Term) (truth []int, ok bool) {
	if s.best != nil {
		if c13IsNilTest(a, s.best.after.key) {
			return []int{1, 0}, true
		}
	}
	if s.flag != nil {
		if b, isC := c13BoolOf(s.flag.pre); isC && !b {
			f := s.flag.after
			if a.key == f.key {
				return []int{0, 1}, true
			}
			if a.op == c13OpEq {
				for i := 0; i < 2; i++ {
					if a.args[i].key == f.key {
						if v, isB := c13BoolOf(a.args[1-i]); isB {
							return []int{c13B(!v), c13B(v)}, true
						}
					}
				}
			}
		}
	}
	if s.loc != nil && s.locKnown {
		loc := s.loc.after
		if f, isCmp := c13CmpConst(a, func(t *c13Term) bool { return t.key == loc.key }); isCmp {
			// not found: loc is the sentinel; found: loc is some index >= 0
			return []int{c13B(f(s.locInit)), c13TruthFrom(f, 0)}, true
		}
	}
	if s.max != nil {
		if mi, isC := c13IntOf(s.max.pre); isC && mi <= 0 {
			mx := s.max.after
			if f, isCmp := c13CmpConst(a, func(t *c13Term) bool { return t.key == mx.key }); isCmp {
				// not found: max is its initial value; found: max is a valid version (>= 1)
				return []int{c13B(f(mi)), c13TruthFrom(f, 1)}, true
			}
		}
	}
	return nil, false
}
