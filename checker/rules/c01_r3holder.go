package rules

import (
	"fmt"
	"go/ast"
	"go/constant"
	"go/token"
	"go/types"
	"sort"
	"strings"

	"osmcheck/core"
)

// C01.R3 when the decoder keeps the block parameters itself instead of caching a generated PrimitiveBlock.
//
// A parameter cell is a struct field of the package into which a value read from field granularity /
// date_granularity / lat_offset / lon_offset / stringtable of the block's message is stored (found by the provenance
// tracer, so conversions, temporaries and helper functions in between do not matter). The struct declaring the cell is
// the holder: a parameter struct of its own (held by the decoder by value or by pointer, built in a local and returned,
// handed down as an argument) or the per-worker decoder itself (one scalar field per parameter).
//
// Obligations, per parameter p:
//   reset@PrimitiveBlock p   every path from the decode entry to the first read of a block's message establishes the
//                            format default of p: `X.cell = <constant equal to the default>`, or a whole holder value
//                            is (re)built: a composite literal / zero value / constructor result whose cell holds the
//                            default (an absent key counts when the default is the zero value).
//   publish@PrimitiveBlock   when the element decoding reads the parameters through a holder stored in the decoder
//                            (state that outlives the call) and that holder is not the value the defaults were
//                            established on, every path from the decode entry to the decoding of a group overwrites
//                            the stored holder as a whole with a value built in this call, and no parameter is written
//                            into another holder afterwards.
// and params-before-groups@PrimitiveBlock as in the cached-block form.

type c01Holder struct {
	r     *core.R
	cm    *c01Model
	info  *types.Info
	cells map[string][]*types.Var // parameter (getter spelling) -> cell fields
	def   map[string]constant.Value
	// fromGetter: some cell is filled from a getter of the cached generated block
	fromGetter bool
}

var c01ParamNames = map[string]string{"granularity": "Granularity", "date_granularity": "DateGranularity", "lat_offset": "LatOffset", "lon_offset": "LonOffset"}

// c01FindCells discovers the parameter cells.
func (h *c01Holder) findCells() {
	info := h.info
	t := &c01Tracer{cm: h.cm, info: info}
	pkT := h.cm.m.pk.Types
	note := func(fi *FuncInfo, f *types.Var, rhs ast.Expr, idx int) {
		if f == nil || f.Pkg() != pkT || rhs == nil {
			return
		}
		if tv, ok := info.Types[rhs]; ok && tv.Value != nil {
			return
		}
		atoms := newAtoms()
		t.trace(&c01Ctx{fi: fi}, rhs, idx, false, atoms, map[string]bool{}, 0)
		var ps []string
		for a := range atoms.set {
			switch {
			case strings.HasPrefix(a, "fld:PrimitiveBlock."):
				n := strings.TrimPrefix(a, "fld:PrimitiveBlock.")
				if g, ok := c01ParamNames[n]; ok {
					ps = append(ps, g)
				} else if n == "stringtable" {
					ps = append(ps, "S")
				}
			case a == "get:S" || a == "fld:StringTable.s":
				ps = append(ps, "S")
			case strings.HasPrefix(a, "get:"):
				// filled from the generated getter of a cached block (the holder is an eager copy of it)
				for _, g := range c01ParamNames {
					if a == "get:"+g {
						ps = append(ps, g)
						h.fromGetter = true
					}
				}
			case strings.HasPrefix(a, "col:") || strings.HasPrefix(a, "fld:"):
				ps = append(ps, "?"+a) // mixed with element data: not a parameter cell
			}
		}
		sort.Strings(ps)
		uniq := ps[:0]
		for i, p := range ps {
			if i == 0 || ps[i-1] != p {
				uniq = append(uniq, p)
			}
		}
		if len(uniq) != 1 || strings.HasPrefix(uniq[0], "?") {
			return
		}
		p := uniq[0]
		if p == "S" {
			if sl, ok := f.Type().Underlying().(*types.Slice); !ok || !types.Identical(sl.Elem().Underlying(), types.Typ[types.String]) {
				return
			}
		} else if b, ok := f.Type().Underlying().(*types.Basic); !ok || b.Info()&types.IsInteger == 0 {
			return
		}
		for _, g := range h.cells[p] {
			if g == f {
				return
			}
		}
		h.cells[p] = append(h.cells[p], f)
	}
	for _, fi := range h.cm.worker {
		fi := fi
		ast.Inspect(fi.Decl.Body, func(n ast.Node) bool {
			switch s := n.(type) {
			case *ast.AssignStmt:
				if s.Tok != token.ASSIGN && s.Tok != token.DEFINE {
					return true
				}
				for i, l := range s.Lhs {
					sel, ok := ast.Unparen(l).(*ast.SelectorExpr)
					if !ok {
						continue
					}
					switch {
					case len(s.Rhs) == len(s.Lhs):
						note(fi, fieldOf(info, sel), s.Rhs[i], 0)
					case len(s.Rhs) == 1:
						note(fi, fieldOf(info, sel), s.Rhs[0], i)
					}
				}
			case *ast.KeyValueExpr:
				if id, ok := s.Key.(*ast.Ident); ok {
					if f, isField := info.Uses[id].(*types.Var); isField && f.IsField() {
						note(fi, f, s.Value, 0)
					}
				}
			}
			return true
		})
	}
}

// defaults reads the format defaults from the constants protoc-gen-go emits next to the PrimitiveBlock type
// (Default_PrimitiveBlock_<Field>); a parameter without such a constant defaults to the zero value.
func (h *c01Holder) defaults() {
	for _, imp := range h.cm.m.pk.Imports {
		if imp.Types == nil || imp.Types.Scope().Lookup("PrimitiveBlock") == nil {
			continue
		}
		for _, g := range c01ParamNames {
			if c, ok := imp.Types.Scope().Lookup("Default_PrimitiveBlock_" + g).(*types.Const); ok {
				h.def[g] = c.Val()
			}
		}
	}
}

func (h *c01Holder) isDefault(p string, e ast.Expr) bool {
	tv, ok := h.info.Types[e]
	if p == "S" {
		if isNilIdent(e) {
			return true
		}
		if se, ok := ast.Unparen(e).(*ast.SliceExpr); ok && se.Low == nil && se.High != nil {
			v, okc := constInt(h.info, se.High)
			return okc && v == 0
		}
		if cl, ok := ast.Unparen(e).(*ast.CompositeLit); ok {
			return len(cl.Elts) == 0
		}
		return false
	}
	if !ok || tv.Value == nil {
		return false
	}
	want := h.def[p]
	if want == nil {
		want = constant.MakeInt64(0)
	}
	return constant.Compare(constant.ToInt(tv.Value), token.EQL, constant.ToInt(want))
}

func (h *c01Holder) zeroIsDefault(p string) bool {
	if p == "S" {
		return true
	}
	want := h.def[p]
	return want == nil || constant.Sign(constant.ToInt(want)) == 0
}

// holderOf returns the struct type declaring cell f.
func (h *c01Holder) holderOf(f *types.Var) *types.Named {
	if hn, ok := c01HolderCache[f]; ok {
		return hn
	}
	hn := h.holderOf0(f)
	c01HolderCache[f] = hn
	return hn
}

var c01HolderCache = map[*types.Var]*types.Named{}

func (h *c01Holder) holderOf0(f *types.Var) *types.Named {
	if f.Pkg() == nil {
		return nil
	}
	sc := f.Pkg().Scope()
	for _, n := range sc.Names() {
		tn, ok := sc.Lookup(n).(*types.TypeName)
		if !ok {
			continue
		}
		st, ok := tn.Type().Underlying().(*types.Struct)
		if !ok {
			continue
		}
		for i := 0; i < st.NumFields(); i++ {
			if st.Field(i) == f {
				nt, _ := tn.Type().(*types.Named)
				return nt
			}
		}
	}
	return nil
}

func c01IsHolderType(t types.Type, hn *types.Named) bool {
	if t == nil || hn == nil {
		return false
	}
	if pt, ok := t.Underlying().(*types.Pointer); ok {
		t = pt.Elem()
	}
	return types.Identical(t, hn)
}

// freshDefault: expression e yields a holder value built here whose cell f holds the default of p.
func (h *c01Holder) freshDefault(p string, f *types.Var, hn *types.Named, fi *FuncInfo, e ast.Expr, resIdx, depth int) bool {
	info := h.info
	e = ast.Unparen(e)
	if ue, ok := e.(*ast.UnaryExpr); ok && ue.Op == token.AND {
		e = ast.Unparen(ue.X)
	}
	switch x := e.(type) {
	case *ast.CompositeLit:
		if !c01IsHolderType(info.TypeOf(x), hn) {
			return false
		}
		st := hn.Underlying().(*types.Struct)
		for i, el := range x.Elts {
			if kv, ok := el.(*ast.KeyValueExpr); ok {
				if id, ok := kv.Key.(*ast.Ident); ok && info.Uses[id] == f {
					return h.isDefault(p, c01StripConv(info, kv.Value)) || h.isDefault(p, kv.Value)
				}
				continue
			}
			if i < st.NumFields() && st.Field(i) == f {
				return h.isDefault(p, c01StripConv(info, el)) || h.isDefault(p, el)
			}
		}
		return h.zeroIsDefault(p)
	case *ast.CallExpr:
		if builtinName(info, x) == "new" && len(x.Args) == 1 {
			return c01IsHolderType(info.TypeOf(x), hn) && h.zeroIsDefault(p)
		}
		if depth > 3 {
			return false
		}
		tf := c01Callee(h.cm.m.pk, x)
		if tf == nil {
			return false
		}
		all, n := true, 0
		ast.Inspect(tf.Decl.Body, func(y ast.Node) bool {
			if _, ok := y.(*ast.FuncLit); ok {
				return false
			}
			ret, ok := y.(*ast.ReturnStmt)
			if !ok {
				return true
			}
			n++
			if resIdx >= len(ret.Results) {
				all = false
				return true
			}
			// an error exit hands back a throw-away value: it never reaches the element decoding
			if len(ret.Results) > 1 && c01IsErrNonNilExpr(info, ret.Results[len(ret.Results)-1], c01FnOf(h.r.P, tf).factsAtPos(ret.Pos())) {
				return true
			}
			if !h.freshDefault(p, f, hn, tf, ret.Results[resIdx], 0, depth+1) {
				all = false
			}
			return true
		})
		return all && n > 0
	case *ast.Ident:
		// a local every whole definition of which is a fresh holder with the default
		o := objOf(info, x)
		if o == nil || depth > 3 {
			return false
		}
		if c01ParamIndex(info, fi, o) >= 0 {
			return false
		}
		ds := c01Defs(info, fi.Decl.Body, o)
		if len(ds) == 0 {
			return false
		}
		for _, d := range ds {
			switch {
			case d.tok == token.VAR && d.rhs == nil:
				if !h.zeroIsDefault(p) {
					return false
				}
			case d.rhs != nil && (d.tok == token.DEFINE || d.tok == token.ASSIGN || d.tok == token.VAR):
				idx := 0
				if d.index >= 0 {
					idx = d.index
				}
				if !h.freshDefault(p, f, hn, fi, d.rhs, idx, depth+1) {
					return false
				}
			default:
				return false
			}
		}
		return true
	}
	return false
}

func (h *c01Holder) cellOf(p string, e ast.Expr) *types.Var {
	sel, ok := ast.Unparen(e).(*ast.SelectorExpr)
	if !ok {
		return nil
	}
	f := fieldOf(h.info, sel)
	for _, c := range h.cells[p] {
		if c == f {
			return c
		}
	}
	return nil
}

func (h *c01Holder) anyCell(e ast.Expr) (string, *types.Var) {
	for p := range h.cells {
		if c := h.cellOf(p, e); c != nil {
			return p, c
		}
	}
	return "", nil
}

// isReset: CFG node n establishes the default of parameter p.
func (h *c01Holder) isReset(p string) c01EventPred {
	info := h.info
	return func(f *c01Fn, n ast.Node) bool {
		whole := func(lt types.Type, rhs ast.Expr, idx int) bool {
			for _, c := range h.cells[p] {
				hn := h.holderOf(c)
				if hn == nil || !c01IsHolderType(lt, hn) {
					continue
				}
				if rhs == nil {
					if _, isPtr := lt.Underlying().(*types.Pointer); !isPtr && h.zeroIsDefault(p) {
						return true
					}
					continue
				}
				if h.freshDefault(p, c, hn, f.fi, rhs, idx, 0) {
					return true
				}
			}
			return false
		}
		switch s := n.(type) {
		case *ast.AssignStmt:
			if s.Tok != token.ASSIGN && s.Tok != token.DEFINE {
				return false
			}
			for i, l := range s.Lhs {
				var rhs ast.Expr
				idx := 0
				switch {
				case len(s.Rhs) == len(s.Lhs):
					rhs = s.Rhs[i]
				case len(s.Rhs) == 1:
					rhs, idx = s.Rhs[0], i
				default:
					continue
				}
				if h.cellOf(p, l) != nil && idx == 0 && len(s.Rhs) == len(s.Lhs) && (h.isDefault(p, rhs) || h.isDefault(p, c01StripConv(info, rhs))) {
					return true
				}
				if lt := info.TypeOf(l); lt != nil && whole(lt, rhs, idx) {
					return true
				}
			}
		case *ast.ValueSpec:
			for i, nm := range s.Names {
				o := info.Defs[nm]
				if o == nil {
					continue
				}
				switch {
				case len(s.Values) == 0:
					if whole(o.Type(), nil, 0) {
						return true
					}
				case len(s.Values) == len(s.Names):
					if whole(o.Type(), s.Values[i], 0) {
						return true
					}
				}
			}
		}
		return false
	}
}

func (h *c01Holder) paramList() []string {
	var ps []string
	for p := range h.cells {
		ps = append(ps, p)
	}
	sort.Strings(ps)
	return ps
}

func (h *c01Holder) describe() string {
	var parts []string
	for _, p := range h.paramList() {
		var fs []string
		for _, c := range h.cells[p] {
			hn := h.holderOf(c)
			if hn != nil {
				fs = append(fs, hn.Obj().Name()+"."+c.Name())
			} else {
				fs = append(fs, c.Name())
			}
		}
		parts = append(parts, fmt.Sprintf("%s in %s", p, strings.Join(fs, "/")))
	}
	return strings.Join(parts, ", ")
}
