package rules

// c16_rules_annot2.go — rule A1, scenario space closed under "several rings per role".
//
// Two outer and two inner rings, each cut into two ways. The computed orientation of every assembled ring is not
// taken from a ground truth here: each question to the oracle is answered both ways, independently per ring (16
// combinations for four rings). Whatever the answer A for a ring, a member whose stored way runs along the chain the
// question was about must end up annotated A, a member whose way runs against it -A. State carried from one ring to
// the next (a correction factor that is not re-initialised per ring) shows up in the combinations where one ring is
// answered "against the requested direction" and a later ring of the same role "with it".

import (
	"fmt"
	"go/types"
	"strings"

	"osmcheck/core"
)

// c16RunIn: +1 when way is a contiguous run of chain, -1 when its reverse is, 0 otherwise.
func c16RunIn(chain, way []string) int64 {
	find := func(w []string) bool {
		for i := 0; i+len(w) <= len(chain); i++ {
			if c16SameToks(chain[i:i+len(w)], w) {
				return true
			}
		}
		return false
	}
	switch {
	case len(way) < 2:
		return 0
	case find(way):
		return 1
	case find(c16Rev(way)):
		return -1
	}
	return 0
}

// annotArgs builds the arguments of the annotate entry by parameter type.
func (e *c16Env) annotArgs(m *c16M, sig *types.Signature, mv c16Val, wl []c16Way) []c16Val {
	var args []c16Val
	for i := 0; i < sig.Params().Len(); i++ {
		t := sig.Params().At(i).Type()
		_, isMap := t.Underlying().(*types.Map)
		switch {
		case namedPath(t) == core.ModulePath+".Members":
			args = append(args, mv)
		case isMap:
			args = append(args, e.wayMap(m, t, wl, true))
		default:
			args = append(args, c16Zero(t))
		}
	}
	return args
}

// c16A1Rings adds the obligations over several rings per role to rule A1.
func c16A1Rings(e *c16Env, fi *FuncInfo, sig *types.Signature) {
	r := e.r
	rings := [][]string{{"a", "b", "c", "d"}, {"g", "h", "i", "j"}, {"p", "q", "r", "s"}, {"t", "u", "v", "w"}}
	g, pieces := c16Build(rings, []int{2, 2, 2, 2}, map[int]bool{2: true, 3: true}, map[int]int{2: 0, 3: 1})
	for _, pat := range []struct {
		name      string
		annotated bool
	}{
		{"annotate[two rings per role, every answer of the orientation oracle, members not annotated]", false},
		{"annotate[two rings per role, every answer of the orientation oracle, members annotated]", true},
	} {
		runs, paths, done := 0, 0, false
		for _, rel := range c16Rels(g, pieces, pat.annotated, false, c16AllOnNodes) {
			if done {
				break
			}
			ways := map[int64]c16Way{}
			for _, w := range rel.ways {
				ways[w.id] = w
			}
			text := fi.Name() + "(" + c16MemsText(rel.mems, ways) + ")"
			var log []c16Ask
			var after c16Val
			outs, complete := c16Explore(r.P, e.orientHooks(c16EitherWay, &log), func(m *c16M) c16Val {
				log = nil
				mv := e.membersValue(rel.mems)
				after = mv
				m.callFunc(fi, nil, e.annotArgs(m, sig, mv, rel.ways)...)
				got, ok := c16ReadMembers(after)
				if !ok {
					m.abort("the member annotations are not concrete afterwards")
				}
				return c16AnnotRun{got: got, asks: log}
			})
			if !complete {
				r.Unknown(pat.name, fi.Decl.Pos(), "%s: more than %d paths", text, len(outs))
				break
			}
			for _, out := range outs {
				val, v := c16Settle(out)
				if !v.ok() {
					if v.undecided != "" {
						r.Unknown(pat.name, fi.Decl.Pos(), "%s could not be evaluated: %s", text, v.undecided)
					} else {
						r.Bad(pat.name, fi.Decl.Pos(), "%s: %s", text, v.bad)
					}
					done = true
					break
				}
				if why := c16CheckAnnotRun(rel, ways, val.(c16AnnotRun)); why != "" {
					r.Bad(pat.name, fi.Decl.Pos(), "%s, oracle %s: %s. Each ring must be judged on its own: nothing computed for one ring may leak into the annotation of the next", text, c16AsksText(val.(c16AnnotRun).asks), why)
					done = true
					break
				}
				paths++
			}
			runs++
		}
		if !done {
			r.Stat("annotate paths", paths)
			r.OK(pat.name, fi.Decl.Pos(), "%d member lists (orders x reversed ways) of two outer and two inner rings x every combination of oracle answers (%d paths): every way member is annotated with the answer for its own ring, negated when its stored way runs against the assembled chain", runs, paths)
		}
	}
}

type c16AnnotRun struct {
	got  []int64
	asks []c16Ask
}

func c16AsksText(asks []c16Ask) string {
	var parts []string
	for _, a := range asks {
		parts = append(parts, strings.Join(a.chain, "")+"="+c16Dir(a.answer))
	}
	return strings.Join(parts, " ")
}

// c16CheckAnnotRun compares the annotations of one path with the oracle's answers of that path.
func c16CheckAnnotRun(rel c16Rel, ways map[int64]c16Way, run c16AnnotRun) string {
	for i, mm := range rel.mems {
		w := ways[mm.ref]
		want, found := int64(0), false
		for _, a := range run.asks {
			d := c16RunIn(a.chain, w.toks)
			if d == 0 {
				continue
			}
			if found && want != d*a.answer {
				return "" // the oracle contradicted itself about this ring on this path: nothing to conclude
			}
			want, found = d*a.answer, true
		}
		if !found {
			return fmt.Sprintf("member %d is the way %v, but the orientation of the ring it belongs to was never computed", i, w.toks)
		}
		if run.got[i] != want {
			return fmt.Sprintf("member %d is the way %v and is annotated %s, want %s (the answer for its ring, negated when the way runs against the chain asked about)", i, w.toks, c16Dir(run.got[i]), c16Dir(want))
		}
	}
	return ""
}
