package rules

import (
	"fmt"
	"go/ast"
	"go/token"
	"go/types"
	"reflect"
	"strings"

	"golang.org/x/tools/go/cfg"

	"osmcheck/core"
)

// ---------------------------------------------------------------- E6

func c06E6(r *core.R) {
	m := c01PBFModel(r)
	if m == nil {
		return
	}
	info := m.info
	// scope: declared functions reachable from the goroutine roles (worker, reader) and header decoding (consumer via spawner)
	n := 0
	for _, u := range m.sortedUnits() {
		fd, ok := u.node.(*ast.FuncDecl)
		if !ok || isGenerated(r.P, fd.Pos()) {
			continue
		}
		if !(u.roles["worker"] || u.roles["reader"] || u.roles["serializer"] || m.reachedFromSpawner(u)) {
			continue
		}
		fi := u.fi
		var g *cfg.CFG
		var dom map[*cfg.Block]map[*cfg.Block]bool
		lazy := func() {
			if g == nil {
				g = newCFG(info, fd.Body)
				dom = dominators(g)
			}
		}
		par := parentsOf(r.P, fi)
		ast.Inspect(fd.Body, func(x ast.Node) bool {
			switch e := x.(type) {
			case *ast.IndexExpr:
				t := info.TypeOf(e.X)
				if t == nil {
					return true
				}
				switch t.Underlying().(type) {
				case *types.Slice, *types.Basic, *types.Array, *types.Pointer:
				default:
					return true // maps, generics
				}
				if tv, ok := info.Types[e.X]; ok && tv.IsType() {
					return true
				}
				// the pipeline's channel slices are indexed round-robin by the goroutines themselves, never by
				// values read from the input: that indexing belongs to C02.Q1
				if sl, ok := t.Underlying().(*types.Slice); ok {
					if _, isChan := sl.Elem().Underlying().(*types.Chan); isChan {
						return true
					}
				}
				n++
				lazy()
				c := "index@" + fi.Name() + " " + src(r.P.Fset, e)
				if ok, why := c06IndexProof(r, info, fi, g, dom, par, e); ok {
					r.OK(c, e.Pos(), "%s", why)
				} else {
					r.Bad(c, e.Pos(), "%s: an out-of-range reference in a damaged block makes this goroutine panic, which kills the calling process", why)
				}
			case *ast.SliceExpr:
				// the pipeline's channel slices belong to C02.Q1 (see the index case above)
				if sl, ok := info.TypeOf(e.X).Underlying().(*types.Slice); ok {
					if _, isChan := sl.Elem().Underlying().(*types.Chan); isChan {
						return true
					}
				}
				// slices of the scratch buffers (known constant capacity) are decided by E3
				if caps := c06BufferCaps(r, m); caps.key(e.X) != nil {
					if _, isBuf := caps.capOf[caps.key(e.X)]; isBuf {
						return true
					}
				}
				n++
				c := "slice@" + fi.Name() + " " + src(r.P.Fset, e)
				hi0 := e.High != nil
				if hi0 {
					v, okc := constInt(info, e.High)
					hi0 = okc && v == 0
				}
				if e.Low == nil && hi0 && e.Max == nil {
					r.OKTrivial(c, e.Pos(), "x[:0] is always in range")
				} else if ok, why := c06SliceProof(r, info, fi, e); ok {
					r.OK(c, e.Pos(), "%s", why)
				} else {
					r.Bad(c, e.Pos(), "slice expression without a bounds proof: %s: bounds taken from a damaged block make this goroutine panic, which kills the calling process", why)
				}
			case *ast.StarExpr:
				// explicit dereference of a message field (directly or through a local it was read into)
				xe := c01Expand(info, fd.Body, e.X)
				f := fieldOf(info, xe)
				if f == nil || !strings.HasSuffix(r.P.Fset.Position(f.Pos()).Filename, ".pb.go") {
					return true
				}
				if _, isPtr := f.Type().(*types.Pointer); !isPtr {
					return true
				}
				n++
				c := "deref@" + fi.Name() + " " + src(r.P.Fset, e)
				fn := c01FnOf(r.P, fi).innermost(e)
				if tag := fieldTag(f); strings.Contains(tag, ",req,") {
					// the containing message must itself be known non-nil
					parent := ast.Unparen(xe).(*ast.SelectorExpr).X
					if ok, why := c06KnownNonNil(r.P, fn, parent, e.Pos(), 0); ok {
						r.OK(c, e.Pos(), "field %s is `required` in the descriptor (proto.Unmarshal rejects messages without it); enclosing message: %s", f.Name(), why)
					} else {
						r.Bad(c+" parent", e.Pos(), "the message holding the required field %s is itself optional and not nil-tested on every path to this dereference (%s): a header without it crashes the process", f.Name(), why)
					}
				} else if ok, why := c06KnownNonNil(r.P, fn, e.X, e.Pos(), 0); ok {
					r.OK(c, e.Pos(), "optional field: %s", why)
				} else {
					r.Bad(c, e.Pos(), "optional field %s is dereferenced without a nil test on every path (%s): a header without it crashes the process", f.Name(), why)
				}
			}
			return true
		})
	}
	r.Stat("index_slice_deref_sites", n)
}

// reachedFromSpawner: unit is called (transitively) from the spawner's own body.
func (m *pbfModel) reachedFromSpawner(u *unit) bool {
	su := m.units[m.start.Decl]
	if u == su {
		return true
	}
	return m.unitReaches(su, func(x *unit) bool { return x == u })
}

func fieldTag(f *types.Var) string {
	// find the struct that declares f
	if f.Pkg() == nil {
		return ""
	}
	sc := f.Pkg().Scope()
	for _, n := range sc.Names() {
		tn, ok := sc.Lookup(n).(*types.TypeName)
		if !ok {
			continue
		}
		st, ok := tn.Type().Underlying().(*types.Struct)
		if !ok {
			continue
		}
		for i := 0; i < st.NumFields(); i++ {
			if st.Field(i) == f {
				return reflect.StructTag(st.Tag(i)).Get("protobuf") + ","
			}
		}
	}
	return ""
}

// c06NilGuard: do the branch conditions controlling the use establish `target != nil` (whatever their surface form)?
func c06NilGuard(info *types.Info, g *cfg.CFG, dom map[*cfg.Block]map[*cfg.Block]bool, use ast.Node, target ast.Expr) string {
	ub, _ := blockOf(g, use.Pos())
	if ub == nil {
		return "use not found"
	}
	if f := knownNonNil(factsAt(info, g, dom, ub), func(e ast.Expr) bool { return sameChain(info, e, target) }); f != nil {
		return "guarded by `" + types.ExprString(f.expr) + "` being " + fmt.Sprint(f.val)
	}
	return "unguarded"
}

// c06IndexProof looks for a proof from the idiom list that e.Index is within e.X.
func c06IndexProof(r *core.R, info *types.Info, fi *FuncInfo, g *cfg.CFG, dom map[*cfg.Block]map[*cfg.Block]bool, par map[ast.Node]ast.Node, e *ast.IndexExpr) (bool, string) {
	// (a) constant index into a fixed-size array
	if at, ok := info.TypeOf(e.X).Underlying().(*types.Array); ok {
		if v, okc := constInt(info, e.Index); okc && v >= 0 && v < at.Len() {
			return true, "constant index into a fixed-length array"
		}
	}
	idxObj := objOf(info, e.Index)
	// (b) range key over the same value
	for p := par[e]; p != nil; p = par[p] {
		if rs, ok := p.(*ast.RangeStmt); ok && rs.Key != nil && idxObj != nil && objOf(info, rs.Key) == idxObj && c01Same(info, fi.Decl.Body, rs.X, e.X) {
			return true, "index is the key of `range " + src(r.P.Fset, rs.X) + "`"
		}
		// the key of a range over a fixed-length array indexes another array that is at least as long
		if rs, ok := p.(*ast.RangeStmt); ok && rs.Key != nil && idxObj != nil && objOf(info, rs.Key) == idxObj {
			rt := info.TypeOf(rs.X)
			if pt, isPtr := rt.Underlying().(*types.Pointer); isPtr {
				rt = pt.Elem()
			}
			ra, okr := rt.Underlying().(*types.Array)
			ea, oke := info.TypeOf(e.X).Underlying().(*types.Array)
			if okr && oke && ra.Len() <= ea.Len() && c06CountAssigns(info, rs.Body, idxObj, rs.Body.Pos(), rs.Body.End()) == 0 {
				return true, fmt.Sprintf("index is the key of `range %s` (%d elements), the indexed array has %d", src(r.P.Fset, rs.X), ra.Len(), ea.Len())
			}
		}
	}
	ub, _ := blockOf(g, e.Pos())
	if ub == nil {
		return false, "use not located in the control-flow graph"
	}
	// (c)+(d) the branch conditions controlling the use establish index < len(x) (loop condition, guard with an
	// error exit, inverted or merged guards alike) and the index cannot be negative
	facts := factsAt(info, g, dom, ub)
	facts = append(facts, c06ShortCircuitFacts(par, e)...)
	isIdx := func(x ast.Expr) bool {
		return c06SameValue(info, fi.Decl.Body, x, fi.Decl.Body, e.Index)
	}
	isLen := func(x ast.Expr) bool {
		la := c06LenArg(info, c01StripConv(info, c01Expand(info, fi.Decl.Body, c01StripConv(info, x))))
		return la != nil && c01Same(info, fi.Decl.Body, la, e.X)
	}
	nonNeg := false
	if bt, ok := info.TypeOf(e.Index).Underlying().(*types.Basic); ok && bt.Info()&types.IsUnsigned != 0 {
		nonNeg = true
	}
	if idxObj != nil && (c06IsCounter(info, fi, idxObj) || c06OnlyGrows(info, fi, idxObj)) {
		nonNeg = true
	}
	if !nonNeg {
		bd := &c06Bound{}
		c06BoundsFromFacts(r.P.Fset, info, facts, isIdx, bd, fi.Name())
		nonNeg = bd.nonNeg
	}
	// a local slice made once with a constant length (and never re-sliced, appended to or reassigned): like an array
	if xo := objOf(info, e.X); xo != nil {
		if ds := c01Defs(info, fi.Decl.Body, xo); len(ds) == 1 && ds[0].rhs != nil && ds[0].index < 0 {
			if mk, ok := ast.Unparen(ds[0].rhs).(*ast.CallExpr); ok && builtinName(info, mk) == "make" && len(mk.Args) == 2 {
				if ln, okc := constInt(info, mk.Args[1]); okc {
					bd := &c06Bound{nonNeg: nonNeg}
					if cv, isConst := constInt(info, e.Index); isConst {
						bd.setUpper(cv, "constant index")
						bd.nonNeg = cv >= 0
					} else {
						c06BoundsFromFacts(r.P.Fset, info, facts, isIdx, bd, fi.Name())
					}
					if bd.hasUpper && bd.upper <= ln-1 && bd.nonNeg {
						return true, fmt.Sprintf("index <= %d into `%s`, made once with %d elements", bd.upper, src(r.P.Fset, ds[0].rhs), ln)
					}
				}
			}
		}
	}
	// a fixed-length array (a lookup table): constant bounds of the index against the array length
	if at, ok := info.TypeOf(e.X).Underlying().(*types.Array); ok {
		bd := &c06Bound{nonNeg: nonNeg}
		c06BoundsFromFacts(r.P.Fset, info, facts, isIdx, bd, fi.Name())
		if bd.hasUpper && bd.upper <= at.Len()-1 && bd.nonNeg {
			// the index is not reassigned between the earliest guard that speaks about it and the use
			from := e.Pos()
			for _, ft := range facts {
				if idxObj != nil && usesObj(info, ft.expr, idxObj) && ft.expr.Pos() < from && ft.expr.Pos().IsValid() {
					from = ft.expr.Pos()
				}
			}
			if idxObj == nil || c06CountAssigns(info, fi.Decl.Body, idxObj, from, e.Pos()) == 0 {
				return true, fmt.Sprintf("0 <= %s <= %d on every path to the use, within the array's %d elements (%s)", src(r.P.Fset, e.Index), bd.upper, at.Len(), strings.Join(bd.proof, "; "))
			}
		}
	}
	// a constant index under a guard on the length (`len(x) == 0` excluded, `len(x) > 2` established ...)
	if cv, isConst := constInt(info, e.Index); isConst && cv >= 0 {
		if ft := c06LenAtLeast(info, fi.Decl.Body, facts, e.X, cv+1); ft != nil {
			if ro := c01RootObj(info, e.X); ro == nil || c06CountAssigns(info, fi.Decl.Body, ro, ft.expr.End(), e.Pos()) == 0 {
				return true, fmt.Sprintf("constant index %d, and the use is only reached when `%s` is %v", cv, src(r.P.Fset, ft.expr), ft.val)
			}
		}
	}
	var upper *guardFact
	for i := range facts {
		ft := &facts[i]
		l, op, rr, ok := cmpNorm(ft.expr)
		if !ok {
			continue
		}
		l, rr = c01StripConv(info, l), c01StripConv(info, rr)
		switch {
		case op == token.LSS && ft.val && isIdx(l) && isLen(rr):
			upper = ft // i < len(x)
		case op == token.LEQ && !ft.val && isIdx(rr) && isLen(l):
			upper = ft // not (len(x) <= i)
		}
	}
	if upper != nil {
		if !nonNeg {
			return false, "`" + src(r.P.Fset, upper.expr) + "` bounds the index above, but the index is signed and can be negative (no `< 0` test, not a counter)"
		}
		clean := true
		if idxObj != nil && c06CountAssigns(info, fi.Decl.Body, idxObj, upper.expr.End(), e.Pos()) > 0 {
			clean = false
		}
		if ro := c01RootObj(info, e.X); ro != nil && c06CountAssigns(info, fi.Decl.Body, ro, upper.expr.End(), e.Pos()) > 0 {
			clean = false
		}
		if clean {
			return true, fmt.Sprintf("the use is only reached when `%s` is %v (and the index is not negative)", src(r.P.Fset, upper.expr), upper.val)
		}
	}
	// (e) counter into a buffer sized by Count of the iterator that is read once per increment
	if idxObj != nil {
		if ok, why := c06CountAxiom(r, info, fi, e, idxObj); ok {
			return true, why
		}
	}
	return false, "`" + src(r.P.Fset, e) + "` has no bounds proof (no constant/range/loop-counter form, no dominating `" + src(r.P.Fset, e.Index) + " >= len(" + src(r.P.Fset, e.X) + ")` guard with an error exit, not a counter into a buffer sized by Count of the iterator driving the loop)"
}

// c06LenArg returns x for `len(x)`.
func c06LenArg(info *types.Info, e ast.Expr) ast.Expr {
	call, ok := ast.Unparen(e).(*ast.CallExpr)
	if !ok || builtinName(info, call) != "len" || len(call.Args) != 1 {
		return nil
	}
	return call.Args[0]
}

// c06CountAssigns counts assignments to variable obj between two positions.
func c06CountAssigns(info *types.Info, body ast.Node, obj types.Object, from, to token.Pos) int {
	n := 0
	ast.Inspect(body, func(x ast.Node) bool {
		as, ok := x.(*ast.AssignStmt)
		if !ok || as.Pos() < from || as.Pos() > to {
			return true
		}
		for _, l := range as.Lhs {
			if id, ok := ast.Unparen(l).(*ast.Ident); ok && objOf(info, id) == obj {
				n++
			}
		}
		return true
	})
	return n
}

// c06OnlyGrows: every definition of the variable is a non-negative start value (a constant, or the byte offset
// `Index` a library maintains) and it is otherwise only incremented.
func c06OnlyGrows(info *types.Info, fi *FuncInfo, o types.Object) bool {
	ds := c01Defs(info, fi.Decl.Body, o)
	if len(ds) == 0 {
		return false
	}
	for _, d := range ds {
		switch d.tok {
		case token.INC:
			continue
		case token.DEFINE, token.ASSIGN:
			if d.rhs == nil || d.index >= 0 {
				return false
			}
			if v, okc := constInt(info, d.rhs); okc && v >= 0 {
				continue
			}
			if f := fieldOf(info, d.rhs); f != nil && f.Name() == "Index" {
				continue
			}
			return false
		case token.VAR:
			continue
		default:
			return false
		}
	}
	return true
}

func stripConv(info *types.Info, e ast.Expr) ast.Expr {
	e = ast.Unparen(e)
	if call, ok := e.(*ast.CallExpr); ok && len(call.Args) == 1 {
		if tv, ok := info.Types[call.Fun]; ok && tv.IsType() {
			if bt, ok := tv.Type.Underlying().(*types.Basic); ok && bt.Info()&types.IsInteger != 0 {
				return stripConv(info, call.Args[0])
			}
		}
	}
	return e
}

func c06NonNegInit(info *types.Info, init ast.Stmt) bool {
	as, ok := init.(*ast.AssignStmt)
	if !ok || len(as.Rhs) != 1 {
		return false
	}
	if v, okc := constInt(info, as.Rhs[0]); okc {
		return v >= 0
	}
	// i := x.Index where Index is a byte offset maintained by the library (non-negative int): accept selector of int field `Index`
	if f := fieldOf(info, as.Rhs[0]); f != nil && f.Name() == "Index" {
		return true
	}
	return false
}

// c06IsCounter: variable is declared zero (var / := 0) and only ever modified by `++`.
func c06IsCounter(info *types.Info, fi *FuncInfo, o types.Object) bool {
	okDecl := false
	bad := false
	ast.Inspect(fi.Decl.Body, func(n ast.Node) bool {
		switch s := n.(type) {
		case *ast.ValueSpec:
			for i, nm := range s.Names {
				if info.Defs[nm] == o {
					if len(s.Values) == 0 {
						okDecl = true
					} else if v, okc := constInt(info, s.Values[i]); okc && v == 0 {
						okDecl = true
					}
				}
			}
		case *ast.AssignStmt:
			for i, l := range s.Lhs {
				if id, ok := l.(*ast.Ident); ok && (info.Defs[id] == o || info.Uses[id] == o) {
					if s.Tok == token.DEFINE && i < len(s.Rhs) {
						if v, okc := constInt(info, s.Rhs[i]); okc && v == 0 {
							okDecl = true
							continue
						}
					}
					bad = true
				}
			}
		case *ast.IncDecStmt:
			if objOf(info, s.X) == o && s.Tok != token.INC {
				bad = true
			}
		case *ast.UnaryExpr:
			if s.Op == token.AND && objOf(info, s.X) == o {
				bad = true
			}
		}
		return true
	})
	return okDecl && !bad
}

// ---------------------------------------------------------------- E7

func c06E7(r *core.R) {
	m := c01PBFModel(r)
	if m == nil {
		return
	}
	info := m.info
	for _, u := range m.sortedUnits() {
		if !(u.roles["worker"] || u.roles["reader"] || u.roles["serializer"]) {
			continue
		}
		if fd, ok := u.node.(*ast.FuncDecl); ok && isGenerated(r.P, fd.Pos()) {
			continue
		}
		c := "unit@" + u.name
		bad := ""
		var bpos token.Pos
		m.walkUnit(u, func(n ast.Node) bool {
			switch x := n.(type) {
			case *ast.CallExpr:
				if builtinName(info, x) == "panic" {
					bad, bpos = "calls panic: `"+src(r.P.Fset, x)+"`", x.Pos()
				}
			case *ast.TypeAssertExpr:
				if x.Type == nil {
					return true // type switch
				}
				par := parentsOf(r.P, u.fi)
				commaOK := false
				if as, ok := par[x].(*ast.AssignStmt); ok && len(as.Lhs) == 2 {
					commaOK = true
				}
				if vs, ok := par[x].(*ast.ValueSpec); ok && len(vs.Names) == 2 {
					commaOK = true
				}
				if !commaOK {
					bad, bpos = "has a type assertion without ok: `"+src(r.P.Fset, x)+"`", x.Pos()
				}
			}
			return true
		})
		if bad != "" {
			r.Bad(c, bpos, "%s %s, reachable in role(s) %v: input that reaches it crashes the calling process instead of ending the scan with an error", u.name, bad, rolesOf(u))
		} else {
			r.OKTrivial(c, u.node.Pos(), "no panic call and no unchecked type assertion (roles %v)", rolesOf(u))
		}
	}
}
