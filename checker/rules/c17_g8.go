package rules

import (
	"go/ast"
	"go/types"
	"strings"

	"golang.org/x/tools/go/cfg"

	"osmcheck/core"
)

// G8: "a point for every located node that is NOT PART OF A WAY …" — the set of node ids the node pass consults for
// "is part of a way" holds every node of every way of the input before it is read.
//
// Role: the way-node set is the context field that is a set of osm.NodeID (map[osm.NodeID]struct{}, map[osm.NodeID]bool
// or a slice of osm.NodeID). Decided on the CFG, bottom-up (c17_g8_fill.go, c17_g8_all.go):
//
//	fill@<func> <set>      every insertion into the set records the way node of the current iteration of a range over a
//	                       way's nodes, on every path through the iteration, and the range is never left early (or it
//	                       is a helper recording its parameter on every path); no condition on coordinates, on the node
//	                       element, on tags;
//	coverage@Convert       some statement of Convert is a complete pass: a range over the Ways of the input every
//	                       iteration of which records all nodes of its way (in place, in a per-way helper, or in a
//	                       method holding the whole pass). A pass that leaves out exactly the ways found in the
//	                       skippable set counts if every store into the skippable set is covered by a record of that
//	                       same way's nodes (c17_g8_skip.go);
//	read-after-fill@Convert <reader>  every read of the set is dominated, in Convert, by the end of a complete pass.
func c17G8(r *core.R) {
	o := c17LoadOptions(r)
	if o == nil {
		return
	}
	root := findFunc(o.pk, "Convert")
	if root == nil {
		r.Anchor("osmgeojson.Convert")
		return
	}
	a := c17NewPkg(r.P, o.pk)
	g := &c17G8An{r: r, o: o, a: a, conv: a.fns[root.Obj], memo: map[string]int{}, allMemo: map[*c17Fn]*c17G8Pass{}}
	g.g5 = &c17G5An{r: r, o: o, a: a}
	// the way-node set by type
	var fields []*types.Var
	for f := range o.all {
		fields = append(fields, f)
	}
	for i := range fields {
		for j := i + 1; j < len(fields); j++ {
			if fields[j].Pos() < fields[i].Pos() {
				fields[i], fields[j] = fields[j], fields[i]
			}
		}
	}
	for _, f := range fields {
		switch t := f.Type().Underlying().(type) {
		case *types.Map:
			if namedPath(t.Key()) != c17NodeIDPath {
				continue
			}
			if s, ok := t.Elem().Underlying().(*types.Struct); (ok && s.NumFields() == 0) || c17IsBool(t.Elem()) {
				g.set = f
			}
		case *types.Slice:
			if namedPath(t.Elem()) == c17NodeIDPath {
				if _, isPtr := t.Elem().(*types.Pointer); !isPtr {
					g.set = f
				}
			}
		}
		if g.set != nil {
			break
		}
	}
	if g.set == nil {
		r.Anchor("context field holding the set of node ids that are part of a way (map[osm.NodeID]struct{} / map[osm.NodeID]bool / []osm.NodeID)")
		return
	}
	info, fset := a.info, a.fset
	name := g.set.Name()

	// complete passes in Convert
	var complete []c17G8Pass
	var short []string
	for _, p := range g.passes(g.conv) {
		if p.why != "" {
			short = append(short, "the loop at "+r.P.Rel(p.node.Pos())+" is not a complete pass: "+p.why)
			continue
		}
		if p.partial {
			if why := g.skipStoresCovered(); why != "" {
				short = append(short, "the pass at "+r.P.Rel(p.node.Pos())+" leaves out the ways of the skippable set, and a way is made skippable at "+why)
				continue
			}
		}
		complete = append(complete, p)
	}
	// loops over ways in helpers that fall short (diagnostics only)
	if len(complete) == 0 {
		for _, fn := range a.list {
			if fn == g.conv {
				continue
			}
			for _, p := range g.passes(fn) {
				if p.why != "" {
					short = append(short, "the loop at "+r.P.Rel(p.node.Pos())+" is not a complete pass: "+p.why)
				}
			}
		}
	}

	// fill@: every insertion site
	nIns := 0
	for _, fn := range a.list {
		fn := fn
		ast.Inspect(fn.Decl.Body, func(n ast.Node) bool {
			k := g.insertion(n)
			if k == nil {
				return true
			}
			nIns++
			c := "fill@" + fn.Name() + " " + name
			why := ""
			switch loop := g.innermostLoop(fn, n).(type) {
			case *ast.RangeStmt:
				switch {
				case namedPath(info.TypeOf(loop.X)) != c17WayNodesPath:
					why = "it sits in a loop over `" + src(fset, loop.X) + "`, not over the nodes of a way"
				case !g.currentNode(fn, k, loop):
					why = "the key `" + src(fset, k) + "` is not the id of the way node of the current iteration"
				default:
					why = fn.everyIteration(loop, fn.blockSet(n), nil)
				}
			case nil:
				id, _ := g.nodeOf(fn, k).(*ast.Ident)
				p, _ := objOf(info, id).(*types.Var)
				if id == nil || p == nil || !fn.isParam(p) || !g.insertsNode(fn, p) {
					why = "it is neither inside a range over the nodes of a way nor a helper recording its parameter on every path"
				}
			default:
				why = "it sits in a loop that is not a range over the nodes of a way"
			}
			switch {
			case why == "":
				r.OK(c, n.Pos(), "`%s` records the way node of every iteration (no path through the iteration goes around it, the loop is never left early)", src(fset, n))
			case len(complete) > 0:
				r.OKTrivial(c, n.Pos(), "`%s` is not executed for every way node (%s), but the set is filled completely elsewhere (%s)", src(fset, n), why, r.P.Rel(complete[0].node.Pos()))
			default:
				r.Bad(c, n.Pos(), "`%s`: %s; nodes that are part of a way but are not recorded come out as point features of their own", src(fset, n), why)
			}
			return true
		})
	}
	if nIns == 0 {
		r.Anchor("insertions into the way-node set " + name)
		return
	}

	// coverage@Convert
	cc := "coverage@Convert"
	if len(complete) == 0 {
		if len(short) == 0 {
			short = []string{"no statement of Convert is, or calls, a range over the Ways of the input that records all nodes of each way"}
		}
		r.Bad(cc, root.Decl.Pos(), "the set %s is not filled for every node of every way of the input: %s; an uninteresting node of a way that is left out becomes a point feature", name, strings.Join(short, "; "))
	} else {
		p := complete[0]
		how := "a range over the Ways of the input (or a function that runs one on every path) every iteration of which records all nodes of its way"
		if p.partial {
			how += "; the iterations it skips are exactly the ways found in the skippable set, and every store into that set is covered by a record of the same way's nodes"
		}
		r.OK(cc, p.node.Pos(), "`%s` is a complete pass: %s", src(fset, p.node), how)
	}

	// read-after-fill@Convert
	g.readers(complete)
}

// rootAnchors maps a place of fn to the statements of Convert it runs in.
func (g *c17G8An) rootAnchors(fn *c17Fn, n ast.Node, depth int, seen map[*c17Fn]bool) []ast.Node {
	if fn == g.conv {
		return []ast.Node{n}
	}
	if depth == 0 || seen[fn] {
		return nil
	}
	seen[fn] = true
	var out []ast.Node
	for _, cs := range g.a.calls[fn.Obj] {
		out = append(out, g.rootAnchors(cs.fn, cs.call, depth-1, seen)...)
	}
	return out
}

func (g *c17G8An) readers(complete []c17G8Pass) {
	r, a, fset := g.r, g.a, g.a.fset
	conv := g.conv
	cfgOf := conv.graph()
	endOf := func(n ast.Node) *cfg.Block {
		if rs, ok := n.(*ast.RangeStmt); ok {
			_, _, done := conv.loopBlocks(rs)
			return done
		}
		return conv.blockAt(n.Pos())
	}
	_ = cfgOf
	n := 0
	for _, rd := range c17FieldReads(r.P, g.o.pk, g.set) {
		fn := a.fns[rd.fi.Obj]
		par := fn.parents()
		// mentions inside an insertion (`set = append(set, id)`) are part of the fill
		if as, ok := enclosing(par, rd.expr, func(x ast.Node) bool { _, ok := x.(*ast.AssignStmt); return ok }).(*ast.AssignStmt); ok && g.insertion(as) != nil {
			continue
		}
		n++
		c := "read-after-fill@Convert " + fn.Name() + " " + src(fset, par[rd.expr])
		anchors := g.rootAnchors(fn, rd.expr, 4, map[*c17Fn]bool{})
		if len(anchors) == 0 {
			r.OKTrivial(c, rd.expr.Pos(), "the read is not reached from Convert through static calls")
			continue
		}
		bad := ""
		for _, an := range anchors {
			ok := false
			sb := conv.blockAt(an.Pos())
			for _, p := range complete {
				if an.Pos() >= p.node.Pos() && an.End() <= p.node.End() {
					ok = true // inside the pass itself
					break
				}
				eb := endOf(p.node)
				if eb == nil || sb == nil {
					continue
				}
				if (eb == sb && p.node.End() <= an.Pos()) || (eb != sb && conv.dom[sb][eb]) {
					ok = true
					break
				}
			}
			if !ok {
				bad = src(fset, an)
			}
		}
		switch {
		case len(complete) == 0:
			r.Bad(c, rd.expr.Pos(), "`%s` reads the set %s, which is not filled by a complete pass (see coverage@Convert)", src(fset, par[rd.expr]), g.set.Name())
		case bad != "":
			r.Bad(c, rd.expr.Pos(), "`%s` reads the set %s in `%s` of Convert, which is not dominated by the end of the pass that fills it: nodes of ways recorded later are taken for stand-alone nodes", src(fset, par[rd.expr]), g.set.Name(), bad)
		default:
			r.OK(c, rd.expr.Pos(), "the end of the complete pass dominates, in Convert, every statement through which `%s` is reached", src(fset, par[rd.expr]))
		}
	}
	if n == 0 {
		r.Bad("read-after-fill@Convert", conv.Decl.Pos(), "the set %s is never read: the \"not part of a way\" clause is not consulted", g.set.Name())
	}
}
