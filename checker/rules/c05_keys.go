package rules

import (
	"encoding/json"
	"fmt"
	"go/types"

	"osmcheck/core"
)

type c05KeyTable struct {
	Types []struct {
		Go   string `json:"go"`
		Doc  string `json:"doc"`
		Keys []struct {
			Key   string `json:"key"`
			Field string `json:"field"`
		} `json:"keys"`
	} `json:"types"`
}

func c05Keys(r *core.R) {
	b, err := c03ReadTable("osmjson.json")
	var tbl c05KeyTable
	if err == nil {
		err = json.Unmarshal(b, &tbl)
	}
	if err != nil || len(tbl.Types) == 0 {
		r.Anchor(fmt.Sprintf("tables/osmjson.json: %v", err))
		return
	}
	pk := c03OsmPkg(r.P)
	var fl *c05Flattening
	for _, tt := range tbl.Types {
		nt, _ := structType(pk, tt.Go)
		if nt == nil {
			r.Anchor("type osm." + tt.Go + " (named in tables/osmjson.json)")
			continue
		}
		var target types.Type = nt
		if tt.Go == "OSM" {
			// the document object is the shim OSM.MarshalJSON marshals
			if fl == nil {
				fl = c05FindFlattening(r)
			}
			if fl == nil {
				continue
			}
			target = fl.shimT
		}
		for _, k := range tt.Keys {
			c := "key@" + tt.Go + " " + k.Key
			jf := c03JSONKey(target, k.Key)
			if jf == nil {
				r.Bad(c, nt.Obj().Pos(), "osmjson key %q of %s (%s) is not written: no field carries that JSON key", k.Key, tt.Go, tt.Doc)
				continue
			}
			if tt.Go == "OSM" {
				if k.Field == "*" {
					r.OK(c, jf.Var.Pos(), "document key %q carries the flattened element list", k.Key)
					continue
				}
				from := ""
				if f := fl.top[jf.Var]; f != nil {
					from = f.Name()
				}
				if from == k.Field {
					r.OK(c, jf.Var.Pos(), "document key %q is written from OSM.%s", k.Key, from)
				} else {
					r.Bad(c, jf.Var.Pos(), "document key %q is written from `%s`, osmjson puts OSM.%s there", k.Key, fl.topVal[jf.Var], k.Field)
				}
				continue
			}
			if jf.Var.Name() != k.Field {
				r.Bad(c, jf.Var.Pos(), "osmjson key %q of %s is carried by %s.%s; its documented meaning belongs to %s.%s", k.Key, tt.Go, tt.Go, jf.Var.Name(), tt.Go, k.Field)
				continue
			}
			r.OK(c, jf.Var.Pos(), "key %q <- %s.%s", k.Key, tt.Go, k.Field)
		}
	}
}
