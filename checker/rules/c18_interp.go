package rules

import (
	"fmt"
	"go/ast"
	"go/token"
	"go/types"
	"sort"
	"strings"

	"golang.org/x/tools/go/cfg"
	"golang.org/x/tools/go/packages"

	"osmcheck/core"
)

// Finite-domain evaluation of a classification function (C18.L2/L3/L4).
//
// The function under test is *executed* over its control-flow graph on one representative input at a
// time. The interpreter keeps a real environment (variable object -> value), follows static calls into
// every function of the package that has a body (extracted helpers, methods on the rule struct, function
// literals), binds parameters and receivers, and understands if/else, switch (tagged and tagless),
// early returns, multi-value returns, named results, re-assigned locals and pointer aliases. Nothing is
// matched syntactically: a rewrite that computes the same values reaches the same `return`.
//
// What is modelled (everything else evaluates to "unknown", which fails the obligation when it decides a
// branch or the result):
//   - the receiver: its node list (length n; element ids compared first-against-last only) and its tags
//     (read only through Tags.Find, which is a primitive);
//   - the rule table: reached only through the rule loop (range over the table, or the canonical
//     `for i := 0; i < len(table); i++`); the current entry's key/condition/value-list fields;
//   - the entry's value list as the one-element list [e], the tag value v found under the entry's key,
//     and sort.SearchStrings(list, v) as 1 when v sorts after e (p) and 0 otherwise; list[index] == v is
//     q. Indexing the list at 1 or the node list outside [0,n) is a panic.
//
// The rule loop is handled by induction: an iteration starts from the environment E0 the prefix of the
// function established, must either return, leave the loop, or come back to the loop head with E0
// unchanged (no loop-carried state); the loop exit is evaluated from E0 as well.

type c18Kind int

const (
	c18KUnknown c18Kind = iota
	c18KVoid
	c18KStr
	c18KInt
	c18KBool
	c18KNil
	c18KRecv   // the receiver (pointer or value)
	c18KNodes  // receiver.Nodes
	c18KNode   // receiver.Nodes[i]
	c18KNodeID // receiver.Nodes[i].ID
	c18KTags   // receiver.Tags
	c18KTable  // the rule table
	c18KEntry  // the entry the rule loop is at (pointer or value)
	c18KValues // entry.values
	c18KCurIdx // index of the current entry; i counts the increments since the iteration began
	c18KTuple
	c18KFunc
	c18KFindFn   // the method value <receiver>.Tags.Find
	c18KTagRec   // a witness tag: elems[0] key, elems[1] value
	c18KKeyIdx   // a package-level map rule key -> rule, filled once from the table (ki)
	c18KSlice    // a slice or array built by a composite literal: elems
	c18KStruct   // a struct built by a composite literal: cl, evaluated in fr
	c18KMap      // a map whose contents are one composite literal (lookup table)
	c18KFuncDecl // a declared function of the package used as a value
)

type c18Org int

const (
	c18OConst     c18Org = iota // compile-time constant or never-written package variable
	c18OTag                     // Tags.Find(<constant key>)
	c18OEntryTag                // Tags.Find(<entry>.key)
	c18OEntryKey                // <entry>.key
	c18OEntryCond               // <entry>.condition
	c18OElem                    // <entry>.values[index]
	c18OStrLen                  // len(<tag value>)
	c18OSearchIdx               // result of the binary search
	c18OTableLen                // len(table)
	c18ONodeLen                 // derived from len(receiver.Nodes)
	c18OOtherKey                // the key of an unrelated witness tag (no rule, no constant of the code)
)

type c18Val struct {
	k     c18Kind
	s     string
	i     int64
	b     bool
	org   c18Org
	elems []c18Val
	lit   *ast.FuncLit
	fr    *c18Frame
	ki    *c18KeyIndex
	cl    *ast.CompositeLit // c18KMap: the literal that is the map's only source
	fdecl *ast.FuncDecl     // c18KFuncDecl: a function of the package used as a value
	note  string            // why the value is unknown
}

func c18Unk(format string, args ...interface{}) c18Val {
	return c18Val{k: c18KUnknown, note: fmt.Sprintf(format, args...)}
}

func c18ValEq(a, b c18Val) bool {
	if a.k != b.k || a.s != b.s || a.i != b.i || a.b != b.b || a.org != b.org || a.lit != b.lit || a.cl != b.cl || a.fdecl != b.fdecl || len(a.elems) != len(b.elems) {
		return false
	}
	for i := range a.elems {
		if !c18ValEq(a.elems[i], b.elems[i]) {
			return false
		}
	}
	return true
}

// c18TagSrc says where a string came from (kept for diagnostics of L2).
type c18TagSrc struct {
	key   string
	entry bool
}

// c18Scen is one abstract input.
type c18Scen struct {
	n      int64             // len(receiver.Nodes); -1 when the function has no node list
	closed bool              // first and last node id are equal
	tags   map[string]string // value Tags.Find returns for a constant key ("" = absent)
	inBody bool              // the per-entry atoms below are defined
	v      string            // value Tags.Find returns for the entry's key
	cond   string            // the entry's condition kind
	p      bool              // the search index equals len(values) (value greater than every element)
	q      bool              // values[index] == value (only meaningful when !p)
	// the witness list behind p and q: ll strictly ascending elements e0 < e1 < ...; rk of them are smaller than
	// the value (the lower bound / sort.SearchStrings result); q says e[rk] == value. p is rk == ll.
	ll, rk     int64
	entryFirst bool // witness order: the tag under the entry's key comes before the tags with constant keys (`area`)
	dup        bool // witness: a second tag with the entry's key and the value yes follows the first (Find ignores it)
	empty      bool // the element has no tags at all (only with every modelled tag value absent); otherwise unrelated tags may exist
}

// member: element i of the witness list equals the value.
func (s *c18Scen) member(i int64) bool { return s.q && i == s.rk && s.rk < s.ll }

func (s *c18Scen) String() string {
	var parts []string
	if s.n >= 0 {
		parts = append(parts, fmt.Sprintf("len(nodes)=%d", s.n), map[bool]string{true: "closed", false: "open"}[s.closed])
	}
	var ks []string
	for k := range s.tags {
		ks = append(ks, k)
	}
	sort.Strings(ks)
	for _, k := range ks {
		parts = append(parts, fmt.Sprintf("%s=%q", k, s.tags[k]))
	}
	if s.inBody {
		parts = append(parts, fmt.Sprintf("entry.polygon=%s", s.cond), fmt.Sprintf("<entry.key>=%q", s.v))
		if s.ll != 1 {
			parts = append(parts, fmt.Sprintf("len(values)=%d, %d of them smaller than the value", s.ll, s.rk))
		}
		if s.p {
			parts = append(parts, "search index = len(values)")
		} else {
			parts = append(parts, "search index < len(values)", fmt.Sprintf("values[index]==value is %v", s.q))
		}
	}
	return strings.Join(parts, ", ")
}

// c18Out is what the function does on one abstract input.
type c18Out struct {
	kind  string // "true" | "false" (returned) | "head" (next entry / reaches the rule loop) | "end" | "panic" | "unknown"
	pos   token.Pos
	note  string
	left  bool // the rule loop was left by break before the result was produced
	trace []string
}

func (o c18Out) describe() string {
	var s string
	switch o.kind {
	case "true", "false":
		s = "returns " + o.kind
		if o.left {
			s = "leaves the rule loop and " + s
		}
	case "head":
		s = "goes on to the next rule entry"
	case "end":
		s = "falls off the end"
	case "panic":
		s = "panics: " + o.note
	default:
		s = "cannot be evaluated: " + o.note
	}
	if len(o.trace) > 0 {
		s += " [path: " + strings.Join(o.trace, "; ") + "]"
	}
	return s
}

// run modes: what happens when the rule loop head is reached.
const (
	c18ModePrefix = iota // stop: the prefix handed over to the rule table
	c18ModeIter          // execute exactly one iteration on the abstract entry
	c18ModeDone          // the table is exhausted: continue behind the loop
)

type c18Frame struct {
	env    map[types.Object]c18Val
	parent *c18Frame // defining frame of a function literal
	body   *ast.BlockStmt
	depth  int
	tags   map[*ast.SwitchStmt]c18Val
	rangeX map[*ast.RangeStmt]c18Val
	iter   map[ast.Stmt]int
	named  []types.Object // named results
}

func (fr *c18Frame) lookup(o types.Object) (c18Val, bool) {
	for f := fr; f != nil; f = f.parent {
		if v, ok := f.env[o]; ok {
			return v, true
		}
	}
	return c18Val{}, false
}

func (fr *c18Frame) set(o types.Object, v c18Val) {
	for f := fr; f != nil; f = f.parent {
		if _, ok := f.env[o]; ok {
			f.env[o] = v
			return
		}
	}
	fr.env[o] = v
}

// c18SearchObs records one evaluated lookup call.
type c18SearchObs struct {
	pos      token.Pos
	text     string
	known    bool // sort.SearchStrings
	listOK   bool
	needleOK bool
	list     string
	needle   string
	cond     string // condition kind of the abstract entry
}

type c18ReadObs struct {
	pos token.Pos
	why string
}

type c18Stop struct{ out c18Out }

type c18Exec struct {
	r     *core.R
	pk    *packages.Package
	info  *types.Info
	fd    *ast.FuncDecl
	recv  types.Object
	ctx   *c18Ctx // nil when the function has no rule table (Relation.Polygon)
	funcs map[*types.Func]*ast.FuncDecl
	cfgs  map[*ast.BlockStmt]*cfg.CFG
	pkgC  map[types.Object]c18Val // package-level variables usable as constants

	// per run
	s         *c18Scen
	mode      int
	loopState int // 0 not reached, 1 iterating, 2 exhausted, 3 left by break
	loopStmt  ast.Stmt
	loopKey   types.Object
	loopVal   types.Object
	snap      map[types.Object]c18Val
	snapFr    *c18Frame
	steps     int
	trace     []string
	stack     []*ast.BlockStmt
	lastPos   token.Pos

	// accumulated over all runs
	searches []c18SearchObs
	reads    []c18ReadObs
	loopSeen map[ast.Stmt]bool
	keyIdx   map[types.Object]*c18KeyIndex
}
