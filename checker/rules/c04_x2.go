package rules

import (
	"fmt"
	"go/types"

	"osmcheck/core"
)

// c04Attr is one attribute observed in the attribute list of the root start token.
type c04Attr struct {
	name   string
	nameOK bool
	value  *c03V
}

// c04AttrsOf reads the attribute list of a start token value.
func c04AttrsOf(tr *c04Trace, root *c04Root, tok *c03V) (attrs []c04Attr, unknown string) {
	af := c04FieldByName(tok.T, "Attr")
	if af == nil {
		return nil, "start element without an Attr field"
	}
	fromStart := func(v *c03V) bool { return v.IsInit("param") && v.Root.Obj == root.start }
	list := tr.x.field(tr.path.St, tok, af, root.fi.Decl, nil)
	switch {
	case list.K == c03KNil:
		return nil, ""
	case list.K == c03KList:
	case fromStart(list):
		return nil, "" // the attributes encoding/xml handed in (none for a field)
	default:
		return nil, "the attribute list is " + list.String()
	}
	if b := list.Base; b != nil && !fromStart(b) && tr.path.St.Zero(b) != triT {
		unknown = "the attribute list is appended to " + b.String()
	}
	for _, e := range list.Elems {
		a := c04Attr{}
		if e.K == c03KStruct && namedPath(e.T) == "encoding/xml.Attr" {
			if nf := c04FieldByName(e.T, "Name"); nf != nil {
				nv := tr.x.field(tr.path.St, e, nf, root.fi.Decl, nil)
				if lf := c04FieldByName(nf.Type(), "Local"); lf != nil {
					if lv := tr.x.field(tr.path.St, nv, lf, root.fi.Decl, nil); lv.K == c03KStr {
						a.name, a.nameOK = lv.Str, true
					}
				}
			}
			if vf := c04FieldByName(e.T, "Value"); vf != nil {
				a.value = tr.x.field(tr.path.St, e, vf, root.fi.Decl, nil)
			}
		}
		attrs = append(attrs, a)
	}
	return attrs, unknown
}

// c04AttrScenario sets the attr-tagged fields of the receiver as given (true = set); everything else is set.
func c04AttrScenario(set map[*types.Var]bool) c04Zero {
	return func(path []*types.Var) tri {
		if len(path) == 1 {
			if s, ok := set[path[0]]; ok && !s {
				return triT
			}
		}
		return triF
	}
}

// c04ObserveAttrs returns the attribute list of the root start token on every path of a scenario (nil + reason when
// it cannot be observed).
func c04ObserveAttrs(r *core.R, root *c04Root, set map[*types.Var]bool, tag string) ([][]c04Attr, string) {
	trs, ab := c04Run(r.P, root, c04AttrScenario(set), tag)
	if ab != "" {
		return nil, ab
	}
	var out [][]c04Attr
	for _, tr := range trs {
		if tr.path.End != "return" {
			return nil, "a path ends with " + tr.path.End + " " + tr.path.Why
		}
		rts := tr.rootTokens()
		if len(rts) == 0 {
			return nil, "no start token is written"
		}
		as, unk := c04AttrsOf(tr, root, rts[0].tok)
		if unk != "" {
			return nil, unk
		}
		out = append(out, as)
	}
	if len(out) == 0 {
		return nil, "no path"
	}
	return out, ""
}

// c04Present: is an attribute of that name in the list on every / on no path?
func c04Present(obs [][]c04Attr, name string) (always, never bool) {
	always, never = true, true
	for _, as := range obs {
		has := false
		for _, a := range as {
			if a.nameOK && a.name == name {
				has = true
			}
		}
		if has {
			never = false
		} else {
			always = false
		}
	}
	return
}

func c04X2(r *core.R) {
	c03Init(r)
	n := 0
	var v c04Verdicts
	for _, root := range c04Roots(r.P) {
		if root.ti == nil {
			continue
		}
		var afs []*c03Field
		for _, f := range root.ti.Fields {
			if f.Kind == c03Attr && len(f.Via) == 0 {
				afs = append(afs, f)
			}
		}
		if len(afs) == 0 {
			continue
		}
		fromField := func(val *c03V, f *types.Var) bool {
			p, ok := c04RecvPath(root, val)
			return ok && len(p) == 1 && p[0] == f
		}
		scen := func(pick func(g, f *c03Field) bool, f *c03Field) map[*types.Var]bool {
			m := map[*types.Var]bool{}
			for _, g := range afs {
				m[g.Var] = pick(g, f)
			}
			return m
		}
		pos := root.fi.Decl.Pos()
		if st, ok := c04Delegates(r.P, root); ok {
			// the attributes are written by encoding/xml from the tags of a type with the same fields and tags
			for _, f := range afs {
				n++
				g := "always (no omitempty)"
				if f.OmitEmpty {
					g = "exactly when the field is not empty (omitempty)"
				}
				v.ok("attr@"+root.tname+"."+f.Var.Name(), pos, "%s hands the whole value to the tag-driven encoding as a %s (same fields and tags, no methods) with the attribute list of the start element untouched: attribute %q is written from the field by its tag `%s`, %s", root.name, c03Short(st), f.Name, c03TagOf(f), g)
			}
			continue
		}
		allObs, why := c04ObserveAttrs(r, root, scen(func(g, f *c03Field) bool { return true }, nil), "attrs: all set")
		for _, f := range afs {
			n++
			c := "attr@" + root.tname + "." + f.Var.Name()
			if allObs == nil {
				v.unknown(c, pos, "the attribute list %s writes cannot be observed: %s", root.name, why)
				continue
			}
			// (a) every field set: present, from this field
			verdict := ""
			for _, as := range allObs {
				var hit *c04Attr
				for i := range as {
					if as[i].nameOK && as[i].name == f.Name {
						hit = &as[i]
					}
				}
				switch {
				case hit == nil:
					other := ""
					for _, a := range as {
						if a.value != nil && fromField(a.value, f.Var) {
							other = a.name
						}
					}
					if other != "" {
						verdict = fmt.Sprintf("%s.%s is read from attribute %q (tag `%s`) but %s writes it as attribute %q", root.tname, f.Var.Name(), f.Name, c03TagOf(f), root.name, other)
					} else {
						verdict = fmt.Sprintf("%s.%s is read from attribute %q (tag `%s`) but with every field set %s writes no attribute of that name into the start element: the value is lost on marshalling", root.tname, f.Var.Name(), f.Name, c03TagOf(f), root.name)
					}
				case hit.value == nil || !fromField(hit.value, f.Var):
					verdict = fmt.Sprintf("attribute %q is written from `%s`, not from %s.%s which is the field that reads it back", f.Name, hit.value, root.tname, f.Var.Name())
				}
			}
			if verdict != "" {
				v.bad(c, pos, "%s", verdict)
				continue
			}
			// (b) only this field set: present (the guard depends on this field only); (c) only this field empty
			onlyObs, why1 := c04ObserveAttrs(r, root, scen(func(g, f *c03Field) bool { return g == f }, f), "attrs: only "+f.Var.Name())
			emptyObs, why2 := c04ObserveAttrs(r, root, scen(func(g, f *c03Field) bool { return g != f }, f), "attrs: empty "+f.Var.Name())
			if onlyObs == nil || emptyObs == nil {
				v.unknown(c, pos, "the attribute list cannot be observed with single fields set/empty: %s%s", why1, why2)
				continue
			}
			if always, _ := c04Present(onlyObs, f.Name); !always {
				v.bad(c, pos, "with %s.%s set and the other attributes empty, %s does not write %s=...: the attribute's guard depends on something other than the field itself, so a set value is lost on marshalling", root.tname, f.Var.Name(), root.name, f.Name)
				continue
			}
			always, never := c04Present(emptyObs, f.Name)
			switch {
			case f.OmitEmpty && !never:
				v.bad(c, pos, "the tag of %s.%s says `%s` (omitempty) but %s writes %s=\"\" when the field is empty: an empty value produces an attribute the tag contract (and every tag-driven writer of the same data) omits", root.tname, f.Var.Name(), c03TagOf(f), root.name, f.Name)
			case !f.OmitEmpty && !always:
				v.bad(c, pos, "the tag of %s.%s is `%s` (no omitempty) but %s drops the attribute when the field is empty: hand-written and tag-driven output disagree for the zero value", root.tname, f.Var.Name(), c03TagOf(f), root.name)
			default:
				g := "always (no omitempty)"
				if f.OmitEmpty {
					g = "exactly when the field is not empty (omitempty)"
				}
				v.ok(c, pos, "written as attribute %q from %s.%s %s", f.Name, root.tname, f.Var.Name(), g)
			}
		}
		// no attribute that no field reads
		for _, as := range allObs {
			for _, a := range as {
				known := false
				for _, f := range afs {
					if a.nameOK && a.name == f.Name {
						known = true
					}
				}
				switch {
				case !a.nameOK:
					v.unknown("attr@"+root.tname+" ?", pos, "%s appends an attribute with a non-constant name or not as an xml.Attr literal", root.name)
				case !known:
					v.bad("attr@"+root.tname+" "+a.name, pos, "%s writes attribute %q but no field of %s is tagged `%s,attr`: it cannot be read back", root.name, a.name, root.tname, a.name)
				}
			}
		}
	}
	v.emit(r)
	r.Stat("attr_tagged_fields_of_custom_marshallers", n)
}
