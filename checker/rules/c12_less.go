package rules

import (
	"fmt"
	"go/ast"
	"go/constant"
	"go/token"
	"go/types"
	"sort"
	"strings"

	"golang.org/x/tools/go/packages"
)

// Finite-domain evaluation of sort comparators.
//
// A comparator Less(i, j) over a slice of structs is a decision function of the *relations* between the fields
// of element i and element j. Instead of matching the statement shape of Less, the rules below enumerate, for
// every field the comparator reads, the possible relations (a.F < b.F, a.F == b.F, a.F > b.F; for time.Time
// additionally "same instant, different representation", which is where `==` and Equal disagree), interpret the
// body of Less on each such abstract input and obtain its truth table. The table is then compared with the
// required order. The interpreter understands if/else chains, switch (tagged and tagless), early returns, local
// copies and pointer aliases of the elements or of their fields, named results, calls to helper functions of
// the same package, time.Time Before/After/Equal/Compare/Sub (Sub saturates, its sign is the order) and
// comparison of ordered fields (not their subtraction: its sign is the order only without overflow).
// Anything else evaluates to "unknown" and makes the rule report the comparator as undecided.

// c12Rel is the relation between field F of the i-side element (a) and of the j-side element (b).
type c12Rel int

const (
	c12LT     c12Rel = iota // a.F < b.F
	c12EQ                   // a.F == b.F (identical)
	c12GT                   // a.F > b.F
	c12EQrepr               // time.Time only: same instant, different representation (zone / monotonic reading)
)

func (r c12Rel) flip() c12Rel {
	switch r {
	case c12LT:
		return c12GT
	case c12GT:
		return c12LT
	}
	return r
}

func (r c12Rel) tie() bool { return r == c12EQ || r == c12EQrepr }

func (r c12Rel) text(isTime bool) string {
	switch r {
	case c12LT:
		return "i<j"
	case c12GT:
		return "i>j"
	case c12EQrepr:
		return "same instant, different representation (zone)"
	}
	if isTime {
		return "identical"
	}
	return "equal"
}

// c12Var is one variable of the abstract domain: a field path of the element type.
type c12Var struct {
	path   string
	isTime bool
}

func (v c12Var) domain() []c12Rel {
	if v.isTime {
		return []c12Rel{c12LT, c12EQ, c12EQrepr, c12GT}
	}
	return []c12Rel{c12LT, c12EQ, c12GT}
}

type c12Kind int

const (
	c12KUnknown c12Kind = iota
	c12KBool
	c12KInt    // exact integer
	c12KSign   // integer/duration of which only the sign is known (n in -1,0,1)
	c12KSlice  // the slice being sorted
	c12KLen    // len(the slice being sorted)
	c12KIdx    // the index parameter of one side
	c12KPath   // element of one side, or a field (path) of it; pointers to it are the same value
	c12KFunc   // a function value: declared function, bound method, or function literal with its environment
	c12KStruct // a struct value built by a composite literal (a sort adapter holding the slice and a comparator)
	c12KTable  // an array, slice or map literal (a lookup table of comparators), indexed by constants
)

type c12Val struct {
	k    c12Kind
	b    bool
	n    int64
	side int
	path string
	typ  types.Type
	why  string
	fv   *c12FuncVal           // c12KFunc
	flds map[*types.Var]c12Val // c12KStruct
	tbl  *ast.CompositeLit     // c12KTable (fv.env: the environment the literal was written in)
}

func c12Unknown(format string, args ...interface{}) c12Val {
	return c12Val{k: c12KUnknown, why: fmt.Sprintf(format, args...)}
}

func c12Bool(b bool) c12Val { return c12Val{k: c12KBool, b: b} }

// c12Cmp is a comparator (or another method of a sort adapter) prepared for interpretation.
type c12Cmp struct {
	pk    *packages.Package
	name  string
	pos   token.Pos
	ftype *ast.FuncType
	body  *ast.BlockStmt
	bind  map[types.Object]c12Val // receiver / captured slice, index parameters
	elem  types.Type              // element type of the slice
	entry *c12FuncVal             // if set, the comparator is this function value applied to args (instead of ftype/body)
	args  []c12Val
}

// c12Run is one interpretation of a comparator on one abstract input.
type c12Run struct {
	c     *c12Cmp
	rel   map[string]c12Rel
	same  int // -1: i==j is not a variable of the domain; 0: i != j; 1: i == j (every field identical)
	need  *c12Var
	nSame bool // the comparator asked for i == j
	steps int
}

type c12Flow int

const (
	c12FNext c12Flow = iota
	c12FRet
	c12FBreak
	c12FUnknown
)

type c12Env map[types.Object]c12Val

func (ru *c12Run) info() *types.Info { return ru.c.pk.TypesInfo }

func c12IsTime(t types.Type) bool { return t != nil && namedPath(t) == "time.Time" }

// relOf returns the relation of path from side sa to side sb.
func (ru *c12Run) relOf(path string, typ types.Type, sa int) (c12Rel, bool) {
	if ru.same == 1 {
		return c12EQ, true
	}
	r, ok := ru.rel[path]
	if !ok {
		if ru.need == nil {
			ru.need = &c12Var{path: path, isTime: c12IsTime(typ)}
		}
		return c12EQ, false
	}
	if sa == 1 {
		r = r.flip()
	}
	return r, true
}

func (ru *c12Run) src(n ast.Node) string {
	// synthesised nodes have no position; fall back to a generic text
	defer func() { _ = recover() }()
	return src(ru.c.pk.Fset, n)
}

// ---- expressions ----

func (ru *c12Run) expr(e ast.Expr, env c12Env, depth int) c12Val {
	info := ru.info()
	ru.steps++
	if ru.steps > 20000 {
		return c12Unknown("evaluation does not terminate")
	}
	if tv, ok := info.Types[e]; ok && tv.Value != nil {
		switch tv.Value.Kind() {
		case constant.Bool:
			return c12Bool(constant.BoolVal(tv.Value))
		case constant.Int:
			if n, ok := constant.Int64Val(tv.Value); ok {
				return c12Val{k: c12KInt, n: n}
			}
		}
	}
	switch x := e.(type) {
	case *ast.ParenExpr:
		return ru.expr(x.X, env, depth)
	case *ast.Ident:
		o := objOf(info, x)
		if o == nil {
			return c12Unknown("unresolved identifier %s", x.Name)
		}
		if v, ok := env[o]; ok {
			return v
		}
		if v, ok := ru.c.bind[o]; ok {
			return v
		}
		if fn, ok := o.(*types.Func); ok {
			return c12Val{k: c12KFunc, fv: &c12FuncVal{fn: fn}}
		}
		if init := c12PkgVarInit(ru.c.pk, o); init != nil && depth > 0 {
			return ru.expr(init, c12Env{}, depth-1) // a package-level variable that is never reassigned
		}
		return c12Unknown("`%s` is neither an element of the sorted slice nor derived from one", x.Name)
	case *ast.StarExpr:
		return ru.expr(x.X, env, depth) // pointers to elements/fields denote the element/field
	case *ast.UnaryExpr:
		v := ru.expr(x.X, env, depth)
		switch x.Op {
		case token.AND:
			if v.k == c12KPath || v.k == c12KUnknown || v.k == c12KStruct {
				return v
			}
			return c12Unknown("address of `%s`", ru.src(x.X))
		case token.NOT:
			if v.k == c12KBool {
				return c12Bool(!v.b)
			}
		case token.SUB:
			if v.k == c12KInt || v.k == c12KSign {
				v.n = -v.n
				return v
			}
		case token.ADD:
			if v.k == c12KInt || v.k == c12KSign {
				return v
			}
		}
		if v.k == c12KUnknown {
			return v
		}
		return c12Unknown("operator %s on `%s`", x.Op, ru.src(x.X))
	case *ast.IndexExpr:
		s := ru.expr(x.X, env, depth)
		if s.k == c12KTable {
			return ru.tableEntry(s, x, env, depth)
		}
		i := ru.expr(x.Index, env, depth)
		if s.k == c12KSlice && i.k == c12KIdx {
			return c12Val{k: c12KPath, side: i.side, typ: ru.c.elem}
		}
		if s.k == c12KUnknown {
			return s
		}
		if i.k == c12KUnknown {
			return i
		}
		return c12Unknown("`%s` is not an element of the sorted slice at one of the two compared positions", ru.src(x))
	case *ast.SelectorExpr:
		if sel := info.Selections[x]; sel != nil && sel.Kind() != types.FieldVal {
			return ru.methodValue(x, sel, env, depth)
		}
		if sel := info.Selections[x]; sel != nil && sel.Kind() == types.FieldVal {
			v := ru.expr(x.X, env, depth)
			if v.k == c12KStruct {
				if fv, ok := v.flds[sel.Obj().(*types.Var)]; ok {
					return fv
				}
				return c12Unknown("field %s of `%s` is not set where the value is built", x.Sel.Name, ru.src(x.X))
			}
			if v.k != c12KPath {
				if v.k == c12KUnknown {
					return v
				}
				return c12Unknown("field of `%s`", ru.src(x.X))
			}
			p := x.Sel.Name
			if v.path != "" {
				p = v.path + "." + p
			}
			return c12Val{k: c12KPath, side: v.side, path: p, typ: sel.Type()}
		}
		return c12Unknown("`%s` is not a field of a compared element", ru.src(x))
	case *ast.BinaryExpr:
		switch x.Op {
		case token.LAND, token.LOR:
			l := ru.expr(x.X, env, depth)
			if l.k != c12KBool {
				if l.k == c12KUnknown {
					return l
				}
				return c12Unknown("non-boolean operand `%s`", ru.src(x.X))
			}
			if (x.Op == token.LAND && !l.b) || (x.Op == token.LOR && l.b) {
				return l
			}
			r := ru.expr(x.Y, env, depth)
			if r.k != c12KBool && r.k != c12KUnknown {
				return c12Unknown("non-boolean operand `%s`", ru.src(x.Y))
			}
			return r
		}
		l := ru.expr(x.X, env, depth)
		r := ru.expr(x.Y, env, depth)
		return ru.binary(x.Op, l, r, func() string { return ru.src(x) })
	case *ast.CallExpr:
		return ru.call(x, env, depth)
	case *ast.CompositeLit:
		return ru.composite(x, env, depth)
	case *ast.FuncLit:
		return c12Val{k: c12KFunc, fv: &c12FuncVal{lit: x, env: env}}
	}
	return c12Unknown("expression `%s`", ru.src(e))
}

func c12CmpInts(op token.Token, a, b int64) (bool, bool) {
	switch op {
	case token.LSS:
		return a < b, true
	case token.LEQ:
		return a <= b, true
	case token.GTR:
		return a > b, true
	case token.GEQ:
		return a >= b, true
	case token.EQL:
		return a == b, true
	case token.NEQ:
		return a != b, true
	}
	return false, false
}

func c12RelSign(r c12Rel) int64 {
	switch r {
	case c12LT:
		return -1
	case c12GT:
		return 1
	}
	return 0
}

func (ru *c12Run) binary(op token.Token, l, r c12Val, text func() string) c12Val {
	if l.k == c12KUnknown {
		return l
	}
	if r.k == c12KUnknown {
		return r
	}
	switch {
	case l.k == c12KBool && r.k == c12KBool:
		switch op {
		case token.EQL:
			return c12Bool(l.b == r.b)
		case token.NEQ:
			return c12Bool(l.b != r.b)
		}
	case l.k == c12KInt && r.k == c12KInt:
		if b, ok := c12CmpInts(op, l.n, r.n); ok {
			return c12Bool(b)
		}
		switch op {
		case token.SUB:
			return c12Val{k: c12KInt, n: l.n - r.n}
		case token.ADD:
			return c12Val{k: c12KInt, n: l.n + r.n}
		}
	case l.k == c12KSign && r.k == c12KInt && r.n == 0:
		if b, ok := c12CmpInts(op, l.n, 0); ok {
			return c12Bool(b)
		}
	case l.k == c12KInt && l.n == 0 && r.k == c12KSign:
		if b, ok := c12CmpInts(op, 0, r.n); ok {
			return c12Bool(b)
		}
	case l.k == c12KIdx && r.k == c12KIdx:
		if op != token.EQL && op != token.NEQ {
			return c12Unknown("`%s` orders the positions, not the elements", text())
		}
		eq := l.side == r.side
		if !eq {
			ru.nSame = true
			if ru.same < 0 {
				return c12Unknown("needs i==j")
			}
			eq = ru.same == 1
		}
		return c12Bool(eq == (op == token.EQL))
	case l.k == c12KPath && r.k == c12KPath:
		if l.path != r.path {
			return c12Unknown("`%s` relates different fields (%s and %s)", text(), c12PathText(l.path), c12PathText(r.path))
		}
		if l.side == r.side {
			return c12Unknown("`%s` relates an element to itself", text())
		}
		if l.path == "" && !c12IsKeyType(l.typ) {
			return c12Unknown("`%s` compares whole elements", text())
		}
		rel, ok := ru.relOf(l.path, l.typ, l.side)
		if !ok {
			return c12Unknown("needs relation of %s", l.path)
		}
		if c12IsTime(l.typ) {
			// Go struct comparison of time.Time: true only for identical representation
			switch op {
			case token.EQL:
				return c12Bool(rel == c12EQ)
			case token.NEQ:
				return c12Bool(rel != c12EQ)
			}
			return c12Unknown("operator %s on time.Time", op)
		}
		if op == token.SUB {
			// a.F - b.F has the sign of the relation only when it does not overflow: not accepted as a comparison
			return c12Unknown("`%s`: the sign of a difference is the order of its operands only without overflow", text())
		}
		if b, ok := c12CmpInts(op, c12RelSign(rel), 0); ok {
			return c12Bool(b)
		}
	}
	return c12Unknown("`%s` cannot be decided from the relations between the fields of the two elements", text())
}

func c12PathText(p string) string {
	if p == "" {
		return "the element"
	}
	return p
}

// call evaluates conversions, len, time.Time comparisons and calls of same-package functions.
func (ru *c12Run) call(x *ast.CallExpr, env c12Env, depth int) c12Val {
	info := ru.info()
	// conversion T(v)
	if tv, ok := info.Types[x.Fun]; ok && tv.IsType() && len(x.Args) == 1 {
		return ru.expr(x.Args[0], env, depth)
	}
	if b := builtinName(info, x); b != "" {
		if b == "len" && len(x.Args) == 1 {
			if v := ru.expr(x.Args[0], env, depth); v.k == c12KSlice {
				return c12Val{k: c12KLen}
			}
		}
		return c12Unknown("builtin `%s`", ru.src(x))
	}
	fn := callee(info, x)
	if fn == nil {
		// call of a function value: a field, local or parameter holding a function
		f := ru.expr(x.Fun, env, depth)
		if f.k != c12KFunc {
			if f.k == c12KUnknown {
				return c12Unknown("dynamic call `%s`: %s", ru.src(x), f.why)
			}
			return c12Unknown("dynamic call `%s`", ru.src(x))
		}
		return ru.applyArgs(f.fv, x, env, depth)
	}
	sel, _ := ast.Unparen(x.Fun).(*ast.SelectorExpr)
	sig := fn.Type().(*types.Signature)
	if sig.Recv() != nil && namedPath(sig.Recv().Type()) == "time.Time" && sel != nil {
		recv := ru.expr(sel.X, env, depth)
		if recv.k == c12KUnknown {
			return recv
		}
		if len(x.Args) != 1 || recv.k != c12KPath || !c12IsTime(recv.typ) {
			return c12Unknown("`%s` is not a comparison of the two elements' times", ru.src(x))
		}
		arg := ru.expr(x.Args[0], env, depth)
		if arg.k == c12KUnknown {
			return arg
		}
		if arg.k != c12KPath || !c12IsTime(arg.typ) || arg.path != recv.path || arg.side == recv.side {
			return c12Unknown("`%s` does not compare the same time field of the two elements", ru.src(x))
		}
		rel, ok := ru.relOf(recv.path, recv.typ, recv.side)
		if !ok {
			return c12Unknown("needs relation of %s", recv.path)
		}
		switch fn.Name() {
		case "Before":
			return c12Bool(rel == c12LT)
		case "After":
			return c12Bool(rel == c12GT)
		case "Equal":
			return c12Bool(rel.tie())
		case "Compare":
			return c12Val{k: c12KInt, n: c12RelSign(rel)}
		case "Sub":
			return c12Val{k: c12KSign, n: c12RelSign(rel)}
		}
		return c12Unknown("time.Time.%s is not an ordering predicate", fn.Name())
	}
	// same-package function or method with a body: interpret it
	f := &c12FuncVal{fn: fn}
	if sig.Recv() != nil {
		if sel == nil {
			return c12Unknown("method value `%s`", ru.src(x.Fun))
		}
		if s2 := info.Selections[sel]; s2 != nil && s2.Kind() == types.MethodExpr {
			// T.m(recv, args...): the receiver is the first argument
		} else {
			rv := ru.expr(sel.X, env, depth)
			f.recv = &rv
		}
	}
	return ru.applyArgs(f, x, env, depth)
}

// fn interprets a function body and returns the returned values.
func (ru *c12Run) fn(ft *ast.FuncType, body *ast.BlockStmt, env c12Env, depth int) ([]c12Val, string) {
	info := ru.info()
	var named []types.Object
	if ft.Results != nil {
		for _, f := range ft.Results.List {
			for _, nm := range f.Names {
				o := info.Defs[nm]
				named = append(named, o)
				if o != nil {
					env[o] = c12Zero(o.Type())
				}
			}
		}
	}
	flow, vals, why := ru.stmts(body.List, env, depth)
	switch flow {
	case c12FUnknown:
		return nil, why
	case c12FRet:
		if vals == nil && len(named) > 0 {
			for _, o := range named {
				vals = append(vals, env[o])
			}
		}
		return vals, ""
	case c12FNext:
		if ft.Results == nil || len(ft.Results.List) == 0 {
			return nil, ""
		}
	}
	return nil, "control leaves the function body without a return"
}

func c12Zero(t types.Type) c12Val {
	if b, ok := t.Underlying().(*types.Basic); ok {
		switch {
		case b.Info()&types.IsBoolean != 0:
			return c12Bool(false)
		case b.Info()&types.IsInteger != 0:
			return c12Val{k: c12KInt}
		}
	}
	return c12Unknown("zero value of %s", t)
}

// ---- statements ----

func (ru *c12Run) stmts(list []ast.Stmt, env c12Env, depth int) (c12Flow, []c12Val, string) {
	for _, s := range list {
		flow, vals, why := ru.stmt(s, env, depth)
		if flow != c12FNext {
			return flow, vals, why
		}
	}
	return c12FNext, nil, ""
}

func (ru *c12Run) boolCond(e ast.Expr, env c12Env, depth int) (bool, string) {
	v := ru.expr(e, env, depth)
	if v.k == c12KBool {
		return v.b, ""
	}
	if v.k == c12KUnknown {
		return false, v.why
	}
	return false, "condition `" + ru.src(e) + "` is not boolean"
}

func (ru *c12Run) stmt(s ast.Stmt, env c12Env, depth int) (c12Flow, []c12Val, string) {
	info := ru.info()
	switch x := s.(type) {
	case nil:
		return c12FNext, nil, ""
	case *ast.EmptyStmt:
		return c12FNext, nil, ""
	case *ast.BlockStmt:
		return ru.stmts(x.List, env, depth)
	case *ast.ReturnStmt:
		if len(x.Results) == 0 {
			return c12FRet, nil, ""
		}
		vals := make([]c12Val, 0, len(x.Results))
		for _, e := range x.Results {
			vals = append(vals, ru.expr(e, env, depth))
		}
		return c12FRet, vals, ""
	case *ast.IfStmt:
		if x.Init != nil {
			if flow, vals, why := ru.stmt(x.Init, env, depth); flow != c12FNext {
				return flow, vals, why
			}
		}
		c, why := ru.boolCond(x.Cond, env, depth)
		if why != "" {
			return c12FUnknown, nil, why
		}
		if c {
			return ru.stmts(x.Body.List, env, depth)
		}
		if x.Else != nil {
			return ru.stmt(x.Else, env, depth)
		}
		return c12FNext, nil, ""
	case *ast.SwitchStmt:
		if x.Init != nil {
			if flow, vals, why := ru.stmt(x.Init, env, depth); flow != c12FNext {
				return flow, vals, why
			}
		}
		var tag *c12Val
		if x.Tag != nil {
			v := ru.expr(x.Tag, env, depth)
			if v.k == c12KUnknown {
				return c12FUnknown, nil, v.why
			}
			tag = &v
		}
		chosen := -1
		def := -1
	clauses:
		for i, cl := range x.Body.List {
			cc := cl.(*ast.CaseClause)
			if cc.List == nil {
				def = i
				continue
			}
			for _, ce := range cc.List {
				var hit c12Val
				if tag == nil {
					hit = ru.expr(ce, env, depth)
				} else {
					hit = ru.binary(token.EQL, *tag, ru.expr(ce, env, depth), func() string { return "case " + ru.src(ce) })
				}
				if hit.k != c12KBool {
					if hit.k == c12KUnknown {
						return c12FUnknown, nil, hit.why
					}
					return c12FUnknown, nil, "case `" + ru.src(ce) + "` is not boolean"
				}
				if hit.b {
					chosen = i
					break clauses
				}
			}
		}
		if chosen < 0 {
			chosen = def
		}
		for chosen >= 0 && chosen < len(x.Body.List) {
			body := x.Body.List[chosen].(*ast.CaseClause).Body
			ft := false
			if n := len(body); n > 0 {
				if br, ok := body[n-1].(*ast.BranchStmt); ok && br.Tok == token.FALLTHROUGH {
					ft = true
					body = body[:n-1]
				}
			}
			flow, vals, why := ru.stmts(body, env, depth)
			switch flow {
			case c12FBreak:
				return c12FNext, nil, ""
			case c12FNext:
				if ft {
					chosen++
					continue
				}
				return c12FNext, nil, ""
			default:
				return flow, vals, why
			}
		}
		return c12FNext, nil, ""
	case *ast.BranchStmt:
		if x.Tok == token.BREAK && x.Label == nil {
			return c12FBreak, nil, ""
		}
		return c12FUnknown, nil, "branch statement `" + ru.src(x) + "`"
	case *ast.DeclStmt:
		gd, ok := x.Decl.(*ast.GenDecl)
		if !ok || gd.Tok != token.VAR {
			return c12FNext, nil, "" // local const/type declarations have no effect
		}
		for _, sp := range gd.Specs {
			vs := sp.(*ast.ValueSpec)
			for i, nm := range vs.Names {
				o := info.Defs[nm]
				if o == nil {
					continue
				}
				switch {
				case len(vs.Values) == len(vs.Names):
					env[o] = ru.expr(vs.Values[i], env, depth)
				case len(vs.Values) == 0:
					env[o] = c12Zero(o.Type())
				default:
					env[o] = c12Unknown("multi-value declaration of %s", nm.Name)
				}
			}
		}
		return c12FNext, nil, ""
	case *ast.AssignStmt:
		if x.Tok != token.DEFINE && x.Tok != token.ASSIGN {
			return c12FUnknown, nil, "compound assignment `" + ru.src(x) + "`"
		}
		if len(x.Lhs) != len(x.Rhs) {
			return c12FUnknown, nil, "multi-value assignment `" + ru.src(x) + "`"
		}
		vals := make([]c12Val, len(x.Rhs))
		for i, e := range x.Rhs {
			vals[i] = ru.expr(e, env, depth)
		}
		for i, l := range x.Lhs {
			id, ok := ast.Unparen(l).(*ast.Ident)
			if !ok {
				if ru.assignField(l, vals[i], env) {
					continue
				}
				return c12FUnknown, nil, "the comparator writes to `" + ru.src(l) + "`"
			}
			if id.Name == "_" {
				continue
			}
			o := objOf(info, id)
			if o == nil {
				return c12FUnknown, nil, "unresolved `" + id.Name + "`"
			}
			if _, bound := ru.c.bind[o]; bound {
				return c12FUnknown, nil, "the comparator reassigns `" + id.Name + "`"
			}
			if v, isVar := o.(*types.Var); !isVar || v.Parent() == nil || v.Parent() == v.Pkg().Scope() {
				return c12FUnknown, nil, "the comparator assigns to the package-level `" + id.Name + "`"
			}
			env[o] = vals[i]
		}
		return c12FNext, nil, ""
	}
	return c12FUnknown, nil, "statement `" + ru.src(s) + "` is outside what the comparator interpreter understands (loops, defers, calls for effect)"
}

// ---- truth table ----

type c12Row struct {
	rel []c12Rel // per variable of the table
	res bool
}

type c12Table struct {
	vars    []c12Var
	rows    []c12Row
	byKey   map[string]int
	hasSame bool // the comparator distinguishes i == j
	sameRes bool // its result for i == j
}

func c12Key(rel []c12Rel) string {
	b := make([]byte, len(rel))
	for i, r := range rel {
		b[i] = byte('0' + int(r))
	}
	return string(b)
}

func (t *c12Table) varIndex(path string) int {
	for i, v := range t.vars {
		if v.path == path {
			return i
		}
	}
	return -1
}

// swapped returns the row for Less(j, i).
func (t *c12Table) swapped(row c12Row) c12Row {
	rel := make([]c12Rel, len(row.rel))
	for i, r := range row.rel {
		rel[i] = r.flip()
	}
	return t.rows[t.byKey[c12Key(rel)]]
}

func (t *c12Table) describe(row c12Row) string {
	var parts []string
	for i, v := range t.vars {
		parts = append(parts, c12PathText(v.path)+": "+row.rel[i].text(v.isTime))
	}
	return strings.Join(parts, "; ")
}

// c12BuildTable interprets the comparator on every abstract input. seed lists fields that must be variables of
// the table even if the comparator never reads them.
func c12BuildTable(c *c12Cmp, seed []c12Var) (*c12Table, string) {
	vars := append([]c12Var{}, seed...)
	useSame := false
restart:
	for {
		if len(vars) > 6 {
			return nil, fmt.Sprintf("the comparator reads more than 6 fields (%d): domain too large", len(vars))
		}
		t := &c12Table{vars: vars, byKey: map[string]int{}}
		rel := make([]c12Rel, len(vars))
		var rec func(k int) (bool, string)
		evalOne := func(same int) (bool, *c12Run, string) {
			ru := &c12Run{c: c, rel: map[string]c12Rel{}, same: same}
			for i, v := range vars {
				ru.rel[v.path] = rel[i]
			}
			vals, why := ru.run(4)
			if ru.need != nil || (ru.nSame && same < 0) {
				return false, ru, ""
			}
			if why == "" && (len(vals) != 1 || vals[0].k != c12KBool) {
				switch {
				case len(vals) == 1 && vals[0].k == c12KUnknown:
					why = vals[0].why
				default:
					why = "the comparator does not return a boolean decided by the field relations"
				}
			}
			if why != "" {
				return false, ru, why
			}
			return vals[0].b, ru, ""
		}
		var pending *c12Run
		rec = func(k int) (bool, string) {
			if k == len(vars) {
				same := -1
				if useSame {
					same = 0
				}
				res, ru, why := evalOne(same)
				if ru.need != nil || (ru.nSame && !useSame) {
					pending = ru
					return false, ""
				}
				if why != "" {
					row := c12Row{rel: append([]c12Rel{}, rel...)}
					return false, why + " [for " + t.describe(row) + "]"
				}
				t.byKey[c12Key(rel)] = len(t.rows)
				t.rows = append(t.rows, c12Row{rel: append([]c12Rel{}, rel...), res: res})
				return true, ""
			}
			for _, r := range vars[k].domain() {
				rel[k] = r
				if ok, why := rec(k + 1); !ok {
					return false, why
				}
			}
			return true, ""
		}
		ok, why := rec(0)
		if !ok {
			if pending != nil {
				if pending.need != nil {
					vars = append(vars, *pending.need)
				}
				if pending.nSame {
					useSame = true
				}
				continue restart
			}
			return nil, why
		}
		if useSame {
			res, ru, why := evalOne(1)
			if ru.need != nil {
				return nil, "internal: new field discovered for i == j"
			}
			if why != "" {
				return nil, why + " [for i == j]"
			}
			t.hasSame, t.sameRes = true, res
		}
		return t, ""
	}
}

// ---- comparing a table with a required lexicographic order ----

// c12LexVerdict is the result of comparing a truth table with `order by spec[0], then spec[1], ...` (ascending).
type c12LexVerdict struct {
	stepBad []string // per spec field: "" or a counterexample
	tieBad  string   // "" or a counterexample for the rows on which every spec field ties
}

func c12CheckLex(t *c12Table, spec []string) c12LexVerdict {
	v := c12LexVerdict{stepBad: make([]string, len(spec))}
	idx := make([]int, len(spec))
	for i, f := range spec {
		idx[i] = t.varIndex(f)
	}
	for _, row := range t.rows {
		level := -1
		for k, vi := range idx {
			if vi < 0 || !row.rel[vi].tie() {
				level = k
				break
			}
		}
		if level < 0 {
			sw := t.swapped(row)
			if row.res && sw.res && v.tieBad == "" {
				v.tieBad = "Less(i,j) and Less(j,i) are both true for " + t.describe(row)
			}
			continue
		}
		want := row.rel[idx[level]] == c12LT
		if row.res != want && v.stepBad[level] == "" {
			v.stepBad[level] = fmt.Sprintf("for %s Less(i,j) is %v, the order requires %v", t.describe(row), row.res, want)
		}
	}
	if t.hasSame && t.sameRes && v.tieBad == "" {
		v.tieBad = "Less(i,i) is true"
	}
	return v
}

// c12InferChain derives, from the truth table alone, the lexicographic chain the comparator implements.
func c12InferChain(t *c12Table, pos token.Pos) ([]chainStep, string) {
	var chosen []int
	isChosen := func(i int) bool {
		for _, c := range chosen {
			if c == i {
				return true
			}
		}
		return false
	}
	// rows on which every chosen field is identical
	tied := func() []c12Row {
		var out []c12Row
		for _, row := range t.rows {
			ok := true
			for _, c := range chosen {
				if row.rel[c] != c12EQ {
					ok = false
				}
			}
			// the not-yet-chosen time fields are considered in their three plain relations only
			for i, v := range t.vars {
				if !isChosen(i) && v.isTime && row.rel[i] == c12EQrepr {
					ok = false
				}
			}
			if ok {
				out = append(out, row)
			}
		}
		return out
	}
	var chain []chainStep
	for {
		rows := tied()
		if len(rows) == 0 {
			return nil, "empty table"
		}
		constant := true
		for _, row := range rows {
			if row.res != rows[0].res {
				constant = false
			}
		}
		if constant {
			if len(chain) == 0 {
				return nil, "the comparator does not depend on any field"
			}
			if rows[0].res {
				chain[len(chain)-1].strict = false
			}
			break
		}
		found := -1
		asc := false
		for i := range t.vars {
			if isChosen(i) {
				continue
			}
			lt, gt := -1, -1 // -1 unset, 0 false, 1 true, 2 mixed
			for _, row := range rows {
				b := 0
				if row.res {
					b = 1
				}
				switch row.rel[i] {
				case c12LT:
					if lt == -1 {
						lt = b
					} else if lt != b {
						lt = 2
					}
				case c12GT:
					if gt == -1 {
						gt = b
					} else if gt != b {
						gt = 2
					}
				}
			}
			if lt != 2 && gt != 2 && lt != -1 && gt != -1 && lt != gt {
				found, asc = i, lt == 1
				break
			}
		}
		if found < 0 {
			return nil, "not a lexicographic chain: no field decides the result once " + c12ChosenText(t, chosen) + " tie"
		}
		chosen = append(chosen, found)
		chain = append(chain, chainStep{field: t.vars[found].path, strict: true, asc: asc, tieOK: true, pos: pos})
	}
	chain[len(chain)-1].final = true
	// verify the whole table (including "same instant, different representation") against the chain
	for _, row := range t.rows {
		want := false
		decided := false
		for k, c := range chosen {
			r := row.rel[c]
			if r.tie() {
				continue
			}
			want = (r == c12LT) == chain[k].asc
			decided = true
			break
		}
		if !decided {
			want = !chain[len(chain)-1].strict
		}
		if row.res != want {
			// blame the first step whose field ties only by instant
			blamed := false
			for k, c := range chosen {
				if row.rel[c] == c12EQrepr {
					chain[k].tieOK = false
					blamed = true
					break
				}
			}
			if !blamed {
				return nil, "not a lexicographic chain: " + t.describe(row) + " gives " + fmt.Sprint(row.res)
			}
		}
	}
	return chain, ""
}

func c12ChosenText(t *c12Table, chosen []int) string {
	if len(chosen) == 0 {
		return "no fields"
	}
	var s []string
	for _, c := range chosen {
		s = append(s, t.vars[c].path)
	}
	return strings.Join(s, ", ")
}

// ---- locating comparators ----

// c12InfoPkg remembers the package of a types.Info so that parseLessChain (whose signature carries only the
// Info) can follow calls into helpers of the comparator's package. sortAdapter/c12FindSort record it.
var c12InfoPkg = map[*types.Info]*packages.Package{}

// c12Sort describes how a SortByX method sorts its receiver.
type c12Sort struct {
	call    *ast.CallExpr
	fn      string       // Sort, Stable, Slice, SliceStable
	adapter *types.Named // sort.Sort / sort.Stable
	lit     *ast.FuncLit // sort.Slice / sort.SliceStable
	slice   types.Object // variable holding the slice handed to sort.Slice
	host    *FuncInfo    // function that lexically contains the call
	sorted  ast.Expr     // the argument that is sorted
	opExpr  ast.Expr     // sort.Sort: the expression of concrete type that is sorted (an argument further up when the
	opHost  *FuncInfo    // operand is an interface-typed parameter of a helper) and the function it is written in
}

// c12FindSort finds the call of sort.Sort/Stable/Slice/SliceStable reached from fi (directly or through unexported
// helpers of the package).
func c12FindSort(pk *packages.Package, fi *FuncInfo) []*c12Sort {
	c12InfoPkg[pk.TypesInfo] = pk
	var out []*c12Sort
	inspectDeep(pk, fi, 3, func(site deepSite, n ast.Node) bool {
		call, ok := n.(*ast.CallExpr)
		if !ok {
			return true
		}
		fn := callee(pk.TypesInfo, call)
		switch {
		case (isPkgFunc(fn, "sort", "Sort") || isPkgFunc(fn, "sort", "Stable")) && len(call.Args) == 1:
			s := &c12Sort{call: call, fn: fn.Name(), host: site.fi, sorted: call.Args[0]}
			s.adapter, s.opExpr, s.opHost = c12ConcreteNamed(pk, fi, site, call.Args[0])
			out = append(out, s)
		case (isPkgFunc(fn, "sort", "Slice") || isPkgFunc(fn, "sort", "SliceStable")) && len(call.Args) == 2:
			s := &c12Sort{call: call, fn: fn.Name(), host: site.fi, sorted: call.Args[0]}
			if lit, ok := ast.Unparen(call.Args[1]).(*ast.FuncLit); ok {
				s.lit = lit
			}
			s.slice = objOf(pk.TypesInfo, c12StripConv(pk.TypesInfo, call.Args[0]))
			out = append(out, s)
		}
		return true
	})
	return out
}

// c12ConcreteNamed returns the named non-interface type of the operand of sort.Sort; when the operand is a
// parameter of interface type of an extracted helper, the argument at the call that led there is used instead.
func c12ConcreteNamed(pk *packages.Package, root *FuncInfo, site deepSite, e ast.Expr) (*types.Named, ast.Expr, *FuncInfo) {
	info := pk.TypesInfo
	host := site.fi
	stack := site.stack
	for {
		t := info.TypeOf(e)
		if t == nil {
			return nil, nil, nil
		}
		if pt, ok := t.(*types.Pointer); ok {
			t = pt.Elem()
		}
		nt, ok := t.(*types.Named)
		if !ok {
			return nil, nil, nil
		}
		if _, isIface := nt.Underlying().(*types.Interface); !isIface {
			return nt, e, host
		}
		if len(stack) == 0 {
			return nil, nil, nil
		}
		v := c12Resolve(info, host.Decl.Body, e)
		if v == nil {
			return nil, nil, nil
		}
		call := stack[len(stack)-1]
		arg := argForParam(info, host, call, v)
		if arg == nil {
			return nil, nil, nil
		}
		stack = stack[:len(stack)-1]
		host = root
		if len(stack) > 0 {
			if fn := callee(info, stack[len(stack)-1]); fn != nil {
				host = findFunc(pk, funcName(fn))
			}
		}
		if host == nil {
			return nil, nil, nil
		}
		e = arg
	}
}

// c12StripConv removes parentheses and type conversions.
func c12StripConv(info *types.Info, e ast.Expr) ast.Expr {
	for {
		e = ast.Unparen(e)
		call, ok := e.(*ast.CallExpr)
		if !ok || len(call.Args) != 1 {
			return e
		}
		if tv, ok := info.Types[call.Fun]; !ok || !tv.IsType() {
			return e
		}
		e = call.Args[0]
	}
}

// sortAdapter resolves, for a method that sorts its receiver through sort.Sort or sort.Stable (directly or in an
// unexported helper, whatever the local naming), the adapter type implementing sort.Interface.
func sortAdapter(pk *packages.Package, fi *FuncInfo) *types.Named {
	var res *types.Named
	for _, s := range c12FindSort(pk, fi) {
		if s.adapter != nil {
			res = s.adapter
		}
	}
	return res
}

func c12SliceElem(t types.Type) types.Type {
	if t == nil {
		return nil
	}
	if pt, ok := t.Underlying().(*types.Pointer); ok {
		t = pt.Elem()
	}
	if st, ok := t.Underlying().(*types.Slice); ok {
		return st.Elem()
	}
	return nil
}

// c12MethodCmp prepares a method `func (s T) M(i, j int) ...` of a slice type for interpretation.
func c12MethodCmp(pk *packages.Package, fd *ast.FuncDecl) (*c12Cmp, string) {
	info := pk.TypesInfo
	if fd.Body == nil {
		return nil, "no body"
	}
	c := &c12Cmp{pk: pk, pos: fd.Pos(), ftype: fd.Type, body: fd.Body, bind: map[types.Object]c12Val{}}
	if fn, _ := info.Defs[fd.Name].(*types.Func); fn != nil {
		c.name = funcName(fn)
	}
	if fd.Recv == nil || len(fd.Recv.List) != 1 {
		return nil, "not a method"
	}
	rt := info.TypeOf(fd.Recv.List[0].Type)
	c.elem = c12SliceElem(rt)
	if c.elem == nil {
		return nil, "receiver is not a slice"
	}
	if len(fd.Recv.List[0].Names) == 1 {
		if o := info.Defs[fd.Recv.List[0].Names[0]]; o != nil {
			c.bind[o] = c12Val{k: c12KSlice}
		}
	}
	side := 0
	for _, f := range fd.Type.Params.List {
		for _, nm := range f.Names {
			if o := info.Defs[nm]; o != nil && side < 2 {
				c.bind[o] = c12Val{k: c12KIdx, side: side}
			}
			side++
		}
		if len(f.Names) == 0 {
			side++
		}
	}
	return c, ""
}

// c12LitCmp prepares the less function literal of sort.Slice(slice, func(i, j int) bool {...}).
func c12LitCmp(pk *packages.Package, s *c12Sort, name string) (*c12Cmp, string) {
	return c12SliceCmp(pk, s, name)
}

// c12SliceAliasRoot: if v is defined once in host as `v := T(w)` / `v := w`, it returns w.
func c12SliceAliasRoot(info *types.Info, host *FuncInfo, v types.Object) types.Object {
	if host == nil {
		return nil
	}
	var root types.Object
	n := 0
	ast.Inspect(host.Decl.Body, func(x ast.Node) bool {
		as, ok := x.(*ast.AssignStmt)
		if !ok || len(as.Lhs) != len(as.Rhs) {
			return true
		}
		for i, l := range as.Lhs {
			if objOf(info, l) == v {
				n++
				root = objOf(info, c12StripConv(info, as.Rhs[i]))
			}
		}
		return true
	})
	if n != 1 {
		return nil
	}
	return root
}

// parseLessChain derives the lexicographic chain implemented by a Less(i, j) method over a slice receiver. It does
// so by finite-domain evaluation (the truth table of Less over the relations between the fields it reads), so the
// answer does not depend on how the body is written. A step has tieOK=false when a tie of its field (for time
// fields: the same instant in a different representation) does not fall through to the following fields; strict is
// false on the last step when Less is true for elements that are equal on every field.
func parseLessChain(info *types.Info, fd *ast.FuncDecl) ([]chainStep, string) {
	pk := c12InfoPkg[info]
	if pk == nil {
		// without the package the interpreter cannot follow helper calls; everything else still works
		pk = &packages.Package{TypesInfo: info, Fset: token.NewFileSet()}
	}
	c, why := c12MethodCmp(pk, fd)
	if why != "" {
		return nil, why
	}
	t, why := c12BuildTable(c, nil)
	if why != "" {
		return nil, why
	}
	return c12InferChain(t, fd.Pos())
}

// c12SortedFields lists the table's variables in a stable order (diagnostics).
func c12SortedFields(t *c12Table) []string {
	var out []string
	for _, v := range t.vars {
		out = append(out, v.path)
	}
	sort.Strings(out)
	return out
}
