package rules

import (
	"fmt"
	"go/token"
	"strings"

	"osmcheck/core"
)

// ---------------------------------------------------------------------------------------------
// S3 structure of the action list

func (m *c13Model) secNil(st *c13State, sec int) (isNil, known bool) {
	t := m.x.eq(m.x.field(m.changeP, m.secFields[sec], 0), c13NilTerm)
	v, ok := st.pcIdx[t.key]
	return v, ok
}

// knownEmpty reports whether the path condition decides len(change.<sec>.<kind>) == 0.
func (m *c13Model) knownEmpty(st *c13State, sec, kind int) bool {
	x := m.x
	n := x.un(c13OpLen, x.field(x.field(m.changeP, m.secFields[sec], 0), m.osmFields[kind], 0))
	if v, ok := st.pcIdx[x.eq(n, c13Int(0)).key]; ok && v {
		return true
	}
	if v, ok := st.pcIdx[x.lt(c13Int(0), n).key]; ok && !v {
		return true
	}
	if v, ok := st.pcIdx[x.lt(n, c13Int(1)).key]; ok && v {
		return true
	}
	return false
}

func c13S3(r *core.R) {
	m := c13Load(r)
	if m == nil {
		return
	}
	x := m.x
	var agg c13Agg
	nSuccess := 0
	for _, p := range x.paths {
		if p.kind != "return" || len(p.res) != 2 || x.resolve(p.st, p.res[1]).op != c13OpNil {
			continue
		}
		nSuccess++
		var label []string
		var want [][2]int
		for s := range c13Secs {
			isNil, known := m.secNil(p.st, s)
			switch {
			case known && isNil:
				label = append(label, strings.ToLower(c13Secs[s].Field)+"=nil")
			default:
				label = append(label, strings.ToLower(c13Secs[s].Field)+"=set")
				for k := range c13Kinds {
					want = append(want, [2]int{s, k})
				}
			}
		}
		c := "actions@Change[" + strings.Join(label, ",") + "]"
		d := x.resolve(p.st, p.res[0])
		var acts *c13Term
		if d.op == c13OpAddr && d.args[0].op == c13OpLit && namedPath(d.args[0].typ) == c13OsmPath+".Diff" {
			acts = c13NilTerm
			for i, f := range d.args[0].keys {
				if f == m.diffActions {
					acts = d.args[0].args[i]
				}
			}
		}
		if acts == nil {
			agg.bad(c, p.pos, "a path returns without error but the result `%s` is not a *osm.Diff built by Change: the diff is lost", m.show(d))
			continue
		}
		// read the list back to its origin
		got, bad := m.actionChain(acts, 0)
		name := func(e [2]int) string { return c13Secs[e[0]].Field + "." + c13Kinds[e[1]].Elems }
		if bad == "" {
			var gs, ws []string
			for _, e := range got {
				gs = append(gs, name(e))
			}
			inGot := map[[2]int]bool{}
			for _, e := range got {
				inGot[e] = true
			}
			for _, e := range want {
				if !inGot[e] && m.knownEmpty(p.st, e[0], e[1]) {
					continue // the loop is skipped on a path on which its slice is known to be empty
				}
				ws = append(ws, name(e))
			}
			if strings.Join(gs, " ") != strings.Join(ws, " ") {
				bad = fmt.Sprintf("Diff.Actions is built from the loops [%s]; required for this change: [%s] (creates before modifies before deletes, nodes before ways before relations, every non-nil section, the list threaded through all of them)",
					strings.Join(gs, ", "), strings.Join(ws, ", "))
			}
		}
		if bad != "" {
			agg.bad(c, p.pos, "%s", bad)
		} else {
			agg.ok(c, p.pos, "Diff.Actions is an empty list extended by %d element loop(s) in the order create < modify < delete, nodes < ways < relations, covering exactly the non-nil sections; nothing is appended outside them", len(got))
		}
	}
	if nSuccess == 0 {
		agg.bad("actions@Change", m.change.Decl.Pos(), "annotate.Change has no path that returns without error")
	}
	r.Stat("success_paths", nSuccess)
	// exactly one action per element
	seen := map[[2]int]bool{}
	for _, el := range m.eloops {
		seen[[2]int{el.sec, el.kind}] = true
		c := "one-action@" + el.name()
		bad := ""
		var bpos token.Pos = el.l.stmt.Pos()
		nIter, nExit := 0, 0
		for _, p := range el.paths {
			if !m.feasiblePath(p) {
				continue
			}
			o := m.outcome(p)
			switch o {
			case "create", "update":
				nIter++
			case "typed", "pass", "other-error", "typed-nil":
				nExit++
				if e := x.resolve(p.st, p.res[len(p.res)-1]); !x.nonNil(p.st, e) {
					bad = fmt.Sprintf("the iteration leaves annotate.Change with the error value `%s`, which is not known to be non-nil (path conditions: %s): the remaining elements may silently get no action", m.show(e), m.conds(p))
					bpos = p.pos
				}
			default:
				if p.accBad != "" {
					bad = p.accBad
				} else {
					bad = fmt.Sprintf("a path through the iteration over change.%s.%s %s (path conditions: %s): every element must get exactly one action unless an error is returned", c13Secs[el.sec].Field, c13Kinds[el.kind].Elems, c13OutcomeText(o), m.conds(p))
				}
				bpos = p.pos
			}
		}
		if bad != "" {
			agg.bad(c, bpos, "%s", bad)
		} else {
			agg.ok(c, bpos, "each of the %d path(s) to the next iteration appends exactly one action; the %d other path(s) leave Change with a non-nil error; no break", nIter, nExit)
		}
	}
	for s := range c13Secs {
		for k := range c13Kinds {
			if !seen[[2]int{s, k}] {
				agg.bad("one-action@"+c13Secs[s].Field+"/"+c13Kinds[k].Elem, m.change.Decl.Pos(), "no loop over change.%s.%s is executed: these elements get no action", c13Secs[s].Field, c13Kinds[k].Elems)
			}
		}
	}
	agg.emit(r)
}
