package rules

import (
	"go/ast"
	"go/types"
)

// ---------------------------------------------------------------- call environments

// c15Env says in which function an expression is written and how that function was reached.
type c15Env struct {
	fn     *c15Fn
	bind   map[types.Object]c15Bound // parameter / receiver -> argument expression
	parent *c15Env                   // the environment of the calling function
	call   *ast.CallExpr             // the call in parent.fn that leads here
	lex    *c15Env                   // for a function literal: the environment it was written in (captured variables)
}

// c15Bound is an argument expression together with the environment it is written in. For a direct call that is
// the caller; for a call through a function value (`apply(u)` with apply bound to the method value `w.applyUpdate`)
// the receiver is written where the method value was formed, the arguments where the call is.
type c15Bound struct {
	expr ast.Expr
	env  *c15Env
}

func (w *c15World) rootEnv(f *c15Fn) *c15Env { return &c15Env{fn: f} }

func (e *c15Env) root() *c15Env {
	for e.parent != nil {
		e = e.parent
	}
	return e
}

func (e *c15Env) depth() int {
	n := 0
	for x := e; x.parent != nil; x = x.parent {
		n++
	}
	return n
}

// scope returns the environment in which object ob, mentioned in env.fn, has to be interpreted: env itself, or for
// a variable captured by a function literal the environment the literal was written in.
func (e *c15Env) scope(ob types.Object) *c15Env {
	for e.lex != nil && ob != nil && !(e.fn.fi.Decl.Pos() <= ob.Pos() && ob.Pos() < e.fn.fi.Decl.End()) {
		e = e.lex
	}
	return e
}

// lookup returns the argument bound to parameter ob of env.fn.
func (e *c15Env) lookup(ob types.Object) (c15Bound, bool) {
	if e == nil || ob == nil {
		return c15Bound{}, false
	}
	b, ok := e.bind[ob]
	return b, ok && b.env != nil
}

// childEnv binds the receiver and the parameters of callee to the argument expressions of a direct call.
// Parameters that the callee reassigns are not bound.
func (w *c15World) childEnv(env *c15Env, call *ast.CallExpr, callee *c15Fn) *c15Env {
	ce := &c15Env{fn: callee, bind: map[types.Object]c15Bound{}, parent: env, call: call}
	if sel, ok := ast.Unparen(call.Fun).(*ast.SelectorExpr); ok {
		if s := w.info.Selections[sel]; s != nil && s.Kind() == types.MethodVal {
			w.bindRecv(ce, c15Bound{expr: sel.X, env: env})
		}
	}
	w.bindArgs(ce, env, call)
	return ce
}

func (w *c15World) bindRecv(ce *c15Env, recv c15Bound) {
	fd := ce.fn.fi.Decl
	if fd.Recv != nil && len(fd.Recv.List) == 1 && len(fd.Recv.List[0].Names) == 1 {
		if o := w.info.Defs[fd.Recv.List[0].Names[0]]; o != nil && len(ce.fn.defs[o]) == 0 {
			ce.bind[o] = recv
		}
	}
}

func (w *c15World) bindArgs(ce *c15Env, env *c15Env, call *ast.CallExpr) {
	callee := ce.fn
	sig := callee.fi.Obj.Type().(*types.Signature)
	i := 0
	for _, fld := range callee.fi.Decl.Type.Params.List {
		for _, nm := range fld.Names {
			variadic := sig.Variadic() && i == sig.Params().Len()-1
			if i < len(call.Args) && !variadic && !call.Ellipsis.IsValid() {
				if o := w.info.Defs[nm]; o != nil && len(callee.defs[o]) == 0 {
					ce.bind[o] = c15Bound{expr: call.Args[i], env: env}
				}
			}
			i++
		}
	}
}

// calleeOf resolves the function of package osm that `call` (written in env.fn) invokes, and the environment of
// its body: a direct call; or a call through a function value that is a parameter bound at the call site of env.fn
// or a local with a single definition, when the value is a method value (`w.applyUpdate`), the name of a function,
// or a function literal. The callee is "inlined" with the value bound: its receiver / captured variables are
// interpreted where the value was formed, its arguments where the call is.
func (w *c15World) calleeOf(env *c15Env, call *ast.CallExpr) (*c15Fn, *c15Env) {
	if f := w.samePkgCallee(call); f != nil {
		return f, w.childEnv(env, call, f)
	}
	if tv, ok := w.info.Types[call.Fun]; ok && tv.IsType() {
		return nil, nil
	}
	if env.depth() > 6 {
		return nil, nil
	}
	fenv, fe := w.resolveFuncValue(env, call.Fun)
	switch x := fe.(type) {
	case *ast.SelectorExpr:
		s := w.info.Selections[x]
		if s == nil || s.Kind() != types.MethodVal {
			return nil, nil
		}
		fn, _ := s.Obj().(*types.Func)
		if fn == nil || fn.Pkg() != w.pk.Types {
			return nil, nil
		}
		f := w.fn(fn)
		if f == nil {
			return nil, nil
		}
		ce := &c15Env{fn: f, bind: map[types.Object]c15Bound{}, parent: env, call: call}
		w.bindRecv(ce, c15Bound{expr: x.X, env: fenv})
		w.bindArgs(ce, env, call)
		return f, ce
	case *ast.Ident:
		fn, _ := w.info.Uses[x].(*types.Func)
		if fn == nil || fn.Pkg() != w.pk.Types {
			return nil, nil
		}
		f := w.fn(fn)
		if f == nil {
			return nil, nil
		}
		ce := &c15Env{fn: f, bind: map[types.Object]c15Bound{}, parent: env, call: call}
		w.bindArgs(ce, env, call)
		return f, ce
	case *ast.FuncLit:
		f := w.litFn(x)
		if f == nil {
			return nil, nil
		}
		ce := &c15Env{fn: f, bind: map[types.Object]c15Bound{}, parent: env, call: call, lex: fenv}
		w.bindArgs(ce, env, call)
		return f, ce
	}
	return nil, nil
}

// resolveFuncValue follows a function-typed identifier through parameter bindings and single definitions to the
// expression that forms the value, with the environment that expression is written in.
func (w *c15World) resolveFuncValue(env *c15Env, e ast.Expr) (*c15Env, ast.Expr) {
	for i := 0; i < 10; i++ {
		e = ast.Unparen(e)
		id, ok := e.(*ast.Ident)
		if !ok {
			break
		}
		ob := objOf(w.info, id)
		if _, isVar := ob.(*types.Var); !isVar {
			break
		}
		env = env.scope(ob)
		if b, ok := env.lookup(ob); ok {
			env, e = b.env, b.expr
			continue
		}
		if d := env.fn.singleDef(ob); d != nil {
			e = d
			continue
		}
		break
	}
	return env, e
}

// litFn returns the analysed form of a function literal (its own CFG; captured variables resolve through c15Env.lex).
func (w *c15World) litFn(lit *ast.FuncLit) *c15Fn {
	if f, ok := w.lits[lit]; ok {
		return f
	}
	sig, _ := w.info.TypeOf(lit).(*types.Signature)
	if sig == nil || lit.Body == nil {
		w.lits[lit] = nil
		return nil
	}
	decl := &ast.FuncDecl{Name: &ast.Ident{NamePos: lit.Pos(), Name: "func literal"}, Type: lit.Type, Body: lit.Body}
	obj := types.NewFunc(lit.Pos(), w.pk.Types, "func literal at "+w.r.P.Rel(lit.Pos()), sig)
	f := &c15Fn{w: w, fi: &FuncInfo{Pkg: w.pk, Decl: decl, Obj: obj}}
	f.g = newCFG(w.info, lit.Body)
	f.dom = dominators(f.g)
	f.par = parentsOf(w.r.P, f.fi)
	f.computeDefs()
	w.lits[lit] = f
	return f
}

// samePkgCallee returns the analysed callee of a static call into package osm (nil otherwise).
func (w *c15World) samePkgCallee(call *ast.CallExpr) *c15Fn {
	fn := callee(w.info, call)
	if fn == nil || fn.Pkg() != w.pk.Types {
		return nil
	}
	return w.fn(fn)
}
