package rules

import (
	"fmt"
	"go/token"
	"go/types"

	"osmcheck/core"
)

// c03ActionRead is what osm.(*Action).UnmarshalXML does with a child element of one name.
type c03ActionRead struct {
	Label  string
	GoPath string // field path below Action that holds the decoded object at the end of the iteration ("Old", "OSM.Nodes")
	Why    string // non-empty: the case is malformed
	Pos    token.Pos
	Start  string // non-empty: DecodeElement does not get the start element just read
	Call   *c03Event
	Raw    string // the Action field the object was found in directly, even when its tag disagrees
}

// c03ActionModel is the observed behaviour of osm.(*Action).UnmarshalXML.
type c03ActionModel struct {
	un       *FuncInfo
	recv     *types.Var
	start    *types.Var
	actNT    *types.Named
	osmNT    *types.Named
	AttrRead map[string]string         // attribute name -> Action field that receives its value
	AttrPos  map[string]token.Pos      // where the attributes are ranged over
	AttrSeen map[string]bool           // the attribute list of the start element is ranged over in that scenario
	Elems    map[string]*c03ActionRead // child element name -> what is done with it
	Labels   []string
	aborted  string
}

// c03BuildActionModel explores Action.UnmarshalXML once per attribute name and once per child element name.
func c03BuildActionModel(r *core.R, extraAttrs, extraElems []string) *c03ActionModel {
	pk := c03OsmPkg(r.P)
	actNT, _ := structType(pk, "Action")
	osmNT, _ := structType(pk, "OSM")
	var un *FuncInfo
	if actNT != nil {
		un = c03FuncInfoOf(r.P, c03Method(actNT, "UnmarshalXML"))
	}
	if actNT == nil || osmNT == nil || un == nil {
		r.Anchor("osm.(*Action).UnmarshalXML")
		return nil
	}
	sig := un.Obj.Type().(*types.Signature)
	if sig.Params().Len() != 2 || sig.Recv() == nil {
		r.Anchor("osm.(*Action).UnmarshalXML(d *xml.Decoder, start xml.StartElement)")
		return nil
	}
	m := &c03ActionModel{un: un, recv: sig.Recv(), start: sig.Params().At(1), actNT: actNT, osmNT: osmNT,
		AttrRead: map[string]string{}, AttrPos: map[string]token.Pos{}, AttrSeen: map[string]bool{}, Elems: map[string]*c03ActionRead{}}
	consts := c03CompareStrings(r.P, un)
	actST := actNT.Underlying().(*types.Struct)
	osmST := osmNT.Underlying().(*types.Struct)

	// --- attributes
	for _, a := range c03SortedLabels(consts, extraAttrs) {
		x := c03NewDecoderInterp(r.P, c03Scenario{Attr: a})
		paths := x.Run(un, nil)
		c03DumpPaths(r.P, un, "attribute "+a, paths)
		if x.Aborted != "" {
			m.aborted = x.Aborted
		}
		field, consistent := "", true
		for _, pa := range paths {
			// the start element carries attributes (scenario): whatever form the loop over them has (range, index
			// loop, helper), every path went through it
			m.AttrSeen[a] = true
			isAttrValue := func(v *c03V) bool {
				if v.K != c03KInit || v.Root.Kind != "elem" || v.Root.Of == nil || len(v.Path) != 1 || v.Path[0].Name() != "Value" {
					return false
				}
				of := v.Root.Of
				return of.IsInit("param") && of.Root.Obj == m.start && len(of.Path) == 1 && of.Path[0].Name() == "Attr"
			}
			got := ""
			rv := pa.St.Var(m.recv)
			for i := 0; i < actST.NumFields(); i++ {
				f := actST.Field(i)
				v := x.field(pa.St, rv, f, un.Decl, nil)
				if isAttrValue(v) {
					got = f.Name()
				}
			}
			if field != "" && got != field {
				consistent = false
			}
			if got == "" {
				consistent = false
			}
			if got != "" {
				field = got
			}
		}
		if field != "" && consistent {
			m.AttrRead[a] = field
		} else if field != "" {
			m.AttrRead[a] = "?" + field
		}
	}

	// --- child elements
	m.Labels = c03SortedLabels(consts, extraElems)
	for _, l := range m.Labels {
		x := c03NewDecoderInterp(r.P, c03Scenario{Elem: l})
		paths := x.Run(un, nil)
		c03DumpPaths(r.P, un, "element "+l, paths)
		if x.Aborted != "" {
			m.aborted = x.Aborted
		}
		var okRead, badRead, errOnly *c03ActionRead
		startWhy := ""
		for _, pa := range paths {
			it := c03Digest(x, pa)
			if it.assert == nil || it.ok != triT || len(it.decode) == 0 {
				continue
			}
			cur := &c03ActionRead{Label: l, Pos: it.decode[0].Node.Pos(), Call: it.decode[0]}
			if ok, why := it.startJustRead(it.decode[0]); !ok && startWhy == "" {
				startWhy = why
			}
			if it.again == nil {
				// the iteration left the function (decode error): nothing to require of the stores
				if errOnly == nil {
					errOnly = cur
				}
				continue
			}
			if len(it.decode) > 1 {
				cur.Why = "more than one DecodeElement call for one child element"
			} else if obj, vt, why := c03DecodeTarget(it.decode[0]); why != "" {
				cur.Why = why
			} else {
				cur.GoPath, cur.Why, cur.Raw = m.locate(x, pa.St, obj, vt, l, actST, osmST)
			}
			if cur.Why == "" && okRead == nil {
				okRead = cur
			}
			if cur.Why != "" && badRead == nil {
				badRead = cur
			}
		}
		rd := badRead
		if rd == nil {
			rd = okRead
		}
		if rd == nil && errOnly != nil {
			rd = errOnly
			rd.Why = "the decoded element is never kept: every path that decodes <" + l + "> leaves UnmarshalXML"
		}
		if rd != nil {
			rd.Start = startWhy
			m.Elems[l] = rd
		}
	}
	return m
}

// locate finds where in the receiver the decoded object ended up and checks it against the tags.
func (m *c03ActionModel) locate(x *c03Interp, st *c03State, obj *c03V, vt types.Type, label string, actST, osmST *types.Struct) (goPath, why, raw string) {
	rv := st.Var(m.recv)
	actTI, osmTI := c03XMLTypeInfo(m.actNT), c03XMLTypeInfo(m.osmNT)
	id := obj.Ident()
	rawF := ""
	if ti := c03XMLTypeInfo(vt); ti != nil && ti.XMLName != nil && ti.XMLName.Name != "" && ti.XMLName.Name != label {
		return "", fmt.Sprintf("<%s> is decoded into %s whose XMLName is %q: DecodeElement fails with \"expected element type <%s>\"", label, c03Short(c03Deref(vt)), ti.XMLName.Name, ti.XMLName.Name), rawF
	}
	for i := 0; i < actST.NumFields(); i++ {
		f := actST.Field(i)
		v := x.field(st, rv, f, m.un.Decl, nil)
		if v.Ident() == id {
			rawF = f.Name()
			xf := actTI.FieldOf(f)
			if f.Embedded() {
				return "", fmt.Sprintf("<%s> is decoded into the embedded Action.%s as a whole", label, f.Name()), rawF
			}
			if xf == nil || xf.Kind != c03Elem || xf.Name != label {
				got := "untagged"
				if xf != nil {
					got = "`" + c03TagOf(xf) + "`"
				}
				return "", fmt.Sprintf("<%s> is decoded into Action.%s, which is tagged %s: the hand-written decoder and the tag (and Action.MarshalXML, which writes Action.%s as <%s>) disagree", label, f.Name(), got, f.Name(), c03NameOr(xf)), rawF
			}
			if !types.Identical(c03Deref(f.Type()), m.osmNT) {
				return "", fmt.Sprintf("Action.%s is not an OSM body", f.Name()), rawF
			}
			return f.Name(), "", rawF
		}
		if !types.Identical(c03Deref(f.Type()), m.osmNT) {
			continue
		}
		if v.K == c03KNil || (v.K != c03KPtr && v.K != c03KStruct && v.K != c03KInit) || st.Zero(v) == triT {
			continue
		}
		for j := 0; j < osmST.NumFields(); j++ {
			g := osmST.Field(j)
			gv := x.field(st, v, g, m.un.Decl, nil)
			hit := gv.Ident() == id
			if gv.K == c03KList {
				for _, e := range gv.Elems {
					if e.Ident() == id {
						hit = true
					}
				}
			}
			if !hit {
				continue
			}
			xf := osmTI.FieldOf(g)
			switch {
			case xf == nil || xf.Kind != c03Elem:
				return "", fmt.Sprintf("OSM.%s is not an element field", g.Name()), rawF
			case xf.Name != label:
				return "", fmt.Sprintf("<%s> is stored into OSM.%s, which is tagged %q (and written back as <%s>)", label, g.Name(), xf.Name, xf.Name), rawF
			case !types.Identical(c03ElemType(xf.Var.Type()), c03Deref(vt)):
				return "", fmt.Sprintf("<%s> is decoded into %s but OSM.%s holds %s", label, c03Short(c03Deref(vt)), g.Name(), c03Short(c03ElemType(xf.Var.Type()))), rawF
			}
			if why := c03ActionAccumulates(x, st, rv, f, g, v, gv, label); why != "" {
				return "", why, rawF
			}
			return f.Name() + "." + g.Name(), "", rawF
		}
	}
	return "", fmt.Sprintf("the decoded <%s> (%s) is not held by a field of the action (directly, or in a field of the OSM value stored in one) when the iteration ends: it is lost, or stored in a way the analysis cannot follow", label, c03Short(c03Deref(vt))), rawF
}
