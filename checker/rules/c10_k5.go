package rules

import (
	"fmt"
	"go/ast"
	"go/token"
	"go/types"
	"sort"
	"strings"

	"osmcheck/core"
)

// Separators of the textual form kind/ref[:version] as the property states it.
const (
	c10Sep1 = "/"
	c10Sep2 = ":"
)

const c10UnknownKindText = "\x00c10-not-a-kind"

type c10Def struct {
	rhs ast.Expr
	idx int // >= 0: idx-th value of a multi-value right-hand side
	at  ast.Node
}

type c10Parser struct {
	m        *c10Model
	fi       *FuncInfo
	packed   string
	strFi    *FuncInfo
	param    types.Object
	defs     map[types.Object][]c10Def
	zeroDecl map[types.Object]bool
	par      map[ast.Node]ast.Node
	dash     string // literal String() prints instead of version 0 ("" when none)
	kindText string // hook input
	hookDeep int
}

func c10K5(r *core.R) {
	m := c10Load(r)
	if m == nil {
		return
	}
	for _, packed := range []string{"ObjectID", "ElementID", "FeatureID"} {
		fi := findFunc(m.pk, "Parse"+packed)
		if fi == nil {
			r.Anchor("Parse" + packed)
			continue
		}
		sig := fi.Obj.Type().(*types.Signature)
		if sig.Params().Len() != 1 || sig.Results().Len() != 2 || m.localName(sig.Results().At(0).Type()) != packed || !c10IsError(sig.Results().At(1).Type()) {
			r.Anchor("Parse" + packed + " as func(string) (" + packed + ", error)")
			continue
		}
		p := &c10Parser{m: m, fi: fi, packed: packed, strFi: m.method(packed, "String"), param: sig.Params().At(0),
			defs: map[types.Object][]c10Def{}, zeroDecl: map[types.Object]bool{}, par: parentsOf(r.P, fi)}
		if p.strFi == nil {
			r.Anchor(packed + ".String")
			continue
		}
		p.collectDefs()
		p.checkFormat()
		p.checkErrors()
		p.checkArity()
		p.checkVersionPart()
		p.checkRoundTrip()
	}
	r.Stat("inlined_calls", m.ev.Inlined)
}

func c10IsError(t types.Type) bool {
	nt, ok := t.(*types.Named)
	return ok && nt.Obj().Pkg() == nil && nt.Obj().Name() == "error"
}

func (p *c10Parser) name() string { return p.fi.Name() }

func (p *c10Parser) collectDefs() {
	info := p.m.info
	obj := func(e ast.Expr) types.Object {
		id, ok := ast.Unparen(e).(*ast.Ident)
		if !ok || id.Name == "_" {
			return nil
		}
		if o := info.Defs[id]; o != nil {
			return o
		}
		return info.Uses[id]
	}
	ast.Inspect(p.fi.Decl.Body, func(n ast.Node) bool {
		switch x := n.(type) {
		case *ast.AssignStmt:
			for i, l := range x.Lhs {
				o := obj(l)
				if o == nil {
					continue
				}
				switch {
				case x.Tok != token.DEFINE && x.Tok != token.ASSIGN:
					p.defs[o] = append(p.defs[o], c10Def{rhs: x.Rhs[0], idx: -1, at: x}, c10Def{rhs: x.Rhs[0], idx: -1, at: x})
				case len(x.Rhs) == len(x.Lhs):
					p.defs[o] = append(p.defs[o], c10Def{rhs: x.Rhs[i], idx: -1, at: x})
				case len(x.Rhs) == 1:
					p.defs[o] = append(p.defs[o], c10Def{rhs: x.Rhs[0], idx: i, at: x})
				}
			}
		case *ast.IncDecStmt:
			if o := obj(x.X); o != nil {
				p.defs[o] = append(p.defs[o], c10Def{rhs: x.X, idx: -1, at: x}, c10Def{rhs: x.X, idx: -1, at: x})
			}
		case *ast.ValueSpec:
			for i, nm := range x.Names {
				o := info.Defs[nm]
				if o == nil {
					continue
				}
				if len(x.Values) == 0 {
					p.zeroDecl[o] = true
				} else if len(x.Values) == len(x.Names) {
					p.defs[o] = append(p.defs[o], c10Def{rhs: x.Values[i], idx: -1, at: x})
				}
			}
		case *ast.RangeStmt:
			for _, e := range []ast.Expr{x.Key, x.Value} {
				if e != nil {
					if o := obj(e); o != nil {
						p.defs[o] = append(p.defs[o], c10Def{rhs: x.X, idx: -1, at: x}, c10Def{rhs: x.X, idx: -1, at: x})
					}
				}
			}
		}
		return true
	})
}

// origin describes where the value of e comes from, following locals with a single definition.
func (p *c10Parser) origin(e ast.Expr, depth int) string {
	info := p.m.info
	if depth > 16 {
		return "?deep"
	}
	e = ast.Unparen(e)
	if s, ok := constString(info, e); ok {
		return fmt.Sprintf("%q", s)
	}
	if v, ok := constInt(info, e); ok {
		return fmt.Sprint(v)
	}
	switch x := e.(type) {
	case *ast.Ident:
		o := objOf(info, x)
		if o == types.Object(p.param) {
			return "arg"
		}
		ds := p.defs[o]
		if len(ds) != 1 {
			return fmt.Sprintf("?%s(%d definitions)", x.Name, len(ds))
		}
		s := p.origin(ds[0].rhs, depth+1)
		if ds[0].idx >= 0 {
			s += fmt.Sprintf("#%d", ds[0].idx)
		}
		return s
	case *ast.IndexExpr:
		if k, ok := constInt(info, x.Index); ok {
			return p.origin(x.X, depth+1) + fmt.Sprintf("[%d]", k)
		}
		return "?index"
	case *ast.CallExpr:
		if ftv, ok := info.Types[x.Fun]; ok && ftv.IsType() && len(x.Args) == 1 {
			return p.origin(x.Args[0], depth+1)
		}
		fn := callee(info, x)
		switch {
		case isPkgFunc(fn, "strings", "Split") && len(x.Args) == 2:
			if sep, ok := constString(info, x.Args[1]); ok {
				return fmt.Sprintf("split(%s,%q)", p.origin(x.Args[0], depth+1), sep)
			}
		case isPkgFunc(fn, "strconv", "ParseInt") && len(x.Args) == 3:
			if base, ok := constInt(info, x.Args[1]); ok {
				return fmt.Sprintf("parseint%d(%s)", base, p.origin(x.Args[0], depth+1))
			}
		case isPkgFunc(fn, "strconv", "Atoi") && len(x.Args) == 1:
			return fmt.Sprintf("parseint10(%s)#0", p.origin(x.Args[0], depth+1))
		}
		if fn != nil {
			return "?call " + fn.FullName()
		}
	}
	return "?"
}

func (p *c10Parser) split1() string { return fmt.Sprintf("split(arg,%q)", c10Sep1) }
func (p *c10Parser) split2() string {
	return fmt.Sprintf("split(%s[1],%q)", p.split1(), c10Sep2)
}
func (p *c10Parser) typeOrigin() string { return p.split1() + "[0]" }
func (p *c10Parser) refOrigin() string {
	if p.packed == "FeatureID" {
		return "parseint10(" + p.split1() + "[1])#0"
	}
	return "parseint10(" + p.split2() + "[0])#0"
}
func (p *c10Parser) verOrigin() string {
	if p.packed == "FeatureID" {
		return "-"
	}
	return "parseint10(" + p.split2() + "[1])#0"
}

// hook feeds the abstract inputs into the parser's expressions by provenance.
func (p *c10Parser) hook(e ast.Expr) (c10Val, bool) {
	m := p.m
	if p.hookDeep > 24 {
		return c10Val{}, false
	}
	p.hookDeep++
	defer func() { p.hookDeep-- }()
	t := m.info.TypeOf(e)
	switch p.origin(e, 0) {
	case p.typeOrigin():
		return c10StrVal(p.kindText), true
	case p.refOrigin():
		return m.refInput(t), true
	case p.verOrigin():
		return m.verInput(t), true
	}
	if id, ok := e.(*ast.Ident); ok {
		ds := p.defs[objOf(m.info, id)]
		if len(ds) == 1 {
			v := m.ev.expr(ds[0].rhs, c10Env{}, 0)
			if ds[0].idx >= 0 {
				if v.K == c10VTuple && ds[0].idx < len(v.Args) {
					return v.Args[ds[0].idx], true
				}
				return m.ev.unknownOf(t, "value #"+fmt.Sprint(ds[0].idx)+" of "+c10Src(m.r, ds[0].rhs)+" is not tracked ("+v.Why+")"), true
			}
			return v, true
		}
	}
	return c10Val{}, false
}

// ---------------------------------------------------------------------------
// String() format

// c10ParseFormat splits a format into plain verbs and the literals around them.
func c10ParseFormat(f string) (verbs []byte, lits []string, ok bool) {
	cur := ""
	for i := 0; i < len(f); i++ {
		if f[i] != '%' {
			cur += string(f[i])
			continue
		}
		if i+1 >= len(f) || !(f[i+1] >= 'a' && f[i+1] <= 'z') {
			return nil, nil, false
		}
		verbs = append(verbs, f[i+1])
		lits = append(lits, cur)
		cur = ""
		i++
	}
	lits = append(lits, cur)
	return verbs, lits, true
}

func (p *c10Parser) checkFormat() {
	m, r := p.m, p.m.r
	sname := p.strFi.Name()
	pos := p.strFi.Decl.Pos()
	recvT := p.strFi.Obj.Type().(*types.Signature).Recv().Type()
	dashes := map[string]bool{}
	for _, k := range m.kindsOf(p.packed) {
		c := "format@" + sname + " kind=" + k.Name
		in := m.inputOf(p.packed, k)
		outs := m.ev.call(p.strFi.Decl, ptrVal(c10IntVal(m.vecOf(recvT, in))), nil, 1)
		verLanes := !c10VerOf(in).sameLanes(c10ConstVec(0, 64, true))
		wantOuts := 1
		if verLanes {
			wantOuts = 2
		}
		bad, unk := "", ""
		var forms []string
		for _, o := range outs {
			switch {
			case o.Unsupported != "":
				unk = sname + " is outside the interpreted statement forms: " + o.Unsupported
				continue
			case o.Panic:
				bad = sname + " panics for a " + k.Name + " id"
				continue
			case len(o.Res) != 1 || o.Res[0].K != c10VFmt:
				unk = sname + " does not return fmt.Sprintf(constant format, ...)"
				continue
			}
			fv := o.Res[0]
			verbs, lits, ok := c10ParseFormat(fv.S)
			if !ok || len(verbs) != len(fv.Args) || len(verbs) < 2 || len(verbs) > 3 {
				bad = fmt.Sprintf("format %q is not kind%sref[%sversion] with plain verbs", fv.S, c10Sep1, c10Sep2)
				continue
			}
			form := ""
			switch {
			case lits[0] != "" || !strings.ContainsRune("sv", rune(verbs[0])) || !strings.ContainsRune("dv", rune(verbs[1])):
				bad = fmt.Sprintf("format %q does not start with the kind (%%s) followed by the decimal reference (%%d)", fv.S)
			case lits[1] != c10Sep1:
				bad = fmt.Sprintf("format %q separates kind and reference by %q; the parser splits on %q", fv.S, lits[1], c10Sep1)
			case len(verbs) == 2 && lits[2] == "":
				form = "A"
			case len(verbs) == 2:
				if !strings.HasPrefix(lits[2], c10Sep2) || len(lits[2]) == len(c10Sep2) || strings.Contains(lits[2][len(c10Sep2):], c10Sep2) {
					bad = fmt.Sprintf("format %q ends in %q, which is not %q plus a no-version marker", fv.S, lits[2], c10Sep2)
				} else {
					form = "B"
					dashes[lits[2][len(c10Sep2):]] = true
				}
			case lits[2] != c10Sep2 || lits[3] != "" || !strings.ContainsRune("dv", rune(verbs[2])):
				bad = fmt.Sprintf("format %q does not separate reference and decimal version by exactly %q; the parser splits on %q", fv.S, lits[2], c10Sep2)
			default:
				form = "C"
			}
			if form == "" {
				continue
			}
			forms = append(forms, form)
			// arguments
			if a := fv.Args[0]; a.K != c10VStr || a.S != m.typeText(k) {
				bad = fmt.Sprintf("the kind printed for a %s id is %s, must be %q", k.Name, a, m.typeText(k))
			}
			if a := fv.Args[1]; a.K != c10VInt || !a.V.sameLanes(c10RefOf(in)) {
				bad = fmt.Sprintf("the reference printed is %s, must be %s", a, c10RefOf(in))
			}
			if form == "C" {
				if a := fv.Args[2]; a.K != c10VInt || !a.V.sameLanes(c10VerOf(in)) {
					bad = fmt.Sprintf("the version printed is %s, must be %s", a, c10VerOf(in))
				}
			}
			// path condition
			switch {
			case !verLanes || p.packed == "FeatureID":
				if len(o.Conds) != 0 {
					unk = "the format depends on an undecided condition"
				}
				if p.packed == "FeatureID" && form != "A" || p.packed != "FeatureID" && form != "B" {
					bad = fmt.Sprintf("format %q is used for an id without version", fv.S)
				}
			case len(o.Conds) != 1:
				bad = fmt.Sprintf("format %q is chosen under %d undecided conditions; required: exactly `Version() == 0`", fv.S, len(o.Conds))
			default:
				pc := o.Conds[0]
				cm := pc.Cond.Cmp
				isVerZero := cm != nil && cm.Op == token.EQL && cm.L.K == c10VInt && cm.R.K == c10VInt &&
					((cm.L.V.sameLanes(c10VerOf(in)) && c10IsZero(cm.R.V)) || (cm.R.V.sameLanes(c10VerOf(in)) && c10IsZero(cm.L.V)))
				if !isVerZero {
					bad = fmt.Sprintf("format %q is chosen by a test other than `version == 0`: the text then parses back to another version", fv.S)
				} else if assumesZero := pc.Taken != cm.Neg; assumesZero != (form == "B") {
					bad = fmt.Sprintf("format %q is used when the version is %s zero: the text parses back to another version", fv.S, map[bool]string{true: "", false: "not"}[assumesZero])
				}
			}
		}
		sort.Strings(forms)
		if bad == "" && unk == "" && len(outs) != wantOuts {
			bad = fmt.Sprintf("%s has %d textual forms for a %s id, expected %d", sname, len(outs), k.Name, wantOuts)
		}
		if strings.Contains(m.typeText(k), c10Sep1) || strings.Contains(m.typeText(k), c10Sep2) {
			bad = fmt.Sprintf("kind text %q contains a separator", m.typeText(k))
		}
		switch {
		case bad != "":
			r.Bad(c, pos, "%s", bad)
		case unk != "":
			r.Unknown(c, pos, "%s", unk)
		default:
			r.OK(c, pos, "prints %q%sref[%sversion|marker] (forms %s) with kind = Type(), ref = Ref(), version = Version() of the K2 id; marker form exactly when version == 0", m.typeText(k), c10Sep1, c10Sep2, strings.Join(forms, ","))
		}
	}
	if len(dashes) == 1 {
		for d := range dashes {
			p.dash = d
		}
	}
}

func c10IsZero(v c10Vec) bool { u, ok := v.constant(); return ok && u == 0 }

// ---------------------------------------------------------------------------
// error handling

func (p *c10Parser) nonNilError(e ast.Expr, errObj types.Object) bool {
	e = ast.Unparen(e)
	if call, ok := e.(*ast.CallExpr); ok {
		fn := callee(p.m.info, call)
		return isPkgFunc(fn, "fmt", "Errorf") || isPkgFunc(fn, "errors", "New")
	}
	return errObj != nil && objOf(p.m.info, e) == errObj
}

func (p *c10Parser) isNilIdent(e ast.Expr) bool {
	_, ok := objOf(p.m.info, e).(*types.Nil)
	return ok
}

// errTest recognises `E != nil` and returns E.
func (p *c10Parser) errTest(cond ast.Expr) types.Object {
	be, ok := ast.Unparen(cond).(*ast.BinaryExpr)
	if !ok || be.Op != token.NEQ {
		return nil
	}
	switch {
	case p.isNilIdent(be.Y):
		return objOf(p.m.info, be.X)
	case p.isNilIdent(be.X):
		return objOf(p.m.info, be.Y)
	}
	return nil
}

func (p *c10Parser) checkErrors() {
	m, r := p.m, p.m.r
	info := m.info
	helpers := map[*types.Func]*ast.CallExpr{}
	var calls []*ast.CallExpr
	inspectNoLit(p.fi.Decl.Body, func(n ast.Node) bool {
		call, ok := n.(*ast.CallExpr)
		if !ok {
			return true
		}
		if ftv, ok := info.Types[call.Fun]; ok && ftv.IsType() {
			return true
		}
		var last types.Type
		switch t := info.TypeOf(call).(type) {
		case *types.Tuple:
			if t.Len() > 0 {
				last = t.At(t.Len() - 1).Type()
			}
		default:
			last = t
		}
		if last == nil || !c10IsError(last) {
			return true
		}
		fn := callee(info, call)
		if isPkgFunc(fn, "fmt", "Errorf") || isPkgFunc(fn, "errors", "New") {
			return true
		}
		calls = append(calls, call)
		if fn != nil && m.ev.decls[fn] != nil {
			helpers[fn] = call
		}
		return true
	})
	for _, call := range calls {
		fn := callee(info, call)
		cn := "call"
		if fn != nil {
			cn = funcName(fn)
			if fn.Pkg() != nil && fn.Pkg() != m.pk.Types {
				cn = fn.Pkg().Name() + "." + cn
			}
		}
		c := "errors@" + p.name() + " " + cn
		var errObj types.Object
		var test *ast.IfStmt
		switch par := p.par[call].(type) {
		case *ast.AssignStmt:
			if len(par.Rhs) != 1 {
				r.Unknown(c, call.Pos(), "error-returning call in a parallel assignment")
				continue
			}
			lastL := par.Lhs[len(par.Lhs)-1]
			if id, ok := lastL.(*ast.Ident); ok && id.Name == "_" {
				r.Bad(c, call.Pos(), "the error of `%s` is discarded: malformed text yields the zero value and is parsed into a wrong id instead of an error", c10Src(r, call))
				continue
			}
			errObj = objOf(info, lastL)
			switch gp := p.par[par].(type) {
			case *ast.IfStmt:
				if gp.Init == par {
					test = gp
				}
			case *ast.BlockStmt:
				for i, s := range gp.List {
					if s == ast.Stmt(par) && i+1 < len(gp.List) {
						if ifs, ok := gp.List[i+1].(*ast.IfStmt); ok && ifs.Init == nil {
							test = ifs
						}
					}
				}
			}
		case *ast.ReturnStmt:
			if len(par.Results) == 1 {
				r.OK(c, call.Pos(), "`%s` is returned as is, error included", c10Src(r, call))
				continue
			}
			r.Unknown(c, call.Pos(), "error-returning call inside a return with other results")
			continue
		default:
			r.Bad(c, call.Pos(), "the error of `%s` is never looked at", c10Src(r, call))
			continue
		}
		if errObj == nil || test == nil || p.errTest(test.Cond) != errObj {
			r.Bad(c, call.Pos(), "the error of `%s` is not tested by `if %s != nil` right after the call (accepted idioms: next statement, or if-with-init): text it rejects is parsed into a wrong id", c10Src(r, call), c10ObjName(errObj))
			continue
		}
		var ret *ast.ReturnStmt
		if n := len(test.Body.List); n > 0 {
			ret, _ = test.Body.List[n-1].(*ast.ReturnStmt)
		}
		switch {
		case ret == nil || len(ret.Results) != 2:
			r.Bad(c, test.Pos(), "the `%s != nil` branch does not return: parsing continues with a zero value", errObj.Name())
		case !p.nonNilError(ret.Results[1], errObj):
			r.Bad(c, ret.Pos(), "after `%s` failed the parser executes `%s`: the error result is not provably non-nil (accepted: fmt.Errorf, errors.New, the tested error), so bad text gives an id with a nil error", c10Src(r, call), c10Src(r, ret))
		default:
			r.OK(c, call.Pos(), "`%s` is followed by `if %s != nil { %s }`", c10Src(r, call), errObj.Name(), c10Src(r, ret))
		}
	}
	if len(calls) == 0 {
		r.Anchor("error-returning calls in " + p.name())
	}
	// every return
	nSucc := 0
	badRet := ""
	inspectNoLit(p.fi.Decl.Body, func(n ast.Node) bool {
		ret, ok := n.(*ast.ReturnStmt)
		if !ok {
			return true
		}
		switch {
		case len(ret.Results) == 1:
			if _, isCall := ast.Unparen(ret.Results[0]).(*ast.CallExpr); !isCall {
				badRet = "unrecognised return " + c10Src(r, ret)
			}
		case len(ret.Results) != 2:
			badRet = "bare return"
		case p.isNilIdent(ret.Results[1]):
			if tv := info.Types[ret.Results[0]]; tv.Value != nil {
				badRet = fmt.Sprintf("`%s` returns the constant id %s with a nil error", c10Src(r, ret), tv.Value)
			}
			nSucc++
		case p.nonNilError(ret.Results[1], nil):
		default:
			// `return x, err` is fine only under `if err != nil`
			ok := false
			if ifs, _ := enclosing(p.par, ret, func(n ast.Node) bool { _, is := n.(*ast.IfStmt); return is }).(*ast.IfStmt); ifs != nil {
				if eo := p.errTest(ifs.Cond); eo != nil && objOf(info, ret.Results[1]) == eo {
					ok = true
				}
			}
			if !ok {
				badRet = fmt.Sprintf("`%s`: the error result is neither nil, provably non-nil, nor a tested error", c10Src(r, ret))
			}
		}
		return true
	})
	c := "returns@" + p.name()
	switch {
	case badRet != "":
		r.Bad(c, p.fi.Decl.Pos(), "%s", badRet)
	case nSucc == 0:
		r.Unknown(c, p.fi.Decl.Pos(), "no success return (id, nil) found")
	default:
		r.OK(c, p.fi.Decl.Pos(), "%d success return(s) yield a computed id; every other return carries a provably non-nil error", nSucc)
	}
	// helpers: Type.objectID / Type.FeatureID
	var hs []*types.Func
	for fn := range helpers {
		hs = append(hs, fn)
	}
	sort.Slice(hs, func(i, j int) bool { return funcName(hs[i]) < funcName(hs[j]) })
	for _, fn := range hs {
		p.checkHelper(fn, helpers[fn])
	}
}

func c10ObjName(o types.Object) string {
	if o == nil {
		return "err"
	}
	return o.Name()
}

// checkHelper: a kind-lookup helper returns a nil error only inside a case of a known Type constant,
// and an unknown kind text makes it return a non-nil error.
func (p *c10Parser) checkHelper(fn *types.Func, call *ast.CallExpr) {
	m, r := p.m, p.m.r
	fd := m.ev.decls[fn]
	c := "reject-unknown-kind@" + p.name() + " via " + funcName(fn)
	sig := fn.Type().(*types.Signature)
	if sig.Results().Len() != 2 {
		r.Unknown(c, fd.Pos(), "helper does not return (id, error)")
		return
	}
	hfi := m.funcInfoOf(fn)
	par := parentsOf(r.P, hfi)
	var recvObj types.Object
	if fd.Recv != nil && len(fd.Recv.List) == 1 && len(fd.Recv.List[0].Names) == 1 {
		recvObj = m.info.Defs[fd.Recv.List[0].Names[0]]
	}
	bad := ""
	inspectNoLit(fd.Body, func(n ast.Node) bool {
		ret, ok := n.(*ast.ReturnStmt)
		if !ok || bad != "" {
			return true
		}
		if len(ret.Results) != 2 {
			bad = "return shape " + c10Src(r, ret)
			return true
		}
		if p.nonNilError(ret.Results[1], nil) {
			return true
		}
		if !p.isNilIdent(ret.Results[1]) {
			bad = fmt.Sprintf("`%s`: error result is neither nil nor provably non-nil", c10Src(r, ret))
			return true
		}
		cc, _ := enclosing(par, ret, func(n ast.Node) bool { _, is := n.(*ast.CaseClause); return is }).(*ast.CaseClause)
		var sw *ast.SwitchStmt
		if cc != nil {
			sw, _ = enclosing(par, cc, func(n ast.Node) bool { _, is := n.(*ast.SwitchStmt); return is }).(*ast.SwitchStmt)
		}
		known := cc != nil && cc.List != nil && sw != nil && sw.Tag != nil && recvObj != nil && objOf(m.info, sw.Tag) == recvObj
		if known {
			for _, ce := range cc.List {
				if m.kindByTypeConst(objOf(m.info, ce)) == nil {
					known = false
				}
			}
		}
		if !known {
			bad = fmt.Sprintf("`%s` returns a nil error outside a `case <Type constant>` of the switch over the kind: text naming an unknown kind yields an id (%s) instead of an error", c10Src(r, ret), c10Src(r, ret.Results[0]))
		}
		return true
	})
	if bad != "" {
		r.Bad(c, fd.Pos(), "%s", bad)
		return
	}
	// engine check: evaluate the parser's call with a kind text that is none of the seven
	p.kindText = c10UnknownKindText
	m.ev.hook = p.hook
	v := m.ev.expr(call, c10Env{}, 0)
	m.ev.hook = nil
	if v.K == c10VTuple && len(v.Args) == 2 && v.Args[1].K == c10VErr {
		r.OK(c, fd.Pos(), "`%s` with a kind text outside the Type constants evaluates to (%s, non-nil error); nil errors only inside `case <Type constant>`", c10Src(r, call), v.Args[0])
	} else {
		r.Bad(c, fd.Pos(), "`%s` with a kind text outside the seven Type constants evaluates to %s, not to a non-nil error", c10Src(r, call), v)
	}
}

// ---------------------------------------------------------------------------
// arity of the splits

// lenCond evaluates a condition that only talks about len(P) and integer constants for len(P) = L.
func (p *c10Parser) lenCond(e ast.Expr, P types.Object, alias types.Object, L int64, consts *[]int64) (val bool, ok bool) {
	info := p.m.info
	var num func(e ast.Expr) (int64, bool)
	num = func(e ast.Expr) (int64, bool) {
		e = ast.Unparen(e)
		if v, isC := constInt(info, e); isC {
			*consts = append(*consts, v)
			return v, true
		}
		if call, isCall := e.(*ast.CallExpr); isCall && builtinName(info, call) == "len" && len(call.Args) == 1 && objOf(info, call.Args[0]) == P {
			return L, true
		}
		if alias != nil && objOf(info, e) == alias {
			return L, true
		}
		return 0, false
	}
	e = ast.Unparen(e)
	switch x := e.(type) {
	case *ast.UnaryExpr:
		if x.Op == token.NOT {
			v, ok := p.lenCond(x.X, P, alias, L, consts)
			return !v, ok
		}
	case *ast.BinaryExpr:
		switch x.Op {
		case token.LAND, token.LOR:
			a, oka := p.lenCond(x.X, P, alias, L, consts)
			b, okb := p.lenCond(x.Y, P, alias, L, consts)
			if x.Op == token.LAND {
				return a && b, oka && okb
			}
			return a || b, oka && okb
		case token.EQL, token.NEQ, token.LSS, token.LEQ, token.GTR, token.GEQ:
			a, oka := num(x.X)
			b, okb := num(x.Y)
			if !oka || !okb {
				return false, false
			}
			switch x.Op {
			case token.EQL:
				return a == b, true
			case token.NEQ:
				return a != b, true
			case token.LSS:
				return a < b, true
			case token.LEQ:
				return a <= b, true
			case token.GTR:
				return a > b, true
			default:
				return a >= b, true
			}
		}
	}
	return false, false
}

// lenAlias returns the variable bound to len(P) by the init statement of an if (`if l := len(P); ...`).
func (p *c10Parser) lenAlias(ifs *ast.IfStmt, P types.Object) types.Object {
	as, ok := ifs.Init.(*ast.AssignStmt)
	if !ok || len(as.Lhs) != 1 || len(as.Rhs) != 1 {
		return nil
	}
	call, ok := ast.Unparen(as.Rhs[0]).(*ast.CallExpr)
	if !ok || builtinName(p.m.info, call) != "len" || len(call.Args) != 1 || objOf(p.m.info, call.Args[0]) != P {
		return nil
	}
	return objOf(p.m.info, as.Lhs[0])
}

type c10Split struct {
	obj      types.Object
	role     int // 1: the "/" split of the argument, 2: the ":" split of its second part
	accepted map[int64]bool
	maxL     int64
	at       ast.Node
}

func (p *c10Parser) splits() []*c10Split {
	var out []*c10Split
	for o, ds := range p.defs {
		if len(ds) != 1 {
			continue
		}
		call, ok := ast.Unparen(ds[0].rhs).(*ast.CallExpr)
		if !ok || !isPkgFunc(callee(p.m.info, call), "strings", "Split") {
			continue
		}
		out = append(out, &c10Split{obj: o, at: ds[0].at})
	}
	sort.Slice(out, func(i, j int) bool { return out[i].obj.Pos() < out[j].obj.Pos() })
	return out
}

func (p *c10Parser) checkArity() {
	m, r := p.m, p.m.r
	info := m.info
	sps := p.splits()
	seenRole := map[int]bool{}
	for _, sp := range sps {
		id := ast.NewIdent(sp.obj.Name())
		_ = id
		org := ""
		if ds := p.defs[sp.obj]; len(ds) == 1 {
			org = p.origin(ds[0].rhs, 0)
		}
		c := "arity@" + p.name() + " split of " + sp.obj.Name()
		var want []int64
		switch org {
		case p.split1():
			sp.role, want = 1, []int64{2}
			c = "arity@" + p.name() + " split on " + c10Sep1
		case p.split2():
			c = "arity@" + p.name() + " split on " + c10Sep2
			if p.packed == "FeatureID" {
				r.Unknown(c, sp.obj.Pos(), "feature ids have no version part; a %q split in %s is not among the enumerated idioms", c10Sep2, p.name())
				continue
			}
			sp.role, want = 2, []int64{1, 2}
		default:
			r.Bad(c, sp.obj.Pos(), "strings.Split result %s comes from %s; the form kind%sref[%sversion] requires %s and %s", sp.obj.Name(), org, c10Sep1, c10Sep2, p.split1(), p.split2())
			continue
		}
		seenRole[sp.role] = true
		// reject guards: if-statements whose condition only talks about len(P) and whose body ends in an error return
		type guard struct {
			ifs   *ast.IfStmt
			alias types.Object
		}
		var guards []guard
		var consts []int64
		inspectNoLit(p.fi.Decl.Body, func(n ast.Node) bool {
			ifs, ok := n.(*ast.IfStmt)
			if !ok || ifs.Pos() < sp.at.End() || ifs.Else != nil {
				return true
			}
			alias := p.lenAlias(ifs, sp.obj)
			if ifs.Init != nil && alias == nil {
				return true
			}
			if _, ok := p.lenCond(ifs.Cond, sp.obj, alias, 0, &consts); !ok {
				return true
			}
			nb := len(ifs.Body.List)
			if nb == 0 {
				return true
			}
			ret, isRet := ifs.Body.List[nb-1].(*ast.ReturnStmt)
			if !isRet || len(ret.Results) != 2 || !p.nonNilError(ret.Results[1], nil) {
				return true
			}
			// must sit directly in the function body (unconditional guard)
			if p.par[ifs] != ast.Node(p.fi.Decl.Body) {
				return true
			}
			guards = append(guards, guard{ifs, alias})
			return true
		})
		sp.maxL = 2
		for _, v := range consts {
			if v+1 > sp.maxL {
				sp.maxL = v + 1
			}
		}
		sp.accepted = map[int64]bool{}
		var acc []string
		for L := int64(0); L <= sp.maxL; L++ {
			rejected := false
			for _, g := range guards {
				var dummy []int64
				if v, _ := p.lenCond(g.ifs.Cond, sp.obj, g.alias, L, &dummy); v {
					rejected = true
				}
			}
			// strings.Split with a non-empty separator never returns 0 parts
			if !rejected && L >= 1 {
				sp.accepted[L] = true
				s := fmt.Sprint(L)
				if L == sp.maxL {
					s += " and every larger count"
				}
				acc = append(acc, s)
			}
		}
		okSet := len(sp.accepted) == len(want)
		for _, w := range want {
			if !sp.accepted[w] {
				okSet = false
			}
		}
		var gsrc []string
		for _, g := range guards {
			gsrc = append(gsrc, "`"+c10Src(r, g.ifs.Cond)+"`")
		}
		sepName := map[int]string{1: c10Sep1, 2: c10Sep2}[sp.role]
		if okSet {
			r.OK(c, sp.obj.Pos(), "guards %s evaluated for len(%s) = 0..%d (constant beyond): exactly %v part(s) of the %q split are accepted, every other count returns an error", strings.Join(gsrc, ", "), sp.obj.Name(), sp.maxL, want, sepName)
		} else {
			r.Bad(c, sp.obj.Pos(), "the %q split %s is accepted with {%s} parts (guards: %s); the form kind%sref[%sversion] allows exactly %v: text with extra %q-separated parts is parsed into an id instead of being rejected", sepName, sp.obj.Name(), strings.Join(acc, ", "), strings.Join(gsrc, ", "), c10Sep1, c10Sep2, want, sepName)
		}
	}
	if !seenRole[1] {
		r.Bad("arity@"+p.name()+" "+c10Sep1, p.fi.Decl.Pos(), "no strings.Split(s, %q) of the argument found", c10Sep1)
	}
	if !seenRole[2] && p.packed != "FeatureID" {
		r.Bad("arity@"+p.name()+" "+c10Sep2, p.fi.Decl.Pos(), "no strings.Split(parts[1], %q) found: the version cannot be separated from the reference", c10Sep2)
	}
	// index uses
	inspectNoLit(p.fi.Decl.Body, func(n ast.Node) bool {
		ix, ok := n.(*ast.IndexExpr)
		if !ok {
			return true
		}
		var sp *c10Split
		for _, s := range sps {
			if objOf(info, ix.X) == s.obj {
				sp = s
			}
		}
		if sp == nil || sp.accepted == nil {
			return true
		}
		k, isConst := constInt(info, ix.Index)
		c := fmt.Sprintf("index@%s [%d] of the split on %s", p.name(), k, map[int]string{1: c10Sep1, 2: c10Sep2}[sp.role])
		if !isConst {
			r.Unknown(c, ix.Pos(), "non-constant index into a split result")
			return true
		}
		minAcc := int64(1 << 30)
		for L := range sp.accepted {
			if L < minAcc {
				minAcc = L
			}
		}
		if k < minAcc {
			r.OK(c, ix.Pos(), "index %d < %d, the smallest accepted part count of %s", k, minAcc, sp.obj.Name())
			return true
		}
		// guarded by a length test: left conjunct of an enclosing &&, or the condition of an enclosing if
		guarded := ""
		implies := func(cond ast.Expr) bool {
			for _, cj := range c10Conjuncts(cond) {
				all, any := true, false
				var dummy []int64
				for L := range sp.accepted {
					v, ok := p.lenCond(cj, sp.obj, nil, L, &dummy)
					if !ok {
						all = false
						break
					}
					if v {
						any = true
						if L <= k {
							all = false
						}
					}
				}
				if all && any {
					guarded = c10Src(r, cj)
					return true
				}
			}
			return false
		}
		var child ast.Node = ix
		for par := p.par[ix]; par != nil && guarded == ""; child, par = par, p.par[par] {
			switch x := par.(type) {
			case *ast.BinaryExpr:
				if x.Op == token.LAND && child == ast.Node(x.Y) {
					implies(x.X)
				}
			case *ast.IfStmt:
				if child == ast.Node(x.Body) {
					implies(x.Cond)
				}
			}
		}
		if guarded != "" {
			r.OK(c, ix.Pos(), "index %d is only evaluated under `%s`", k, guarded)
		} else {
			r.Bad(c, ix.Pos(), "%s is evaluated although %s may have only %d part(s): index out of range panic instead of an error", c10Src(r, ix), sp.obj.Name(), minAcc)
		}
		return true
	})
}

func c10Conjuncts(e ast.Expr) []ast.Expr {
	e = ast.Unparen(e)
	if be, ok := e.(*ast.BinaryExpr); ok && be.Op == token.LAND {
		return append(c10Conjuncts(be.X), c10Conjuncts(be.Y)...)
	}
	return []ast.Expr{e}
}

// ---------------------------------------------------------------------------
// the version part

func (p *c10Parser) checkVersionPart() {
	if p.packed == "FeatureID" {
		return
	}
	m, r := p.m, p.m.r
	info := m.info
	c := "version-part@" + p.name()
	// the version variable: a local whose only assignment comes from parsing the part after ':' and that defaults to zero
	var ver types.Object
	var def c10Def
	var objs []types.Object
	for o := range p.defs {
		objs = append(objs, o)
	}
	sort.Slice(objs, func(i, j int) bool { return objs[i].Pos() < objs[j].Pos() })
	for _, o := range objs {
		ds := p.defs[o]
		if len(ds) != 1 || !p.zeroDecl[o] {
			continue
		}
		s := p.origin(ds[0].rhs, 0)
		if ds[0].idx >= 0 {
			s += fmt.Sprintf("#%d", ds[0].idx)
		}
		if s == p.verOrigin() {
			ver, def = o, ds[0]
		}
	}
	if ver == nil {
		r.Bad(c, p.fi.Decl.Pos(), "no variable is declared zero and assigned only from strconv.ParseInt(<part after %q>, 10, ..): the forms without version (`kind%sref`, `kind%sref%s%s`) have no defined version 0", c10Sep2, c10Sep1, c10Sep1, c10Sep2, p.dash)
		return
	}
	// enclosing ifs of the assignment
	var ifs []*ast.IfStmt
	for n := p.par[def.at]; n != nil && n != ast.Node(p.fi.Decl.Body); n = p.par[n] {
		if x, ok := n.(*ast.IfStmt); ok {
			ifs = append(ifs, x)
		}
	}
	if len(ifs) != 1 || ifs[0].Init != nil || ifs[0].Else != nil {
		r.Unknown(c, def.at.Pos(), "the assignment of %s is not inside exactly one `if len(parts)==2 && parts[1] != %q { ... }`", ver.Name(), p.dash)
		return
	}
	var P types.Object
	for _, sp := range p.splits() {
		if ds := p.defs[sp.obj]; len(ds) == 1 && p.origin(ds[0].rhs, 0) == p.split2() {
			P = sp.obj
		}
	}
	hasLen, hasDash := false, false
	for _, cj := range c10Conjuncts(ifs[0].Cond) {
		var dummy []int64
		v1, ok1 := p.lenCond(cj, P, nil, 1, &dummy)
		v2, ok2 := p.lenCond(cj, P, nil, 2, &dummy)
		if P != nil && ok1 && ok2 {
			if !v1 && v2 {
				hasLen = true
				continue
			}
			r.Bad(c, cj.Pos(), "length test `%s` does not select exactly the two-part form", c10Src(r, cj))
			return
		}
		if be, ok := ast.Unparen(cj).(*ast.BinaryExpr); ok && be.Op == token.NEQ {
			a, b := be.X, be.Y
			if _, isStr := constString(info, a); isStr {
				a, b = b, a
			}
			if lit, isStr := constString(info, b); isStr && p.origin(a, 0) == p.split2()+"[1]" {
				if lit == p.dash && p.dash != "" {
					hasDash = true
					continue
				}
				r.Bad(c, cj.Pos(), "the parser treats %q as the no-version marker, String() prints %q for version 0: the text of a version-0 id does not parse back", lit, p.dash)
				return
			}
		}
		r.Unknown(c, cj.Pos(), "condition `%s` guarding the version assignment is neither the length test nor the no-version marker test", c10Src(r, cj))
		return
	}
	switch {
	case !hasLen:
		r.Bad(c, ifs[0].Pos(), "the version is parsed without testing that the %q split has two parts", c10Sep2)
	case !hasDash:
		r.Bad(c, ifs[0].Pos(), "the version part is always parsed as a number, but String() prints `kind%sref%s%s` for version 0: that text is rejected, ids without version do not round-trip", c10Sep1, c10Sep2, p.dash)
	default:
		r.OK(c, ifs[0].Pos(), "%s is declared zero and assigned only under `%s` from ParseInt(part after %q, 10): absent version and the marker %q give version 0, exactly the forms String() prints for version 0", ver.Name(), c10Src(r, ifs[0].Cond), c10Sep2, p.dash)
	}
}

// ---------------------------------------------------------------------------
// abstract value of the success return

func (p *c10Parser) checkRoundTrip() {
	m, r := p.m, p.m.r
	var rets []*ast.ReturnStmt
	inspectNoLit(p.fi.Decl.Body, func(n ast.Node) bool {
		if ret, ok := n.(*ast.ReturnStmt); ok && len(ret.Results) == 2 && p.isNilIdent(ret.Results[1]) {
			rets = append(rets, ret)
		}
		return true
	})
	if len(rets) == 0 {
		inspectNoLit(p.fi.Decl.Body, func(n ast.Node) bool {
			if ret, ok := n.(*ast.ReturnStmt); ok && len(ret.Results) == 1 {
				rets = append(rets, ret)
			}
			return true
		})
	}
	if len(rets) == 0 {
		r.Anchor("success return of " + p.name())
		return
	}
	for _, k := range m.kindsOf(p.packed) {
		c := "roundtrip@" + p.name() + " kind=" + k.Name
		withVer := p.packed == "ElementID" || (p.packed == "ObjectID" && k.Versioned)
		want := m.shape(k, withVer)
		okAll := true
		var got c10Val
		for _, ret := range rets {
			p.kindText = m.typeText(k)
			m.ev.hook = p.hook
			got = m.ev.expr(ret.Results[0], c10Env{}, 0)
			m.ev.hook = nil
			if got.K == c10VTuple && len(got.Args) > 0 {
				got = got.Args[0]
			}
			what := fmt.Sprintf("id parsed from %q%sref%s (kind text from %s, ref from %s%s)", m.typeText(k), c10Sep1, map[bool]string{true: c10Sep2 + "version", false: ""}[withVer],
				p.typeOrigin(), p.refOrigin(), map[bool]string{true: ", version from " + p.verOrigin(), false: ""}[withVer])
			if !m.verdict(c, ret.Pos(), got, "", want, what) {
				okAll = false
			}
		}
		if okAll {
			r.OK(c, rets[0].Pos(), "`%s` with kind text %q, ref and version taken from their textual positions evaluates to %s = the K2 id String() was given", c10Src(r, rets[0]), m.typeText(k), got.V)
		}
	}
}

var _ = core.ModulePath
