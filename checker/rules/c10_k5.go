package rules

// K5: the textual form. Nothing here looks at the statements of the parsers: String() and Parse*() are
// *evaluated* by the abstract interpreter (c10_interp*.go) on abstract ids and abstract texts.
//
//   format@X.String kind=k       String() of the K2 id of kind k is kind "/" dec(ref) [":" dec(version) | ":" marker],
//                                the marker form exactly when the version is 0
//   roundtrip@ParseX kind=k      ParseX(String(id)) == (id, nil) for every text form String() produces
//   optional-version@ParseX      kind/ref without a version part parses to the id with version 0
//   arity@ParseX split on / , :  texts with 1..N parts: exactly 2 `/`-parts and 1 or 2 `:`-parts are accepted
//   errors@ParseX ...            a reference / version part that is not a number gives a non-nil error
//   unknown-kind@ParseX ...      a kind text outside the kinds of X (any other text, the four non-element kinds,
//                                every string constant the code compares a text with) gives a non-nil error
// A "generic" text stands for every string the code cannot tell apart from it: texts are only split, compared
// with constants, converted and parsed, so its behaviour is that of any text not equal to a compared constant;
// the compared constants themselves are collected during the evaluation and tried one by one.

import (
	"fmt"
	"go/token"
	"go/types"
	"sort"
	"strconv"
	"strings"

	"osmcheck/core"
)

// Separators of the textual form kind/ref[:version] as the property states it.
const (
	c10Sep1 = "/"
	c10Sep2 = ":"
)

func c10IsError(t types.Type) bool {
	nt, ok := t.(*types.Named)
	return ok && nt.Obj().Pkg() == nil && nt.Obj().Name() == "error"
}

type c10Parser struct {
	m      *c10Model
	fi     *FuncInfo
	packed string
	strFi  *FuncInfo
	ref    c10Vec // the reference as String() prints it / the parser reads it
	ver    c10Vec
	marker string // literal String() prints instead of version 0 ("" when none)
	forms  map[*c10Kind][]c10Form
}

// c10Form is one textual form String() produces for an id.
type c10Form struct {
	text     c10Val
	zeroVer  bool // produced under the assumption version == 0
	form     string
	describe string
}

func c10Parsers(m *c10Model, anchors bool) []*c10Parser {
	r := m.r
	var out []*c10Parser
	for _, packed := range []string{"ObjectID", "ElementID", "FeatureID"} {
		fi := findFunc(m.pk, "Parse"+packed)
		if fi == nil {
			if anchors {
				r.Anchor("Parse" + packed)
			}
			continue
		}
		sig := fi.Obj.Type().(*types.Signature)
		if sig.Params().Len() != 1 || !m.ev.isString(sig.Params().At(0).Type()) || sig.Results().Len() != 2 || m.localName(sig.Results().At(0).Type()) != packed || !c10IsError(sig.Results().At(1).Type()) {
			if anchors {
				r.Anchor("Parse" + packed + " as func(string) (" + packed + ", error)")
			}
			continue
		}
		p := &c10Parser{m: m, fi: fi, packed: packed, strFi: m.method(packed, "String"), forms: map[*c10Kind][]c10Form{}}
		if p.strFi == nil {
			if anchors {
				r.Anchor(packed + ".String")
			}
			continue
		}
		p.ref = m.refInput(types.Typ[types.Int64]).V
		p.ver = m.verInput(types.Typ[types.Int]).V
		out = append(out, p)
	}
	return out
}

func c10K5(r *core.R) {
	m := c10Load(r)
	if m == nil {
		return
	}
	for _, p := range c10Parsers(m, true) {
		p.checkFormat(true)
		p.checkRoundTrip()
		p.checkArity()
		p.checkRejects()
	}
	r.Stat("inlined_calls", m.ev.Inlined)
}

func (p *c10Parser) name() string { return p.fi.Name() }

// ---------------------------------------------------------------------------
// String() format

func c10IsZero(v c10Vec) bool { u, ok := v.constant(); return ok && u == 0 }

// c10ZeroTest recognises a test of the version against zero: ver == 0, ver != 0, ver > 0, ver < 1, 0 < ver, ...
// (versions are non-negative). It returns whether the comparison being true means "version is zero".
func c10ZeroTest(cm *c10Cmp, ver c10Vec) (zeroWhenTrue bool, ok bool) {
	if cm == nil || cm.L.K != c10VInt || cm.R.K != c10VInt {
		return false, false
	}
	l, rr, op := cm.L, cm.R, cm.Op
	if rr.V.sameLanes(ver) {
		l, rr = rr, l
		op = map[token.Token]token.Token{token.LSS: token.GTR, token.GTR: token.LSS, token.LEQ: token.GEQ, token.GEQ: token.LEQ, token.EQL: token.EQL}[op]
	}
	if !l.V.sameLanes(ver) {
		return false, false
	}
	c, isConst := rr.V.signedConst()
	if !isConst {
		return false, false
	}
	switch {
	case op == token.EQL && c == 0:
		zeroWhenTrue = true
	case op == token.LSS && c == 1, op == token.LEQ && c == 0:
		zeroWhenTrue = true
	case op == token.GTR && c == 0, op == token.GEQ && c == 1:
		zeroWhenTrue = false
	default:
		return false, false
	}
	if cm.Neg {
		zeroWhenTrue = !zeroWhenTrue
	}
	return zeroWhenTrue, true
}

// c10TrimPrefix removes prefix from the front of ps (pieces compared structurally).
func c10TrimPrefix(ps, prefix []c10Piece) ([]c10Piece, bool) {
	ps = append([]c10Piece{}, ps...)
	for _, q := range prefix {
		if len(ps) == 0 {
			return nil, false
		}
		h := ps[0]
		switch {
		case q.Num != nil:
			if h.Num == nil || !h.Num.sameLanes(*q.Num) {
				return nil, false
			}
			ps = ps[1:]
		case h.Num != nil || !strings.HasPrefix(h.Lit, q.Lit):
			return nil, false
		case len(h.Lit) == len(q.Lit):
			ps = ps[1:]
		default:
			ps[0] = c10Piece{Lit: h.Lit[len(q.Lit):]}
		}
	}
	return ps, true
}

func c10TextPieces(parts ...interface{}) []c10Piece {
	var ps []c10Piece
	for _, x := range parts {
		switch y := x.(type) {
		case string:
			ps = append(ps, c10Piece{Lit: y})
		case c10Vec:
			q, _ := c10Pieces(c10DecText(y))
			ps = append(ps, q...)
		case []c10Piece:
			ps = append(ps, y...)
		}
	}
	q, _ := c10Pieces(c10MkText(ps))
	return q
}

// checkFormat evaluates String() on the K2 id of every kind and classifies the text of every outcome.
func (p *c10Parser) checkFormat(emit bool) {
	m, r := p.m, p.m.r
	sname := p.strFi.Name()
	pos := p.strFi.Decl.Pos()
	recvT := p.strFi.Obj.Type().(*types.Signature).Recv().Type()
	markers := map[string]bool{}
	for _, k := range m.kindsOf(p.packed) {
		c := "format@" + sname + " kind=" + k.Name
		in := m.inputOf(p.packed, k)
		verLanes := !c10VerOf(in).sameLanes(c10ConstVec(0, 64, true))
		outs := m.ev.call(p.strFi.Decl, ptrVal(c10IntVal(m.vecOf(recvT, in))), nil, 1)
		kindText := m.typeText(k)
		head := c10TextPieces(kindText+c10Sep1, c10RefOf(in))
		bad, unk := "", ""
		var forms []c10Form
		for _, o := range outs {
			switch {
			case o.Unsupported != "":
				unk = sname + " is outside the interpreted statement forms: " + o.Unsupported
				continue
			case o.Panic:
				bad = sname + " panics for a " + k.Name + " id (" + o.PanicWhy + ")"
				continue
			case len(o.Res) != 1:
				unk = sname + " does not return one value"
				continue
			}
			ps, isText := c10Pieces(o.Res[0])
			if !isText {
				unk = fmt.Sprintf("the text %s returns is not tracked: %s", sname, o.Res[0])
				continue
			}
			shown := c10PiecesString(ps)
			f := c10Form{text: o.Res[0], describe: shown}
			rest, okHead := c10TrimPrefix(ps, head)
			switch {
			case !okHead:
				bad = fmt.Sprintf("%s prints %s for the %s id: it does not start with the kind %q, %q and the decimal reference %s", sname, shown, k.Name, kindText, c10Sep1, c10RefOf(in))
			case len(rest) == 0:
				f.form = "A"
			default:
				rest2, okSep := c10TrimPrefix(rest, []c10Piece{{Lit: c10Sep2}})
				switch {
				case !okSep:
					bad = fmt.Sprintf("%s prints %s: after the reference comes %s, not %q and the version; the parser splits on %q", sname, shown, c10PiecesString(rest), c10Sep2, c10Sep2)
				case len(rest2) == 1 && rest2[0].Num != nil && rest2[0].Num.sameLanes(m.vecOf(types.Typ[types.Int], c10VerOf(in))):
					f.form = "C"
				case len(rest2) == 1 && rest2[0].Num == nil && !strings.Contains(rest2[0].Lit, c10Sep2) && !strings.Contains(rest2[0].Lit, c10Sep1):
					if _, err := strconv.ParseInt(rest2[0].Lit, 10, 64); err == nil {
						if !verLanes || !c10IsZero(c10VerOf(in)) {
							f.form = "C" // a constant version printed as a number
							if !c10IsZero(c10VerOf(in)) {
								bad = fmt.Sprintf("%s prints the constant %q as the version of an id whose version is %s", sname, rest2[0].Lit, c10VerOf(in))
							}
						}
					} else {
						f.form = "B"
						markers[rest2[0].Lit] = true
					}
				default:
					bad = fmt.Sprintf("%s prints %s: the part after %q is neither the decimal version %s nor a no-version marker", sname, shown, c10Sep2, c10VerOf(in))
				}
			}
			// path conditions: only tests of the version against zero may select the form
			zero, nonzero := false, false
			for _, pc := range o.Conds {
				z, ok := c10ZeroTest(pc.Cond.Cmp, m.vecOf(types.Typ[types.Int], c10VerOf(in)))
				if !ok {
					unk = fmt.Sprintf("the form %s is chosen by a test other than `version == 0`", shown)
					continue
				}
				if z == pc.Taken {
					zero = true
				} else {
					nonzero = true
				}
			}
			if zero && nonzero {
				continue // infeasible path
			}
			f.zeroVer = zero
			switch {
			case f.form == "":
			case p.packed == "FeatureID" && f.form != "A":
				bad = fmt.Sprintf("%s prints %s for a feature id, which has no version", sname, shown)
			case p.packed != "FeatureID" && f.form == "A":
				// kind/ref without version part: fine as long as it is only used for version 0
				if verLanes && !zero {
					bad = fmt.Sprintf("%s prints %s (no version) for ids whose version is not 0: the text parses back to another version", sname, shown)
				}
			case f.form == "B" && verLanes && !zero:
				bad = fmt.Sprintf("%s prints the no-version form %s when the version is not known to be 0: the text parses back to another version", sname, shown)
			case f.form == "C" && zero && len(markers) > 0:
				// printing ":0" for version 0 is fine too
			}
			forms = append(forms, f)
		}
		if bad == "" && unk == "" {
			// every id must have a form: version 0 and version != 0
			hasZero, hasNonZero := false, false
			for _, f := range forms {
				if f.zeroVer || len(outs) == 1 {
					hasZero = true
				}
				if !f.zeroVer {
					hasNonZero = true
				}
			}
			if verLanes && (!hasZero || !hasNonZero) {
				bad = fmt.Sprintf("%s has no textual form for %s ids with version %s", sname, k.Name, map[bool]string{true: "0", false: "other than 0"}[!hasZero])
			}
		}
		if strings.Contains(kindText, c10Sep1) || strings.Contains(kindText, c10Sep2) {
			bad = fmt.Sprintf("kind text %q contains a separator", kindText)
		}
		p.forms[k] = forms
		if !emit {
			continue
		}
		var fs []string
		for _, f := range forms {
			fs = append(fs, f.describe)
		}
		sort.Strings(fs)
		switch {
		case bad != "":
			r.Bad(c, pos, "%s", bad)
		case unk != "":
			r.Unknown(c, pos, "%s", unk)
		default:
			r.OK(c, pos, "prints %s: kind = Type(), reference = Ref(), version = Version() of the K2 id, separators %q and %q; the no-version form exactly when the version is 0", strings.Join(fs, " / "), c10Sep1, c10Sep2)
		}
	}
	if len(markers) == 1 {
		for d := range markers {
			p.marker = d
		}
	}
}

// ---------------------------------------------------------------------------
// running the parser on an abstract text

type c10ParseResult struct {
	accepted bool // exactly one outcome, nil error
	rejected bool // every outcome carries a provably non-nil error
	id       c10Val
	problem  string // neither: why
	panics   bool
}

func (p *c10Parser) run(text c10Val) c10ParseResult {
	outs := p.m.ev.call(p.fi.Decl, nil, []c10Val{text}, 1)
	res := c10ParseResult{}
	if len(outs) == 0 {
		res.problem = "no outcome"
		return res
	}
	allErr := true
	for _, o := range outs {
		switch {
		case o.Unsupported != "":
			res.problem = p.name() + " is outside the interpreted statement forms: " + o.Unsupported + " (" + p.m.r.P.Rel(o.Pos) + ")"
			return res
		case o.Panic:
			res.problem = p.name() + " panics (" + o.PanicWhy + ") at " + p.m.r.P.Rel(o.Pos)
			res.panics = true
			return res
		case len(o.Res) != 2:
			res.problem = "return shape"
			return res
		}
		if !c10NonNilError(o.Res[1]) {
			allErr = false
		}
	}
	if allErr {
		res.rejected = true
		return res
	}
	if len(outs) == 1 && outs[0].Res[1].K == c10VNil {
		res.accepted, res.id = true, outs[0].Res[0]
		return res
	}
	if len(outs) > 1 {
		res.problem = fmt.Sprintf("%d outcomes depending on undecided conditions", len(outs))
		for _, o := range outs {
			for _, pc := range o.Conds {
				if cm := pc.Cond.Cmp; cm != nil {
					for _, side := range []c10Val{cm.L, cm.R} {
						if side.Why != "" && !strings.Contains(res.problem, side.Why) {
							res.problem += " (" + side.Why + ")"
						}
					}
				}
			}
		}
	} else {
		res.problem = "the error result is " + outs[0].Res[1].String() + ", neither nil nor provably non-nil"
	}
	return res
}

func (p *c10Parser) show(text c10Val) string { return text.String() }

// accepts lists the texts that must parse, with the id they must give.
type c10Accept struct {
	construct string
	text      c10Val
	want      c10Vec
	what      string
	kind      *c10Kind
}

func (p *c10Parser) accepts() []c10Accept {
	m := p.m
	var out []c10Accept
	for _, k := range m.kindsOf(p.packed) {
		in := m.inputOf(p.packed, k)
		for _, f := range p.forms[k] {
			want := in
			if f.zeroVer {
				want = in.andNot(c10ConstVec(1<<c10VerBits-1, 64, true))
			}
			out = append(out, c10Accept{construct: "roundtrip@" + p.name() + " kind=" + k.Name, text: f.text, want: want, kind: k,
				what: fmt.Sprintf("%s(%s), the text %s prints for the %s id%s", p.name(), f.describe, p.strFi.Name(), k.Name, map[bool]string{true: " with version 0", false: ""}[f.zeroVer])})
		}
	}
	return out
}

func (p *c10Parser) checkRoundTrip() {
	m, r := p.m, p.m.r
	byC := map[string][]c10Accept{}
	var order []string
	for _, a := range p.accepts() {
		if _, seen := byC[a.construct]; !seen {
			order = append(order, a.construct)
		}
		byC[a.construct] = append(byC[a.construct], a)
	}
	for _, k := range m.kindsOf(p.packed) {
		c := "roundtrip@" + p.name() + " kind=" + k.Name
		if len(byC[c]) == 0 {
			r.Unknown(c, p.fi.Decl.Pos(), "%s produced no textual form for %s ids that could be fed to %s (see format@%s)", p.strFi.Name(), k.Name, p.name(), p.strFi.Name())
		}
	}
	for _, c := range order {
		okAll := true
		var shown []string
		for _, a := range byC[c] {
			res := p.run(a.text)
			shown = append(shown, p.show(a.text))
			if !okAll {
				break // one report per construct
			}
			switch {
			case res.accepted:
				if !m.verdict(c, p.fi.Decl.Pos(), res.id, "", a.want, a.what) {
					okAll = false
				}
			case res.rejected:
				r.Bad(c, p.fi.Decl.Pos(), "%s returns an error: the textual form of a valid id does not parse back", a.what)
				okAll = false
			case res.panics:
				r.Bad(c, p.fi.Decl.Pos(), "%s: %s", a.what, res.problem)
				okAll = false
			default:
				r.Unknown(c, p.fi.Decl.Pos(), "%s: %s", a.what, res.problem)
				okAll = false
			}
		}
		if okAll {
			r.OK(c, p.fi.Decl.Pos(), "%s evaluated on %s gives (the K2 id String() was given, nil) for every ref in [0,2^%d) and version in [0,2^%d)", p.name(), strings.Join(shown, " and "), c10RefBits, c10VerBits)
		}
	}
	// kind/ref without a version part
	if p.packed == "FeatureID" {
		return
	}
	for _, k := range m.kindsOf(p.packed) {
		c := "optional-version@" + p.name() + " kind=" + k.Name
		text := c10MkText(c10TextPieces(m.typeText(k)+c10Sep1, p.ref))
		res := p.run(text)
		what := fmt.Sprintf("%s(%s), the form without version part", p.name(), p.show(text))
		switch {
		case res.accepted:
			if m.verdict(c, p.fi.Decl.Pos(), res.id, "", m.shape(k, false), what) {
				r.OK(c, p.fi.Decl.Pos(), "%s = (%s, nil): the %s id with version 0", what, res.id.V, k.Name)
			}
		case res.rejected:
			r.Bad(c, p.fi.Decl.Pos(), "%s returns an error: the shape kind%sref[%sversion] allows the version to be absent", what, c10Sep1, c10Sep2)
		case res.panics:
			r.Bad(c, p.fi.Decl.Pos(), "%s: %s", what, res.problem)
		default:
			r.Unknown(c, p.fi.Decl.Pos(), "%s: %s", what, res.problem)
		}
	}
}

// ---------------------------------------------------------------------------
// arity of the two splits

func (p *c10Parser) firstKind() *c10Kind { return p.m.kindsOf(p.packed)[0] }

// refVer is the well-formed part after the kind: "REF" for feature ids, "REF:VER" otherwise.
func (p *c10Parser) refVer() []c10Piece {
	if p.packed == "FeatureID" {
		return c10TextPieces(p.ref)
	}
	return c10TextPieces(p.ref, c10Sep2, p.ver)
}

func (p *c10Parser) checkArity() {
	m, r := p.m, p.m.r
	kind := m.typeText(p.firstKind())
	type spec struct {
		sep   string
		want  map[int]bool
		build func(n int) c10Val
	}
	specs := []spec{
		{c10Sep1, map[int]bool{2: true}, func(n int) c10Val {
			ps := c10TextPieces(kind)
			for i := 1; i < n; i++ {
				ps = c10TextPieces(ps, c10Sep1, p.refVer())
			}
			return c10MkText(ps)
		}},
		{c10Sep2, map[int]bool{1: true, 2: true}, func(n int) c10Val {
			ps := c10TextPieces(kind, c10Sep1, p.ref)
			for i := 1; i < n; i++ {
				ps = c10TextPieces(ps, c10Sep2, p.ver)
			}
			return c10MkText(ps)
		}},
	}
	if p.packed == "FeatureID" {
		specs[1].want = map[int]bool{1: true}
	}
	for _, sp := range specs {
		c := "arity@" + p.name() + " split on " + sp.sep
		N := 4
		var accepted []int
		problem, isBad := "", false
		for round := 0; round < 2; round++ {
			accepted, problem = nil, ""
			m.ev.resetScenario()
			for n := 1; n <= N && problem == ""; n++ {
				text := sp.build(n)
				res := p.run(text)
				switch {
				case res.accepted:
					accepted = append(accepted, n)
				case res.rejected:
				default:
					problem = fmt.Sprintf("%s(%s) (%d %q-separated parts): %s", p.name(), p.show(text), n, sp.sep, res.problem)
					isBad = res.panics
				}
			}
			var maxC int64
			for _, v := range m.ev.lenConsts {
				if v > maxC {
					maxC = v
				}
			}
			if int(maxC)+1 <= N || N >= 12 {
				break
			}
			N = int(maxC) + 2
			if N > 12 {
				N = 12
			}
		}
		escapes := m.ev.lenEscapes
		m.ev.resetScenario()
		okSet := len(accepted) == len(sp.want)
		for _, n := range accepted {
			if !sp.want[n] {
				okSet = false
			}
		}
		var wantList []int
		for n := range sp.want {
			wantList = append(wantList, n)
		}
		sort.Ints(wantList)
		switch {
		case problem != "" && isBad:
			r.Bad(c, p.fi.Decl.Pos(), "%s instead of returning an error", problem)
		case problem != "":
			r.Unknown(c, p.fi.Decl.Pos(), "%s", problem)
		case !okSet:
			r.Bad(c, p.fi.Decl.Pos(), "texts with %v %q-separated part(s) are accepted (evaluated for 1..%d parts); the form kind%sref[%sversion] allows exactly %v: text with extra %q-separated parts is parsed into an id instead of being rejected", accepted, sp.sep, N, c10Sep1, c10Sep2, wantList, sp.sep)
		case escapes != "":
			r.Unknown(c, p.fi.Decl.Pos(), "part counts 1..%d behave as required, but %s: the behaviour for larger counts is not established", N, escapes)
		default:
			r.OK(c, p.fi.Decl.Pos(), "evaluated %s on texts with 1..%d %q-separated parts: exactly %v accepted, every other count returns a non-nil error without panicking; the code looks at part counts (len, strings.Count) only through comparisons with constants < %d, so larger counts behave like %d", p.name(), N, sp.sep, wantList, N, N)
		}
	}
}

// ---------------------------------------------------------------------------
// texts that must be rejected

type c10Reject struct {
	construct string
	texts     []c10Val
	why       string // what makes the text malformed
}

func (p *c10Parser) rejects(extraLits []string) []c10Reject {
	m := p.m
	junk := c10Generic + "text"
	hasVer := p.packed != "FeatureID"
	T := func(parts ...interface{}) c10Val { return c10MkText(c10TextPieces(parts...)) }
	var out []c10Reject
	var badRef, badVer []c10Val
	for _, k := range m.kindsOf(p.packed) {
		kt := m.typeText(k) + c10Sep1
		badRef = append(badRef, T(kt, junk), T(kt))
		if hasVer {
			badRef = append(badRef, T(kt, junk, c10Sep2, p.ver), T(kt, c10Sep2, p.ver), T(kt, junk, c10Sep2, p.marker))
			badVer = append(badVer, T(kt, p.ref, c10Sep2, junk), T(kt, p.ref, c10Sep2))
		}
	}
	out = append(out, c10Reject{"errors@" + p.name() + " reference not a number", badRef, "the reference part is empty or not a number"})
	if hasVer {
		out = append(out, c10Reject{"errors@" + p.name() + " version not a number", badVer, "the version part is empty or neither a number nor the no-version marker"})
	}
	tails := [][]c10Piece{c10TextPieces(p.ref)}
	if hasVer {
		tails = append(tails, c10TextPieces(p.ref, c10Sep2, p.ver))
		if p.marker != "" {
			tails = append(tails, c10TextPieces(p.ref, c10Sep2, p.marker))
		}
	}
	withTails := func(kind string) []c10Val {
		var ts []c10Val
		for _, t := range tails {
			ts = append(ts, T(kind, c10Sep1, t))
		}
		return ts
	}
	out = append(out, c10Reject{"unknown-kind@" + p.name() + " any other text", append(withTails(c10Generic+"kind"), withTails(c10Generic+"kind"+c10Sep2+c10Generic+"kind")...), "the kind is not one of the Type constants"})
	out = append(out, c10Reject{"unknown-kind@" + p.name() + " empty", append(withTails(""), c10StrVal(""), c10StrVal(c10Sep1), c10StrVal(c10Sep2), T(c10Sep1, c10Sep2)), "the kind is empty"})
	member := map[*c10Kind]bool{}
	for _, k := range m.kindsOf(p.packed) {
		member[k] = true
	}
	for _, k := range m.kinds {
		if !member[k] {
			out = append(out, c10Reject{"unknown-kind@" + p.name() + " kind=" + k.Name, withTails(m.typeText(k)), fmt.Sprintf("%s cannot hold a %s id", p.packed, k.Name)})
		}
	}
	for _, lit := range extraLits {
		var ts []c10Val
		ts = append(ts, withTails(lit)...)
		kt := m.typeText(p.firstKind()) + c10Sep1
		if _, err := strconv.ParseInt(lit, 10, 64); err != nil {
			ts = append(ts, T(kt, lit))
			if hasVer && lit != p.marker {
				ts = append(ts, T(kt, p.ref, c10Sep2, lit))
			}
		}
		out = append(out, c10Reject{"literal@" + p.name() + " " + strconv.Quote(lit), ts, fmt.Sprintf("%q is a string constant the parser's code compares a text with; it is neither a kind of %s nor the no-version marker", lit, p.packed)})
	}
	return out
}

func (p *c10Parser) checkRejects() {
	m, r := p.m, p.m.r
	m.ev.resetScenario()
	seenLit := map[string]bool{p.marker: true, "": true}
	for _, k := range m.kinds {
		seenLit[m.typeText(k)] = true
	}
	for _, a := range p.accepts() {
		p.run(a.text) // only to collect the string constants compared on the accepting paths
	}
	work := p.rejects(nil)
	for i := 0; i < len(work); i++ {
		rj := work[i]
		bad, unk := "", ""
		for _, text := range rj.texts {
			res := p.run(text)
			switch {
			case res.rejected:
			case res.accepted:
				bad = fmt.Sprintf("%s(%s) returns (%s, nil) although %s: malformed text yields an id instead of an error", p.name(), p.show(text), res.id, rj.why)
			case res.panics:
				bad = fmt.Sprintf("%s(%s): %s instead of returning an error", p.name(), p.show(text), res.problem)
			default:
				unk = fmt.Sprintf("%s(%s): %s", p.name(), p.show(text), res.problem)
			}
			if bad != "" {
				break
			}
		}
		switch {
		case bad != "":
			r.Bad(rj.construct, p.fi.Decl.Pos(), "%s", bad)
		case unk != "":
			r.Unknown(rj.construct, p.fi.Decl.Pos(), "%s", unk)
		default:
			var shown []string
			for _, t := range rj.texts {
				shown = append(shown, p.show(t))
			}
			r.OK(rj.construct, p.fi.Decl.Pos(), "%s returns a provably non-nil error, without panicking, for %s (%s)", p.name(), strings.Join(shown, ", "), rj.why)
		}
		// closure: string constants compared with some text during the runs so far
		if i == len(work)-1 {
			var extra []string
			for lit := range m.ev.cmpStrs {
				if !seenLit[lit] {
					seenLit[lit] = true
					extra = append(extra, lit)
				}
			}
			sort.Strings(extra)
			if len(extra) > 0 {
				all := p.rejects(extra)
				work = append(work, all[len(all)-len(extra):]...)
			}
		}
	}
	m.ev.resetScenario()
}

var _ = core.ModulePath

// c10NonNilError: a provably non-nil error value: fmt.Errorf / errors.New / a failed strconv parse, or a struct
// (pointer) value of a typed error returned as error.
func c10NonNilError(v c10Val) bool {
	return v.K == c10VErr || v.K == c10VStruct || v.K == c10VDyn
}
