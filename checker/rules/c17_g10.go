package rules

import (
	"go/ast"
	"go/types"
	"sort"
	"strings"

	"osmcheck/core"
)

// G10: features carry the element's id — on every configuration the tree builds for.
//
// The ids of package osm (NodeID, WayID, RelationID, …, FeatureID.Ref(), Member.Ref) are 64-bit integers. In the
// conversion path (the functions of the package reachable from Convert through static calls) such a value must not
// be converted to a type that is narrower than 64 bits on some supported configuration: int, uint and uintptr (32 bits
// on GOARCH=386, which is one of the configurations analysed), int32/uint32 and smaller, float32. A narrowed id stored
// in a feature differs from the element's id for ids above 2^31 (OSM node ids passed that in 2013).
//
// One obligation per (what the narrowed value feeds, where the id comes from, the narrow type), e.g.
// `id-width@properties["id"] osm.NodeID as int` — not per function or position: the same store reached through an extracted
// helper (`newFeature(…, ref int64, …)` storing `int(ref)` for all builders) keeps its constructs, because a plain
// int64 is followed back through locals, parameters and call sites to the osm ids it was made from.
func c17G10(r *core.R) {
	o := c17LoadOptions(r)
	if o == nil {
		return
	}
	root := findFunc(o.pk, "Convert")
	if root == nil {
		r.Anchor("osmgeojson.Convert")
		return
	}
	a := c17NewPkg(r.P, o.pk)
	g := &c17G10An{r: r, a: a}
	// the conversion path
	conv := a.fns[root.Obj]
	reach := map[*c17Fn]bool{conv: true}
	work := []*c17Fn{conv}
	for len(work) > 0 {
		fn := work[len(work)-1]
		work = work[:len(work)-1]
		for _, h := range a.calleesOf(fn) {
			if !reach[h] {
				reach[h] = true
				work = append(work, h)
			}
		}
	}
	info, fset := a.info, a.fset
	nconv := 0
	for _, fn := range a.list {
		if !reach[fn] {
			continue
		}
		fn := fn
		found := 0
		ast.Inspect(fn.Decl.Body, func(n ast.Node) bool {
			call, ok := n.(*ast.CallExpr)
			if !ok || len(call.Args) != 1 {
				return true
			}
			tv, ok := info.Types[call.Fun]
			if !ok || !tv.IsType() {
				return true
			}
			narrow := c17NarrowType(tv.Type)
			if narrow == "" || !c17IsInt64(info.TypeOf(call.Args[0])) {
				return true
			}
			nconv++
			srcs := g.sources(fn, call.Args[0], 3, map[types.Object]bool{})
			isID := false
			for _, s := range srcs {
				if s != "int64" {
					isID = true
				}
			}
			sink, feature := g.sink(fn, call)
			if !isID && !feature {
				return true // a 64-bit integer that is not known to be an id and does not go into a feature
			}
			for _, s := range srcs {
				found++
				width := narrow + " is narrower than 64 bits on every configuration"
				if b, ok := tv.Type.Underlying().(*types.Basic); ok && (b.Kind() == types.Int || b.Kind() == types.Uint || b.Kind() == types.Uintptr) {
					width = narrow + " is 32 bits wide on 32-bit configurations (GOARCH=386 is built and analysed)"
				}
				// the target type is part of the key: a known finding for `int(...)` must not cover a later `int32(...)`
				r.Bad("id-width@"+sink+" "+s+" as "+narrow, call.Pos(), "`%s` in %s narrows a 64-bit id (%s) to %s before it reaches %s: %s, so an id above 2^31-1 comes out as a different number than the element's id", src(fset, call), fn.Name(), s, narrow, sink, width)
			}
			return true
		})
		if found == 0 {
			r.OKTrivial("id-width@"+fn.Name(), fn.Decl.Pos(), "no conversion of a 64-bit id to a narrower type in %s", fn.Name())
		}
	}
	r.Stat("narrowing_conversions_of_int64_examined", nconv)
}

type c17G10An struct {
	r *core.R
	a *c17Pkg
}

// c17NarrowType names t when it is narrower than 64 bits on some supported configuration.
func c17NarrowType(t types.Type) string {
	b, ok := t.Underlying().(*types.Basic)
	if !ok {
		return ""
	}
	switch b.Kind() {
	case types.Int, types.Uint, types.Uintptr, types.Int32, types.Uint32, types.Int16, types.Uint16, types.Int8, types.Uint8, types.Float32:
		return types.TypeString(t, func(p *types.Package) string { return p.Name() })
	}
	return ""
}

func c17IsInt64(t types.Type) bool {
	if t == nil {
		return false
	}
	b, ok := t.Underlying().(*types.Basic)
	return ok && (b.Kind() == types.Int64 || b.Kind() == types.Uint64)
}

// sources follows a 64-bit integer back to the osm ids it was made from: a value of a named osm type, FeatureID.Ref() and
// the like, Member.Ref; conversions between 64-bit types, locals assigned once, parameters (through the call sites).
func (g *c17G10An) sources(fn *c17Fn, e ast.Expr, depth int, seen map[types.Object]bool) []string {
	a, info := g.a, g.a.info
	set := map[string]bool{}
	var visit func(fn *c17Fn, e ast.Expr, depth int)
	visit = func(fn *c17Fn, e ast.Expr, depth int) {
		e = ast.Unparen(e)
		t := info.TypeOf(e)
		if nt, ok := t.(*types.Named); ok && nt.Obj().Pkg() != nil && nt.Obj().Pkg().Path() == core.ModulePath && c17IsInt64(nt) {
			set["osm."+nt.Obj().Name()] = true
			return
		}
		switch x := e.(type) {
		case *ast.CallExpr:
			if tv, ok := info.Types[x.Fun]; ok && tv.IsType() && len(x.Args) == 1 {
				visit(fn, x.Args[0], depth)
				return
			}
			if f := callee(info, x); f != nil && f.Pkg() != nil && f.Pkg().Path() == core.ModulePath {
				if recv := f.Type().(*types.Signature).Recv(); recv != nil {
					p := namedPath(recv.Type())
					set["osm."+p[strings.LastIndexByte(p, '.')+1:]+"."+f.Name()] = true
					return
				}
			}
		case *ast.SelectorExpr:
			if f := c17FieldOf(info, x); f != nil && f.Pkg() != nil && f.Pkg().Path() == core.ModulePath {
				set["osm."+c17FieldOwner(a.p, f)+"."+f.Name()] = true
				return
			}
		case *ast.Ident:
			o := objOf(info, x)
			if o == nil || seen[o] || depth == 0 {
				break
			}
			seen[o] = true
			if init := a.singleInit(fn, o); init != nil {
				visit(fn, init, depth)
				return
			}
			if v, ok := o.(*types.Var); ok && fn.isParam(v) && len(a.calls[fn.Obj]) > 0 {
				for _, cs := range a.calls[fn.Obj] {
					if arg := argForParam(info, fn.FuncInfo, cs.call, v); arg != nil {
						visit(cs.fn, arg, depth-1)
					}
				}
				return
			}
		}
		set["int64"] = true
	}
	visit(fn, e, depth)
	var out []string
	for s := range set {
		out = append(out, s)
	}
	sort.Strings(out)
	return out
}

// sink describes what the narrowed value feeds; feature = it is stored into a geojson feature.
func (g *c17G10An) sink(fn *c17Fn, conv ast.Expr) (string, bool) {
	info, fset := g.a.info, g.a.fset
	par := fn.parents()
	var n ast.Node = conv
	for {
		p := par[n]
		switch x := p.(type) {
		case *ast.AssignStmt:
			for i, rhs := range x.Rhs {
				if !(rhs.Pos() <= conv.Pos() && conv.End() <= rhs.End()) || len(x.Lhs) != len(x.Rhs) {
					continue
				}
				l := ast.Unparen(x.Lhs[i])
				if k, ok := c17PropKey(info, l); ok && namedPath(info.TypeOf(l.(*ast.IndexExpr).X)) == c17PropsPath {
					return `properties["` + k + `"]`, true
				}
				if c17IsFeatureID(info, l) {
					return "Feature.ID", true
				}
				return fn.Name() + ": " + src(fset, l), false
			}
			return fn.Name() + ": " + src(fset, x), false
		case *ast.KeyValueExpr:
			if id, ok := x.Key.(*ast.Ident); ok {
				return "field " + id.Name, strings.HasPrefix(namedPath(info.TypeOf(par[x].(ast.Expr))), "github.com/paulmach/orb/geojson.")
			}
		case *ast.ReturnStmt:
			return "result of " + fn.Name(), false
		case ast.Stmt:
			return fn.Name() + ": " + src(fset, x), false
		case nil:
			return fn.Name(), false
		}
		n = p
	}
}
