package rules

// C11.A6 — the updates of a parent are put into application order: Compute sorts every result list with
// osm.Updates.SortByIndex, and the comparator behind SortByIndex is the strict lexicographic order over
// (Index, Timestamp, Version). Way/Relation.ApplyUpdatesUpTo apply updates in slice order (the last one
// wins) and sort.Sort is not stable, so without the final Version tie-break two versions of a child with the
// same timestamp can be applied newest-first and the OLDER version stays on the parent.

import (
	"strings"

	"osmcheck/core"
)

func c11A6(r *core.R) {
	// (a) every result list is sorted before the success return
	m := c11GetModel(r)
	if m != nil && !m.unknownIfNotes("sort@Compute") {
		c := "sort@Compute"
		lenP := &c11V{k: "call", name: "len", xs: []*c11V{m.P}}
		var results *c11V
		isResults := func(v *c11V) bool {
			ok := v.k == "call" && strings.HasPrefix(v.name, "make@") && len(v.xs) >= 1 && v.xs[0].key() == lenP.key()
			if ok {
				results = v
			}
			return ok
		}
		// loops whose every completed iteration sorts results[<position of the iteration>]
		var stale []string
		sorts := map[string]bool{}
		seen := map[string]bool{}
		pos := m.fi.Decl.Pos()
		for _, p := range m.paths {
			if p.ctl != c11Back {
				continue
			}
			hit := false
			// what each slot results[pos] currently holds (a slot may be replaced, e.g. by a right-sized copy)
			latest := map[string]*c11V{}
			for _, ev := range p.st.ev {
				if ev.kind == "store" && ev.lhs.k == "index" && isResults(ev.lhs.xs[0]) {
					latest[ev.lhs.key()] = ev.rhs
				}
				if ev.kind != "call" {
					continue
				}
				rv, _, ok := ev.call.isMethodCall(core.ModulePath+".Updates", "SortByIndex")
				if !ok {
					continue
				}
				var at *c11V // the position whose CURRENT list is sorted
				switch {
				case rv.k == "index" && isResults(rv.xs[0]):
					if latest[rv.key()] != nil {
						stale = append(stale, "`"+src(r.P.Fset, ev.node)+"` ("+r.P.Rel(ev.node.Pos())+") sorts the list that was in the slot before the slot was replaced: the list that is returned stays unsorted")
						continue
					}
					at = rv.xs[1]
				default:
					for _, e2 := range p.st.ev {
						if e2.kind == "store" && e2.lhs.k == "index" && isResults(e2.lhs.xs[0]) && latest[e2.lhs.key()] != nil && latest[e2.lhs.key()].key() == rv.key() {
							at = e2.lhs.xs[1]
						}
					}
				}
				if at == nil {
					continue
				}
				if lk, ok := c11IsIterKey(at); ok && lk == p.loopKey {
					hit = true
					pos = ev.node.Pos()
				}
				if lk, ok := c11IsLoopSym(at); ok && lk == p.loopKey && c11CountsAll(p, at, results) {
					hit = true
					pos = ev.node.Pos()
				}
			}
			if !seen[p.loopKey] {
				seen[p.loopKey] = true
				sorts[p.loopKey] = hit
			} else if !hit {
				sorts[p.loopKey] = false
			}
		}
		nRet := 0
		var bad []string
		for _, p := range m.paths {
			if p.ctl != c11Return || len(p.res) != 2 || p.res[1].k != "nil" {
				continue
			}
			nRet++
			ok := false
			for _, ev := range p.st.ev {
				if ev.kind == "loop" && sorts[ev.key] {
					ok = true
				}
			}
			if !ok {
				bad = append(bad, "a success path returns without having run a loop that calls SortByIndex on every list of the result")
			}
		}
		switch {
		case nRet == 0:
			r.Unknown(c, pos, "core.Compute has no success return")
		case len(bad) > 0:
			bad = append(bad, stale...)
			r.Bad(c, pos, "%s: the updates of a parent are appended child by child in map order; unsorted, ApplyUpdatesUpTo (which applies them in slice order, last one wins) leaves wrong child versions on the parent", strings.Join(c11Uniq(bad), "; "))
		default:
			r.OK(c, pos, "every success path runs a loop whose every iteration calls results[i].SortByIndex() for its position i")
		}
	}
	// (b) the comparator
	pk := r.P.Pkg("")
	c := "order@Updates.SortByIndex"
	sfi := findFunc(pk, "Updates.SortByIndex")
	if sfi == nil {
		r.Anchor("osm.Updates.SortByIndex")
		return
	}
	cmp, anchor := c11FindComparator(pk, sfi)
	if cmp == nil {
		r.Anchor(anchor + " in osm.Updates.SortByIndex")
		return
	}
	bad, unk := c11CmpTable(cmp, []string{"Index", "Timestamp", "Version"})
	switch {
	case len(bad) > 0:
		if len(bad) > 4 {
			bad = append(bad[:4], "…")
		}
		r.Bad(c, cmp.pos, "%s is not the strict lexicographic order over (Index, Timestamp, Version): %s. sort.Sort is not stable, so updates of one child location that compare equal can end up newest-first and ApplyUpdatesUpTo then leaves the older child version on the parent", cmp.desc, strings.Join(bad, "; "))
	case len(unk) > 0:
		r.Unknown(c, cmp.pos, "%s: %s", cmp.desc, strings.Join(c11Uniq(unk)[:1], "; "))
	default:
		r.OK(c, cmp.pos, "%s evaluated on all 27 relations of (Index, Timestamp, Version): true exactly for the strict lexicographic order (equal index and timestamp are ordered by ascending Version)", cmp.desc)
	}
}
