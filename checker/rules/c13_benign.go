package rules

import "osmcheck/core"

// Behaviour-preserving variants of annotate/change.go: the C13 rules must stay silent on each. Every variant is one
// overlay edit (a source block of c13_src.go replaced by an equivalent one); the classes follow ROBUSTNESS.md.

const c13Chg = "annotate/change.go"

var c13Benign = []core.Mutant{
	// ---- extract function ------------------------------------------------------------------------------------
	{Name: "extract-iteration-helpers", File: c13Chg, Find: c13SrcAddUpdate, Replace: `func addUpdate(
	ctx context.Context,
	actions []osm.Action,
	o *osm.OSM,
	actionType osm.ActionType,
	ds osm.HistoryDatasourcer,
	ignoreMissing bool,
) ([]osm.Action, error) {
	if o == nil {
		return actions, nil
	}

	visible := actionType != osm.ActionDelete
	for _, n := range o.Nodes {
		a, err := nodeAction(ctx, n, actionType, visible, ds, ignoreMissing)
		if err != nil {
			return nil, err
		}
		actions = append(actions, a)
	}

	for _, w := range o.Ways {
		a, err := wayAction(ctx, w, actionType, visible, ds, ignoreMissing)
		if err != nil {
			return nil, err
		}
		actions = append(actions, a)
	}

	for _, r := range o.Relations {
		a, err := relationAction(ctx, r, actionType, visible, ds, ignoreMissing)
		if err != nil {
			return nil, err
		}
		actions = append(actions, a)
	}

	return actions, nil
}

func createAction(o *osm.OSM) osm.Action {
	return osm.Action{Type: osm.ActionCreate, OSM: o}
}

func nodeAction(ctx context.Context, n *osm.Node, t osm.ActionType, visible bool, ds osm.HistoryDatasourcer, ignoreMissing bool) (osm.Action, error) {
	old, err := findPreviousNode(ctx, n, ds, ignoreMissing)
	if e := checkErr(ds, ignoreMissing, err, n.FeatureID()); e != nil {
		return osm.Action{}, e
	}
	if old == nil {
		n.Visible = true
		return createAction(&osm.OSM{Nodes: osm.Nodes{n}}), nil
	}
	n.Visible = visible
	return osm.Action{Type: t, Old: &osm.OSM{Nodes: osm.Nodes{old}}, New: &osm.OSM{Nodes: osm.Nodes{n}}}, nil
}

func wayAction(ctx context.Context, w *osm.Way, t osm.ActionType, visible bool, ds osm.HistoryDatasourcer, ignoreMissing bool) (osm.Action, error) {
	old, err := findPreviousWay(ctx, w, ds, ignoreMissing)
	if e := checkErr(ds, ignoreMissing, err, w.FeatureID()); e != nil {
		return osm.Action{}, e
	}
	if old == nil {
		w.Visible = true
		return createAction(&osm.OSM{Ways: osm.Ways{w}}), nil
	}
	w.Visible = visible
	return osm.Action{Type: t, Old: &osm.OSM{Ways: osm.Ways{old}}, New: &osm.OSM{Ways: osm.Ways{w}}}, nil
}

func relationAction(ctx context.Context, r *osm.Relation, t osm.ActionType, visible bool, ds osm.HistoryDatasourcer, ignoreMissing bool) (osm.Action, error) {
	old, err := findPreviousRelation(ctx, r, ds, ignoreMissing)
	if e := checkErr(ds, ignoreMissing, err, r.FeatureID()); e != nil {
		return osm.Action{}, e
	}
	if old == nil {
		r.Visible = true
		return createAction(&osm.OSM{Relations: osm.Relations{r}}), nil
	}
	r.Visible = visible
	return osm.Action{Type: t, Old: &osm.OSM{Relations: osm.Relations{old}}, New: &osm.OSM{Relations: osm.Relations{r}}}, nil
}
`},
	{Name: "extract-notfound-helper", File: c13Chg, Find: c13SrcFindRel, Replace: `func findPreviousRelation(
	ctx context.Context,
	r *osm.Relation,
	ds osm.HistoryDatasourcer,
	ignoreMissing bool,
) (*osm.Relation, error) {
	relations, err := ds.RelationHistory(ctx, r.ID)
	if err != nil {
		return nil, err
	}

	loc, max := -1, -1
	for i, relation := range relations {
		if isBetter(relation.Version, r.Version, max) {
			max = relation.Version
			loc = i
		}
	}

	if loc == -1 {
		return nil, missing(ignoreMissing, r.FeatureID())
	}

	return relations[loc], nil
}

func isBetter(v, own, best int) bool {
	return v < own && v > best
}

func missing(ignore bool, id osm.FeatureID) error {
	if ignore {
		return nil
	}
	return &NoVisibleChildError{ID: id}
}
`},
	// ---- inline function ---------------------------------------------------------------------------------------
	{Name: "inline-search-into-node-loop", File: c13Chg, Find: c13SrcNodeLoop, Replace: `	for _, n := range o.Nodes {
		var old *osm.Node
		nodes, err := ds.NodeHistory(ctx, n.ID)
		if err == nil {
			loc, max := -1, -1
			for i, node := range nodes {
				if v := node.Version; v < n.Version && v > max {
					max = v
					loc = i
				}
			}
			if loc != -1 {
				old = nodes[loc]
			} else if !ignoreMissing {
				err = &NoVisibleChildError{ID: n.FeatureID()}
			}
		}
		if e := checkErr(ds, ignoreMissing, err, n.FeatureID()); e != nil {
			return nil, e
		}

		if old == nil {
			n.Visible = true
			actions = append(actions, osm.Action{
				Type: osm.ActionCreate,
				OSM:  &osm.OSM{Nodes: osm.Nodes{n}},
			})
			continue
		}

		n.Visible = currentVisible
		actions = append(actions, osm.Action{
			Type: actionType,
			Old:  &osm.OSM{Nodes: osm.Nodes{old}},
			New:  &osm.OSM{Nodes: osm.Nodes{n}},
		})
	}
`},
	// ---- if <-> switch -------------------------------------------------------------------------------------------
	{Name: "checkerr-tagless-switch", File: c13Chg, Find: c13SrcCheckErr, Replace: `func checkErr(ds osm.HistoryDatasourcer, ignoreMissing bool, err error, id osm.FeatureID) error {
	switch {
	case err == nil:
		return nil
	case !ds.NotFound(err):
		return err
	case ignoreMissing:
		return nil
	default:
		return &NoVisibleChildError{ID: id}
	}
}
`},
	{Name: "visible-tag-switch", File: c13Chg, Find: c13SrcVisible, Replace: `	var currentVisible bool
	switch actionType {
	case osm.ActionDelete:
		currentVisible = false
	default:
		currentVisible = true
	}
`},
	// ---- inverted branch -------------------------------------------------------------------------------------------
	{Name: "way-loop-inverted-branch", File: c13Chg, Find: c13SrcWayLoop, Replace: `	for _, w := range o.Ways {
		old, err := findPreviousWay(ctx, w, ds, ignoreMissing)
		if e := checkErr(ds, ignoreMissing, err, w.FeatureID()); e != nil {
			return nil, e
		}

		if old != nil {
			w.Visible = currentVisible
			actions = append(actions, osm.Action{
				Type: actionType,
				Old:  &osm.OSM{Ways: osm.Ways{old}},
				New:  &osm.OSM{Ways: osm.Ways{w}},
			})
		} else {
			w.Visible = true
			actions = append(actions, osm.Action{
				Type: osm.ActionCreate,
				OSM:  &osm.OSM{Ways: osm.Ways{w}},
			})
		}
	}
`},
	// ---- merged / split guards ---------------------------------------------------------------------------------------
	{Name: "search-split-guards-continue", File: c13Chg, Find: c13SrcFindRel, Replace: `func findPreviousRelation(
	ctx context.Context,
	r *osm.Relation,
	ds osm.HistoryDatasourcer,
	ignoreMissing bool,
) (*osm.Relation, error) {
	relations, err := ds.RelationHistory(ctx, r.ID)
	if err != nil {
		return nil, err
	}

	loc, max := -1, -1
	for i, relation := range relations {
		v := relation.Version
		if v >= r.Version {
			continue
		}
		if max >= v {
			continue
		}
		max, loc = v, i
	}

	if loc < 0 {
		if !ignoreMissing {
			return nil, &NoVisibleChildError{ID: r.FeatureID()}
		}
		return nil, nil
	}

	return relations[loc], nil
}
`},
	{Name: "checkerr-merged-guards", File: c13Chg, Find: c13SrcCheckErr, Replace: `func checkErr(ds osm.HistoryDatasourcer, ignoreMissing bool, err error, id osm.FeatureID) error {
	if err == nil || (ds.NotFound(err) && ignoreMissing) {
		return nil
	}
	if ds.NotFound(err) {
		return &NoVisibleChildError{ID: id}
	}
	return err
}
`},
	// ---- pointer alias / counted loop ---------------------------------------------------------------------------------
	{Name: "search-counted-loop-alias", File: c13Chg, Find: c13SrcFindWay, Replace: `func findPreviousWay(
	ctx context.Context,
	w *osm.Way,
	ds osm.HistoryDatasourcer,
	ignoreMissing bool,
) (*osm.Way, error) {
	ways, err := ds.WayHistory(ctx, w.ID)
	if err != nil {
		return nil, err
	}

	loc, max := -1, -1
	for i := 0; i < len(ways); i++ {
		way := ways[i]
		if way.Version < w.Version && way.Version > max {
			max = way.Version
			loc = i
		}
	}

	if loc == -1 {
		// no version before ours
		if ignoreMissing {
			return nil, nil
		}
		return nil, &NoVisibleChildError{ID: w.FeatureID()}
	}

	return ways[loc], nil
}
`},
	{Name: "create-section-alias-index-loops", File: c13Chg, Find: c13SrcCreate, Replace: `	if created := change.Create; created != nil {
		nodes := created.Nodes
		for i := range nodes {
			n := nodes[i]
			n.Visible = true
			actions = append(actions, osm.Action{
				Type: osm.ActionCreate,
				OSM:  &osm.OSM{Nodes: osm.Nodes{n}},
			})
		}

		for i := range created.Ways {
			w := created.Ways[i]
			w.Visible = true
			actions = append(actions, osm.Action{
				Type: osm.ActionCreate,
				OSM:  &osm.OSM{Ways: osm.Ways{w}},
			})
		}

		for _, r := range created.Relations {
			r.Visible = true
			actions = append(actions, osm.Action{
				Type: osm.ActionCreate,
				OSM:  &osm.OSM{Relations: osm.Relations{r}},
			})
		}
	}
`},
	// ---- if-init form <-> separate statement, renamed locals --------------------------------------------------------------
	{Name: "node-loop-no-if-init-renamed", File: c13Chg, Find: c13SrcNodeLoop, Replace: `	for _, node := range o.Nodes {
		previous, findErr := findPreviousNode(ctx, node, ds, ignoreMissing)
		mapped := checkErr(ds, ignoreMissing, findErr, node.FeatureID())
		if mapped != nil {
			return nil, mapped
		}

		if previous == nil {
			node.Visible = true
			actions = append(actions, osm.Action{
				Type: osm.ActionCreate,
				OSM:  &osm.OSM{Nodes: osm.Nodes{node}},
			})
			continue
		}

		node.Visible = currentVisible
		actions = append(actions, osm.Action{
			Type: actionType,
			Old:  &osm.OSM{Nodes: osm.Nodes{previous}},
			New:  &osm.OSM{Nodes: osm.Nodes{node}},
		})
	}
`},
	// ---- named constant, found-first order, equivalent accessor --------------------------------------------------------------
	{Name: "search-named-sentinel-found-first", File: c13Chg, Find: c13SrcFindNode, Replace: `func findPreviousNode(
	ctx context.Context,
	n *osm.Node,
	ds osm.HistoryDatasourcer,
	ignoreMissing bool,
) (*osm.Node, error) {
	const none = -1

	history, err := ds.NodeHistory(ctx, n.ID)
	if err != nil {
		return nil, err
	}

	best, bestVersion := none, none
	for i := range history {
		if cand := history[i].Version; n.Version > cand && bestVersion < cand {
			best, bestVersion = i, cand
		}
	}

	if best != none {
		return history[best], nil
	}

	if ignoreMissing {
		return nil, nil
	}

	return nil, &NoVisibleChildError{ID: n.ID.FeatureID()}
}
`},
	// ---- reordered independent statements ---------------------------------------------------------------------------------
	{Name: "create-append-before-visible", File: c13Chg, Find: c13SrcCreate, Replace: `	if o := change.Create; o != nil {
		for _, n := range o.Nodes {
			actions = append(actions, osm.Action{
				OSM:  &osm.OSM{Nodes: osm.Nodes{n}},
				Type: osm.ActionCreate,
			})
			n.Visible = true
		}

		for _, w := range o.Ways {
			actions = append(actions, osm.Action{
				OSM:  &osm.OSM{Ways: osm.Ways{w}},
				Type: osm.ActionCreate,
			})
			w.Visible = true
		}

		for _, r := range o.Relations {
			actions = append(actions, osm.Action{
				OSM:  &osm.OSM{Relations: osm.Relations{r}},
				Type: osm.ActionCreate,
			})
			r.Visible = true
		}
	}
`},
	// ---- a different but equivalent scan idiom --------------------------------------------------------------------------------
	{Name: "search-best-pointer", File: c13Chg, Find: c13SrcFindWay, Replace: `func findPreviousWay(
	ctx context.Context,
	w *osm.Way,
	ds osm.HistoryDatasourcer,
	ignoreMissing bool,
) (*osm.Way, error) {
	ways, err := ds.WayHistory(ctx, w.ID)
	if err != nil {
		return nil, err
	}

	var best *osm.Way
	for _, way := range ways {
		if way.Version < w.Version && (best == nil || way.Version > best.Version) {
			best = way
		}
	}

	if best == nil {
		if ignoreMissing {
			return nil, nil
		}
		return nil, &NoVisibleChildError{ID: w.FeatureID()}
	}

	return best, nil
}
`},
	{Name: "search-empty-history-fast-path", File: c13Chg, Find: c13SrcFindNode, Replace: `func findPreviousNode(
	ctx context.Context,
	n *osm.Node,
	ds osm.HistoryDatasourcer,
	ignoreMissing bool,
) (*osm.Node, error) {
	nodes, err := ds.NodeHistory(ctx, n.ID)
	if err != nil {
		return nil, err
	}

	if len(nodes) == 0 {
		if ignoreMissing {
			return nil, nil
		}
		return nil, &NoVisibleChildError{ID: n.FeatureID()}
	}

	loc, max := -1, -1
	for i, node := range nodes {
		if v := node.Version; v < n.Version && v > max {
			max = v
			loc = i
		}
	}

	if loc == -1 {
		// no version before ours
		if ignoreMissing {
			return nil, nil
		}
		return nil, &NoVisibleChildError{ID: n.FeatureID()}
	}

	return nodes[loc], nil
}
`},
	// ---- data-driven sections, closures, objects built step by step ---------------------------------------------------------------
	{Name: "sections-table-loop", File: c13Chg, Find: c13SrcModDel, Replace: `	var err error
	for _, s := range []struct {
		o *osm.OSM
		t osm.ActionType
	}{{change.Modify, osm.ActionModify}, {change.Delete, osm.ActionDelete}} {
		actions, err = addUpdate(ctx, actions, s.o, s.t, ds, ignoreMissing)
		if err != nil {
			return nil, err
		}
	}

	return &osm.Diff{Actions: actions}, nil
`},
	{Name: "diff-built-stepwise", File: c13Chg, Find: c13SrcModDel, Replace: `	diff := &osm.Diff{}
	actions, err := addUpdate(ctx, actions, change.Modify, osm.ActionModify, ds, ignoreMissing)
	if err != nil {
		return nil, err
	}

	if actions, err = addUpdate(ctx, actions, change.Delete, osm.ActionDelete, ds, ignoreMissing); err != nil {
		return nil, err
	}

	diff.Actions = actions
	return diff, nil
`},
	{Name: "create-closure-append", File: c13Chg, Find: c13SrcCreate, Replace: `	add := func(a osm.Action) {
		actions = append(actions, a)
	}
	if o := change.Create; o != nil {
		for _, n := range o.Nodes {
			n.Visible = true
			add(osm.Action{Type: osm.ActionCreate, OSM: &osm.OSM{Nodes: osm.Nodes{n}}})
		}

		for _, w := range o.Ways {
			w.Visible = true
			add(osm.Action{Type: osm.ActionCreate, OSM: &osm.OSM{Ways: osm.Ways{w}}})
		}

		for _, r := range o.Relations {
			r.Visible = true
			add(osm.Action{Type: osm.ActionCreate, OSM: &osm.OSM{Relations: osm.Relations{r}}})
		}
	}
`},
	{Name: "relation-action-built-stepwise", File: c13Chg, Find: c13SrcRelLoop, Replace: `	for _, r := range o.Relations {
		old, err := findPreviousRelation(ctx, r, ds, ignoreMissing)
		if e := checkErr(ds, ignoreMissing, err, r.FeatureID()); e != nil {
			return nil, e
		}

		var a osm.Action
		if old == nil {
			r.Visible = true
			a.Type = osm.ActionCreate
			a.OSM = &osm.OSM{}
			a.OSM.Relations = osm.Relations{r}
		} else {
			r.Visible = currentVisible
			a = osm.Action{Type: actionType}
			a.Old = &osm.OSM{Relations: osm.Relations{old}}
			a.New = &osm.OSM{Relations: osm.Relations{r}}
		}
		actions = append(actions, a)
	}
`},
}
