package rules

import (
	"fmt"
	"go/token"
	"sort"
	"strconv"
	"strings"
)

// H3 status table: the request function is executed symbolically once for every status value 100..599 (a finite
// domain); on every path on which Client.Do succeeded the outcome must be the one of the table.
func (cx *c20Ctx) statusTableGet(tab *c20Table) {
	r := cx.r
	fn := cx.getFn
	want := func(s int64) string {
		if s == tab.OKStatus {
			return "decode"
		}
		if t, ok := tab.Statuses[strconv.FormatInt(s, 10)]; ok {
			return "err:" + t
		}
		return "err:" + tab.OtherStatus
	}
	key := func(s int64) string {
		if _, ok := tab.Statuses[strconv.FormatInt(s, 10)]; ok || s == tab.OKStatus {
			return fmt.Sprintf("status %d", s)
		}
		return "status other"
	}
	type verdict struct {
		bad, unk, proof string
		pos             token.Pos
	}
	res := map[string]*verdict{}
	nOther := 0
	for s := int64(100); s <= 599; s++ {
		k := key(s)
		v := res[k]
		if v == nil {
			v = &verdict{pos: fn.Decl.Pos()}
			res[k] = v
		}
		if k == "status other" {
			nOther++
		}
		if v.bad != "" || v.unk != "" {
			continue
		}
		g := cx.runGet(s)
		if why, pos := g.abortText(cx); why != "" {
			v.unk, v.pos = fmt.Sprintf("%s could not be executed symbolically for StatusCode %d: %s", fn.Name(), s, why), pos
			continue
		}
		w := want(s)
		n := 0
		for _, st := range g.rets {
			if _, ok := c20DoOK(st); !ok {
				continue
			}
			n++
			kind, val := cx.classifyGet(st)
			ret := src(r.P.Fset, st.retAt)
			if kind != w && len(st.notes) > 0 {
				v.unk = fmt.Sprintf("for StatusCode %d the outcome depends on a condition that is neither a test of the status nor of an input: %s", s, st.notes[0])
				v.pos = cx.posOf(st, v.pos)
				break
			}
			if kind != w {
				what := "&" + strings.TrimPrefix(w, "err:") + "{...}"
				if w == "decode" {
					what = "the XML decode of the body"
				}
				v.bad = fmt.Sprintf("with StatusCode %d %s ends in `%s` (%s); the API contract requires %s", s, fn.Name(), ret, val.String(), what)
				if w != "decode" && (kind == "decode" || kind == "nil") {
					v.bad += " (a non-200 response is decoded/accepted: partial or error-page data is returned as success)"
				}
				v.pos = cx.posOf(st, v.pos)
				break
			}
			if strings.HasPrefix(kind, "err:") {
				if k == "status other" {
					if code, ok := val.fields["Code"]; !ok || !(code.k == c20kInt && code.h != nil && code.h.key() == "status") {
						v.bad = fmt.Sprintf("`%s` does not record the response's StatusCode in the error", ret)
						v.pos = cx.posOf(st, v.pos)
						break
					}
				}
			}
			if v.proof == "" {
				v.pos = cx.posOf(st, v.pos)
				v.proof = fmt.Sprintf("every path with a successful Do and StatusCode %d ends in `%s`", s, ret)
			}
		}
		if n == 0 && v.bad == "" {
			v.unk = fmt.Sprintf("no path with a successful Client.Do for StatusCode %d", s)
		}
	}
	var keys []string
	for k := range res {
		keys = append(keys, k)
	}
	sort.Strings(keys)
	for _, k := range keys {
		v := res[k]
		switch {
		case v.unk != "":
			r.Unknown(k, v.pos, "%s", v.unk)
		case v.bad != "":
			r.Bad(k, v.pos, "%s", v.bad)
		case k == "status other":
			r.OK(k, v.pos, "all %d other status values in 100..599: %s (symbolic execution per value, helpers inlined)", nOther, v.proof)
		default:
			r.OK(k, v.pos, "%s", v.proof)
		}
	}
}

// H3 decode target, request method; H4 url@ — read off the run for the OK status.
func (cx *c20Ctx) requestShapeGet(tab *c20Table, rule string) {
	r := cx.r
	fn := cx.getFn
	g := cx.runGet(tab.OKStatus)
	cDec, cReq, cURL := "decode target", "request method@"+fn.Name(), "url@"+fn.Name()
	if why, pos := g.abortText(cx); why != "" {
		if rule == "H3" {
			r.Unknown(cDec, pos, "%s could not be executed symbolically: %s", fn.Name(), why)
			r.Unknown(cReq, pos, "%s could not be executed symbolically: %s", fn.Name(), why)
		} else {
			r.Unknown(cURL, pos, "%s could not be executed symbolically: %s", fn.Name(), why)
		}
		return
	}
	badDec, badReq, badURL := "", "", ""
	pos := fn.Decl.Pos()
	posDec, posReq := pos, pos
	nDec, nDo := 0, 0
	method := ""
	for _, st := range g.rets {
		do, ok := c20DoOK(st)
		if !ok {
			continue
		}
		nDo++
		posReq = do.call.Pos()
		// the request sent is the one created by NewRequest with the constant method and the URL parameter
		var nr *c20Event
		if len(do.args) == 1 && do.args[0].k == c20kObj && do.args[0].tag == "req" {
			for i, ev := range st.events {
				if ev.kind == "newreq" && ev.id == do.args[0].id {
					nr = &st.events[i]
				}
			}
		}
		switch {
		case nr == nil:
			badReq = "`" + src(r.P.Fset, do.call) + "` does not send a request created by http.NewRequest in this call"
		case nr.args[0].k != c20kStr || len(nr.args[0].sym.holes()) != 0:
			badReq = "the request method of `" + src(r.P.Fset, nr.call) + "` is not a constant"
		default:
			method = nr.args[0].sym.render(nil)
			posReq = nr.call.Pos()
			if method != tab.HTTPMethod {
				badReq = fmt.Sprintf("`%s` creates a %q request; every read call of API v0.6 used here is a %s", src(r.P.Fset, nr.call), method, tab.HTTPMethod)
			}
			if v, known := st.fact(c20NilAtom(nr.id)); !known || !v {
				badReq = "`" + src(r.P.Fset, do.call) + "` is reached although the error of `" + src(r.P.Fset, nr.call) + "` was not tested nil"
			}
			switch {
			case !c20IsInput(nr.args[1], cx.getKey(cx.get.url)):
				badURL = "`" + src(r.P.Fset, nr.call) + "` requests " + nr.args[1].String() + ", not the URL parameter unchanged"
			case nr.args[2].k != c20kNil:
				badURL = "`" + src(r.P.Fset, nr.call) + "` sends a request body"
			}
		}
		if kind, _ := cx.classifyGet(st); kind == "decode" {
			nDec++
			dec := st.eventsOf("decode")[0]
			posDec = dec.call.Pos()
			srcV := dec.recv.fields["src"]
			switch {
			case len(dec.args) != 1 || !c20IsInput(dec.args[0], cx.getKey(cx.get.item)):
				badDec = "`" + src(r.P.Fset, dec.call) + "` does not decode into the caller's item parameter"
			case !(dec.recv.k == c20kObj && dec.recv.tag == "decoder" && srcV.k == c20kObj && srcV.tag == "body" && srcV.id == do.id):
				badDec = "`" + src(r.P.Fset, dec.call) + "` does not read the Body of the response returned by Do"
			}
		}
	}
	if rule == "H3" {
		switch {
		case badDec != "":
			r.Bad(cDec, posDec, "%s", badDec)
		case nDec == 0:
			r.Bad(cDec, pos, "%s never decodes the response body with encoding/xml for status %d", fn.Name(), tab.OKStatus)
		default:
			r.OK(cDec, posDec, "on all %d decode path(s) the xml.Decoder reads the Body of the response returned by Do into the item parameter", nDec)
		}
		switch {
		case badReq != "":
			r.Bad(cReq, posReq, "%s", badReq)
		case nDo == 0:
			r.Unknown(cReq, pos, "no path with a successful Client.Do")
		default:
			r.OK(cReq, posReq, "on all %d path(s) Do sends the request created by http.NewRequest with the constant method %q (its error tested nil)", nDo, method)
		}
		return
	}
	switch {
	case badURL != "":
		r.Bad(cURL, posReq, "%s", badURL)
	case nDo == 0 || badReq != "":
		r.Unknown(cURL, pos, "the request sent by Do was not identified (see H3 %s)", cReq)
	default:
		r.OK(cURL, posReq, "the request is created for exactly the URL parameter, unmodified, without body")
	}
}
