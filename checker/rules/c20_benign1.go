package rules

import "osmcheck/core"

// c20Benign1: part 1 of the behaviour-preserving variants of C20 (see c20_benign.go).
func c20Benign1() []core.Mutant {
	return []core.Mutant{
		{Name: "extract-throttle-helper-inverted-nil-test", File: "osmapi/datasource.go",
			Find: `func (ds *Datasource) getFromAPI(ctx context.Context, url string, item interface{}) error {
	client := ds.Client
	if client == nil {
		client = DefaultDatasource.Client
	}

	if client == nil {
		client = http.DefaultClient
	}

	if ds.Limiter != nil {
		err := ds.Limiter.Wait(ctx)
		if err != nil {
			return err
		}
	}
`,
			Replace: `func (ds *Datasource) throttle(ctx context.Context) error {
	if ds.Limiter == nil {
		return nil
	}
	return ds.Limiter.Wait(ctx)
}

func (ds *Datasource) getFromAPI(ctx context.Context, url string, item interface{}) error {
	client := ds.Client
	if client == nil {
		client = DefaultDatasource.Client
	}

	if client == nil {
		client = http.DefaultClient
	}

	if err := ds.throttle(ctx); err != nil {
		return err
	}
`},
		{Name: "status-chain-to-tagless-switch-with-init", File: "osmapi/datasource.go",
			Find: `	if resp.StatusCode == http.StatusNotFound {
		return &NotFoundError{URL: url}
	}

	if resp.StatusCode == http.StatusForbidden {
		return &ForbiddenError{URL: url}
	}

	if resp.StatusCode == http.StatusGone {
		return &GoneError{URL: url}
	}

	if resp.StatusCode == http.StatusRequestURITooLong {
		return &RequestURITooLongError{URL: url}
	}

	if resp.StatusCode != http.StatusOK {
		return &UnexpectedStatusCodeError{
			Code: resp.StatusCode,
			URL:  url,
		}
	}

	return xml.NewDecoder(resp.Body).Decode(item)
`,
			Replace: `	switch code := resp.StatusCode; {
	case code == http.StatusOK:
		return xml.NewDecoder(resp.Body).Decode(item)
	case code == http.StatusNotFound:
		return &NotFoundError{URL: url}
	case code == http.StatusGone:
		return &GoneError{URL: url}
	case code == http.StatusForbidden:
		return &ForbiddenError{URL: url}
	case http.StatusRequestURITooLong == code:
		return &RequestURITooLongError{URL: url}
	}
	return &UnexpectedStatusCodeError{Code: resp.StatusCode, URL: url}
`},
		{Name: "notfound-inverted-nesting", File: "osmapi/datasource.go",
			Find:    "\tif err == nil {\n\t\treturn false\n\t}\n\n\t_, ok := err.(*NotFoundError)\n\treturn ok\n",
			Replace: "\tif err != nil {\n\t\tif _, ok := err.(*NotFoundError); ok {\n\t\t\treturn true\n\t\t}\n\t}\n\treturn false\n"},
		{Name: "client-selection-nested-if-init", File: "osmapi/datasource.go",
			Find:    "\tclient := ds.Client\n\tif client == nil {\n\t\tclient = DefaultDatasource.Client\n\t}\n\n\tif client == nil {\n\t\tclient = http.DefaultClient\n\t}\n",
			Replace: "\tclient := ds.Client\n\tif client == nil {\n\t\tif client = DefaultDatasource.Client; client == nil {\n\t\t\tclient = http.DefaultClient\n\t\t}\n\t}\n"},
		{Name: "limit-split-guards-named-constants", File: "osmapi/options.go",
			Find:    "\tif o.n < 1 || 10000 < o.n {\n\t\treturn nil, errors.New(\"osmapi: limit must be between 1 and 10000\")\n\t}\n",
			Replace: "\tconst lo, hi = 1, 10000\n\tif o.n < lo {\n\t\treturn nil, errors.New(\"osmapi: limit must be between 1 and 10000\")\n\t}\n\tif !(o.n <= hi) {\n\t\treturn nil, errors.New(\"osmapi: limit must be between 1 and 10000\")\n\t}\n"},
		{Name: "featureoptions-no-shortcut-renamed-loop-locals", File: "osmapi/options.go",
			Find:    "\tif len(opts) == 0 {\n\t\treturn \"\", nil\n\t}\n\n\tparams := make([]string, 0, len(opts))\n\n\tvar err error\n\tfor _, o := range opts {\n\t\tparams, err = o.applyFeature(params)\n\t\tif err != nil {\n\t\t\treturn \"\", err\n\t\t}\n\t}\n",
			Replace: "\tvar params []string\n\tfor _, opt := range opts {\n\t\tnext, err := opt.applyFeature(params)\n\t\tif err != nil {\n\t\t\treturn \"\", err\n\t\t}\n\t\tparams = next\n\t}\n"},
		{Name: "user-inline-base-url-reordered-statements", File: "osmapi/user.go",
			Find:    "\turl := fmt.Sprintf(\"%s/user/%d\", ds.baseURL(), id)\n\n\to := &osm.OSM{}\n",
			Replace: "\to := &osm.OSM{}\n\tbase := ds.BaseURL\n\tif base == \"\" {\n\t\tbase = BaseURL\n\t}\n\turl := fmt.Sprintf(\"%s/user/%d\", base, id)\n"},
		{Name: "node-single-guard-eq-form-value-alias", File: "osmapi/node.go",
			Find:    "\tif l := len(o.Nodes); l != 1 {\n\t\treturn nil, fmt.Errorf(\"wrong number of nodes, expected 1, got %v\", l)\n\t}\n\n\treturn o.Nodes[0], nil\n",
			Replace: "\tnodes := o.Nodes\n\tif len(nodes) == 1 {\n\t\treturn nodes[0], nil\n\t}\n\n\treturn nil, fmt.Errorf(\"wrong number of nodes, expected 1, got %v\", len(nodes))\n"},
		{Name: "ways-csv-renamed-len-guard-named-separator", File: "osmapi/way.go",
			Find:    "\tdata := make([]byte, 0, 11*len(ids))\n\tfor i, id := range ids {\n\t\tif i != 0 {\n\t\t\tdata = append(data, byte(','))\n\t\t}\n\t\tdata = strconv.AppendInt(data, int64(id), 10)\n\t}\n\turl := ds.baseURL() + \"/ways?ways=\" + string(data)\n",
			Replace: "\tconst comma = ','\n\tbuf := make([]byte, 0, 11*len(ids))\n\tfor _, wayID := range ids {\n\t\tif len(buf) > 0 {\n\t\t\tbuf = append(buf, comma)\n\t\t}\n\t\tbuf = strconv.AppendInt(buf, int64(wayID), 10)\n\t}\n\turl := ds.baseURL() + \"/ways?ways=\" + string(buf)\n"},
		{Name: "wayfull-named-format-separate-error-test", File: "osmapi/way.go",
			Find:    "\turl := fmt.Sprintf(\"%s/way/%d/full?%s\", ds.baseURL(), id, params)\n\n\to := &osm.OSM{}\n\tif err := ds.getFromAPI(ctx, url, &o); err != nil {\n\t\treturn nil, err\n\t}\n",
			Replace: "\tconst format = \"%s/way/%d/full?%s\"\n\turl := fmt.Sprintf(format, ds.baseURL(), id, params)\n\n\to := &osm.OSM{}\n\terr = ds.getFromAPI(ctx, url, &o)\n\tif err != nil {\n\t\treturn nil, err\n\t}\n"},
		{Name: "map-wrapper-through-locals", File: "osmapi/map.go",
			Find:    "\treturn DefaultDatasource.Map(ctx, bounds, opts...)\n",
			Replace: "\tds := DefaultDatasource\n\tosmData, err := ds.Map(ctx, bounds, opts...)\n\treturn osmData, err\n"},
		{Name: "relations-optional-suffix-as-switch", File: "osmapi/relation.go",
			Find:    "\turl := ds.baseURL() + \"/relations?relations=\" + string(data)\n\tif len(params) > 0 {\n\t\turl += \"&\" + params\n\t}\n",
			Replace: "\tvar url string\n\tswitch {\n\tcase params == \"\":\n\t\turl = ds.baseURL() + \"/relations?relations=\" + string(data)\n\tdefault:\n\t\turl = ds.baseURL() + \"/relations?relations=\" + string(data) + \"&\" + params\n\t}\n"},
		{Name: "changeset-helper-moved-before-its-caller", File: "osmapi/changeset.go",
			Find: `// ChangesetWithDiscussion returns a changeset and its discussion from the osm rest api.
func (ds *Datasource) ChangesetWithDiscussion(ctx context.Context, id osm.ChangesetID) (*osm.Changeset, error) {
	url := fmt.Sprintf("%s/changeset/%d?include_discussion=true", ds.baseURL(), id)
	return ds.getChangeset(ctx, url)
}

func (ds *Datasource) getChangeset(ctx context.Context, url string) (*osm.Changeset, error) {
	css := &osm.OSM{}
	if err := ds.getFromAPI(ctx, url, &css); err != nil {
		return nil, err
	}

	if l := len(css.Changesets); l != 1 {
		return nil, fmt.Errorf("wrong number of changesets, expected 1, got %v", l)
	}

	return css.Changesets[0], nil
}
`,
			Replace: `func (ds *Datasource) fetchOneChangeset(ctx context.Context, url string) (*osm.Changeset, error) {
	doc := &osm.OSM{}
	if err := ds.getFromAPI(ctx, url, &doc); err != nil {
		return nil, err
	}

	if l := len(doc.Changesets); l != 1 {
		return nil, fmt.Errorf("wrong number of changesets, expected 1, got %v", l)
	}

	return doc.Changesets[0], nil
}

func (ds *Datasource) getChangeset(ctx context.Context, url string) (*osm.Changeset, error) {
	return ds.fetchOneChangeset(ctx, url)
}

// ChangesetWithDiscussion returns a changeset and its discussion from the osm rest api.
func (ds *Datasource) ChangesetWithDiscussion(ctx context.Context, id osm.ChangesetID) (*osm.Changeset, error) {
	const discussion = "?include_discussion=true"
	url := fmt.Sprintf("%s/changeset/%d", ds.baseURL(), id) + discussion
	return ds.getChangeset(ctx, url)
}
`},
		{Name: "at-option-hoisted-timestamp-named-layout", File: "osmapi/options.go",
			Find:    "\treturn append(p, \"at=\"+o.t.UTC().Format(\"2006-01-02T15:04:05Z\")), nil\n",
			Replace: "\tconst layout = \"2006-01-02T15:04:05Z\"\n\tutc := o.t.UTC()\n\tparam := fmt.Sprintf(\"at=%s\", utc.Format(layout))\n\tp = append(p, param)\n\treturn p, nil\n"},
		{Name: "nodehistory-through-generic-url-and-fetch-helpers", File: "osmapi/node.go",
			Find: `	url := fmt.Sprintf("%s/node/%d/history", ds.baseURL(), id)

	o := &osm.OSM{}
	if err := ds.getFromAPI(ctx, url, &o); err != nil {
		return nil, err
	}

	return o.Nodes, nil
}
`,
			Replace: `	nodes, err := ds.fetchNodes(ctx, ds.elementURL("node", int64(id), "history"))
	switch {
	case err != nil:
		return nil, err
	}
	return nodes, nil
}

func (ds *Datasource) elementURL(kind string, id int64, sub string) string {
	u := ds.baseURL() + "/" + kind + "/" + strconv.FormatInt(id, 10)
	if sub != "" {
		u = u + "/" + sub
	}
	return u
}

func (ds *Datasource) fetchNodes(ctx context.Context, u string) (osm.Nodes, error) {
	doc := new(osm.OSM)
	if err := ds.getFromAPI(ctx, u, &doc); err == nil {
		return doc.Nodes, nil
	} else {
		return nil, err
	}
}
`},
		{Name: "notes-list-literal-index-loop", File: "osmapi/note.go",
			Find: `	params := make([]string, 0, 1+len(opts))
	params = append(params, fmt.Sprintf("bbox=%f,%f,%f,%f",
		bounds.MinLon, bounds.MinLat,
		bounds.MaxLon, bounds.MaxLat))

	var err error
	for _, o := range opts {
		params, err = o.applyNotes(params)
		if err != nil {
			return nil, err
		}
	}
`,
			Replace: `	params := []string{fmt.Sprintf("bbox=%f,%f,%f,%f",
		bounds.MinLon, bounds.MinLat,
		bounds.MaxLon, bounds.MaxLat)}

	for i := 0; i < len(opts); i++ {
		var err error
		if params, err = opts[i].applyNotes(params); err != nil {
			return nil, err
		}
	}
`},
		{Name: "limit-accepting-branch-first-local-copy", File: "osmapi/options.go",
			Find: `	if o.n < 1 || 10000 < o.n {
		return nil, errors.New("osmapi: limit must be between 1 and 10000")
	}
	return append(p, fmt.Sprintf("limit=%d", o.n)), nil
`,
			Replace: `	if n := o.n; n >= 1 && n <= 10000 {
		return append(p, fmt.Sprintf("limit=%v", n)), nil
	}
	return nil, errors.New("osmapi: limit must be between 1 and 10000")
`},
		{Name: "extract-send-helper-newrequestwithcontext-deferred-closure", File: "osmapi/datasource.go",
			Find: `	req, err := http.NewRequest("GET", url, nil)
	if err != nil {
		return err
	}

	resp, err := client.Do(req.WithContext(ctx))
	if err != nil {
		return err
	}
	defer resp.Body.Close()

	if resp.StatusCode == http.StatusNotFound {
		return &NotFoundError{URL: url}
	}

	if resp.StatusCode == http.StatusForbidden {
		return &ForbiddenError{URL: url}
	}

	if resp.StatusCode == http.StatusGone {
		return &GoneError{URL: url}
	}

	if resp.StatusCode == http.StatusRequestURITooLong {
		return &RequestURITooLongError{URL: url}
	}

	if resp.StatusCode != http.StatusOK {
		return &UnexpectedStatusCodeError{
			Code: resp.StatusCode,
			URL:  url,
		}
	}

	return xml.NewDecoder(resp.Body).Decode(item)
}

`,
			Replace: `	resp, err := send(ctx, client, url)
	if err != nil {
		return err
	}
	defer func() { resp.Body.Close() }()

	if resp.StatusCode == http.StatusNotFound {
		return &NotFoundError{URL: url}
	}

	if resp.StatusCode == http.StatusForbidden {
		return &ForbiddenError{URL: url}
	}

	if resp.StatusCode == http.StatusGone {
		return &GoneError{URL: url}
	}

	if resp.StatusCode == http.StatusRequestURITooLong {
		return &RequestURITooLongError{URL: url}
	}

	if resp.StatusCode != http.StatusOK {
		return &UnexpectedStatusCodeError{
			Code: resp.StatusCode,
			URL:  url,
		}
	}

	return xml.NewDecoder(resp.Body).Decode(item)
}

func send(ctx context.Context, c *http.Client, u string) (*http.Response, error) {
	req, err := http.NewRequestWithContext(ctx, http.MethodGet, u, nil)
	if err != nil {
		return nil, err
	}
	return c.Do(req)
}

`},
	}
}
