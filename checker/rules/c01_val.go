package rules

import (
	"fmt"
	"go/types"
	"sort"
	"strconv"
	"strings"
)

// Values and states of the C01.R2 interpreter (c01_exec.go, c01_eval.go).
//
// The freshness analysis executes the decoding of one element message on a finite abstract domain:
//   - the iterator fields of the per-worker decoder: S (left over from an earlier element/block), A (assigned from
//     the current message), N (nil);
//   - tracked cells: the presence state a decoder keeps while it scans a message, in whatever representation: bool
//     locals, fields of a struct of bools, elements of a bool array, a bit set in a named integer, small integers
//     used as table indices, pointers to iterator fields held in tables, error values (nil / non-nil / unknown).
// Cells hold concrete values or "unknown"; every operation on known values is evaluated exactly (bit operations,
// comparisons, indexing of constant tables), anything else yields unknown and both branches are explored.

type c01Val struct {
	k byte              // 'U' unknown, 'B' bool, 'I' int, 'P' pointer to iterator field, 'R' pointer to a cell, 'N' nil pointer, 'E' error value, 'F' value of an iterator field, 'T' iterator held in a cell, 'C' composite
	i int64             // B: 0/1, I: value, P/F: field index, E: 'Z' nil, 'E' non-nil, '?' unknown, T: 'S' stale, 'A' assigned from the current message
	s string            // R: cell path, T: label of the struct field the iterator was read from
	m map[string]c01Val // C: sub-path -> scalar
}

var c01Unknown = c01Val{k: 'U'}

func c01BoolVal(b bool) c01Val {
	if b {
		return c01Val{k: 'B', i: 1}
	}
	return c01Val{k: 'B'}
}

func c01IntVal(v int64) c01Val { return c01Val{k: 'I', i: v} }

func (v c01Val) enc() string {
	switch v.k {
	case 'B', 'I', 'P', 'F':
		return string(v.k) + strconv.FormatInt(v.i, 10)
	case 'E':
		return "E" + string(byte(v.i))
	case 'R':
		return "R" + v.s
	case 'T':
		return "T" + string(byte(v.i)) + v.s
	case 'C':
		var ks []string
		for k := range v.m {
			ks = append(ks, k)
		}
		sort.Strings(ks)
		var b strings.Builder
		b.WriteString("C{")
		for _, k := range ks {
			b.WriteString(k + "=" + v.m[k].enc() + ";")
		}
		b.WriteString("}")
		return b.String()
	}
	return string(v.k)
}

// c01St is one abstract state: iterator field states and tracked cells.
type c01St struct {
	fields []byte
	cells  map[string]c01Val
}

func (s c01St) clone() c01St {
	n := c01St{fields: append([]byte{}, s.fields...), cells: make(map[string]c01Val, len(s.cells))}
	for k, v := range s.cells {
		n.cells[k] = v
	}
	return n
}

func (s c01St) key() string {
	ks := make([]string, 0, len(s.cells))
	for k := range s.cells {
		ks = append(ks, k)
	}
	sort.Strings(ks)
	var b strings.Builder
	b.Write(s.fields)
	for _, k := range ks {
		b.WriteString("|" + k + "=" + s.cells[k].enc())
	}
	return b.String()
}

// get reads the scalar at path, or the composite below it.
func (s c01St) get(path string) c01Val {
	if v, ok := s.cells[path]; ok {
		return v
	}
	var m map[string]c01Val
	for k, v := range s.cells {
		if strings.HasPrefix(k, path) && len(k) > len(path) && (k[len(path)] == '.' || k[len(path)] == '[' || k[len(path)] == '#') {
			if m == nil {
				m = map[string]c01Val{}
			}
			m[k[len(path):]] = v
		}
	}
	if m != nil {
		return c01Val{k: 'C', m: m}
	}
	return c01Unknown
}

// del removes path and everything below it.
func (s c01St) del(path string) {
	for k := range s.cells {
		if k == path || (strings.HasPrefix(k, path) && (k[len(path)] == '.' || k[len(path)] == '[' || k[len(path)] == '#')) {
			delete(s.cells, k)
		}
	}
}

// set stores v at path (composites are flattened).
func (s c01St) set(path string, v c01Val) {
	s.del(path)
	if v.k == 'C' {
		for sub, sv := range v.m {
			if sv.k != 'U' {
				s.cells[path+sub] = sv
			}
		}
		return
	}
	if v.k != 'U' && v.k != 0 {
		s.cells[path] = v // an absent cell is unknown
	}
}

// havoc makes everything at and below path unknown.
func (s c01St) havoc(path string) {
	s.del(path)
}

const c01MaxCells = 64

// c01Zero returns the zero value of a trackable type (ok=false: the type is not tracked).
func c01Zero(t types.Type, budget *int) (c01Val, bool) {
	if t == nil {
		return c01Unknown, false
	}
	if isErrorType(t) {
		*budget--
		return c01Val{k: 'E', i: 'Z'}, *budget >= 0
	}
	switch u := t.Underlying().(type) {
	case *types.Basic:
		switch {
		case u.Info()&types.IsBoolean != 0:
			*budget--
			return c01BoolVal(false), *budget >= 0
		case u.Info()&types.IsInteger != 0:
			*budget--
			return c01IntVal(0), *budget >= 0
		}
	case *types.Pointer:
		*budget--
		return c01Val{k: 'N'}, *budget >= 0
	case *types.Struct:
		m := map[string]c01Val{}
		for i := 0; i < u.NumFields(); i++ {
			fv, ok := c01Zero(u.Field(i).Type(), budget)
			if !ok {
				return c01Unknown, false
			}
			c01Flatten(m, "."+u.Field(i).Name(), fv)
		}
		return c01Val{k: 'C', m: m}, true
	case *types.Array:
		if u.Len() > 32 {
			return c01Unknown, false
		}
		m := map[string]c01Val{}
		for i := int64(0); i < u.Len(); i++ {
			ev, ok := c01Zero(u.Elem(), budget)
			if !ok {
				return c01Unknown, false
			}
			c01Flatten(m, fmt.Sprintf("[%d]", i), ev)
		}
		return c01Val{k: 'C', m: m}, true
	}
	return c01Unknown, false
}

func c01Flatten(m map[string]c01Val, prefix string, v c01Val) {
	if v.k == 'C' {
		for sub, sv := range v.m {
			m[prefix+sub] = sv
		}
		return
	}
	m[prefix] = v
}

// c01ZeroLax is c01Zero for the elements of constant tables: struct fields of types that are not tracked (strings,
// floats ...) are left out instead of making the whole value untracked; at least one field must remain.
func c01ZeroLax(t types.Type) (c01Val, bool) {
	b := c01MaxCells
	if z, ok := c01Zero(t, &b); ok {
		return z, true
	}
	st, ok := t.Underlying().(*types.Struct)
	if !ok {
		return c01Unknown, false
	}
	m := map[string]c01Val{}
	for i := 0; i < st.NumFields(); i++ {
		b := c01MaxCells
		if fv, ok := c01Zero(st.Field(i).Type(), &b); ok {
			c01Flatten(m, "."+st.Field(i).Name(), fv)
		}
	}
	if len(m) == 0 {
		return c01Unknown, false
	}
	return c01Val{k: 'C', m: m}, true
}

// c01Trackable reports whether values of type t are kept in cells.
func c01Trackable(t types.Type) bool {
	b := c01MaxCells
	_, ok := c01Zero(t, &b)
	return ok
}

// c01UnknownOf is the all-unknown value of a trackable type (composites keep their shape).
func c01UnknownOf(t types.Type) c01Val {
	b := c01MaxCells
	z, ok := c01Zero(t, &b)
	if !ok {
		return c01Unknown
	}
	if z.k == 'C' {
		for k := range z.m {
			if z.m[k].k == 'E' {
				z.m[k] = c01Val{k: 'E', i: '?'}
			} else {
				z.m[k] = c01Unknown
			}
		}
		return z
	}
	if z.k == 'E' {
		return c01Val{k: 'E', i: '?'}
	}
	return c01Unknown
}

// c01RootOf returns the root part of a cell path (up to the first selector / index).
func c01RootOf(path string) string {
	for i := 0; i < len(path); i++ {
		if path[i] == '.' || path[i] == '[' {
			return path[:i]
		}
	}
	return path
}

// hash is an order-independent 64-bit digest of the state (visited sets keep digests instead of keys).
func (s c01St) hash() uint64 {
	h := uint64(14695981039346656037)
	for _, c := range s.fields {
		h ^= uint64(c)
		h *= 1099511628211
	}
	var sum uint64
	for k, v := range s.cells {
		c := uint64(14695981039346656037)
		for i := 0; i < len(k); i++ {
			c ^= uint64(k[i])
			c *= 1099511628211
		}
		c ^= uint64(v.k)
		c *= 1099511628211
		c ^= uint64(v.i)
		c *= 1099511628211
		for i := 0; i < len(v.s); i++ {
			c ^= uint64(v.s[i])
			c *= 1099511628211
		}
		c ^= c >> 29
		c *= 0xbf58476d1ce4e5b9
		sum += c
	}
	return h ^ (sum * 0x9e3779b97f4a7c15)
}

// c01MapElem: t is a map with an integer key and a tracked element type (a set / table of presence flags kept in a
// map); it returns the element type.
func c01MapElem(t types.Type) (types.Type, bool) {
	if t == nil {
		return nil, false
	}
	if sl, isSlice := t.Underlying().(*types.Slice); isSlice {
		// a slice of flags made with a fixed length behaves like a table indexed by small integers
		if b, isB := sl.Elem().Underlying().(*types.Basic); isB && b.Info()&types.IsBoolean != 0 {
			return sl.Elem(), true
		}
		return nil, false
	}
	m, ok := t.Underlying().(*types.Map)
	if !ok {
		return nil, false
	}
	if b, isB := m.Key().Underlying().(*types.Basic); !isB || b.Info()&types.IsInteger == 0 {
		return nil, false
	}
	if st, isStruct := m.Elem().Underlying().(*types.Struct); isStruct && st.NumFields() == 0 {
		return m.Elem(), true
	}
	return m.Elem(), c01Trackable(m.Elem())
}

// the marker cell of a map whose contents are completely known (made, declared or written as a literal in the frame)
const c01MapKnown = "#known"
