package rules

import (
	"fmt"
	"go/ast"
	"go/token"
	"go/types"
	"strings"

	"osmcheck/core"
)

// ---------------------------------------------------------------- E3

// c06Bound is what guard facts establish about a value: an inclusive upper bound by a constant and non-negativity.
type c06Bound struct {
	hasUpper bool
	upper    int64
	nonNeg   bool
	proof    []string
}

func (b *c06Bound) setUpper(v int64, why string) {
	if !b.hasUpper || v < b.upper {
		b.hasUpper, b.upper = true, v
	}
	b.proof = append(b.proof, why)
}

// c06BoundsFromFacts collects, from the guard facts, constant bounds of the value recognised by isVal.
// Operands are compared after stripping integer conversions.
func c06BoundsFromFacts(fs *token.FileSet, info *types.Info, facts []guardFact, isVal func(ast.Expr) bool, out *c06Bound, where string) {
	for _, fact := range facts {
		l, op, rr, ok := cmpNorm(fact.expr)
		if !ok {
			continue
		}
		l0, r0 := l, rr
		l, rr = c01StripConv(info, l), c01StripConv(info, rr)
		lc, lok := constInt(info, l)
		rc, rok := constInt(info, rr)
		why := fmt.Sprintf("%s: `%s` is %v", where, src(fs, fact.expr), fact.val)
		// `uint32(v) <= C`: an upper bound on the unsigned conversion of a signed value also excludes negative values
		// (they convert to values above every bound below 2^31)
		hadUpper, oldUpper := out.hasUpper, out.upper
		post := func() {
			if out.hasUpper && (!hadUpper || out.upper < oldUpper) && out.upper < 1<<31 {
				for _, side := range []ast.Expr{l0, r0} {
					if call, ok := ast.Unparen(side).(*ast.CallExpr); ok && c01IsConversion(info, call) && len(call.Args) == 1 {
						if bt, ok := info.TypeOf(call).Underlying().(*types.Basic); ok && bt.Info()&types.IsUnsigned != 0 && isVal(c01StripConv(info, call.Args[0])) {
							out.nonNeg = true
						}
					}
				}
			}
		}
		switch {
		case rok && !lok && isVal(l): // v op C
			switch {
			case op == token.LSS && fact.val:
				out.setUpper(rc-1, why)
			case op == token.LSS && !fact.val:
				if rc >= 0 {
					out.nonNeg = true
					out.proof = append(out.proof, why)
				}
			case op == token.LEQ && fact.val:
				out.setUpper(rc, why)
			case op == token.LEQ && !fact.val:
				if rc >= -1 {
					out.nonNeg = true
					out.proof = append(out.proof, why)
				}
			case op == token.EQL && fact.val, op == token.NEQ && !fact.val:
				out.setUpper(rc, why)
				if rc >= 0 {
					out.nonNeg = true
				}
			}
		case lok && !rok && isVal(rr): // C op v
			switch {
			case op == token.LSS && fact.val:
				if lc >= -1 {
					out.nonNeg = true
					out.proof = append(out.proof, why)
				}
			case op == token.LSS && !fact.val:
				out.setUpper(lc, why)
			case op == token.LEQ && fact.val:
				if lc >= 0 {
					out.nonNeg = true
					out.proof = append(out.proof, why)
				}
			case op == token.LEQ && !fact.val:
				out.setUpper(lc-1, why)
			case op == token.EQL && fact.val, op == token.NEQ && !fact.val:
				out.setUpper(lc, why)
				if lc >= 0 {
					out.nonNeg = true
				}
			}
		}
		post()
	}
}

// c06SameValue: expressions a (in scope sa) and b (in scope sb) denote the same value: equal after expanding locals
// that are defined once and stripping integer conversions. Pure getter calls on the same receiver are equal.
func c06SameValue(info *types.Info, sa ast.Node, a ast.Expr, sb ast.Node, b ast.Expr) bool {
	a, b = c01StripConv(info, a), c01StripConv(info, b)
	if sameChain(info, a, b) {
		return true
	}
	a = c01StripConv(info, c01Expand(info, sa, a))
	b = c01StripConv(info, c01Expand(info, sb, b))
	if ast.Unparen(a) == ast.Unparen(b) {
		return true // both are the one expression a local was defined from
	}
	return sameChain(info, c01Chain(info, sa, a), c01Chain(info, sb, b))
}

// c06Caps is the result of following the scratch buffers of the package: byte slices made with a constant size,
// through assignments, re-slices, struct fields (also when set in a composite literal) and parameters.
type c06Caps struct {
	funcs []*FuncInfo
	capOf map[types.Object]int64
	key   func(e ast.Expr) types.Object
}

var c06CapsCache = map[*core.Program]*c06Caps{}

func c06BufferCaps(r *core.R, m *pbfModel) *c06Caps {
	if c, ok := c06CapsCache[r.P]; ok {
		return c
	}
	info := m.info
	fs := r.P.Fset
	var funcs []*FuncInfo
	for _, fi := range allFuncs(m.pk) {
		if !isGenerated(r.P, fi.Decl.Pos()) && !strings.HasSuffix(fs.Position(fi.Decl.Pos()).Filename, "_test.go") {
			funcs = append(funcs, fi)
		}
	}
	key := func(e ast.Expr) types.Object {
		e = ast.Unparen(e)
		if id, ok := e.(*ast.Ident); ok {
			return objOf(info, id)
		}
		if f := fieldOf(info, e); f != nil {
			return f
		}
		return nil
	}
	// scratch buffers: byte slices made with a constant size, followed through assignments, re-slices and parameters
	capOf := map[types.Object]int64{}
	set := func(o types.Object, k int64, changed *bool) {
		if o == nil || !c01IsByteSlice(o.Type()) {
			return
		}
		if old, ok := capOf[o]; !ok || k < old {
			capOf[o] = k
			*changed = true
		}
	}
	var capExpr func(e ast.Expr) (int64, bool)
	capExpr = func(e ast.Expr) (int64, bool) {
		e = ast.Unparen(e)
		switch x := e.(type) {
		case *ast.CallExpr:
			if builtinName(info, x) == "make" && len(x.Args) >= 2 && c01IsByteSlice(info.TypeOf(x.Args[0])) {
				if k, ok := constInt(info, x.Args[len(x.Args)-1]); ok {
					return k, true
				}
			}
		case *ast.SliceExpr:
			return capExpr(x.X)
		default:
			if o := key(e); o != nil {
				k, ok := capOf[o]
				return k, ok
			}
		}
		return 0, false
	}
	for changed, rounds := true, 0; changed && rounds < 8; rounds++ {
		changed = false
		for _, fi := range funcs {
			ast.Inspect(fi.Decl.Body, func(n ast.Node) bool {
				switch s := n.(type) {
				case *ast.AssignStmt:
					if len(s.Lhs) == len(s.Rhs) {
						for i := range s.Lhs {
							if k, ok := capExpr(s.Rhs[i]); ok {
								set(key(s.Lhs[i]), k, &changed)
							}
						}
					}
				case *ast.ValueSpec:
					if len(s.Names) == len(s.Values) {
						for i := range s.Names {
							if k, ok := capExpr(s.Values[i]); ok {
								set(info.Defs[s.Names[i]], k, &changed)
							}
						}
					}
				case *ast.KeyValueExpr:
					// a buffer stored in a struct field by a composite literal
					if id, ok := s.Key.(*ast.Ident); ok {
						if fld, isField := info.Uses[id].(*types.Var); isField && fld.IsField() {
							if k, ok := capExpr(s.Value); ok {
								set(fld, k, &changed)
							}
						}
					}
				case *ast.CallExpr:
					if tf := c01Callee(m.pk, s); tf != nil {
						ps := c01ParamObjs(info, tf)
						for i, a := range s.Args {
							if i < len(ps) && ps[i] != nil {
								if k, ok := capExpr(a); ok {
									set(ps[i], k, &changed)
								}
							}
						}
					}
				}
				return true
			})
		}
	}
	res := &c06Caps{funcs: funcs, capOf: capOf, key: key}
	c06CapsCache[r.P] = res
	return res
}

func c06E3(r *core.R) {
	m := c01PBFModel(r)
	if m == nil {
		return
	}
	info := m.info
	fs := r.P.Fset
	caps := c06BufferCaps(r, m)
	funcs, capOf, key := caps.funcs, caps.capOf, caps.key
	if len(capOf) == 0 {
		r.Anchor("scratch buffers made with a constant size")
		return
	}
	n := 0
	for _, fi := range funcs {
		fi := fi
		f0 := c01FnOf(r.P, fi)
		ast.Inspect(fi.Decl.Body, func(x ast.Node) bool {
			se, ok := x.(*ast.SliceExpr)
			if !ok {
				return true
			}
			bo := key(se.X)
			k, isBuf := capOf[bo]
			if !isBuf {
				return true
			}
			if se.High == nil && se.Low == nil {
				return true
			}
			n++
			c := "slice@" + fi.Name() + " " + bo.Name()
			if se.Low != nil || se.High == nil || se.Max != nil {
				if se.Low != nil {
					if lo, okc := constInt(info, se.Low); !okc || lo != 0 {
						r.Unknown(c, se.Pos(), "unrecognised slice form `%s` of a scratch buffer", src(fs, se))
						return true
					}
				}
				if se.High == nil || se.Max != nil {
					r.Unknown(c, se.Pos(), "unrecognised slice form `%s` of a scratch buffer", src(fs, se))
					return true
				}
			}
			if hv, okc := constInt(info, se.High); okc {
				if hv >= 0 && hv <= k {
					r.OKTrivial(c, se.Pos(), "`%s`: constant bound within the buffer's %d bytes", src(fs, se), k)
				} else {
					r.Bad(c, se.Pos(), "`%s`: constant bound outside the buffer's %d bytes", src(fs, se), k)
				}
				return true
			}
			f := f0.innermost(se)
			bd := c06ProveBound(r, m, f, se.High, se.Pos())
			switch {
			case !bd.hasUpper:
				r.Bad(c, se.Pos(), "`%s` (buffer of %d bytes): no test on every path bounds `%s` by a constant before the buffer is sliced with it; a damaged size field makes the reader goroutine panic and the process crash", src(fs, se), k, src(fs, se.High))
			case bd.upper > k:
				r.Bad(c, se.Pos(), "`%s` (buffer of %d bytes): `%s` is only known to be <= %d, which is above the buffer size; a damaged size field makes the reader goroutine panic and the process crash", src(fs, se), k, src(fs, se.High), bd.upper)
			case !bd.nonNeg:
				r.Bad(c, se.Pos(), "`%s` (buffer of %d bytes): `%s` is a signed %s and no test excludes negative values before the slice: a negative size slices the buffer with a negative bound; a damaged size field makes the reader goroutine panic and the process crash", src(fs, se), k, src(fs, se.High), info.TypeOf(se.High))
			default:
				r.OK(c, se.Pos(), "`%s` with cap %d: 0 <= %s <= %d on every path (%s)", src(fs, se), k, src(fs, se.High), bd.upper, strings.Join(bd.proof, "; "))
			}
			return true
		})
	}
	if n == 0 {
		r.Anchor("slices of the scratch buffers")
	}
}

// c06ProveBound establishes constant bounds of expression hi at pos in f from (1) the guard facts at pos and
// (2) when hi is (a getter on) a local assigned from the result of a function of the package, the guard facts at
// every success return of that function. A value read into a local once is the expression it was read from.
func c06ProveBound(r *core.R, m *pbfModel, f *c01Fn, hi ast.Expr, pos token.Pos) *c06Bound {
	info := m.info
	fs := r.P.Fset
	out := &c06Bound{}
	if bt, ok := info.TypeOf(hi).Underlying().(*types.Basic); ok && bt.Info()&types.IsUnsigned != 0 {
		out.nonNeg = true
	}
	isHi := func(e ast.Expr) bool { return c06SameValue(info, f.body, e, f.body, hi) }
	c06BoundsFromFacts(fs, info, f.factsAtPos(pos), isHi, out, f.fi.Name())
	c06ValidatorBounds(r, f, f.factsAtPos(pos), isHi, out, 0)
	// (2) the value comes out of a call
	v := c01StripConv(info, c01Expand(info, f.body, c01StripConv(info, hi)))
	var getter *types.Func
	var local types.Object
	switch x := v.(type) {
	case *ast.Ident:
		local = objOf(info, x)
	case *ast.CallExpr:
		if fn := callee(info, x); fn != nil && len(x.Args) == 0 && strings.HasPrefix(fn.Name(), "Get") {
			if sel, ok := ast.Unparen(x.Fun).(*ast.SelectorExpr); ok {
				getter, local = fn, objOf(info, c01Expand(info, f.body, sel.X))
			}
		}
	}
	if local == nil {
		return out
	}
	defs := c01Defs(info, f.body, local)
	if len(defs) != 1 || defs[0].rhs == nil {
		return out
	}
	call, ok := ast.Unparen(defs[0].rhs).(*ast.CallExpr)
	if !ok {
		return out
	}
	cf := c01Callee(m.pk, call)
	if cf == nil {
		return out
	}
	resIdx := defs[0].index
	if resIdx < 0 {
		resIdx = 0
	}
	g := c01FnOf(r.P, cf)
	nret := 0
	merged := &c06Bound{hasUpper: true, upper: -1 << 62, nonNeg: true}
	ast.Inspect(cf.Decl.Body, func(n ast.Node) bool {
		if _, ok := n.(*ast.FuncLit); ok {
			return false
		}
		ret, ok := n.(*ast.ReturnStmt)
		if !ok || len(ret.Results) <= resIdx {
			return true
		}
		facts := g.factsAtPos(ret.Pos())
		if isErrorType(info.TypeOf(ret.Results[len(ret.Results)-1])) && c01IsErrNonNilExpr(info, ret.Results[len(ret.Results)-1], facts) {
			return true // an error return: the caller does not use the value
		}
		nret++
		rv := ret.Results[resIdx]
		isVal := func(e ast.Expr) bool {
			e = c01StripConv(info, c01Expand(info, g.body, c01StripConv(info, e)))
			if getter == nil {
				return c06SameValue(info, g.body, e, g.body, rv)
			}
			c, ok := e.(*ast.CallExpr)
			if !ok || callee(info, c) != getter {
				return false
			}
			sel, ok := ast.Unparen(c.Fun).(*ast.SelectorExpr)
			return ok && c06SameValue(info, g.body, sel.X, g.body, rv)
		}
		one := &c06Bound{nonNeg: out.nonNeg}
		if cv, okc := constInt(info, rv); okc && getter == nil {
			one.setUpper(cv, "constant result")
			one.nonNeg = cv >= 0
		}
		c06BoundsFromFacts(fs, info, facts, isVal, one, cf.Name())
		c06ValidatorBounds(r, g, facts, isVal, one, 0)
		if !one.hasUpper {
			merged.hasUpper = false
		} else if one.upper > merged.upper {
			merged.upper = one.upper
		}
		if !one.nonNeg {
			merged.nonNeg = false
		}
		merged.proof = append(merged.proof, one.proof...)
		return true
	})
	if nret == 0 {
		return out
	}
	if merged.hasUpper {
		out.setUpper(merged.upper, "")
		out.proof = out.proof[:len(out.proof)-1]
	}
	if merged.nonNeg {
		out.nonNeg = true
	}
	seen := map[string]bool{}
	for _, p := range merged.proof {
		if !seen[p] {
			seen[p] = true
			out.proof = append(out.proof, p)
		}
	}
	return out
}

// c06LenOfCall: for `B.Len()` on a bytes.Buffer or `len(S)` it returns B / S.
func c06LenOfCall(info *types.Info, call *ast.CallExpr) ast.Expr {
	if builtinName(info, call) == "len" && len(call.Args) == 1 {
		return call.Args[0]
	}
	if isMethod(callee(info, call), "bytes.Buffer", "Len") {
		if sel, ok := ast.Unparen(call.Fun).(*ast.SelectorExpr); ok {
			return sel.X
		}
	}
	return nil
}

// c06DrainKind classifies calls that move data out of a reader.
func c06DrainKind(info *types.Info, call *ast.CallExpr) string {
	fn := callee(info, call)
	switch {
	case isMethod(fn, "bytes.Buffer", "ReadFrom") && len(call.Args) == 1:
		return "ReadFrom"
	case (isPkgFunc(fn, "io", "ReadAll") || isPkgFunc(fn, "io/ioutil", "ReadAll")) && len(call.Args) == 1:
		return "ReadAll"
	case isPkgFunc(fn, "io", "Copy") && len(call.Args) == 2:
		return "Copy"
	case isPkgFunc(fn, "io", "CopyN") && len(call.Args) == 3:
		return "CopyN"
	case isPkgFunc(fn, "io", "ReadFull") && len(call.Args) == 2:
		return "ReadFull"
	case isPkgFunc(fn, "io", "ReadAtLeast") && len(call.Args) == 3:
		return "ReadAtLeast"
	}
	return ""
}

// c06SameContainer: both expressions denote the same buffer / slice variable (through & and single-definition locals).
func c06SameContainer(info *types.Info, scope ast.Node, a, b ast.Expr) bool {
	if a == nil || b == nil {
		return false
	}
	strip := func(e ast.Expr) ast.Expr {
		e = ast.Unparen(e)
		if ue, ok := e.(*ast.UnaryExpr); ok && ue.Op == token.AND {
			e = ast.Unparen(ue.X)
		}
		if se, ok := e.(*ast.SliceExpr); ok {
			e = ast.Unparen(se.X)
		}
		return e
	}
	return sameChain(info, c01Chain(info, scope, strip(a)), c01Chain(info, scope, strip(b)))
}

// c06WholeStream decides whether reader expression rd yields the whole decompressed stream of the blob's zlib data.
func c06WholeStream(info *types.Info, f *c01Fn, rd ast.Expr, isRaw func(ast.Expr) bool, depth int, outer func(ast.Expr) (*c01Fn, ast.Expr)) (string, string) {
	fs := f.p.Fset
	if depth > 5 {
		return "reader expression too deep", "unknown"
	}
	e := ast.Unparen(rd)
	// a local: its single definition (possibly the first result of a call)
	if id, ok := e.(*ast.Ident); ok {
		o := objOf(info, id)
		ds := c01Defs(info, f.body, o)
		if len(ds) != 1 || ds[0].rhs == nil || ds[0].index > 0 {
			return fmt.Sprintf("reader `%s` is not a local defined once from an expression", id.Name), "unknown"
		}
		return c06WholeStream(info, f, ds[0].rhs, isRaw, depth+1, outer)
	}
	mentionsZlib := func(n ast.Node) bool {
		found := false
		ast.Inspect(n, func(x ast.Node) bool {
			switch y := x.(type) {
			case *ast.SelectorExpr:
				if fl := fieldOf(info, y); fl != nil && fl.Name() == "ZlibData" && c01IsGenerated(selRecv(info, y), "Blob") {
					found = true
				}
			case *ast.CallExpr:
				if fn := callee(info, y); fn != nil && fn.Name() == "GetZlibData" && c01IsGenerated(c01RecvTypeOf(fn), "Blob") {
					found = true
				}
			case *ast.Ident:
				// a parameter that stands for the zlib bytes handed in by the caller
				if outer != nil {
					if _, e2 := outer(y); e2 != ast.Expr(y) {
						ast.Inspect(e2, func(z ast.Node) bool {
							if c, ok := z.(*ast.CallExpr); ok {
								if fn := callee(info, c); fn != nil && fn.Name() == "GetZlibData" && c01IsGenerated(c01RecvTypeOf(fn), "Blob") {
									found = true
								}
							}
							if sl, ok := z.(*ast.SelectorExpr); ok {
								if fl := fieldOf(info, sl); fl != nil && fl.Name() == "ZlibData" && c01IsGenerated(selRecv(info, sl), "Blob") {
									found = true
								}
							}
							return !found
						})
					}
				}
				if o := objOf(info, y); o != nil {
					if rhs := c01SingleDef(info, f.body, o); rhs != nil && rhs != n {
						ast.Inspect(rhs, func(z ast.Node) bool {
							if c, ok := z.(*ast.CallExpr); ok {
								if fn := callee(info, c); fn != nil && fn.Name() == "GetZlibData" {
									found = true
								}
							}
							if s, ok := z.(*ast.SelectorExpr); ok {
								if fl := fieldOf(info, s); fl != nil && fl.Name() == "ZlibData" {
									found = true
								}
							}
							return true
						})
					}
				}
			}
			return !found
		})
		return found
	}
	// limit N is provably above raw_size: RAW + c with a constant c >= 1 (through locals defined once)
	aboveRaw := func(n ast.Expr) bool {
		n = c01StripConv(info, c01Expand(info, f.body, c01StripConv(info, n)))
		be, ok := n.(*ast.BinaryExpr)
		if !ok || be.Op != token.ADD {
			return false
		}
		for _, pr := range [][2]ast.Expr{{be.X, be.Y}, {be.Y, be.X}} {
			if cv, okc := constInt(info, pr[1]); okc && cv >= 1 && isRaw(pr[0]) {
				return true
			}
		}
		return false
	}
	switch x := e.(type) {
	case *ast.CallExpr:
		fn := callee(info, x)
		switch {
		case isPkgFunc(fn, "io", "LimitReader") && len(x.Args) == 2:
			if !aboveRaw(x.Args[1]) {
				return fmt.Sprintf("the decompressor is read through `%s`, whose limit `%s` is not provably above raw_size", src(fs, x), src(fs, x.Args[1])), "bad"
			}
			return c06WholeStream(info, f, x.Args[0], isRaw, depth+1, outer)
		case (isPkgFunc(fn, "bufio", "NewReader") || isPkgFunc(fn, "bufio", "NewReaderSize") || isPkgFunc(fn, "io", "NopCloser")) && len(x.Args) >= 1:
			return c06WholeStream(info, f, x.Args[0], isRaw, depth+1, outer)
		case fn != nil && mentionsZlib(x):
			return "the decompressor `" + src(fs, x) + "` itself", "ok"
		}
		return fmt.Sprintf("reader `%s` is not recognised as the decompressor of the blob's zlib data", src(fs, x)), "unknown"
	case *ast.UnaryExpr:
		if cl, ok := ast.Unparen(x.X).(*ast.CompositeLit); ok && x.Op == token.AND && namedPath(info.TypeOf(cl)) == "io.LimitedReader" {
			var inner, lim ast.Expr
			for _, el := range cl.Elts {
				if kv, ok := el.(*ast.KeyValueExpr); ok {
					switch kv.Key.(*ast.Ident).Name {
					case "R":
						inner = kv.Value
					case "N":
						lim = kv.Value
					}
				}
			}
			if inner == nil || lim == nil || !aboveRaw(lim) {
				return fmt.Sprintf("the decompressor is read through `%s`, whose limit is not provably above raw_size", src(fs, x)), "bad"
			}
			return c06WholeStream(info, f, inner, isRaw, depth+1, outer)
		}
	}
	return fmt.Sprintf("reader `%s` is not recognised as the decompressor of the blob's zlib data", src(fs, e)), "unknown"
}

func nodeExpr(n ast.Node) ast.Expr {
	e, _ := n.(ast.Expr)
	if e == nil {
		return &ast.BadExpr{}
	}
	return e
}

func selRecv(info *types.Info, n ast.Node) types.Type {
	sel, ok := n.(*ast.SelectorExpr)
	if !ok {
		return nil
	}
	if s := info.Selections[sel]; s != nil {
		return s.Recv()
	}
	return nil
}
