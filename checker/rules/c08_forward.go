package rules

import (
	"go/ast"
	"go/token"
	"go/types"

	"golang.org/x/tools/go/cfg"

	"osmcheck/core"
)

// C08.O6 — a worker forwards exactly as many results as it receives blocks, whatever the skip flags and filters leave
// of a block: every cycle of the loop in which a worker receives blocks passes a channel send (the result pair) or is
// taken under cancellation (`<-ctx.Done()`), or leaves the goroutine. The serializer reads the workers' outputs
// round-robin, one pair per block; a worker that drops the (empty) result of a fully skipped or fully rejected block
// puts the outputs out of step: elements of later blocks are delivered out of order or lost, so the filtered scan is
// no longer a subsequence of the unfiltered one.
func c08O6(r *core.R) {
	m := c01PBFModel(r)
	if m == nil {
		return
	}
	info := m.info
	isChan := func(e ast.Expr) bool {
		t := info.TypeOf(e)
		if t == nil {
			return false
		}
		_, ok := t.Underlying().(*types.Chan)
		return ok
	}
	isForward := func(n ast.Node) bool {
		hit := false
		ast.Inspect(n, func(x ast.Node) bool {
			switch y := x.(type) {
			case *ast.FuncLit:
				return false
			case *ast.SendStmt:
				hit = true
			case *ast.UnaryExpr:
				if y.Op == token.ARROW {
					if call, ok := ast.Unparen(y.X).(*ast.CallExpr); ok && isMethod(callee(info, call), "context.Context", "Done") {
						hit = true
					}
				}
			}
			return !hit
		})
		return hit
	}
	// forwarding inside a function of the package the loop calls on every path
	fwd := c01NewSum(r.P, func(f *c01Fn, n ast.Node) bool { return isForward(n) })
	n := 0
	for _, body := range c01RoleBodies(m, "worker") {
		f := body.fn
		for _, l := range c01Loops(f) {
			// a loop that receives from a channel: `for p := range ch` or a receive expression inside the loop
			receives := false
			if rs, ok := l.head.Stmt.(*ast.RangeStmt); ok && l.head.Kind == cfg.KindRangeLoop && isChan(rs.X) {
				receives = true
			}
			for b := range l.blocks {
				for _, nd := range b.Nodes {
					ast.Inspect(nd, func(x ast.Node) bool {
						if _, isLit := x.(*ast.FuncLit); isLit {
							return false
						}
						if ue, ok := x.(*ast.UnaryExpr); ok && ue.Op == token.ARROW && isChan(ue.X) {
							if call, isCall := ast.Unparen(ue.X).(*ast.CallExpr); !isCall || !isMethod(callee(info, call), "context.Context", "Done") {
								receives = true
							}
						}
						return true
					})
				}
			}
			if !receives {
				continue
			}
			// only the outermost receiving loop of the body is the block loop
			inner := false
			for _, o := range c01Loops(f) {
				if o != l && o.blocks[l.head] && len(o.blocks) > len(l.blocks) {
					if rs, ok := o.head.Stmt.(*ast.RangeStmt); ok && isChan(rs.X) {
						inner = true
					}
				}
			}
			if inner {
				continue
			}
			n++
			c := "one result per block@" + body.name
			free := false
			seen := map[*cfg.Block]bool{}
			var dfs func(b *cfg.Block)
			dfs = func(b *cfg.Block) {
				if free || seen[b] || !l.blocks[b] {
					return
				}
				seen[b] = true
				for _, nd := range b.Nodes {
					if fwd.nodeMust(f, nd) {
						return
					}
				}
				for _, nb := range b.Succs {
					if nb == l.head {
						free = true
						return
					}
					dfs(nb)
				}
			}
			for _, nb := range l.head.Succs {
				if l.blocks[nb] {
					dfs(nb)
				}
			}
			pos := body.fn.body.Pos()
			if len(l.head.Nodes) > 0 {
				pos = l.head.Nodes[0].Pos()
			}
			if free {
				r.Bad(c, pos, "a path through the loop in which %s receives blocks returns to the loop head without sending a result (and without the decoder being cancelled): the result of a block is dropped, the serializer, which reads the workers' outputs round-robin with one pair per block, gets out of step, and elements of later blocks are delivered out of order or lost", body.name)
			} else {
				r.OK(c, pos, "every cycle of the loop in which %s receives blocks sends one result, is taken under cancellation, or leaves the goroutine", body.name)
			}
		}
	}
	if n == 0 {
		r.Anchor("loop in which a worker receives blocks from its input channel")
	}
}
