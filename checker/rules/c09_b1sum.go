package rules

import (
	"go/ast"
	"go/types"
)

// c09SumInResultStruct: the amount added to the byte counter is a field of a struct that a helper returned
// (`b, err := readBlock(..)`; `counter += b.size`). When that field has exactly one initialiser over all the values the
// helper can return, and the initialiser is written in the helper, the helper is where the bytes of a block are added
// up: it and the initialiser are returned. (A literal that leaves the field out is a failure return: zero bytes.)
func c09SumInResultStruct(m *pbfModel, sum ast.Expr) (*FuncInfo, ast.Expr) {
	sel, ok := ast.Unparen(stripConv(m.info, sum)).(*ast.SelectorExpr)
	if !ok {
		return nil, nil
	}
	f := fieldOf(m.info, sel)
	o, isVar := objOf(m.info, sel.X).(*types.Var)
	if f == nil || !isVar || o.IsField() {
		return nil, nil
	}
	defs := m.defsOf(o)
	if len(defs) != 1 || defs[0].kind != "result" {
		return nil, nil
	}
	call, ok := ast.Unparen(defs[0].e).(*ast.CallExpr)
	if !ok {
		return nil, nil
	}
	fn := callee(m.info, call)
	if fn == nil || m.funcs[fn] == nil {
		return nil, nil
	}
	fi := m.funcs[fn]
	inits, ok := m.fieldInits(sel.X, 0, f, map[types.Object]bool{}, 0)
	if !ok || len(inits) != 1 {
		return nil, nil
	}
	if e := inits[0]; fi.Decl.Body != nil && fi.Decl.Body.Pos() <= e.Pos() && e.End() <= fi.Decl.Body.End() {
		return fi, e
	}
	return nil, nil
}
