package rules

// c16_eval.go — the C16 abstract evaluator: machine, frames, path enumeration.
//
// What it is: an interpreter of the type-checked SYNTAX of the functions of this repository (and of the small orb
// helpers they call: Point.Equal, LineString.Reverse, Ring.Closed, geojson.NewFeature ...) over a finite
// abstraction of the inputs of the multipolygon code: coordinates are symbolic tokens (only their identity is
// known), every value-dependent question (the orientation of an assembled ring, whether an outer ring contains
// an inner ring) is answered by an oracle installed by the rule from the scenario's ground truth, and every branch
// on a value the evaluator does not know is explored both ways (decision script, re-evaluation per path).
// Nothing of the library is compiled or run. Because the verdict is computed from what the code does on the
// abstract inputs and not from how it is spelled, extracting helpers, inlining, if<->switch, inverted or merged
// guards, renamed locals and other loop forms do not change it.
//
// What it is not: a proof for all inputs. The scenarios are finite (rings cut into at most a handful of pieces);
// float arithmetic (ray casting, shoelace area) is never evaluated.
//
// Outside the supported subset (goroutines, select, goto, channels, generics) the evaluation of the current call
// is abandoned: inside a callee the results become opaque, at the top level the scenario is reported undecided.

import (
	"fmt"
	"go/ast"
	"go/types"
	"strings"

	"osmcheck/core"
)

// c16Abort abandons the evaluation of the current call (unsupported construct).
type c16Abort struct{ why string }

// c16Panic is a run-time panic of the evaluated code (index out of range, nil dereference, explicit panic).
type c16Panic struct{ why string }

// c16Budget ends a path that ran too long.
type c16Budget struct{}

type c16Cell struct {
	v  c16Val
	id *int
}

// c16Frame is one activation: variables by object; closures see the frame of their definition through up.
type c16Frame struct {
	vars    map[types.Object]*c16Cell
	up      *c16Frame
	info    *types.Info
	results []*c16Cell // named results
	nres    int        // number of results of the function being evaluated
	defers  []func()
}

func (f *c16Frame) lookup(o types.Object) *c16Cell {
	for x := f; x != nil; x = x.up {
		if c, ok := x.vars[o]; ok {
			return c
		}
	}
	return nil
}

type c16Choice struct {
	label string
	n     int
	pick  int
	deps  []string // points the decided condition depends on
}

// c16Hook replaces the evaluation of a function (oracles, models); ok=false falls through to the body.
type c16Hook func(m *c16M, recv c16Val, args []c16Val) (c16Val, bool)

// c16M is the machine for one path of one scenario.
type c16M struct {
	p       *core.Program
	script  []int
	trace   []c16Choice
	steps   int
	depth   int
	globals map[types.Object]*c16Cell
	hooks   map[string]c16Hook // by (*types.Func).FullName()
	funcs   map[*types.Func]*FuncInfo
	notes   []string // havoc / opaque events worth showing in a diagnostic
	cmps    []c16Decided
	ids     int
}

const (
	c16MaxSteps   = 400000
	c16MaxDepth   = 40
	c16MaxPaths   = 3000
	c16MaxChoices = 60
)

func (m *c16M) step() {
	m.steps++
	if m.steps > c16MaxSteps {
		panic(c16Budget{})
	}
}

func (m *c16M) abort(format string, a ...interface{}) { panic(c16Abort{fmt.Sprintf(format, a...)}) }
func (m *c16M) gopanic(format string, a ...interface{}) {
	panic(c16Panic{fmt.Sprintf(format, a...)})
}

// choose takes the next decision of the script (0 beyond its end) and records it.
func (m *c16M) choose(label string, n int) int {
	pick := 0
	if len(m.trace) < len(m.script) {
		pick = m.script[len(m.trace)]
	}
	m.trace = append(m.trace, c16Choice{label: label, n: n, pick: pick})
	if len(m.trace) > c16MaxChoices {
		panic(c16Budget{})
	}
	return pick
}

func (m *c16M) newID() *int { m.ids++; id := m.ids; return &id }

func (m *c16M) newPtr(elem types.Type, c *c16Cell) *c16Ptr {
	if c.id == nil {
		c.id = m.newID()
	}
	return &c16Ptr{elem: elem, load: func() c16Val { return c.v }, store: func(v c16Val) { c.v = v }, id: c.id}
}

// funcInfo finds the declaration of fn when its package was loaded with syntax and may be interpreted.
func (m *c16M) funcInfo(fn *types.Func) *FuncInfo {
	if fi, ok := m.funcs[fn]; ok {
		return fi
	}
	var fi *FuncInfo
	if fn.Pkg() != nil && strings.HasPrefix(fn.Pkg().Path(), "github.com/paulmach/") {
		if pk := m.p.ByPath[fn.Pkg().Path()]; pk != nil && len(pk.Syntax) > 0 {
			fi = findFunc(pk, funcName(fn))
			if fi != nil && (fi.Obj != fn.Origin() || fi.Decl.Body == nil) {
				fi = nil
			}
		}
	}
	m.funcs[fn] = fi
	return fi
}

// c16Outcome is the end of one path.
type c16Outcome struct {
	val     c16Val // what the scenario returned
	err     string // "" | "abort: ..." | "panic: ..." | "budget"
	choices []c16Choice
	notes   []string
	cmps    []c16Decided
}

// c16Explore evaluates run once per path of decisions. run receives a fresh machine each time.
func c16Explore(p *core.Program, hooks map[string]c16Hook, run func(m *c16M) c16Val) (outs []c16Outcome, complete bool) {
	script := []int{}
	funcs := map[*types.Func]*FuncInfo{}
	for len(outs) < c16MaxPaths {
		m := &c16M{p: p, script: script, globals: map[types.Object]*c16Cell{}, hooks: hooks, funcs: funcs}
		out := c16Outcome{}
		func() {
			defer func() {
				if e := recover(); e != nil {
					switch x := e.(type) {
					case c16Abort:
						out.err = "abort: " + x.why
					case c16Panic:
						out.err = "panic: " + x.why
					case c16Budget:
						out.err = "budget: path exceeded the step limit"
					default:
						panic(e)
					}
				}
			}()
			out.val = run(m)
		}()
		out.choices, out.notes, out.cmps = m.trace, m.notes, m.cmps
		outs = append(outs, out)
		// next script: bump the last decision that has an alternative left
		next := -1
		for i := len(m.trace) - 1; i >= 0; i-- {
			if m.trace[i].pick+1 < m.trace[i].n {
				next = i
				break
			}
		}
		if next < 0 {
			return outs, true
		}
		script = make([]int, next+1)
		for i := 0; i < next; i++ {
			script[i] = m.trace[i].pick
		}
		script[next] = m.trace[next].pick + 1
	}
	return outs, false
}

// c16Calls is a convenience for rules: call function fi with the given receiver and arguments.
func (m *c16M) callFunc(fi *FuncInfo, recv c16Val, args ...c16Val) c16Val {
	return m.invoke(fi.Obj, recv, args, fi.Decl.Pos())
}

func c16ChoicesText(cs []c16Choice) string {
	parts := []string{}
	for _, c := range cs {
		parts = append(parts, fmt.Sprintf("%s=%d", c.label, c.pick))
	}
	return strings.Join(parts, ", ")
}

func (m *c16M) note(format string, a ...interface{}) {
	if len(m.notes) < 6 {
		m.notes = append(m.notes, fmt.Sprintf(format, a...))
	}
}

func (m *c16M) pos(n ast.Node) string {
	if n == nil {
		return "-"
	}
	return m.p.Rel(n.Pos())
}
