package rules

import "osmcheck/core"

// c20Benign: behaviour-preserving rewrites of the anchored code (different classes); every rule must stay silent.
func c20Benign() []core.Mutant {
	return []core.Mutant{
		{Name: "extract-throttle-helper-inverted-nil-test", File: "osmapi/datasource.go",
			Find: `func (ds *Datasource) getFromAPI(ctx context.Context, url string, item interface{}) error {
	client := ds.Client
	if client == nil {
		client = DefaultDatasource.Client
	}

	if client == nil {
		client = http.DefaultClient
	}

	if ds.Limiter != nil {
		err := ds.Limiter.Wait(ctx)
		if err != nil {
			return err
		}
	}
`,
			Replace: `func (ds *Datasource) throttle(ctx context.Context) error {
	if ds.Limiter == nil {
		return nil
	}
	return ds.Limiter.Wait(ctx)
}

func (ds *Datasource) getFromAPI(ctx context.Context, url string, item interface{}) error {
	client := ds.Client
	if client == nil {
		client = DefaultDatasource.Client
	}

	if client == nil {
		client = http.DefaultClient
	}

	if err := ds.throttle(ctx); err != nil {
		return err
	}
`},
		{Name: "status-chain-to-tagless-switch-with-init", File: "osmapi/datasource.go",
			Find: `	if resp.StatusCode == http.StatusNotFound {
		return &NotFoundError{URL: url}
	}

	if resp.StatusCode == http.StatusForbidden {
		return &ForbiddenError{URL: url}
	}

	if resp.StatusCode == http.StatusGone {
		return &GoneError{URL: url}
	}

	if resp.StatusCode == http.StatusRequestURITooLong {
		return &RequestURITooLongError{URL: url}
	}

	if resp.StatusCode != http.StatusOK {
		return &UnexpectedStatusCodeError{
			Code: resp.StatusCode,
			URL:  url,
		}
	}

	return xml.NewDecoder(resp.Body).Decode(item)
`,
			Replace: `	switch code := resp.StatusCode; {
	case code == http.StatusOK:
		return xml.NewDecoder(resp.Body).Decode(item)
	case code == http.StatusNotFound:
		return &NotFoundError{URL: url}
	case code == http.StatusGone:
		return &GoneError{URL: url}
	case code == http.StatusForbidden:
		return &ForbiddenError{URL: url}
	case http.StatusRequestURITooLong == code:
		return &RequestURITooLongError{URL: url}
	}
	return &UnexpectedStatusCodeError{Code: resp.StatusCode, URL: url}
`},
		{Name: "notfound-inverted-nesting", File: "osmapi/datasource.go",
			Find:    "\tif err == nil {\n\t\treturn false\n\t}\n\n\t_, ok := err.(*NotFoundError)\n\treturn ok\n",
			Replace: "\tif err != nil {\n\t\tif _, ok := err.(*NotFoundError); ok {\n\t\t\treturn true\n\t\t}\n\t}\n\treturn false\n"},
		{Name: "client-selection-nested-if-init", File: "osmapi/datasource.go",
			Find:    "\tclient := ds.Client\n\tif client == nil {\n\t\tclient = DefaultDatasource.Client\n\t}\n\n\tif client == nil {\n\t\tclient = http.DefaultClient\n\t}\n",
			Replace: "\tclient := ds.Client\n\tif client == nil {\n\t\tif client = DefaultDatasource.Client; client == nil {\n\t\t\tclient = http.DefaultClient\n\t\t}\n\t}\n"},
		{Name: "limit-split-guards-named-constants", File: "osmapi/options.go",
			Find:    "\tif o.n < 1 || 10000 < o.n {\n\t\treturn nil, errors.New(\"osmapi: limit must be between 1 and 10000\")\n\t}\n",
			Replace: "\tconst lo, hi = 1, 10000\n\tif o.n < lo {\n\t\treturn nil, errors.New(\"osmapi: limit must be between 1 and 10000\")\n\t}\n\tif !(o.n <= hi) {\n\t\treturn nil, errors.New(\"osmapi: limit must be between 1 and 10000\")\n\t}\n"},
		{Name: "featureoptions-no-shortcut-renamed-loop-locals", File: "osmapi/options.go",
			Find:    "\tif len(opts) == 0 {\n\t\treturn \"\", nil\n\t}\n\n\tparams := make([]string, 0, len(opts))\n\n\tvar err error\n\tfor _, o := range opts {\n\t\tparams, err = o.applyFeature(params)\n\t\tif err != nil {\n\t\t\treturn \"\", err\n\t\t}\n\t}\n",
			Replace: "\tvar params []string\n\tfor _, opt := range opts {\n\t\tnext, err := opt.applyFeature(params)\n\t\tif err != nil {\n\t\t\treturn \"\", err\n\t\t}\n\t\tparams = next\n\t}\n"},
		{Name: "user-inline-base-url-reordered-statements", File: "osmapi/user.go",
			Find:    "\turl := fmt.Sprintf(\"%s/user/%d\", ds.baseURL(), id)\n\n\to := &osm.OSM{}\n",
			Replace: "\to := &osm.OSM{}\n\tbase := ds.BaseURL\n\tif base == \"\" {\n\t\tbase = BaseURL\n\t}\n\turl := fmt.Sprintf(\"%s/user/%d\", base, id)\n"},
		{Name: "node-single-guard-eq-form-value-alias", File: "osmapi/node.go",
			Find:    "\tif l := len(o.Nodes); l != 1 {\n\t\treturn nil, fmt.Errorf(\"wrong number of nodes, expected 1, got %v\", l)\n\t}\n\n\treturn o.Nodes[0], nil\n",
			Replace: "\tnodes := o.Nodes\n\tif len(nodes) == 1 {\n\t\treturn nodes[0], nil\n\t}\n\n\treturn nil, fmt.Errorf(\"wrong number of nodes, expected 1, got %v\", len(nodes))\n"},
		{Name: "ways-csv-renamed-len-guard-named-separator", File: "osmapi/way.go",
			Find:    "\tdata := make([]byte, 0, 11*len(ids))\n\tfor i, id := range ids {\n\t\tif i != 0 {\n\t\t\tdata = append(data, byte(','))\n\t\t}\n\t\tdata = strconv.AppendInt(data, int64(id), 10)\n\t}\n\turl := ds.baseURL() + \"/ways?ways=\" + string(data)\n",
			Replace: "\tconst comma = ','\n\tbuf := make([]byte, 0, 11*len(ids))\n\tfor _, wayID := range ids {\n\t\tif len(buf) > 0 {\n\t\t\tbuf = append(buf, comma)\n\t\t}\n\t\tbuf = strconv.AppendInt(buf, int64(wayID), 10)\n\t}\n\turl := ds.baseURL() + \"/ways?ways=\" + string(buf)\n"},
		{Name: "wayfull-named-format-separate-error-test", File: "osmapi/way.go",
			Find:    "\turl := fmt.Sprintf(\"%s/way/%d/full?%s\", ds.baseURL(), id, params)\n\n\to := &osm.OSM{}\n\tif err := ds.getFromAPI(ctx, url, &o); err != nil {\n\t\treturn nil, err\n\t}\n",
			Replace: "\tconst format = \"%s/way/%d/full?%s\"\n\turl := fmt.Sprintf(format, ds.baseURL(), id, params)\n\n\to := &osm.OSM{}\n\terr = ds.getFromAPI(ctx, url, &o)\n\tif err != nil {\n\t\treturn nil, err\n\t}\n"},
		{Name: "map-wrapper-through-locals", File: "osmapi/map.go",
			Find:    "\treturn DefaultDatasource.Map(ctx, bounds, opts...)\n",
			Replace: "\tds := DefaultDatasource\n\tosmData, err := ds.Map(ctx, bounds, opts...)\n\treturn osmData, err\n"},
		{Name: "relations-optional-suffix-as-switch", File: "osmapi/relation.go",
			Find:    "\turl := ds.baseURL() + \"/relations?relations=\" + string(data)\n\tif len(params) > 0 {\n\t\turl += \"&\" + params\n\t}\n",
			Replace: "\tvar url string\n\tswitch {\n\tcase params == \"\":\n\t\turl = ds.baseURL() + \"/relations?relations=\" + string(data)\n\tdefault:\n\t\turl = ds.baseURL() + \"/relations?relations=\" + string(data) + \"&\" + params\n\t}\n"},
		{Name: "changeset-helper-moved-before-its-caller", File: "osmapi/changeset.go",
			Find: `// ChangesetWithDiscussion returns a changeset and its discussion from the osm rest api.
func (ds *Datasource) ChangesetWithDiscussion(ctx context.Context, id osm.ChangesetID) (*osm.Changeset, error) {
	url := fmt.Sprintf("%s/changeset/%d?include_discussion=true", ds.baseURL(), id)
	return ds.getChangeset(ctx, url)
}

func (ds *Datasource) getChangeset(ctx context.Context, url string) (*osm.Changeset, error) {
	css := &osm.OSM{}
	if err := ds.getFromAPI(ctx, url, &css); err != nil {
		return nil, err
	}

	if l := len(css.Changesets); l != 1 {
		return nil, fmt.Errorf("wrong number of changesets, expected 1, got %v", l)
	}

	return css.Changesets[0], nil
}
`,
			Replace: `func (ds *Datasource) fetchOneChangeset(ctx context.Context, url string) (*osm.Changeset, error) {
	doc := &osm.OSM{}
	if err := ds.getFromAPI(ctx, url, &doc); err != nil {
		return nil, err
	}

	if l := len(doc.Changesets); l != 1 {
		return nil, fmt.Errorf("wrong number of changesets, expected 1, got %v", l)
	}

	return doc.Changesets[0], nil
}

func (ds *Datasource) getChangeset(ctx context.Context, url string) (*osm.Changeset, error) {
	return ds.fetchOneChangeset(ctx, url)
}

// ChangesetWithDiscussion returns a changeset and its discussion from the osm rest api.
func (ds *Datasource) ChangesetWithDiscussion(ctx context.Context, id osm.ChangesetID) (*osm.Changeset, error) {
	const discussion = "?include_discussion=true"
	url := fmt.Sprintf("%s/changeset/%d", ds.baseURL(), id) + discussion
	return ds.getChangeset(ctx, url)
}
`},
		{Name: "at-option-hoisted-timestamp-named-layout", File: "osmapi/options.go",
			Find:    "\treturn append(p, \"at=\"+o.t.UTC().Format(\"2006-01-02T15:04:05Z\")), nil\n",
			Replace: "\tconst layout = \"2006-01-02T15:04:05Z\"\n\tutc := o.t.UTC()\n\tparam := fmt.Sprintf(\"at=%s\", utc.Format(layout))\n\tp = append(p, param)\n\treturn p, nil\n"},
		{Name: "nodehistory-through-generic-url-and-fetch-helpers", File: "osmapi/node.go",
			Find: `	url := fmt.Sprintf("%s/node/%d/history", ds.baseURL(), id)

	o := &osm.OSM{}
	if err := ds.getFromAPI(ctx, url, &o); err != nil {
		return nil, err
	}

	return o.Nodes, nil
}
`,
			Replace: `	nodes, err := ds.fetchNodes(ctx, ds.elementURL("node", int64(id), "history"))
	switch {
	case err != nil:
		return nil, err
	}
	return nodes, nil
}

func (ds *Datasource) elementURL(kind string, id int64, sub string) string {
	u := ds.baseURL() + "/" + kind + "/" + strconv.FormatInt(id, 10)
	if sub != "" {
		u = u + "/" + sub
	}
	return u
}

func (ds *Datasource) fetchNodes(ctx context.Context, u string) (osm.Nodes, error) {
	doc := new(osm.OSM)
	if err := ds.getFromAPI(ctx, u, &doc); err == nil {
		return doc.Nodes, nil
	} else {
		return nil, err
	}
}
`},
		{Name: "notes-list-literal-index-loop", File: "osmapi/note.go",
			Find: `	params := make([]string, 0, 1+len(opts))
	params = append(params, fmt.Sprintf("bbox=%f,%f,%f,%f",
		bounds.MinLon, bounds.MinLat,
		bounds.MaxLon, bounds.MaxLat))

	var err error
	for _, o := range opts {
		params, err = o.applyNotes(params)
		if err != nil {
			return nil, err
		}
	}
`,
			Replace: `	params := []string{fmt.Sprintf("bbox=%f,%f,%f,%f",
		bounds.MinLon, bounds.MinLat,
		bounds.MaxLon, bounds.MaxLat)}

	for i := 0; i < len(opts); i++ {
		var err error
		if params, err = opts[i].applyNotes(params); err != nil {
			return nil, err
		}
	}
`},
		{Name: "limit-accepting-branch-first-local-copy", File: "osmapi/options.go",
			Find: `	if o.n < 1 || 10000 < o.n {
		return nil, errors.New("osmapi: limit must be between 1 and 10000")
	}
	return append(p, fmt.Sprintf("limit=%d", o.n)), nil
`,
			Replace: `	if n := o.n; n >= 1 && n <= 10000 {
		return append(p, fmt.Sprintf("limit=%v", n)), nil
	}
	return nil, errors.New("osmapi: limit must be between 1 and 10000")
`},
		{Name: "extract-send-helper-newrequestwithcontext-deferred-closure", File: "osmapi/datasource.go",
			Find: `	req, err := http.NewRequest("GET", url, nil)
	if err != nil {
		return err
	}

	resp, err := client.Do(req.WithContext(ctx))
	if err != nil {
		return err
	}
	defer resp.Body.Close()

	if resp.StatusCode == http.StatusNotFound {
		return &NotFoundError{URL: url}
	}

	if resp.StatusCode == http.StatusForbidden {
		return &ForbiddenError{URL: url}
	}

	if resp.StatusCode == http.StatusGone {
		return &GoneError{URL: url}
	}

	if resp.StatusCode == http.StatusRequestURITooLong {
		return &RequestURITooLongError{URL: url}
	}

	if resp.StatusCode != http.StatusOK {
		return &UnexpectedStatusCodeError{
			Code: resp.StatusCode,
			URL:  url,
		}
	}

	return xml.NewDecoder(resp.Body).Decode(item)
}

`,
			Replace: `	resp, err := send(ctx, client, url)
	if err != nil {
		return err
	}
	defer func() { resp.Body.Close() }()

	if resp.StatusCode == http.StatusNotFound {
		return &NotFoundError{URL: url}
	}

	if resp.StatusCode == http.StatusForbidden {
		return &ForbiddenError{URL: url}
	}

	if resp.StatusCode == http.StatusGone {
		return &GoneError{URL: url}
	}

	if resp.StatusCode == http.StatusRequestURITooLong {
		return &RequestURITooLongError{URL: url}
	}

	if resp.StatusCode != http.StatusOK {
		return &UnexpectedStatusCodeError{
			Code: resp.StatusCode,
			URL:  url,
		}
	}

	return xml.NewDecoder(resp.Body).Decode(item)
}

func send(ctx context.Context, c *http.Client, u string) (*http.Response, error) {
	req, err := http.NewRequestWithContext(ctx, http.MethodGet, u, nil)
	if err != nil {
		return nil, err
	}
	return c.Do(req)
}

`},
		{Name: "relations-ids-through-helper-taking-a-closure", File: "osmapi/relation.go",
			Find: `	data := make([]byte, 0, 11*len(ids))
	for i, id := range ids {
		if i != 0 {
			data = append(data, byte(','))
		}
		data = strconv.AppendInt(data, int64(id), 10)
	}
	url := ds.baseURL() + "/relations?relations=" + string(data)
	if len(params) > 0 {
		url += "&" + params
	}

	o := &osm.OSM{}
	if err := ds.getFromAPI(ctx, url, &o); err != nil {
		return nil, err
	}

	return o.Relations, nil
}
`,
			Replace: `	idList := joinInt64(len(ids), func(i int) int64 { return int64(ids[i]) })
	url := ds.baseURL() + "/relations?relations=" + idList
	if len(params) > 0 {
		url += "&" + params
	}

	o := &osm.OSM{}
	if err := ds.getFromAPI(ctx, url, &o); err != nil {
		return nil, err
	}

	return o.Relations, nil
}

// joinInt64 formats the n numbers at(0..n-1) in base 10, comma separated.
func joinInt64(n int, at func(i int) int64) string {
	out := make([]byte, 0, 11*n)
	for i := 0; i < n; i++ {
		if i > 0 {
			out = append(out, ',')
		}
		out = strconv.AppendInt(out, at(i), 10)
	}
	return string(out)
}
`},
		{Name: "nodes-closure-in-local-and-immediately-invoked-closure", File: "osmapi/node.go",
			Find: `	data := make([]byte, 0, 11*len(ids))
	for i, id := range ids {
		if i != 0 {
			data = append(data, byte(','))
		}
		data = strconv.AppendInt(data, int64(id), 10)
	}
`,
			Replace: `	idAt := func(i int) int64 { return int64(ids[i]) }
	data := func() []byte {
		buf := make([]byte, 0, 11*len(ids))
		for i := range ids {
			if i != 0 {
				buf = append(buf, ',')
			}
			buf = strconv.AppendInt(buf, idAt(i), 10)
		}
		return buf
	}()
`},
		{Name: "ways-local-closure-taking-a-closure-capturing-the-buffer", File: "osmapi/way.go",
			Find: `	data := make([]byte, 0, 11*len(ids))
	for i, id := range ids {
		if i != 0 {
			data = append(data, byte(','))
		}
		data = strconv.AppendInt(data, int64(id), 10)
	}
`,
			Replace: `	var data []byte
	each := func(n int, visit func(i int)) {
		for i := 0; i < n; i++ {
			visit(i)
		}
	}
	each(len(ids), func(i int) {
		if len(data) > 0 {
			data = append(data, ',')
		}
		data = strconv.AppendInt(data, int64(ids[i]), 10)
	})
`},
		{Name: "notessearch-query-through-strings-builder", File: "osmapi/note.go",
			Find: `	params = append(params, fmt.Sprintf("q=%s", url.QueryEscape(query)))
`,
			Replace: `	var sb strings.Builder
	sb.WriteString("q=")
	sb.WriteString(url.QueryEscape(query))
	params = append(params, sb.String())
`},
		{Name: "user-url-through-sprint", File: "osmapi/user.go",
			Find: `	url := fmt.Sprintf("%s/user/%d", ds.baseURL(), id)
`,
			Replace: `	url := fmt.Sprint(ds.baseURL(), "/user/", int64(id))
`},
		{Name: "nodeversion-grouped-parameters-struct", File: "osmapi/node.go",
			Find: `	url := fmt.Sprintf("%s/node/%d/%d", ds.baseURL(), id, v)

	o := &osm.OSM{}
	if err := ds.getFromAPI(ctx, url, &o); err != nil {
		return nil, err
	}

	if l := len(o.Nodes); l != 1 {
		return nil, fmt.Errorf("wrong number of nodes, expected 1, got %v", l)
	}

	return o.Nodes[0], nil
}
`,
			Replace: `	url := ds.versionURL(versionRef{kind: "node", id: int64(id), version: v})

	o := &osm.OSM{}
	if err := ds.getFromAPI(ctx, url, &o); err != nil {
		return nil, err
	}

	if l := len(o.Nodes); l != 1 {
		return nil, fmt.Errorf("wrong number of nodes, expected 1, got %v", l)
	}

	return o.Nodes[0], nil
}

type versionRef struct {
	kind    string
	id      int64
	version int
}

func (ds *Datasource) versionURL(r versionRef) string {
	return fmt.Sprintf("%s/%s/%d/%d", ds.baseURL(), r.kind, r.id, r.version)
}
`},
		{Name: "notfound-as-type-switch", File: "osmapi/datasource.go",
			Find:    "\tif err == nil {\n\t\treturn false\n\t}\n\n\t_, ok := err.(*NotFoundError)\n\treturn ok\n",
			Replace: "\tswitch err.(type) {\n\tcase *NotFoundError:\n\t\treturn true\n\tdefault:\n\t\treturn false\n\t}\n"},
		{Name: "status-table-map-of-constructors", File: "osmapi/datasource.go",
			Find: `	if resp.StatusCode == http.StatusNotFound {
		return &NotFoundError{URL: url}
	}

	if resp.StatusCode == http.StatusForbidden {
		return &ForbiddenError{URL: url}
	}

	if resp.StatusCode == http.StatusGone {
		return &GoneError{URL: url}
	}

	if resp.StatusCode == http.StatusRequestURITooLong {
		return &RequestURITooLongError{URL: url}
	}

	if resp.StatusCode != http.StatusOK {
		return &UnexpectedStatusCodeError{
			Code: resp.StatusCode,
			URL:  url,
		}
	}

	return xml.NewDecoder(resp.Body).Decode(item)
}
`,
			Replace: `	if resp.StatusCode == http.StatusOK {
		return xml.NewDecoder(resp.Body).Decode(item)
	}

	if newError, ok := statusErrors[resp.StatusCode]; ok {
		return newError(url)
	}

	return &UnexpectedStatusCodeError{Code: resp.StatusCode, URL: url}
}

var statusErrors = map[int]func(url string) error{
	http.StatusNotFound: func(url string) error { return &NotFoundError{URL: url} },
	http.StatusForbidden: func(url string) error { return &ForbiddenError{URL: url} },
	http.StatusGone: func(url string) error { return &GoneError{URL: url} },
	http.StatusRequestURITooLong: func(url string) error { return &RequestURITooLongError{URL: url} },
}
`},
		{Name: "status-table-map-consulted-before-ok-test", File: "osmapi/datasource.go",
			Find: `	if resp.StatusCode == http.StatusNotFound {
		return &NotFoundError{URL: url}
	}

	if resp.StatusCode == http.StatusForbidden {
		return &ForbiddenError{URL: url}
	}

	if resp.StatusCode == http.StatusGone {
		return &GoneError{URL: url}
	}

	if resp.StatusCode == http.StatusRequestURITooLong {
		return &RequestURITooLongError{URL: url}
	}

	if resp.StatusCode != http.StatusOK {
		return &UnexpectedStatusCodeError{
			Code: resp.StatusCode,
			URL:  url,
		}
	}

	return xml.NewDecoder(resp.Body).Decode(item)
}
`,
			Replace: `	if newError, ok := statusErrors[resp.StatusCode]; ok {
		return newError(url)
	}

	if resp.StatusCode != http.StatusOK {
		return &UnexpectedStatusCodeError{Code: resp.StatusCode, URL: url}
	}

	return xml.NewDecoder(resp.Body).Decode(item)
}

var statusErrors = map[int]func(url string) error{
	http.StatusNotFound: func(url string) error { return &NotFoundError{URL: url} },
	http.StatusForbidden: func(url string) error { return &ForbiddenError{URL: url} },
	http.StatusGone: func(url string) error { return &GoneError{URL: url} },
	http.StatusRequestURITooLong: func(url string) error { return &RequestURITooLongError{URL: url} },
}
`},
		{Name: "status-table-slice-of-code-constructor-pairs-scanned", File: "osmapi/datasource.go",
			Find: `	if resp.StatusCode == http.StatusNotFound {
		return &NotFoundError{URL: url}
	}

	if resp.StatusCode == http.StatusForbidden {
		return &ForbiddenError{URL: url}
	}

	if resp.StatusCode == http.StatusGone {
		return &GoneError{URL: url}
	}

	if resp.StatusCode == http.StatusRequestURITooLong {
		return &RequestURITooLongError{URL: url}
	}

	if resp.StatusCode != http.StatusOK {
		return &UnexpectedStatusCodeError{
			Code: resp.StatusCode,
			URL:  url,
		}
	}

	return xml.NewDecoder(resp.Body).Decode(item)
}
`,
			Replace: `	for _, e := range statusTable {
		if e.code == resp.StatusCode {
			return e.newError(url)
		}
	}

	if resp.StatusCode != http.StatusOK {
		return &UnexpectedStatusCodeError{Code: resp.StatusCode, URL: url}
	}

	return xml.NewDecoder(resp.Body).Decode(item)
}

var statusTable = []struct {
	code     int
	newError func(url string) error
}{
	{http.StatusNotFound, newNotFound},
	{http.StatusForbidden, func(u string) error { return &ForbiddenError{URL: u} }},
	{http.StatusGone, func(u string) error { return &GoneError{URL: u} }},
	{http.StatusRequestURITooLong, func(u string) error { return &RequestURITooLongError{URL: u} }},
}

func newNotFound(u string) error { return &NotFoundError{URL: u} }
`},
		{Name: "status-table-local-array-index-loop-nil-test", File: "osmapi/datasource.go",
			Find: `	if resp.StatusCode == http.StatusNotFound {
		return &NotFoundError{URL: url}
	}

	if resp.StatusCode == http.StatusForbidden {
		return &ForbiddenError{URL: url}
	}

	if resp.StatusCode == http.StatusGone {
		return &GoneError{URL: url}
	}

	if resp.StatusCode == http.StatusRequestURITooLong {
		return &RequestURITooLongError{URL: url}
	}

	if resp.StatusCode != http.StatusOK {
		return &UnexpectedStatusCodeError{
			Code: resp.StatusCode,
			URL:  url,
		}
	}

	return xml.NewDecoder(resp.Body).Decode(item)
}
`,
			Replace: `	type entry struct {
		code int
		mk   func(string) error
	}
	table := [...]entry{
		{code: http.StatusGone, mk: func(u string) error { return &GoneError{URL: u} }},
		{code: http.StatusNotFound, mk: func(u string) error { return &NotFoundError{URL: u} }},
		{code: http.StatusRequestURITooLong, mk: func(u string) error { return &RequestURITooLongError{URL: u} }},
		{code: http.StatusForbidden, mk: func(u string) error { return &ForbiddenError{URL: u} }},
		{code: http.StatusOK},
	}
	for i := 0; i < len(table); i++ {
		if table[i].code != resp.StatusCode {
			continue
		}
		if mk := table[i].mk; mk != nil {
			return mk(url)
		}
		return xml.NewDecoder(resp.Body).Decode(item)
	}

	return &UnexpectedStatusCodeError{Code: resp.StatusCode, URL: url}
}
`},
		{Name: "limit-bounds-in-package-level-struct", File: "osmapi/options.go",
			Find: `func (o *limit) applyNotes(p []string) ([]string, error) {
	if o.n < 1 || 10000 < o.n {
		return nil, errors.New("osmapi: limit must be between 1 and 10000")
	}
	return append(p, fmt.Sprintf("limit=%d", o.n)), nil
}
`,
			Replace: `func (o *limit) applyNotes(p []string) ([]string, error) {
	if o.n < notesLimit.min || o.n > notesLimit.max {
		return nil, errors.New("osmapi: limit must be between 1 and 10000")
	}
	return append(p, fmt.Sprintf("limit=%d", o.n)), nil
}

var notesLimit = struct{ min, max int }{min: 1, max: 10000}
`},
		{Name: "user-format-looked-up-in-local-map", File: "osmapi/user.go",
			Find: `	url := fmt.Sprintf("%s/user/%d", ds.baseURL(), id)
`,
			Replace: `	formats := map[string]string{"user": "%s/user/%d", "note": "%s/notes/%d"}
	url := fmt.Sprintf(formats["user"], ds.baseURL(), id)
`},
		{Name: "nodes-ids-presized-string-list-indexed-then-joined", File: "osmapi/node.go",
			Find: `	"strconv"

	"github.com/paulmach/osm"
)

// Node returns the latest version of the node from the osm rest api.
// Delegates to the DefaultDatasource and uses its http.Client to make the request.
func Node(ctx context.Context, id osm.NodeID, opts ...FeatureOption) (*osm.Node, error) {
	return DefaultDatasource.Node(ctx, id, opts...)
}

// Node returns the latest version of the node from the osm rest api.
func (ds *Datasource) Node(ctx context.Context, id osm.NodeID, opts ...FeatureOption) (*osm.Node, error) {
	params, err := featureOptions(opts)
	if err != nil {
		return nil, err
	}
	url := fmt.Sprintf("%s/node/%d?%s", ds.baseURL(), id, params)

	o := &osm.OSM{}
	if err := ds.getFromAPI(ctx, url, &o); err != nil {
		return nil, err
	}

	if l := len(o.Nodes); l != 1 {
		return nil, fmt.Errorf("wrong number of nodes, expected 1, got %v", l)
	}

	return o.Nodes[0], nil
}

// Nodes returns the latest version of the nodes from the osm rest api.
// Delegates to the DefaultDatasource and uses its http.Client to make the request.
func Nodes(ctx context.Context, ids []osm.NodeID, opts ...FeatureOption) (osm.Nodes, error) {
	return DefaultDatasource.Nodes(ctx, ids, opts...)
}

// Nodes returns the latest version of the nodes from the osm rest api.
// Will return 404 if any node is missing.
func (ds *Datasource) Nodes(ctx context.Context, ids []osm.NodeID, opts ...FeatureOption) (osm.Nodes, error) {
	params, err := featureOptions(opts)
	if err != nil {
		return nil, err
	}

	data := make([]byte, 0, 11*len(ids))
	for i, id := range ids {
		if i != 0 {
			data = append(data, byte(','))
		}
		data = strconv.AppendInt(data, int64(id), 10)
	}
	url := ds.baseURL() + "/nodes?nodes=" + string(data)
`,
			Replace: `	"strconv"
	"strings"

	"github.com/paulmach/osm"
)

// Node returns the latest version of the node from the osm rest api.
// Delegates to the DefaultDatasource and uses its http.Client to make the request.
func Node(ctx context.Context, id osm.NodeID, opts ...FeatureOption) (*osm.Node, error) {
	return DefaultDatasource.Node(ctx, id, opts...)
}

// Node returns the latest version of the node from the osm rest api.
func (ds *Datasource) Node(ctx context.Context, id osm.NodeID, opts ...FeatureOption) (*osm.Node, error) {
	params, err := featureOptions(opts)
	if err != nil {
		return nil, err
	}
	url := fmt.Sprintf("%s/node/%d?%s", ds.baseURL(), id, params)

	o := &osm.OSM{}
	if err := ds.getFromAPI(ctx, url, &o); err != nil {
		return nil, err
	}

	if l := len(o.Nodes); l != 1 {
		return nil, fmt.Errorf("wrong number of nodes, expected 1, got %v", l)
	}

	return o.Nodes[0], nil
}

// Nodes returns the latest version of the nodes from the osm rest api.
// Delegates to the DefaultDatasource and uses its http.Client to make the request.
func Nodes(ctx context.Context, ids []osm.NodeID, opts ...FeatureOption) (osm.Nodes, error) {
	return DefaultDatasource.Nodes(ctx, ids, opts...)
}

// Nodes returns the latest version of the nodes from the osm rest api.
// Will return 404 if any node is missing.
func (ds *Datasource) Nodes(ctx context.Context, ids []osm.NodeID, opts ...FeatureOption) (osm.Nodes, error) {
	params, err := featureOptions(opts)
	if err != nil {
		return nil, err
	}

	strs := make([]string, len(ids))
	for i := range ids {
		strs[i] = strconv.FormatInt(int64(ids[i]), 10)
	}
	url := ds.baseURL() + "/nodes?nodes=" + strings.Join(strs, ",")
`},
		{Name: "notes-leading-parameter-presized-and-indexed", File: "osmapi/note.go",
			Find: `	params := make([]string, 0, 1+len(opts))
	params = append(params, fmt.Sprintf("bbox=%f,%f,%f,%f",
		bounds.MinLon, bounds.MinLat,
		bounds.MaxLon, bounds.MaxLat))
`,
			Replace: `	params := make([]string, 1, 1+len(opts))
	params[0] = fmt.Sprintf("bbox=%f,%f,%f,%f",
		bounds.MinLon, bounds.MinLat,
		bounds.MaxLon, bounds.MaxLat)
`},
		{Name: "notessearch-query-parts-list-ranged-into-builder", File: "osmapi/note.go",
			Find: `	params = append(params, fmt.Sprintf("q=%s", url.QueryEscape(query)))
`,
			Replace: `	parts := []string{"q=", url.QueryEscape(query)}
	var sb strings.Builder
	for _, part := range parts {
		sb.WriteString(part)
	}
	params = append(params, sb.String())
`},
		{Name: "ways-ids-as-int64-list-variadic-join-named-result-string-accumulation", File: "osmapi/way.go",
			Find: `	data := make([]byte, 0, 11*len(ids))
	for i, id := range ids {
		if i != 0 {
			data = append(data, byte(','))
		}
		data = strconv.AppendInt(data, int64(id), 10)
	}
	url := ds.baseURL() + "/ways?ways=" + string(data)
	if len(params) > 0 {
		url += "&" + params
	}

	o := &osm.OSM{}
	if err := ds.getFromAPI(ctx, url, &o); err != nil {
		return nil, err
	}

	return o.Ways, nil
}
`,
			Replace: `	raw := make([]int64, len(ids))
	for i, id := range ids {
		raw[i] = int64(id)
	}
	url := ds.baseURL() + "/ways?ways=" + joinInts(raw...)
	if len(params) > 0 {
		url += "&" + params
	}

	o := &osm.OSM{}
	if err := ds.getFromAPI(ctx, url, &o); err != nil {
		return nil, err
	}

	return o.Ways, nil
}

// joinInts formats the numbers in base 10, comma separated.
func joinInts(nums ...int64) (list string) {
	for _, n := range nums {
		if list != "" {
			list += ","
		}
		list += strconv.FormatInt(n, 10)
	}
	return
}
`},
		{Name: "notes-url-through-mutable-request-struct-with-methods", File: "osmapi/note.go",
			Find: `	params := make([]string, 0, 1+len(opts))
	params = append(params, fmt.Sprintf("bbox=%f,%f,%f,%f",
		bounds.MinLon, bounds.MinLat,
		bounds.MaxLon, bounds.MaxLat))

	var err error
	for _, o := range opts {
		params, err = o.applyNotes(params)
		if err != nil {
			return nil, err
		}
	}

	url := fmt.Sprintf("%s/notes?%s", ds.baseURL(), strings.Join(params, "&"))

	o := &osm.OSM{}
	if err := ds.getFromAPI(ctx, url, &o); err != nil {
		return nil, err
	}

	return o.Notes, nil
}
`,
			Replace: `	q := &query{}
	q.path = ds.baseURL() + "/notes"
	q.add(fmt.Sprintf("bbox=%f,%f,%f,%f",
		bounds.MinLon, bounds.MinLat,
		bounds.MaxLon, bounds.MaxLat))

	for _, o := range opts {
		var err error
		if q.parts, err = o.applyNotes(q.parts); err != nil {
			return nil, err
		}
	}

	url := q.String()

	o := &osm.OSM{}
	if err := ds.getFromAPI(ctx, url, &o); err != nil {
		return nil, err
	}

	return o.Notes, nil
}

// query is a request url under construction.
type query struct {
	path  string
	parts []string
}

func (q *query) add(p string) { q.parts = append(q.parts, p) }

func (q query) String() (s string) {
	s = q.path + "?"
	s += strings.Join(q.parts, "&")
	return
}
`},
		{Name: "getchangeset-named-results-bare-returns", File: "osmapi/changeset.go",
			Find: `func (ds *Datasource) getChangeset(ctx context.Context, url string) (*osm.Changeset, error) {
	css := &osm.OSM{}
	if err := ds.getFromAPI(ctx, url, &css); err != nil {
		return nil, err
	}

	if l := len(css.Changesets); l != 1 {
		return nil, fmt.Errorf("wrong number of changesets, expected 1, got %v", l)
	}

	return css.Changesets[0], nil
}
`,
			Replace: `func (ds *Datasource) getChangeset(ctx context.Context, url string) (cs *osm.Changeset, err error) {
	css := &osm.OSM{}
	if err = ds.getFromAPI(ctx, url, &css); err != nil {
		return
	}

	if l := len(css.Changesets); l != 1 {
		err = fmt.Errorf("wrong number of changesets, expected 1, got %v", l)
		return
	}

	cs = css.Changesets[0]
	return
}
`},
	}
}
