package rules

import "osmcheck/core"

// c20Benign: behaviour-preserving rewrites of the anchored code (different classes); every rule must stay silent.
func c20Benign() []core.Mutant {
	var out []core.Mutant
	for _, l := range [][]core.Mutant{c20Benign1(), c20Benign2(), c20Benign3(), c20Benign4(), c20Benign5(), c20Benign6()} {
		out = append(out, l...)
	}
	return out
}
