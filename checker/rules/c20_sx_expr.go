package rules

import (
	"go/ast"
	"go/constant"
	"go/token"
	"go/types"
)

func c20One(st *c20St, v c20V) []c20EV { return []c20EV{{st, v}} }

// isErrType: *T (or T) of the analysed package implementing error; returns the type name.
func (x *c20SX) pkgErrType(t types.Type) string {
	if t == nil {
		return ""
	}
	errT := types.Universe.Lookup("error").Type().Underlying().(*types.Interface)
	nt, _ := t.(*types.Named)
	if pt, ok := t.(*types.Pointer); ok {
		nt, _ = pt.Elem().(*types.Named)
	}
	if nt == nil || nt.Obj().Pkg() != x.cx.pk.Types {
		return ""
	}
	if types.Implements(t, errT) || types.Implements(types.NewPointer(nt), errT) {
		return nt.Obj().Name()
	}
	return ""
}

func (x *c20SX) ev(e ast.Expr, st *c20St) []c20EV {
	if st.ctl != c20cRun {
		return c20One(st, c20V{})
	}
	e = ast.Unparen(e)
	if tv, ok := x.info.Types[e]; ok && tv.Value != nil {
		switch tv.Value.Kind() {
		case constant.String:
			return c20One(st, c20V{k: c20kStr, sym: c20Lit(constant.StringVal(tv.Value)), typ: tv.Type})
		case constant.Int:
			if n, ok := constant.Int64Val(tv.Value); ok {
				return c20One(st, c20V{k: c20kInt, n: n, typ: tv.Type})
			}
		case constant.Bool:
			return c20One(st, c20V{k: c20kBool, b: constant.BoolVal(tv.Value)})
		}
		return c20One(st, c20Unknown("constant `%s`", x.srcOf(e)))
	}
	switch e := e.(type) {
	case *ast.Ident:
		return c20One(st, x.ident(e, st))
	case *ast.SelectorExpr:
		return x.selector(e, st)
	case *ast.StarExpr:
		var out []c20EV
		for _, r := range x.ev(e.X, st) {
			out = append(out, c20EV{r.st, x.deref(r.v, r.st)})
		}
		return out
	case *ast.UnaryExpr:
		return x.unary(e, st)
	case *ast.BinaryExpr:
		switch e.Op {
		case token.LAND, token.LOR, token.EQL, token.NEQ, token.LSS, token.LEQ, token.GTR, token.GEQ:
			var out []c20EV
			for _, cv := range x.cond(e, st) {
				out = append(out, c20EV{cv.st, c20V{k: c20kBool, b: cv.val}})
			}
			return out
		}
		var out []c20EV
		for _, it := range x.evList([]ast.Expr{e.X, e.Y}, st) {
			if it.st.ctl != c20cRun {
				out = append(out, c20EV{it.st, c20V{}})
				continue
			}
			out = append(out, c20EV{it.st, x.binop(e.Op, it.vs[0], it.vs[1], e)})
		}
		return out
	case *ast.CallExpr:
		return x.call(e, st)
	case *ast.CompositeLit:
		return x.composite(e, st, false)
	case *ast.IndexExpr:
		var out []c20EV
		for _, it := range x.evList([]ast.Expr{e.X, e.Index}, st) {
			if it.st.ctl != c20cRun {
				out = append(out, c20EV{it.st, c20V{}})
				continue
			}
			b, i := it.vs[0], it.vs[1]
			if b.k == c20kList && !b.in && b.star == nil && b.tag != "presized" && i.k == c20kInt && i.h == nil && i.n >= 0 && i.n < int64(len(b.elems)) {
				out = append(out, c20EV{it.st, c20StrV(b.elems[i.n])})
				continue
			}
			if b.k == c20kAgg {
				for _, l := range x.lookup(b, i, it.st, e) {
					out = append(out, c20EV{l.st, l.v})
				}
				continue
			}
			if b.k == c20kIn && b.tag == "" && i.k == c20kInt && i.h == nil && i.n == 0 {
				if ev, ok := x.elemValue(b, 0); ok && ev.k == c20kIn {
					// ids[0]: the first id; on an empty list the index panics
					for _, cv := range x.forkAtom(it.st, "nonempty:"+b.h.key(), false) {
						if cv.val {
							h := *ev.h
							h.fn = "elem@0"
							ev.h = &h
							out = append(out, c20EV{cv.st, ev})
						} else {
							out = append(out, c20EV{cv.st.abort(e, "panic:`%s` is evaluated although the id list may be empty (no test of its length passed on this path): the call panics instead of issuing its request", x.srcOf(e)), c20V{}})
						}
					}
					continue
				}
			}
			if b.k == c20kIn && i.k == c20kObj && i.tag == "loopidx" && i.h != nil && i.h.key() == b.h.key() {
				if ev, ok := x.elemValue(b, i.id); ok {
					out = append(out, c20EV{it.st, ev})
					continue
				}
			}
			if (b.k == c20kSel || b.k == c20kObj) && i.k == c20kInt && i.h == nil {
				out = append(out, c20EV{it.st, c20V{k: c20kIdx, base: &b, n: i.n}})
			} else {
				out = append(out, c20EV{it.st, c20Unknown("index expression `%s`", x.srcOf(e))})
			}
		}
		return out
	case *ast.SliceExpr:
		// scratch[:0]: an empty byte buffer over a local array or over a buffer that is itself still empty. (The bytes
		// appended land in the scratch storage; what leaves is a copy: string(buf), append(dst, buf...).)
		if hi, ok := constInt(x.info, e.High); e.Low == nil && e.High != nil && ok && hi == 0 && e.Max == nil {
			var out []c20EV
			for _, r := range x.ev(e.X, st) {
				if r.st.ctl == c20cRun && r.v.k == c20kBytes && (r.v.tag == "array" || len(r.v.sym) == 0) && r.v.tag != "builder" {
					out = append(out, c20EV{r.st, c20V{k: c20kBytes}})
				} else {
					out = append(out, c20EV{r.st, c20Unknown("expression `%s`", x.srcOf(e))})
				}
			}
			return out
		}
		// ids[1:]: the elements after the first (the first was handled separately); panics on an empty list
		if lo, ok := constInt(x.info, e.Low); e.Low != nil && ok && lo == 1 && e.High == nil && e.Max == nil {
			var out []c20EV
			for _, r := range x.ev(e.X, st) {
				if _, isElem := x.elemValue(r.v, 0); r.st.ctl != c20cRun || r.v.k != c20kIn || r.v.tag != "" || !isElem {
					out = append(out, c20EV{r.st, c20Unknown("expression `%s`", x.srcOf(e))})
					continue
				}
				for _, cv := range x.forkAtom(r.st, "nonempty:"+r.v.h.key(), false) {
					if cv.val {
						tail := r.v
						tail.tag = "from1"
						out = append(out, c20EV{cv.st, tail})
					} else {
						out = append(out, c20EV{cv.st.abort(e, "panic:`%s` is evaluated although the id list may be empty (no test of its length passed on this path): the call panics instead of issuing its request", x.srcOf(e)), c20V{}})
					}
				}
			}
			return out
		}
	case *ast.FuncLit:
		return c20One(st, c20V{k: c20kFunc, lit: e, typ: x.info.TypeOf(e)})
	}
	return c20One(st, c20Unknown("expression `%s`", x.srcOf(e)))
}

func (x *c20SX) ident(id *ast.Ident, st *c20St) c20V {
	o := objOf(x.info, id)
	if o == nil {
		return c20Unknown("identifier %s", id.Name)
	}
	if o == types.Universe.Lookup("nil") {
		return c20V{k: c20kNil}
	}
	if v, ok := st.env[o]; ok {
		return st.resolve(v)
	}
	if fn, ok := o.(*types.Func); ok {
		return c20V{k: c20kFunc, obj: fn, typ: fn.Type()}
	}
	if vr, ok := o.(*types.Var); ok && !vr.IsField() && vr.Pkg() != nil && vr.Parent() == vr.Pkg().Scope() {
		if cl := x.cx.constTable(vr); cl != nil {
			if evs, ok := x.aggLit(cl, x.info.TypeOf(cl), st); ok && len(evs) == 1 && evs[0].st == st {
				return evs[0].v
			}
			if _, isStruct := x.info.TypeOf(cl).Underlying().(*types.Struct); isStruct {
				if evs := x.composite(cl, st, false); len(evs) == 1 && evs[0].st == st {
					return evs[0].v
				}
			}
		}
		name := vr.Name()
		if vr.Pkg() != x.cx.pk.Types {
			name = vr.Pkg().Name() + "." + name
		}
		return x.input(&c20Hole{param: -2, pname: name}, vr.Type())
	}
	return c20Unknown("`%s` has no value on this path", id.Name)
}

func (x *c20SX) deref(v c20V, st *c20St) c20V {
	if v.k == c20kRef {
		if t, ok := st.env[v.obj]; ok {
			return t
		}
	}
	if v.k == c20kObj || v.k == c20kIn || v.k == c20kErr {
		return v // pointers to abstract objects are the objects
	}
	return c20Unknown("dereference of %s", v.String())
}

func (x *c20SX) selector(e *ast.SelectorExpr, st *c20St) []c20EV {
	// package-qualified variable (constants were handled by the caller)
	if id, ok := e.X.(*ast.Ident); ok {
		if _, isPkg := x.info.Uses[id].(*types.PkgName); isPkg {
			return c20One(st, x.ident(e.Sel, st))
		}
	}
	f := fieldOf(x.info, e)
	if f == nil {
		if s := x.info.Selections[e]; s != nil && s.Kind() == types.MethodVal {
			if fn, ok := s.Obj().(*types.Func); ok {
				var out []c20EV
				for _, r := range x.ev(e.X, st) {
					recv := r.v
					out = append(out, c20EV{r.st, c20V{k: c20kFunc, obj: fn, base: &recv, typ: x.info.TypeOf(e)}})
				}
				return out
			}
		}
		return c20One(st, c20Unknown("method value `%s`", x.srcOf(e)))
	}
	var out []c20EV
	for _, r := range x.ev(e.X, st) {
		if r.st.ctl != c20cRun {
			out = append(out, r)
			continue
		}
		out = append(out, c20EV{r.st, x.field(r.v, f, r.st, e)})
	}
	return out
}

func (x *c20SX) field(b c20V, f *types.Var, st *c20St, at ast.Node) c20V {
	if b.k == c20kRef {
		b = x.deref(b, st)
	}
	switch b.k {
	case c20kIn:
		h := *b.h
		if h.field != "" {
			h.field += "." + f.Name()
		} else {
			h.field = f.Name()
		}
		v := x.input(&h, f.Type())
		v.tag = b.tag
		return v
	case c20kObj:
		switch b.tag {
		case "resp":
			if f.Name() == "StatusCode" && f.Pkg() != nil && f.Pkg().Path() == "net/http" {
				h := &c20Hole{param: -3, pname: "status"}
				if x.status != nil {
					return c20V{k: c20kInt, n: *x.status, h: h, typ: f.Type()}
				}
				return c20V{k: c20kIn, h: h, typ: f.Type()}
			}
			if f.Name() == "Body" {
				return c20V{k: c20kObj, tag: "body", id: b.id}
			}
		case "doc":
			if v, ok := st.heapGet(b.id, f.Name()); ok {
				return v // stored since the struct was built
			}
			if v, ok := b.fields[f.Name()]; ok {
				return v // a struct value built in the call (parameter group, option value): the field as given
			}
			return c20V{k: c20kSel, base: &b, name: f.Name(), typ: f.Type()}
		}
	case c20kSel:
		return c20V{k: c20kSel, base: &b, name: f.Name(), typ: f.Type()}
	case c20kErr:
		if v, ok := b.fields[f.Name()]; ok {
			return v
		}
	}
	return c20Unknown("field `%s` of %s", x.srcOf(at), b.String())
}

func (x *c20SX) unary(e *ast.UnaryExpr, st *c20St) []c20EV {
	switch e.Op {
	case token.AND:
		inner := ast.Unparen(e.X)
		if cl, ok := inner.(*ast.CompositeLit); ok {
			return x.composite(cl, st, true)
		}
		if id, ok := inner.(*ast.Ident); ok {
			if o := objOf(x.info, id); o != nil {
				if _, has := st.env[o]; has {
					return c20One(st, c20V{k: c20kRef, obj: o})
				}
			}
		}
		return c20One(st, c20Unknown("address `%s`", x.srcOf(e)))
	case token.NOT:
		var out []c20EV
		for _, cv := range x.cond(e, st) {
			out = append(out, c20EV{cv.st, c20V{k: c20kBool, b: cv.val}})
		}
		return out
	}
	return c20One(st, c20Unknown("expression `%s`", x.srcOf(e)))
}

func (x *c20SX) binop(op token.Token, a, b c20V, at ast.Node) c20V {
	switch {
	case op == token.ADD && a.k == c20kStr && b.k == c20kStr:
		return c20V{k: c20kStr, sym: append(append(c20Sym{}, a.sym...), b.sym...), typ: a.typ}
	case a.k == c20kInt && b.k == c20kInt:
		// concrete integers (also the concrete status of a finite-domain run; the result is no longer "the input")
		switch op {
		case token.ADD:
			return c20V{k: c20kInt, n: a.n + b.n}
		case token.SUB:
			return c20V{k: c20kInt, n: a.n - b.n}
		case token.MUL:
			return c20V{k: c20kInt, n: a.n * b.n}
		case token.QUO:
			if b.n != 0 {
				return c20V{k: c20kInt, n: a.n / b.n}
			}
		case token.REM:
			if b.n != 0 {
				return c20V{k: c20kInt, n: a.n % b.n}
			}
		}
	}
	return c20Unknown("`%s`", x.srcOf(at))
}

// typeAssert models `v, ok := X.(T)` for error values.
func (x *c20SX) typeAssert(ta *ast.TypeAssertExpr, v c20V) (c20V, c20V) {
	if ok, known := x.hasType(v, x.info.TypeOf(ta.Type)); known {
		if ok {
			return v, c20V{k: c20kBool, b: true}
		}
		return c20V{k: c20kNil}, c20V{k: c20kBool, b: false}
	}
	return c20Unknown("type assertion `%s`", x.srcOf(ta)), c20Unknown("type assertion `%s`", x.srcOf(ta))
}
