package rules

// c19_fields.go — bounds held in struct fields.
//
// The two bounds of the binary search may be plain state variables (`lower`, `upper`) or fields of a small struct
// (`window.lower`, `window.upper`) that methods read (`r.adjacent()`, `r.middle()`) and update (`r.narrow(split,
// t)`). A bound is identified by a types.Object either way: the variable, or the field's *types.Var (the struct
// value itself is not tracked: one range value per search is assumed). boundOf maps an expression to that object;
// assignsBound says whether a statement gives a bound a new value, directly or inside a function of the package it
// calls.

import (
	"go/ast"
	"go/token"
	"go/types"
)

// isStateRef: t is *State or State.
func (m *c19Model) isStateRef(t types.Type) bool {
	if p, ok := t.(*types.Pointer); ok {
		t = p.Elem()
	}
	return types.Identical(t, m.stateT)
}

// boundOf returns the object a state-valued expression denotes as a bound: the variable for an identifier, the
// field for a selection `x.f` of state type.
func (m *c19Model) boundOf(e ast.Expr) types.Object {
	e = ast.Unparen(e)
	if f := fieldOf(m.info, e); f != nil {
		if m.isStateRef(f.Type()) {
			return f
		}
		return nil
	}
	return objOf(m.info, e)
}

// assignsBound: node n assigns bound b, directly or through a call of a package function whose body does (two levels).
func (m *c19Model) assignsBound(n ast.Node, b types.Object, depth int) bool {
	found := false
	ast.Inspect(n, func(x ast.Node) bool {
		if found {
			return false
		}
		switch y := x.(type) {
		case *ast.FuncLit:
			return false
		case *ast.AssignStmt:
			for _, l := range y.Lhs {
				if m.boundOf(l) == b {
					found = true
				}
			}
		case *ast.CallExpr:
			if depth < 2 {
				if g := m.funcs[callee(m.info, y)]; g != nil && m.assignsBound(g.Decl.Body, b, depth+1) {
					found = true
				}
			}
		}
		return !found
	})
	return found
}

// boundParam: the parameter of fi a bound starts from: the bound itself when it is a parameter, or, for a field,
// the parameter the field is initialised with (`stateRange{lower: lower, …}`, `w.lower = lower`).
func (m *c19Model) boundParam(fi *FuncInfo, b types.Object) types.Object {
	if c19IsParam(fi, b) {
		return b
	}
	v, ok := b.(*types.Var)
	if !ok || !v.IsField() {
		return nil
	}
	var out types.Object
	ast.Inspect(fi.Decl.Body, func(n ast.Node) bool {
		switch x := n.(type) {
		case *ast.KeyValueExpr:
			if id, ok := x.Key.(*ast.Ident); ok && m.info.Uses[id] == b {
				if o := objOf(m.info, x.Value); o != nil && c19IsParam(fi, o) && out == nil {
					out = o
				}
			}
		case *ast.CompositeLit:
			// positional literal
			if st, ok := m.info.TypeOf(x).Underlying().(*types.Struct); ok {
				for i, el := range x.Elts {
					if _, kv := el.(*ast.KeyValueExpr); !kv && i < st.NumFields() && st.Field(i) == b {
						if o := objOf(m.info, el); o != nil && c19IsParam(fi, o) && out == nil {
							out = o
						}
					}
				}
			}
		case *ast.AssignStmt:
			if x.Tok == token.ASSIGN && len(x.Lhs) == len(x.Rhs) {
				for i, l := range x.Lhs {
					if fieldOf(m.info, l) == b {
						if o := objOf(m.info, x.Rhs[i]); o != nil && c19IsParam(fi, o) && out == nil {
							out = o
						}
					}
				}
			}
		}
		return true
	})
	return out
}

// c19Target returns what an assignable expression denotes for the valuations: the variable of an identifier, the
// field of a selection (bounds held in struct fields are tracked by field, see boundOf).
func c19Target(info *types.Info, e ast.Expr) types.Object {
	if o := objOf(info, e); o != nil {
		return o
	}
	if f := fieldOf(info, e); f != nil {
		return f
	}
	return nil
}

// returnsBound: the expression a return hands back denotes bound b: the bound itself, or a result variable every
// assignment of which in fi gives it that bound (single exit: `result = upper; break … return result, nil`).
func (m *c19Model) returnsBound(fi *FuncInfo, e ast.Expr, b types.Object) bool {
	if m.boundOf(e) == b {
		return true
	}
	v, ok := objOf(m.info, ast.Unparen(e)).(*types.Var)
	if !ok || v.IsField() || c19IsParam(fi, v) {
		return false
	}
	n, good := 0, true
	ast.Inspect(fi.Decl.Body, func(x ast.Node) bool {
		ts, rs := c19DefTargets(m.info, x)
		for i, t := range ts {
			if t != v {
				continue
			}
			n++
			if rs[i] == nil || !(m.boundOf(rs[i]) == b || m.info.Types[rs[i]].IsNil()) {
				good = false
			}
		}
		return true
	})
	return n > 0 && good
}
