package rules

import (
	"fmt"
	"go/ast"
	"go/token"
	"go/types"
	"strings"

	"osmcheck/core"
)

// inputOf is the K2 id of kind k held in a value of the packed type.
func (m *c10Model) inputOf(packed string, k *c10Kind) c10Vec {
	switch packed {
	case "FeatureID":
		return m.shape(k, false)
	case "ElementID":
		return m.shape(k, true)
	}
	return m.shape(k, k.Versioned)
}

// c10RequiredDecoders are the exported decoders/conversions the property names.
var c10RequiredDecoders = map[string][]string{
	"ObjectID":  {"Type", "Ref", "Version"},
	"ElementID": {"Type", "Ref", "Version", "ObjectID", "FeatureID", "NodeID", "WayID", "RelationID"},
	"FeatureID": {"Type", "Ref", "NodeID", "WayID", "RelationID"},
}

func c10K3(r *core.R) {
	m := c10Load(r)
	if m == nil {
		return
	}
	for _, packed := range []string{"ObjectID", "ElementID", "FeatureID"} {
		for _, n := range c10RequiredDecoders[packed] {
			if m.method(packed, n) == nil {
				r.Anchor(packed + "." + n)
			}
		}
		for _, fi := range m.methodsOf(packed) {
			m.checkDecoder(packed, fi)
		}
	}
	m.checkMaskSwitches()
	m.checkTypeSwitches()
	r.Stat("inlined_calls", m.ev.Inlined)
	r.Stat("expressions_folded", m.ev.Exprs)
}

// checkDecoder classifies one method of a packed type by its signature and composes it with K2.
func (m *c10Model) checkDecoder(packed string, fi *FuncInfo) {
	r := m.r
	sig := fi.Obj.Type().(*types.Signature)
	name := fi.Name()
	pos := fi.Decl.Pos()
	recvT := sig.Recv().Type()
	if sig.Results().Len() != 1 {
		return
	}
	resT := sig.Results().At(0).Type()
	if sig.Params().Len() != 0 {
		return // versioned constructors: K2
	}
	in := func(k *c10Kind) c10Val { return c10IntVal(m.vecOf(recvT, m.inputOf(packed, k))) }
	switch {
	case m.localName(resT) == "Type": // Type()
		for _, k := range m.kindsOf(packed) {
			c := "decode@" + name + " kind=" + k.Name
			got, why := m.single(fi, in(k), nil)
			switch {
			case why != "":
				if strings.Contains(why, "panics") {
					r.Bad(c, pos, "%s on the id %s of a %s: %s — no case of its `switch id & typeMask` matches the kind mask %s", name, m.inputOf(packed, k), k.Name, why, k.MaskConst)
				} else {
					r.Unknown(c, pos, "%s", why)
				}
			case got.K != c10VStr:
				r.Unknown(c, pos, "%s does not evaluate to a Type constant: %s", name, got)
			case got.S != m.typeText(k):
				r.Bad(c, pos, "%s returns %q for the id %s built by the %s constructor (must be %s = %q): kind is not decoded back", name, got.S, m.inputOf(packed, k), k.Name, k.TypeConst, m.typeText(k))
			default:
				r.OK(c, pos, "%s(%s) = %s for every ref, version", name, m.inputOf(packed, k), k.TypeConst)
			}
		}
	case m.ev.isString(resT):
		// String(): K5
	case m.isPacked(resT): // ElementID.ObjectID, ElementID.FeatureID
		to := m.localName(resT)
		for _, k := range m.kindsOf(packed) {
			c := "convert@" + name + " kind=" + k.Name
			var want c10Vec
			switch to {
			case "FeatureID":
				if !k.Feature {
					continue
				}
				want = m.shape(k, false)
			case "ElementID":
				if !k.Feature {
					continue
				}
				want = m.inputOf(packed, k)
			default:
				want = m.inputOf(packed, k)
			}
			got, why := m.single(fi, in(k), nil)
			if m.verdict(c, pos, got, why, want, fmt.Sprintf("%s -> %s of a %s id", packed, to, k.Name)) {
				r.OK(c, pos, "%s -> %s: kind and ref lanes unchanged%s", m.inputOf(packed, k), got.V, map[bool]string{true: ", version lanes cleared", false: ""}[to == "FeatureID" && packed != "FeatureID"])
			}
		}
	case m.kindByIDType(resT) != nil: // NodeID(), WayID(), RelationID()
		own := m.kindByIDType(resT)
		c := "convert@" + name
		got, why := m.single(fi, in(own), nil)
		want := m.vecOf(resT, c10RefOf(m.inputOf(packed, own)))
		if m.verdict(c, pos, got, why, want, fmt.Sprintf("%s of a %s id", fi.Obj.Name(), own.Name)) {
			// observation outside the property: does the guard reject other kinds?
			var through []string
			for _, k := range m.kindsOf(packed) {
				if k == own {
					continue
				}
				if outs := m.ev.call(fi.Decl, ptrVal(in(k)), nil, 1); len(outs) == 1 && !outs[0].Panic && outs[0].Unsupported == "" {
					through = append(through, k.Name)
				}
			}
			note := ""
			if len(through) > 0 {
				note = fmt.Sprintf(" (observation, not part of C10: the kind guard does not panic for %s ids because their mask contains %s)", strings.Join(through, ", "), own.MaskConst)
			}
			r.OK(c, pos, "guard is provably false for every %s id, result %s = ref[0..39]%s", own.Name, got.V, note)
		}
	default:
		if _, _, isInt := m.ev.intType(resT); !isInt {
			return
		}
		var proj func(c10Vec) c10Vec
		what := ""
		switch fi.Obj.Name() {
		case "Ref":
			proj, what = c10RefOf, "reference"
		case "Version":
			proj, what = c10VerOf, "version"
		default:
			r.Unknown("decode@"+name, pos, "integer-valued method of %s that is neither Ref nor Version: its role in the id scheme is not known", packed)
			return
		}
		for _, k := range m.kindsOf(packed) {
			c := "decode@" + name + " kind=" + k.Name
			got, why := m.single(fi, in(k), nil)
			want := m.vecOf(resT, proj(m.inputOf(packed, k)))
			if m.verdict(c, pos, got, why, want, fmt.Sprintf("%s of the id %s", what, m.inputOf(packed, k))) {
				w, _, _ := m.ev.intType(resT)
				r.OK(c, pos, "%s(%s) = %s: the %s comes back bit for bit (result type %s is %d bits wide in this build configuration)", name, m.inputOf(packed, k), got.V, what, resT, w)
			}
		}
	}
}

func ptrVal(v c10Val) *c10Val { return &v }

// ---------------------------------------------------------------------------
// switch tables

// caseMeaning classifies the body of a case clause.
type c10CaseMeaning struct {
	typeConst types.Object // `return TypeX` / `t = TypeX`
	resultIdx int          // `namedResult++` -> index of the result, else -1
	assert    string       // obj.(*T) -> "T"
	idReturn  bool         // returns a packed id (first result)
	desc      string
}

func (m *c10Model) caseMeaning(fi *FuncInfo, cc *ast.CaseClause) (c10CaseMeaning, bool) {
	out := c10CaseMeaning{resultIdx: -1}
	resultIndex := func(o types.Object) int {
		rs := fi.Obj.Type().(*types.Signature).Results()
		for i := 0; i < rs.Len(); i++ {
			if types.Object(rs.At(i)) == o {
				return i
			}
		}
		return -1
	}
	isTypeConst := func(e ast.Expr) types.Object {
		if o, ok := objOf(m.info, e).(*types.Const); ok && m.localName(o.Type()) == "Type" {
			return o
		}
		return nil
	}
	if len(cc.Body) == 0 {
		return out, false
	}
	last := cc.Body[len(cc.Body)-1]
	switch s := last.(type) {
	case *ast.ReturnStmt:
		if len(s.Results) >= 1 {
			if o := isTypeConst(s.Results[0]); o != nil && len(s.Results) == 1 && len(cc.Body) == 1 {
				out.typeConst, out.desc = o, "return "+o.Name()
				return out, true
			}
			if m.isPacked(m.info.TypeOf(s.Results[0])) {
				out.idReturn, out.desc = true, c10Src(m.r, s)
				return out, true
			}
		}
	case *ast.AssignStmt:
		if len(cc.Body) == 1 && len(s.Lhs) == 1 && len(s.Rhs) == 1 && s.Tok == token.ASSIGN {
			if o := isTypeConst(s.Rhs[0]); o != nil {
				out.typeConst, out.desc = o, c10Src(m.r, s)
				return out, true
			}
			// x = append(x, obj.(*T)) / x = obj.(*T)
			var ta *ast.TypeAssertExpr
			ast.Inspect(s.Rhs[0], func(n ast.Node) bool {
				if t, ok := n.(*ast.TypeAssertExpr); ok && t.Type != nil {
					ta = t
				}
				return true
			})
			if ta != nil {
				if n := m.localName(m.info.TypeOf(ta.Type)); n != "" {
					out.assert, out.desc = n, c10Src(m.r, ta)
					return out, true
				}
			}
		}
	case *ast.IncDecStmt:
		if len(cc.Body) == 1 && s.Tok == token.INC {
			if i := resultIndex(objOf(m.info, s.X)); i >= 0 {
				out.resultIdx, out.desc = i, c10Src(m.r, s)
				return out, true
			}
		}
	}
	return out, false
}

// checkMaskSwitches: every `switch X & typeMask` maps each kind mask to the Type constant of that kind.
func (m *c10Model) checkMaskSwitches() {
	r := m.r
	tm := m.cobj["typeMask"]
	feature := m.kindsOf("FeatureID")
	n := 0
	for _, fi := range m.funcs {
		ast.Inspect(fi.Decl.Body, func(nd ast.Node) bool {
			sw, ok := nd.(*ast.SwitchStmt)
			if !ok || sw.Tag == nil {
				return true
			}
			be, ok := ast.Unparen(sw.Tag).(*ast.BinaryExpr)
			if !ok || be.Op != token.AND || (objOf(m.info, be.X) != types.Object(tm) && objOf(m.info, be.Y) != types.Object(tm)) {
				return true
			}
			n++
			for _, cs := range sw.Body.List {
				cc := cs.(*ast.CaseClause)
				if cc.List == nil {
					continue
				}
				for _, ce := range cc.List {
					u, isConst := constInt(m.info, ce)
					k := m.kindByMask(uint64(u))
					if !isConst || k == nil {
						r.Bad("switch@"+fi.Name()+" case "+c10Src(r, ce), ce.Pos(), "case value %s of `switch %s` is not one of the seven kind masks", c10Src(r, ce), c10Src(r, sw.Tag))
						continue
					}
					c := "switch@" + fi.Name() + " case " + k.Name
					mean, ok := m.caseMeaning(fi, cc)
					switch {
					case !ok || (mean.typeConst == nil && mean.resultIdx < 0):
						r.Unknown(c, cc.Pos(), "case body is not `return TypeX`, `t = TypeX` or `namedResult++`; cannot read the table entry")
					case mean.typeConst != nil && mean.typeConst == types.Object(k.typeObj):
						r.OK(c, cc.Pos(), "%s -> %s, the Type of the kind whose constructor uses %s", k.MaskConst, k.TypeConst, k.MaskConst)
					case mean.typeConst != nil:
						r.Bad(c, cc.Pos(), "`case %s: %s`: ids built with %s are %s ids (Type constant %s); this table names them %s", k.MaskConst, mean.desc, k.MaskConst, k.Name, k.TypeConst, mean.typeConst.Name())
					case mean.resultIdx < len(feature) && feature[mean.resultIdx] == k:
						r.OK(c, cc.Pos(), "%s increments result #%d, the %s counter", k.MaskConst, mean.resultIdx, k.Name)
					default:
						r.Bad(c, cc.Pos(), "`case %s: %s` increments result #%d; the results are (nodes, ways, relations) and %s is the %s mask", k.MaskConst, mean.desc, mean.resultIdx, k.MaskConst, k.Name)
					}
				}
			}
			return true
		})
	}
	if n == 0 {
		r.Anchor("any `switch id & typeMask`")
	}
	r.Stat("mask_switches", n)
}

// checkTypeSwitches: every switch over a Type value in an id-related function (it returns a packed id, or
// its tag is T.Type() of a packed id) maps each Type constant to the constructor / counter / struct of that kind.
func (m *c10Model) checkTypeSwitches() {
	r := m.r
	feature := m.kindsOf("FeatureID")
	n := 0
	for _, fi := range m.funcs {
		sig := fi.Obj.Type().(*types.Signature)
		returnsID := sig.Results().Len() >= 1 && m.isPacked(sig.Results().At(0).Type())
		ast.Inspect(fi.Decl.Body, func(nd ast.Node) bool {
			sw, ok := nd.(*ast.SwitchStmt)
			if !ok || sw.Tag == nil || m.localName(m.info.TypeOf(sw.Tag)) != "Type" {
				return true
			}
			tagFromID := false
			if call, ok := ast.Unparen(sw.Tag).(*ast.CallExpr); ok {
				if fn := callee(m.info, call); fn != nil && fn.Name() == "Type" {
					if rc := fn.Type().(*types.Signature).Recv(); rc != nil && m.isPacked(rc.Type()) {
						tagFromID = true
					}
				}
			}
			if !returnsID && !tagFromID {
				return true
			}
			n++
			for _, cs := range sw.Body.List {
				cc := cs.(*ast.CaseClause)
				if cc.List == nil {
					continue
				}
				for _, ce := range cc.List {
					k := m.kindByTypeConst(objOf(m.info, ce))
					if k == nil {
						r.Unknown("switch@"+fi.Name()+" case "+c10Src(r, ce), ce.Pos(), "case value is not one of the seven Type constants")
						continue
					}
					c := "switch@" + fi.Name() + " case " + k.Name
					mean, ok := m.caseMeaning(fi, cc)
					switch {
					case !ok || mean.typeConst != nil:
						r.Unknown(c, cc.Pos(), "case body is not `return <id constructor>`, `namedResult++` or an assignment of obj.(*T); cannot read the table entry")
					case mean.idReturn:
						m.checkTypeCaseReturn(fi, cc, k, c)
					case mean.resultIdx >= 0:
						if mean.resultIdx < len(feature) && feature[mean.resultIdx] == k {
							r.OK(c, cc.Pos(), "%s increments result #%d, the %s counter", k.TypeConst, mean.resultIdx, k.Name)
						} else {
							r.Bad(c, cc.Pos(), "`case %s: %s` increments result #%d; the results are (nodes, ways, relations)", k.TypeConst, mean.desc, mean.resultIdx)
						}
					case mean.assert != "":
						if mean.assert == k.Struct {
							r.OK(c, cc.Pos(), "%s -> %s, and (*%s).ObjectID() is a %s id (K2)", k.TypeConst, mean.desc, k.Struct, k.Name)
						} else {
							r.Bad(c, cc.Pos(), "`case %s` asserts %s, but objects whose id decodes to %s are *%s: the assertion panics", k.TypeConst, mean.desc, k.TypeConst, k.Struct)
						}
					}
				}
			}
			return true
		})
	}
	if n == 0 {
		r.Anchor("any switch over Type in an id function")
	}
	r.Stat("type_switches", n)
}

// checkTypeCaseReturn interprets the case body with ref/version inputs and requires the K2 id of kind k.
func (m *c10Model) checkTypeCaseReturn(fi *FuncInfo, cc *ast.CaseClause, k *c10Kind, c string) {
	r := m.r
	sig := fi.Obj.Type().(*types.Signature)
	env := c10Env{}
	hasVer := false
	for i := 0; i < sig.Params().Len(); i++ {
		p := sig.Params().At(i)
		switch {
		case types.Identical(p.Type(), types.Typ[types.Int64]):
			env[p] = m.refInput(p.Type())
		case types.Identical(p.Type(), types.Typ[types.Int]):
			env[p] = m.verInput(p.Type())
			hasVer = true
		}
	}
	if fi.Decl.Recv != nil && len(fi.Decl.Recv.List) == 1 && len(fi.Decl.Recv.List[0].Names) == 1 {
		ro := m.info.Defs[fi.Decl.Recv.List[0].Names[0]]
		rt := sig.Recv().Type()
		if nt := c10Named(m.pk, m.localName(rt)); nt != nil && ro != nil {
			if st, ok := nt.Underlying().(*types.Struct); ok {
				env[ro] = m.receiverStruct(st, k)
			} else if m.localName(rt) == "Type" {
				env[ro] = c10StrVal(m.typeText(k))
			}
		}
	}
	outs, cont := m.ev.execList(cc.Body, c10State{env: env}, 1)
	if len(cont) > 0 {
		r.Unknown(c, cc.Pos(), "case body does not end in a return on every path")
		return
	}
	got, why := c10Single(outs, "case "+k.TypeConst+" of "+fi.Name())
	resPacked := m.localName(sig.Results().At(0).Type())
	withVer := resPacked != "FeatureID" && k.Versioned && hasVer
	want := m.shape(k, withVer)
	if m.verdict(c, cc.Pos(), got, why, want, fmt.Sprintf("`case %s` must build the %s id", k.TypeConst, k.Name)) {
		r.OK(c, cc.Pos(), "%s -> %s, the %s id; the mask switches map %s back to %s", k.TypeConst, got.V, k.Name, k.MaskConst, k.TypeConst)
	}
}

var _ = core.ModulePath
