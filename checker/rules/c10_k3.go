package rules

import (
	"fmt"
	"go/ast"
	"go/types"
	"sort"
	"strconv"
	"strings"

	"osmcheck/core"
)

// inputOf is the K2 id of kind k held in a value of the packed type.
func (m *c10Model) inputOf(packed string, k *c10Kind) c10Vec {
	switch packed {
	case "FeatureID":
		return m.shape(k, false)
	case "ElementID":
		return m.shape(k, true)
	}
	return m.shape(k, k.Versioned)
}

// c10RequiredDecoders are the exported decoders/conversions the property names.
var c10RequiredDecoders = map[string][]string{
	"ObjectID":  {"Type", "Ref", "Version"},
	"ElementID": {"Type", "Ref", "Version", "ObjectID", "FeatureID", "NodeID", "WayID", "RelationID"},
	"FeatureID": {"Type", "Ref", "NodeID", "WayID", "RelationID"},
}

func c10K3(r *core.R) {
	m := c10Load(r)
	if m == nil {
		return
	}
	for _, packed := range []string{"ObjectID", "ElementID", "FeatureID"} {
		for _, n := range c10RequiredDecoders[packed] {
			if m.method(packed, n) == nil {
				r.Anchor(packed + "." + n)
			}
		}
		for _, fi := range m.methodsOf(packed) {
			m.checkDecoder(packed, fi)
		}
	}
	m.checkLookups()
	m.checkCounts()
	m.checkDispatch()
	r.Stat("inlined_calls", m.ev.Inlined)
	r.Stat("expressions_folded", m.ev.Exprs)
}

// checkDecoder classifies one method of a packed type by its signature and composes it with K2.
func (m *c10Model) checkDecoder(packed string, fi *FuncInfo) {
	r := m.r
	sig := fi.Obj.Type().(*types.Signature)
	name := fi.Name()
	pos := fi.Decl.Pos()
	recvT := sig.Recv().Type()
	if sig.Results().Len() != 1 || !fi.Obj.Exported() {
		return // unexported helper methods are covered through the exported methods that call them (inlined)
	}
	resT := sig.Results().At(0).Type()
	if sig.Params().Len() != 0 {
		return // versioned constructors: K2
	}
	in := func(k *c10Kind) c10Val { return c10IntVal(m.vecOf(recvT, m.inputOf(packed, k))) }
	switch {
	case m.localName(resT) == "Type": // Type()
		for _, k := range m.kindsOf(packed) {
			c := "decode@" + name + " kind=" + k.Name
			got, why := m.single(fi, in(k), nil)
			switch {
			case why != "":
				if strings.Contains(why, "panics") {
					r.Bad(c, pos, "%s on the id %s of a %s: %s — the kind bits %s are not recognised", name, m.inputOf(packed, k), k.Name, why, m.maskName(k))
				} else {
					r.Unknown(c, pos, "%s", why)
				}
			case got.K != c10VStr:
				r.Unknown(c, pos, "%s does not evaluate to a Type constant: %s", name, got)
			case got.S != m.typeText(k):
				r.Bad(c, pos, "%s returns %q for the id %s built by the %s constructor (must be %s = %q): kind is not decoded back", name, got.S, m.inputOf(packed, k), k.Name, k.TypeConst, m.typeText(k))
			default:
				r.OK(c, pos, "%s(%s) = %s for every ref, version", name, m.inputOf(packed, k), k.TypeConst)
			}
		}
	case m.ev.isString(resT):
		// String(): K5
	case m.isPacked(resT): // ElementID.ObjectID, ElementID.FeatureID
		to := m.localName(resT)
		for _, k := range m.kindsOf(packed) {
			c := "convert@" + name + " kind=" + k.Name
			var want c10Vec
			switch to {
			case "FeatureID":
				if !k.Feature {
					continue
				}
				want = m.shape(k, false)
			case "ElementID":
				if !k.Feature {
					continue
				}
				want = m.inputOf(packed, k)
			default:
				want = m.inputOf(packed, k)
			}
			got, why := m.single(fi, in(k), nil)
			if m.verdict(c, pos, got, why, want, fmt.Sprintf("%s -> %s of a %s id", packed, to, k.Name)) {
				r.OK(c, pos, "%s -> %s: kind and ref lanes unchanged%s", m.inputOf(packed, k), got.V, map[bool]string{true: ", version lanes cleared", false: ""}[to == "FeatureID" && packed != "FeatureID"])
			}
		}
	case m.kindByIDType(resT) != nil: // NodeID(), WayID(), RelationID()
		own := m.kindByIDType(resT)
		c := "convert@" + name
		got, why := m.single(fi, in(own), nil)
		want := m.vecOf(resT, c10RefOf(m.inputOf(packed, own)))
		if m.verdict(c, pos, got, why, want, fmt.Sprintf("%s of a %s id", fi.Obj.Name(), own.Name)) {
			r.OK(c, pos, "guard is provably false for every %s id, result %s = ref[0..39] (the other kinds: K7 kind-guard@)", own.Name, got.V)
		}
	default:
		if _, _, isInt := m.ev.intType(resT); !isInt {
			return
		}
		var proj func(c10Vec) c10Vec
		what := ""
		switch fi.Obj.Name() {
		case "Ref":
			proj, what = c10RefOf, "reference"
		case "Version":
			proj, what = c10VerOf, "version"
		default:
			r.Unknown("decode@"+name, pos, "integer-valued method of %s that is neither Ref nor Version: its role in the id scheme is not known", packed)
			return
		}
		for _, k := range m.kindsOf(packed) {
			c := "decode@" + name + " kind=" + k.Name
			got, why := m.single(fi, in(k), nil)
			want := m.vecOf(resT, proj(m.inputOf(packed, k)))
			if m.verdict(c, pos, got, why, want, fmt.Sprintf("%s of the id %s", what, m.inputOf(packed, k))) {
				w, _, _ := m.ev.intType(resT)
				r.OK(c, pos, "%s(%s) = %s: the %s comes back bit for bit (result type %s is %d bits wide in this build configuration)", name, m.inputOf(packed, k), got.V, what, resT, w)
			}
		}
	}
}

func ptrVal(v c10Val) *c10Val { return &v }

// ---------------------------------------------------------------------------
// kind tables, decided by evaluating the whole function for every kind (never by reading a switch)

// roleArgs binds the parameters of an id-related function by type: int64 is the reference, int the version.
func (m *c10Model) roleArgs(sig *types.Signature) (args []c10Val, hasVer bool, err string) {
	for i := 0; i < sig.Params().Len(); i++ {
		p := sig.Params().At(i)
		switch {
		case types.Identical(p.Type(), types.Typ[types.Int64]):
			args = append(args, m.refInput(p.Type()))
		case types.Identical(p.Type(), types.Typ[types.Int]):
			args = append(args, m.verInput(p.Type()))
			hasVer = true
		default:
			return nil, false, "parameter " + p.Name() + " of type " + p.Type().String() + " has no role in the id scheme"
		}
	}
	return args, hasVer, ""
}

// lookups are the methods of Type that return (packed id, error): the kind lookup of the parsers.
func (m *c10Model) lookups() []*FuncInfo {
	var out []*FuncInfo
	for _, fi := range m.methodsOf("Type") {
		sig := fi.Obj.Type().(*types.Signature)
		if sig.Results().Len() == 2 && m.isPacked(sig.Results().At(0).Type()) && c10IsError(sig.Results().At(1).Type()) {
			out = append(out, fi)
		}
	}
	return out
}

// evalLookup evaluates a kind lookup for one kind text.
func (m *c10Model) evalLookup(fi *FuncInfo, text string) (id c10Val, err c10Val, why string) {
	sig := fi.Obj.Type().(*types.Signature)
	args, _, e := m.roleArgs(sig)
	if e != "" {
		return id, err, e
	}
	outs := m.ev.call(fi.Decl, ptrVal(c10StrVal(text)), args, 1)
	for _, o := range outs {
		if o.Unsupported != "" {
			return id, err, fi.Name() + ": outside the interpreted statement forms: " + o.Unsupported
		}
	}
	if len(outs) != 1 {
		return id, err, fmt.Sprintf("%s has %d outcomes depending on undecided conditions", fi.Name(), len(outs))
	}
	if outs[0].Panic {
		return id, err, fi.Name() + " panics (" + outs[0].PanicWhy + ")"
	}
	if len(outs[0].Res) != 2 {
		return id, err, fi.Name() + " does not return (id, error)"
	}
	return outs[0].Res[0], outs[0].Res[1], ""
}

// checkLookups: Type.FeatureID / Type.objectID map the text of every kind the packed type can hold to the K2 id
// of that kind with a nil error, and every other text (the other kinds, any unknown text) to a non-nil error.
func (m *c10Model) checkLookups() {
	r := m.r
	ls := m.lookups()
	if len(ls) == 0 {
		r.Anchor("a method of Type returning (packed id, error)")
		return
	}
	for _, fi := range ls {
		sig := fi.Obj.Type().(*types.Signature)
		packed := m.localName(sig.Results().At(0).Type())
		_, hasVer, _ := m.roleArgs(sig)
		member := map[*c10Kind]bool{}
		for _, k := range m.kindsOf(packed) {
			member[k] = true
		}
		m.ev.resetScenario()
		type probe struct {
			c, text string
			k       *c10Kind
		}
		var probes []probe
		for _, k := range m.kinds {
			probes = append(probes, probe{"lookup@" + fi.Name() + " kind=" + k.Name, m.typeText(k), k})
		}
		probes = append(probes, probe{"lookup@" + fi.Name() + " unknown kind", c10Generic + "kind", nil})
		done := map[string]bool{}
		for i := 0; i < len(probes); i++ {
			p := probes[i]
			done[p.text] = true
			id, err, why := m.evalLookup(fi, p.text)
			pos := fi.Decl.Pos()
			shown := c10StrVal(p.text).String()
			switch {
			case why != "":
				r.Unknown(p.c, pos, "%s", why)
			case p.k != nil && member[p.k]:
				withVer := packed != "FeatureID" && p.k.Versioned && hasVer
				if err.K != c10VNil {
					r.Bad(p.c, pos, "%s(%s) returns the error %s: the kind %s is not recognised although %s holds %s ids", fi.Name(), shown, err, p.k.Name, packed, p.k.Name)
				} else if m.verdict(p.c, pos, id, "", m.shape(p.k, withVer), fmt.Sprintf("%s of the kind text %s", fi.Name(), shown)) {
					r.OK(p.c, pos, "%s(%s) = (%s, nil), the %s id; Type() maps it back to %s", fi.Name(), shown, id.V, p.k.Name, p.k.TypeConst)
				}
			case c10NonNilError(err):
				r.OK(p.c, pos, "%s(%s) returns a non-nil error: %s holds no such kind", fi.Name(), shown, packed)
			case err.K == c10VNil:
				r.Bad(p.c, pos, "%s(%s) returns (%s, nil): text naming a kind that %s cannot hold yields an id instead of an error", fi.Name(), shown, id, packed)
			default:
				r.Unknown(p.c, pos, "%s(%s): the error result %s is neither nil nor provably non-nil", fi.Name(), shown, err)
			}
			// every string constant the kind text was compared with is a kind text of its own
			if i == len(probes)-1 {
				var extra []string
				for lit := range m.ev.cmpStrs {
					if !done[lit] {
						extra = append(extra, lit)
					}
				}
				sort.Strings(extra)
				for _, lit := range extra {
					done[lit] = true
					probes = append(probes, probe{"lookup@" + fi.Name() + " text " + strconv.Quote(lit), lit, nil})
				}
			}
		}
	}
	m.ev.resetScenario()
	r.Stat("kind_lookups", len(ls))
}

// checkCounts: the Counts methods of the id lists count an id of each kind in the result of that kind.
func (m *c10Model) checkCounts() {
	r := m.r
	feature := m.kindsOf("FeatureID")
	n := 0
	for _, fi := range m.funcs {
		sig := fi.Obj.Type().(*types.Signature)
		if sig.Recv() == nil || !fi.Obj.Exported() || sig.Params().Len() != 0 || sig.Results().Len() != len(feature) {
			continue
		}
		sl, ok := sig.Recv().Type().Underlying().(*types.Slice)
		if !ok || !m.isPacked(sl.Elem()) {
			continue
		}
		allInt := true
		for i := 0; i < sig.Results().Len(); i++ {
			if !types.Identical(sig.Results().At(i).Type(), types.Typ[types.Int]) {
				allInt = false
			}
		}
		if !allInt {
			continue
		}
		n++
		packed := m.localName(sl.Elem())
		idOf := func(k *c10Kind) c10Val { return c10IntVal(m.vecOf(sl.Elem(), m.inputOf(packed, k))) }
		run := func(c string, elems []c10Val, want []int64, what string) {
			outs := m.ev.call(fi.Decl, ptrVal(c10SliceVal(elems)), nil, 1)
			res, why := c10Single(outs, fi.Name())
			_ = res
			if why != "" {
				r.Unknown(c, fi.Decl.Pos(), "%s", why)
				return
			}
			var got []string
			okAll := len(outs[0].Res) == len(want)
			for i, v := range outs[0].Res {
				got = append(got, v.String())
				if x, isC := v.V.signedConst(); v.K != c10VInt || !isC || i >= len(want) || x != want[i] {
					okAll = false
				}
			}
			if okAll {
				r.OK(c, fi.Decl.Pos(), "%s of %s = %v for every ref, version", fi.Name(), what, want)
			} else {
				r.Bad(c, fi.Decl.Pos(), "%s of %s = (%s), must be %v (nodes, ways, relations): ids are counted under the wrong kind", fi.Name(), what, strings.Join(got, ", "), want)
			}
		}
		var mixed []c10Val
		wantMixed := make([]int64, len(feature))
		for i, k := range feature {
			want := make([]int64, len(feature))
			want[i] = 1
			run("counts@"+fi.Name()+" kind="+k.Name, []c10Val{idOf(k)}, want, "one "+k.Name+" id")
			for j := 0; j <= i; j++ {
				mixed = append(mixed, idOf(k))
			}
			wantMixed[i] = int64(i + 1)
		}
		run("counts@"+fi.Name()+" mixed", mixed, wantMixed, "1 node, 2 way and 3 relation ids")
	}
	if n == 0 {
		r.Anchor("a Counts method on a list of packed ids")
	}
	r.Stat("count_methods", n)
}

// checkDispatch: exported functions that take an Object and branch on the Type() decoded from its id
// (today (*OSM).Append) must not panic for an object of any kind: the decoded kind selects the struct.
func (m *c10Model) checkDispatch() {
	r := m.r
	n := 0
	for _, fi := range m.funcs {
		sig := fi.Obj.Type().(*types.Signature)
		if !fi.Obj.Exported() || sig.Params().Len() != 1 {
			continue
		}
		iface, ok := sig.Params().At(0).Type().Underlying().(*types.Interface)
		if !ok || m.localName(sig.Params().At(0).Type()) == "" {
			continue
		}
		usesType := false
		inspectNoLit(fi.Decl.Body, func(nd ast.Node) bool {
			if call, ok := nd.(*ast.CallExpr); ok {
				if fn := callee(m.info, call); fn != nil && fn.Name() == "Type" {
					if rc := fn.Type().(*types.Signature).Recv(); rc != nil && m.isPacked(rc.Type()) {
						usesType = true
					}
				}
			}
			return true
		})
		if !usesType {
			continue
		}
		n++
		for _, k := range m.kinds {
			nt := c10Named(m.pk, k.Struct)
			st, _ := nt.Underlying().(*types.Struct)
			dyn := types.NewPointer(nt)
			if st == nil || !types.Implements(dyn, iface) {
				continue
			}
			c := "dispatch@" + fi.Name() + " kind=" + k.Name
			arg := c10Val{K: c10VDyn, Dyn: dyn, Args: []c10Val{m.receiverStruct(st, k)}}
			outs := m.ev.call(fi.Decl, ptrVal(c10OpaqueVal("receiver")), []c10Val{arg}, 1)
			bad, unk := "", ""
			for _, o := range outs {
				switch {
				case o.Unsupported != "":
					unk = o.Unsupported
				case o.Panic:
					bad = o.PanicWhy
				}
			}
			switch {
			case unk != "":
				r.Unknown(c, fi.Decl.Pos(), "%s with a *%s: outside the interpreted statement forms: %s", fi.Name(), k.Struct, unk)
			case bad != "":
				r.Bad(c, fi.Decl.Pos(), "%s with a *%s (whose id decodes to %s) panics: %s", fi.Name(), k.Struct, k.TypeConst, bad)
			default:
				r.OK(c, fi.Decl.Pos(), "%s with a *%s: the kind decoded from its id selects the %s branch, no panic", fi.Name(), k.Struct, k.Name)
			}
		}
	}
	r.Stat("kind_dispatchers", n)
}

var _ = core.ModulePath
