package rules

import "osmcheck/core"

// More behaviour-preserving variants for C06 (see c06_benign.go).
var c06Benign2 = []core.Mutant{
	// Err: early returns nested the other way round
	{Name: "err-nested", File: "osmpbf/scanner.go",
		Find:    "\tif s.err == io.EOF {\n\t\treturn nil\n\t}\n\n\tif s.err != nil {\n\t\treturn s.err\n\t}\n",
		Replace: "\tif s.err != nil {\n\t\tif s.err == io.EOF {\n\t\t\treturn nil\n\t\t}\n\n\t\treturn s.err\n\t}\n"},
	// index guard inverted: success path inside the if
	{Name: "stringat-guard-inverted", File: "osmpbf/decode_data.go",
		Find:    "\tif i < 0 || i >= int64(len(st)) {\n\t\treturn \"\", errStringTableIndex\n\t}\n\treturn st[i], nil\n",
		Replace: "\tif 0 <= i && i < int64(len(st)) {\n\t\treturn st[i], nil\n\t}\n\treturn \"\", errStringTableIndex\n"},
	// if-init form of an error test
	{Name: "scan-block-if-init", File: "osmpbf/decode_data.go",
		Find:    "\terr = dec.scanPrimitiveBlock(dec.data)\n\tif err != nil {\n\t\treturn nil, err\n\t}\n",
		Replace: "\tif err = dec.scanPrimitiveBlock(dec.data); err != nil {\n\t\treturn nil, err\n\t}\n"},
	// comparison operands swapped in a column-length guard
	{Name: "member-guard-flipped", File: "osmpbf/decode_data.go",
		Find:    "\t\tif index >= int64(len(members)) {\n\t\t\treturn nil, errMemberColumns\n\t\t}\n",
		Replace: "\t\tif n := int64(len(members)); n <= index {\n\t\t\treturn nil, errMemberColumns\n\t\t}\n"},
	// the look at msg.Err() after the parameter loop as a single local
	{Name: "msg-err-local", File: "osmpbf/decode_data.go",
		Find:    "\tif msg.Err() != nil {\n\t\treturn msg.Err()\n\t}\n\n\t// we need the offsets",
		Replace: "\tif err := msg.Err(); err != nil {\n\t\treturn err\n\t}\n\n\t// we need the offsets"},
	// extract function: the body of the serializer goroutine becomes a method started with `go dec.method(n)`
	{Name: "serializer-as-method", File: c06DG,
		Find:    "\tgo func() {\n\t\tdefer dec.wg.Done()\n\t\tdefer func() {\n\t\t\tclose(dec.serializer)\n\t\t\tdec.cancel()\n\t\t}()\n\n\t\tfor i := 0; ; i = (i + 1) % n {\n\t\t\toutput := dec.outputs[i]\n\n\t\t\tvar p oPair\n\t\t\tselect {\n\t\t\tcase p = <-output:\n\t\t\tcase <-dec.ctx.Done():\n\t\t\t\treturn\n\t\t\t}\n\n\t\t\tselect {\n\t\t\tcase dec.serializer <- p:\n\t\t\tcase <-dec.ctx.Done():\n\t\t\t\treturn\n\t\t\t}\n\n\t\t\tif p.Err != nil {\n\t\t\t\treturn\n\t\t\t}\n\t\t}\n\t}()\n\n\treturn nil\n}\n",
		Replace: "\tgo dec.serialize(n)\n\n\treturn nil\n}\n\nfunc (dec *decoder) serialize(n int) {\n\tdefer dec.wg.Done()\n\tdefer func() {\n\t\tclose(dec.serializer)\n\t\tdec.cancel()\n\t}()\n\n\tfor i := 0; ; i = (i + 1) % n {\n\t\toutput := dec.outputs[i]\n\n\t\tvar p oPair\n\t\tselect {\n\t\tcase p = <-output:\n\t\tcase <-dec.ctx.Done():\n\t\t\treturn\n\t\t}\n\n\t\tselect {\n\t\tcase dec.serializer <- p:\n\t\tcase <-dec.ctx.Done():\n\t\t\treturn\n\t\t}\n\n\t\tif p.Err != nil {\n\t\t\treturn\n\t\t}\n\t}\n}\n"},
	// the type test of the reader with the operands swapped and the error built first
	{Name: "block-type-test-reordered", File: c06DG,
		Find:    "\t\t\tif err == nil && blobHeader.GetType() != osmDataType {\n\t\t\t\terr = fmt.Errorf(\"unexpected fileblock of type %s\", blobHeader.GetType())\n\t\t\t}\n",
		Replace: "\t\t\tif err == nil {\n\t\t\t\tif blockType := blobHeader.GetType(); osmDataType != blockType {\n\t\t\t\t\terr = fmt.Errorf(\"unexpected fileblock of type %s\", blockType)\n\t\t\t\t}\n\t\t\t}\n"},
}
