package rules

// c16_stmt.go — statements of the C16 abstract evaluator.

import (
	"go/ast"
	"go/token"
	"sort"
)

func (m *c16M) indexRef(f *c16Frame, x *ast.IndexExpr) c16Ref {
	base := m.eval(f, x.X)
	if p, ok := base.(*c16Ptr); ok {
		base = p.load()
	}
	key := m.eval(f, x.Index)
	switch b := base.(type) {
	case *c16Map:
		k, ok := c16Key(key)
		if !ok {
			m.note("store under an opaque map key at %s", m.pos(x))
			return c16Ref{get: func() c16Val { return &c16Opq{typ: f.info.TypeOf(x), why: "map[opaque]"} }, set: func(c16Val) {}}
		}
		zero := f.info.TypeOf(x)
		return c16Ref{
			get: func() c16Val {
				if v, ok := b.m[k]; ok {
					return v
				}
				return c16Zero(zero)
			},
			set: func(v c16Val) { b.m[k], b.k[k] = v, key },
		}
	case c16Nil:
		m.gopanic("assignment to entry in nil map at %s", m.pos(x))
	case *c16Opq:
		return c16Ref{get: func() c16Val { return &c16Opq{typ: f.info.TypeOf(x), why: b.why + "[i]"} }, set: func(c16Val) {}}
	}
	i, ok := m.toInt(key, x)
	if !ok {
		m.abort("store at an opaque index at %s", m.pos(x))
	}
	switch b := base.(type) {
	case c16Slice:
		if i < 0 || i >= b.n {
			m.gopanic("index %d out of range [0,%d) at %s", i, b.n, m.pos(x))
		}
		return c16Ref{get: func() c16Val { return b.at(i) }, set: func(v c16Val) { b.set(i, v) }}
	case *c16Arr:
		if i < 0 || i >= len(b.e) {
			m.gopanic("index %d out of range at %s", i, m.pos(x))
		}
		return c16Ref{get: func() c16Val { return b.e[i] }, set: func(v c16Val) { b.e[i] = v }}
	}
	m.abort("index assignment on %T at %s", base, m.pos(x))
	return c16Ref{}
}

// control-flow signals
type c16Ctl struct {
	kind  token.Token // BREAK, CONTINUE, RETURN; ILLEGAL = none
	label string
	vals  []c16Val
}

var c16None = c16Ctl{kind: token.ILLEGAL}

func (m *c16M) define(f *c16Frame, id *ast.Ident, v c16Val) {
	if id.Name == "_" {
		return
	}
	if obj := f.info.Defs[id]; obj != nil {
		f.vars[obj] = &c16Cell{v: c16Copy(v)}
		return
	}
	m.lvalue(f, id).set(c16Copy(v)) // redeclared in a mixed :=
}

func (m *c16M) block(f *c16Frame, list []ast.Stmt) c16Ctl {
	for _, s := range list {
		if c := m.stmt(f, s, ""); c.kind != token.ILLEGAL {
			return c
		}
	}
	return c16None
}

func (m *c16M) stmt(f *c16Frame, s ast.Stmt, label string) c16Ctl {
	m.step()
	switch x := s.(type) {
	case nil, *ast.EmptyStmt:
	case *ast.ExprStmt:
		if call, ok := ast.Unparen(x.X).(*ast.CallExpr); ok {
			m.evalCall(f, call)
		} else {
			m.eval(f, x.X)
		}
	case *ast.BlockStmt:
		return m.block(f, x.List)
	case *ast.LabeledStmt:
		return m.stmt(f, x.Stmt, x.Label.Name)
	case *ast.AssignStmt:
		m.assign(f, x)
	case *ast.IncDecStmt:
		ref := m.lvalue(f, x.X)
		op := token.ADD
		if x.Tok == token.DEC {
			op = token.SUB
		}
		ref.set(m.binop(op, ref.get(), int64(1), f.info.TypeOf(x.X), x))
	case *ast.DeclStmt:
		m.decl(f, x)
	case *ast.IfStmt:
		if x.Init != nil {
			if c := m.stmt(f, x.Init, ""); c.kind != token.ILLEGAL {
				return c
			}
		}
		if m.cond(f, x.Cond) {
			return m.block(f, x.Body.List)
		} else if x.Else != nil {
			return m.stmt(f, x.Else, "")
		}
	case *ast.ForStmt:
		return m.forStmt(f, x, label)
	case *ast.RangeStmt:
		return m.rangeStmt(f, x, label)
	case *ast.SwitchStmt:
		return m.switchStmt(f, x, label)
	case *ast.TypeSwitchStmt:
		return m.typeSwitch(f, x, label)
	case *ast.ReturnStmt:
		return m.returnStmt(f, x)
	case *ast.BranchStmt:
		lbl := ""
		if x.Label != nil {
			lbl = x.Label.Name
		}
		switch x.Tok {
		case token.BREAK, token.CONTINUE:
			return c16Ctl{kind: x.Tok, label: lbl}
		}
		m.abort("unsupported branch %s at %s", x.Tok, m.pos(x))
	case *ast.DeferStmt:
		call := x.Call
		fn, recv, args := m.prepareCall(f, call)
		f.defers = append(f.defers, func() { m.apply(f, call, fn, recv, args) })
	default:
		m.abort("unsupported statement %T at %s", s, m.pos(s))
	}
	return c16None
}

// c16LoopCtl interprets the signal a loop body returned: stop=true leaves the loop, out is propagated.
func c16LoopCtl(c c16Ctl, label string) (stop bool, out c16Ctl) {
	switch c.kind {
	case token.ILLEGAL:
		return false, c16None
	case token.BREAK:
		if c.label == "" || c.label == label {
			return true, c16None
		}
	case token.CONTINUE:
		if c.label == "" || c.label == label {
			return false, c16None
		}
	}
	return true, c
}

func (m *c16M) forStmt(f *c16Frame, x *ast.ForStmt, label string) c16Ctl {
	if x.Init != nil {
		m.stmt(f, x.Init, "")
	}
	for {
		m.step()
		if x.Cond != nil && !m.cond(f, x.Cond) {
			return c16None
		}
		if stop, out := c16LoopCtl(m.block(f, x.Body.List), label); stop {
			return out
		}
		if x.Post != nil {
			m.stmt(f, x.Post, "")
		}
	}
}

func (m *c16M) rangeStmt(f *c16Frame, x *ast.RangeStmt, label string) c16Ctl {
	coll := m.eval(f, x.X)
	if p, ok := coll.(*c16Ptr); ok {
		coll = p.load()
	}
	bind := func(e ast.Expr, v c16Val) {
		if e == nil {
			return
		}
		if id, ok := e.(*ast.Ident); ok && x.Tok == token.DEFINE {
			m.define(f, id, v)
			return
		}
		m.lvalue(f, e).set(c16Copy(v))
	}
	iter := func(k, v c16Val) (bool, c16Ctl) {
		m.step()
		bind(x.Key, k)
		if x.Value != nil {
			bind(x.Value, v)
		}
		return c16LoopCtl(m.block(f, x.Body.List), label)
	}
	switch c := coll.(type) {
	case c16Slice:
		for i := 0; i < c.n; i++ {
			if stop, out := iter(int64(i), c.at(i)); stop {
				return out
			}
		}
	case *c16Arr:
		for i := range c.e {
			if stop, out := iter(int64(i), c.e[i]); stop {
				return out
			}
		}
	case *c16Map:
		keys := make([]string, 0, len(c.m))
		for k := range c.m {
			keys = append(keys, k)
		}
		sort.Strings(keys)
		for _, k := range keys {
			if stop, out := iter(c.k[k], c.m[k]); stop {
				return out
			}
		}
	case c16Nil:
	case int64:
		for i := int64(0); i < c; i++ {
			if stop, out := iter(i, nil); stop {
				return out
			}
		}
	case string:
		for i, r := range c {
			if stop, out := iter(int64(i), int64(r)); stop {
				return out
			}
		}
	default:
		m.abort("range over %T at %s", coll, m.pos(x))
	}
	return c16None
}

func (m *c16M) switchStmt(f *c16Frame, x *ast.SwitchStmt, label string) c16Ctl {
	if x.Init != nil {
		m.stmt(f, x.Init, "")
	}
	var tag c16Val
	if x.Tag != nil {
		tag = m.eval(f, x.Tag)
	}
	var chosen, def *ast.CaseClause
	for _, cs := range x.Body.List {
		cc := cs.(*ast.CaseClause)
		if cc.List == nil {
			def = cc
			continue
		}
		for _, e := range cc.List {
			hit := false
			if x.Tag == nil {
				hit = m.cond(f, e)
			} else {
				eq, known := c16Equal(tag, m.eval(f, e))
				if !known {
					eq = m.choose("case "+src(m.p.Fset, e)+" @"+m.pos(e), 2) == 1
				}
				hit = eq
			}
			if hit {
				chosen = cc
				break
			}
		}
		if chosen != nil {
			break
		}
	}
	if chosen == nil {
		chosen = def
	}
	if chosen == nil {
		return c16None
	}
	for _, s := range chosen.Body {
		if br, ok := s.(*ast.BranchStmt); ok && br.Tok == token.FALLTHROUGH {
			m.abort("fallthrough at %s", m.pos(s))
		}
	}
	c := m.block(f, chosen.Body)
	if c.kind == token.BREAK && (c.label == "" || c.label == label) {
		return c16None
	}
	return c
}

func (m *c16M) decl(f *c16Frame, x *ast.DeclStmt) {
	gd, ok := x.Decl.(*ast.GenDecl)
	if !ok || gd.Tok != token.VAR {
		return // const and type declarations need no storage
	}
	for _, sp := range gd.Specs {
		vs := sp.(*ast.ValueSpec)
		var vals []c16Val
		if len(vs.Values) == 1 && len(vs.Names) > 1 {
			vals = m.evalMulti(f, vs.Values[0], len(vs.Names))
		} else {
			for _, e := range vs.Values {
				vals = append(vals, m.eval(f, e))
			}
		}
		for i, id := range vs.Names {
			if id.Name == "_" {
				continue
			}
			obj := f.info.Defs[id]
			var v c16Val
			if i < len(vals) {
				v = c16Copy(vals[i])
				if _, isNil := v.(c16Nil); isNil {
					v = c16Zero(obj.Type())
				}
			} else {
				v = c16Zero(obj.Type())
			}
			f.vars[obj] = &c16Cell{v: v}
		}
	}
}
