package rules

import (
	"go/ast"
	"go/constant"
	"go/token"
	"go/types"
)

// A small symbolic interpreter for straight-line/branching code over point lists (used by C17.G7).
//
// Values: concrete integers and booleans, point tokens (only identity is known), lists of tokens, and "unknown".
// Every opaque expression of type orb.LineString (a parameter, the result of a call the interpreter does not
// enter) denotes THE input line of the run. Branches on unknown conditions fork; `&&`/`||` short-circuit; indexing
// out of range ends the path as a panic. Loops are not entered (variables assigned in them become unknown).
// Calls of package functions returning one value are interpreted (three levels deep); other calls are opaque but
// their arguments are still evaluated. Each composite literal orb.Polygon{R} that is evaluated reports R to the
// observer.

const (
	c17Unk = iota
	c17Int
	c17Bool
	c17Tok
	c17List
)

type c17SV struct {
	kind int
	i    int64
	b    bool
	tok  string
	list []string
}

type c17Env map[types.Object]c17SV

func (e c17Env) clone() c17Env {
	n := make(c17Env, len(e))
	for k, v := range e {
		n[k] = v
	}
	return n
}

type c17Sym struct {
	a       *c17Pkg
	input   []string
	observe func(lit *ast.CompositeLit, ring c17SV)
	panics  []ast.Node // nodes where some path indexes out of range
	gaveUp  []ast.Node // statements the interpreter cannot follow (reached on some path)
	paths   int
	depth   int
}

const c17LineStringPath = "github.com/paulmach/orb.LineString"
const c17PolygonPath = "github.com/paulmach/orb.Polygon"

type c17Panic struct{ at ast.Node }

func (s *c17Sym) opaque(t types.Type) c17SV {
	if t != nil && namedPath(t) == c17LineStringPath {
		if _, isPtr := t.(*types.Pointer); !isPtr {
			return c17SV{kind: c17List, list: s.input}
		}
	}
	return c17SV{}
}

// eval evaluates e in env; it panics with c17Panic on an index out of range.
func (s *c17Sym) eval(e ast.Expr, env c17Env) c17SV {
	info := s.a.info
	if tv, ok := info.Types[e]; ok && tv.Value != nil {
		switch tv.Value.Kind() {
		case constant.Int:
			if v, ok := constant.Int64Val(tv.Value); ok {
				return c17SV{kind: c17Int, i: v}
			}
		case constant.Bool:
			return c17SV{kind: c17Bool, b: constant.BoolVal(tv.Value)}
		}
		return c17SV{}
	}
	switch x := e.(type) {
	case *ast.ParenExpr:
		return s.eval(x.X, env)
	case *ast.Ident:
		if o := info.Uses[x]; o != nil {
			if v, ok := env[o]; ok {
				return v
			}
			if _, isNil := o.(*types.Nil); isNil {
				return c17SV{kind: c17List}
			}
		}
		return c17SV{}
	case *ast.UnaryExpr:
		v := s.eval(x.X, env)
		switch {
		case x.Op == token.NOT && v.kind == c17Bool:
			return c17SV{kind: c17Bool, b: !v.b}
		case x.Op == token.SUB && v.kind == c17Int:
			return c17SV{kind: c17Int, i: -v.i}
		}
		return c17SV{}
	case *ast.BinaryExpr:
		return s.binary(x, env)
	case *ast.IndexExpr:
		l, i := s.eval(x.X, env), s.eval(x.Index, env)
		if l.kind == c17List && i.kind == c17Int {
			if i.i < 0 || i.i >= int64(len(l.list)) {
				panic(c17Panic{x})
			}
			return c17SV{kind: c17Tok, tok: l.list[i.i]}
		}
		return c17SV{}
	case *ast.SliceExpr:
		l := s.eval(x.X, env)
		lo, hi := c17SV{kind: c17Int}, c17SV{kind: c17Int, i: int64(len(l.list))}
		if x.Low != nil {
			lo = s.eval(x.Low, env)
		}
		if x.High != nil {
			hi = s.eval(x.High, env)
		}
		if l.kind == c17List && lo.kind == c17Int && hi.kind == c17Int && !x.Slice3 {
			if lo.i < 0 || hi.i < lo.i || hi.i > int64(len(l.list)) {
				panic(c17Panic{x})
			}
			return c17SV{kind: c17List, list: append([]string{}, l.list[lo.i:hi.i]...)}
		}
		return c17SV{}
	case *ast.CompositeLit:
		for _, el := range x.Elts {
			if kv, ok := el.(*ast.KeyValueExpr); ok {
				el = kv.Value
			}
			v := s.eval(el, env)
			if namedPath(info.TypeOf(x)) == c17PolygonPath && len(x.Elts) == 1 && s.observe != nil {
				s.observe(x, v)
			}
		}
		return c17SV{}
	case *ast.CallExpr:
		return s.call(x, env)
	case *ast.SelectorExpr, *ast.StarExpr, *ast.TypeAssertExpr:
		return c17SV{}
	}
	return c17SV{}
}

func (s *c17Sym) binary(x *ast.BinaryExpr, env c17Env) c17SV {
	l := s.eval(x.X, env)
	switch x.Op {
	case token.LAND:
		if l.kind == c17Bool && !l.b {
			return l
		}
		r := s.eval(x.Y, env)
		if l.kind == c17Bool && r.kind == c17Bool {
			return c17SV{kind: c17Bool, b: l.b && r.b}
		}
		if r.kind == c17Bool && !r.b {
			return r
		}
		return c17SV{}
	case token.LOR:
		if l.kind == c17Bool && l.b {
			return l
		}
		r := s.eval(x.Y, env)
		if l.kind == c17Bool && r.kind == c17Bool {
			return c17SV{kind: c17Bool, b: l.b || r.b}
		}
		if r.kind == c17Bool && r.b {
			return r
		}
		return c17SV{}
	}
	r := s.eval(x.Y, env)
	switch {
	case l.kind == c17Int && r.kind == c17Int:
		switch x.Op {
		case token.ADD:
			return c17SV{kind: c17Int, i: l.i + r.i}
		case token.SUB:
			return c17SV{kind: c17Int, i: l.i - r.i}
		case token.LSS:
			return c17SV{kind: c17Bool, b: l.i < r.i}
		case token.LEQ:
			return c17SV{kind: c17Bool, b: l.i <= r.i}
		case token.GTR:
			return c17SV{kind: c17Bool, b: l.i > r.i}
		case token.GEQ:
			return c17SV{kind: c17Bool, b: l.i >= r.i}
		case token.EQL:
			return c17SV{kind: c17Bool, b: l.i == r.i}
		case token.NEQ:
			return c17SV{kind: c17Bool, b: l.i != r.i}
		}
	case l.kind == c17Tok && r.kind == c17Tok:
		switch x.Op {
		case token.EQL:
			return c17SV{kind: c17Bool, b: l.tok == r.tok}
		case token.NEQ:
			return c17SV{kind: c17Bool, b: l.tok != r.tok}
		}
	case l.kind == c17Bool && r.kind == c17Bool:
		switch x.Op {
		case token.EQL:
			return c17SV{kind: c17Bool, b: l.b == r.b}
		case token.NEQ:
			return c17SV{kind: c17Bool, b: l.b != r.b}
		}
	}
	return c17SV{}
}

func (s *c17Sym) call(x *ast.CallExpr, env c17Env) c17SV {
	info := s.a.info
	if tv, ok := info.Types[x.Fun]; ok && tv.IsType() && len(x.Args) == 1 {
		return s.eval(x.Args[0], env) // conversion (orb.Ring(ls))
	}
	var args []c17SV
	for _, a := range x.Args {
		args = append(args, s.eval(a, env))
	}
	switch builtinName(info, x) {
	case "len":
		if len(args) == 1 && args[0].kind == c17List {
			return c17SV{kind: c17Int, i: int64(len(args[0].list))}
		}
		return c17SV{}
	case "append":
		if len(args) == 0 || args[0].kind != c17List {
			return c17SV{}
		}
		out := append([]string{}, args[0].list...)
		for i, a := range args[1:] {
			switch {
			case x.Ellipsis.IsValid() && i == len(args)-2 && a.kind == c17List:
				out = append(out, a.list...)
			case a.kind == c17Tok:
				out = append(out, a.tok)
			default:
				return c17SV{}
			}
		}
		return c17SV{kind: c17List, list: out}
	case "make":
		// make(T, n[, cap]) of a point list: n zero points (tokens distinct from every input point)
		if len(args) >= 2 && args[1].kind == c17Int && args[1].i >= 0 && args[1].i <= 16 {
			if _, isSlice := info.TypeOf(x).Underlying().(*types.Slice); isSlice {
				out := make([]string, args[1].i)
				for i := range out {
					out[i] = "zero"
				}
				return c17SV{kind: c17List, list: out}
			}
		}
		return c17SV{}
	case "":
	default:
		return c17SV{}
	}
	// a function of the package with one result: interpret it
	f := callee(info, x)
	if h := s.a.fns[f]; h != nil && s.depth < 3 && f.Type().(*types.Signature).Results().Len() == 1 && !f.Type().(*types.Signature).Variadic() {
		sig := f.Type().(*types.Signature)
		cenv := c17Env{}
		for i := 0; i < sig.Params().Len() && i < len(args); i++ {
			cenv[sig.Params().At(i)] = args[i]
		}
		var rets []c17SV
		nGave := len(s.gaveUp)
		s.depth++
		s.block(h.Decl.Body.List, cenv, func(c17Env) {}, func(vals []c17SV) {
			if len(vals) == 1 {
				rets = append(rets, vals[0])
			} else {
				rets = append(rets, c17SV{})
			}
		})
		s.depth--
		if len(s.gaveUp) == nGave && len(rets) == 1 {
			return rets[0]
		}
		if len(s.gaveUp) == nGave && len(rets) > 1 {
			// several paths with different results: keep it only if they agree
			same := true
			for _, r := range rets[1:] {
				if !c17SVEqual(r, rets[0]) {
					same = false
				}
			}
			if same {
				return rets[0]
			}
			return c17SV{}
		}
		s.gaveUp = s.gaveUp[:nGave] // a callee the interpreter cannot follow is simply opaque
	}
	return s.opaque(info.TypeOf(x))
}

func c17SVEqual(a, b c17SV) bool {
	if a.kind != b.kind || a.i != b.i || a.b != b.b || a.tok != b.tok || len(a.list) != len(b.list) {
		return false
	}
	for i := range a.list {
		if a.list[i] != b.list[i] {
			return false
		}
	}
	return true
}
