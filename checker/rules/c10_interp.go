package rules

// Engine E (DESIGN.md §2.3), part 2: abstract values and an abstract interpreter of Go syntax trees.
// Nothing here executes the library: expressions of /repo are folded with the constants the type
// checker computed; in-package callees are inlined (bounded depth) by interpreting their statements.
// The interpreter works on *whole function bodies* (never on the shape of one statement), so the rules
// built on it are insensitive to extracted helpers, renamed locals, if/switch/tagless-switch forms,
// inverted branches, if-with-init, early returns and moved functions.
//
// Abstract values:
//   integers      64-lane bit vectors (c10_bitvec.go), optionally tagged as an opaque sort key
//   strings       concrete (c10VStr) or symbolic text (c10VText): literal pieces and decimal renderings
//                 of abstract integers ("node/" dec(ref) ":" dec(ver)); strings.Split/SplitN/Cut/Contains,
//                 strconv.ParseInt/ParseUint/Atoi/Itoa/FormatInt, fmt.Sprintf and + have transfer functions
//   slices        known length, abstract elements (results of Split, receivers of Counts/Less/Swap)
//   errors        nil, provably non-nil (fmt.Errorf, errors.New, a failed strconv parse)
//   structs       receiver structs with bound fields; interface values with a known dynamic type
// Every top-level identifier is prefixed c10.

import (
	"fmt"
	"go/ast"
	"go/constant"
	"go/token"
	"go/types"
	"strconv"
	"strings"

	"golang.org/x/tools/go/packages"
)

type c10VK int

const (
	c10VInt    c10VK = iota // integer: V
	c10VStr                 // constant string: S
	c10VBool                // Tri (1 true, 0 false, -1 unknown; then Cmp describes the test)
	c10VText                // symbolic text: Pieces (at least one decimal piece)
	c10VNil                 // the nil literal / a zero pointer / a nil error
	c10VErr                 // an error value that is provably non-nil
	c10VStruct              // struct with bound fields
	c10VTuple               // multi-value call result: Args
	c10VSlice               // slice of known length: Args are the elements
	c10VDyn                 // interface value with known dynamic type Dyn holding Args[0]
	c10VOpaque              // anything else; Why says what stopped the evaluation
)

// c10Piece is a literal chunk or the decimal rendering of an abstract integer.
type c10Piece struct {
	Lit string
	Num *c10Vec
}

type c10Val struct {
	K      c10VK
	V      c10Vec
	S      string
	Tri    int
	Cmp    *c10Cmp
	Args   []c10Val
	Pieces []c10Piece
	Fields map[*types.Var]c10Val
	Dyn    types.Type
	Keys   []c10Val      // c10VMap: constant keys, values in Args
	Lit    *ast.FuncLit  // c10VFunc
	Pos    *c10TextPos   // the integer is a byte offset into a symbolic text (c10_interp_pos.go)
	Fn     *ast.FuncDecl // c10VFunc: a named package-level function used as a value
	Cap    c10Env        // c10VFunc: environment at the literal
	Tag    string        // opaque sort key "elem|accessor" (order decided by c10Eval.rel)
	Bytes  bool          // the text is the content of a []byte (c10_interp_bytes.go)
	Len    bool          // the integer is the length of a slice (arity bookkeeping)
	Why    string
}

// c10Cmp is an undecided comparison L Op R (Neg: negated).
type c10Cmp struct {
	Op   token.Token
	L, R c10Val
	Neg  bool
}

func c10IntVal(v c10Vec) c10Val    { return c10Val{K: c10VInt, V: v} }
func c10StrVal(s string) c10Val    { return c10Val{K: c10VStr, S: s} }
func c10BoolVal(b bool) c10Val     { return c10Val{K: c10VBool, Tri: map[bool]int{true: 1, false: 0}[b]} }
func c10OpaqueVal(w string) c10Val { return c10Val{K: c10VOpaque, Why: w} }
func c10SliceVal(e []c10Val) c10Val {
	return c10Val{K: c10VSlice, Args: append([]c10Val{}, e...)}
}

func (v c10Val) String() string {
	switch v.K {
	case c10VInt:
		if v.Tag != "" {
			return "key(" + v.Tag + ")"
		}
		return v.V.String()
	case c10VStr:
		return fmt.Sprintf("%q", strings.ReplaceAll(v.S, c10Generic, "‹any other text›"))
	case c10VBool:
		return map[int]string{1: "true", 0: "false", -1: "undecided"}[v.Tri]
	case c10VText:
		return c10PiecesString(v.Pieces)
	case c10VNil:
		return "nil"
	case c10VErr:
		return "non-nil error"
	case c10VStruct:
		return "struct"
	case c10VTuple, c10VSlice:
		var a []string
		for _, x := range v.Args {
			a = append(a, x.String())
		}
		if v.K == c10VSlice {
			return "[" + strings.Join(a, ", ") + "]"
		}
		return "(" + strings.Join(a, ", ") + ")"
	case c10VDyn:
		return "interface holding " + v.Dyn.String()
	}
	return "opaque(" + v.Why + ")"
}

// ---------------------------------------------------------------------------
// symbolic text

// c10Generic marks a concrete string that stands for "any text the code cannot tell apart from it":
// only ==/!= against constants, splitting, conversion and printing are decided on it.
const c10Generic = "\x00"

func c10IsGeneric(s string) bool { return strings.Contains(s, c10Generic) }

func c10PiecesString(ps []c10Piece) string {
	var b strings.Builder
	b.WriteString("`")
	for _, p := range ps {
		if p.Num != nil {
			switch {
			case p.Num.sameLanes(c10InputVec(c10SrcRef, c10RefBits, 64, true)):
				b.WriteString("‹ref›")
			case p.Num.sameLanes(c10InputVec(c10SrcVer, c10VerBits, 64, true)):
				b.WriteString("‹version›")
			default:
				b.WriteString("‹dec " + p.Num.String() + "›")
			}
		} else {
			b.WriteString(strings.ReplaceAll(p.Lit, c10Generic, "‹any other text›"))
		}
	}
	b.WriteString("`")
	return b.String()
}

// c10Pieces returns the pieces of a string-valued abstract value.
func c10Pieces(v c10Val) ([]c10Piece, bool) {
	switch v.K {
	case c10VStr:
		if v.S == "" {
			return nil, true
		}
		return c10SplitGeneric(v.S), true
	case c10VText:
		return v.Pieces, true
	}
	return nil, false
}

// c10MkText normalises pieces (adjacent literals merged, empty literals dropped).
func c10MkText(ps []c10Piece) c10Val {
	var out []c10Piece
	for _, p := range ps {
		if p.Num == nil {
			if p.Lit == "" {
				continue
			}
			if n := len(out); n > 0 && out[n-1].Num == nil {
				out[n-1].Lit += p.Lit
				continue
			}
		}
		out = append(out, p)
	}
	sym := false
	var split []c10Piece
	for _, p := range out {
		if p.Num != nil {
			sym = true
			split = append(split, p)
		} else {
			split = append(split, c10SplitGeneric(p.Lit)...)
		}
	}
	out = split
	if !sym {
		s := ""
		for _, p := range out {
			s += p.Lit
		}
		return c10StrVal(s)
	}
	return c10Val{K: c10VText, Pieces: out}
}

// c10SplitGeneric cuts a literal into plain chunks and generic atoms (the marker and the lower-case name after
// it), so that a generic atom, whose real length is unknown, is always a piece of its own.
func c10SplitGeneric(lit string) []c10Piece {
	var out []c10Piece
	for lit != "" {
		i := strings.Index(lit, c10Generic)
		if i < 0 {
			out = append(out, c10Piece{Lit: lit})
			break
		}
		if i > 0 {
			out = append(out, c10Piece{Lit: lit[:i]})
		}
		j := i + len(c10Generic)
		for j < len(lit) && lit[j] >= 'a' && lit[j] <= 'z' {
			j++
		}
		out = append(out, c10Piece{Lit: lit[i:j]})
		lit = lit[j:]
	}
	return out
}

func c10NumPiece(v c10Vec) c10Piece { return c10Piece{Num: &v} }

// c10DecText renders an abstract integer as decimal text.
func c10DecText(v c10Vec) c10Val {
	if i, ok := v.signedConst(); ok {
		if !v.Signed {
			u, _ := v.constant()
			return c10StrVal(strconv.FormatUint(u, 10))
		}
		return c10StrVal(strconv.FormatInt(i, 10))
	}
	return c10MkText([]c10Piece{c10NumPiece(v)})
}

// c10SepOK: a separator that cannot match inside the decimal rendering of a number.
func c10SepOK(sep string) bool {
	return sep != "" && !strings.ContainsAny(sep, "0123456789+-") && !c10IsGeneric(sep)
}

// c10SplitPieces splits a text on sep (at most n parts when n > 0).
func c10SplitPieces(ps []c10Piece, sep string, n int) [][]c10Piece {
	out := [][]c10Piece{nil}
	for _, p := range ps {
		if p.Num != nil {
			out[len(out)-1] = append(out[len(out)-1], p)
			continue
		}
		rest := p.Lit
		for {
			if n > 0 && len(out) >= n {
				break
			}
			i := strings.Index(rest, sep)
			if i < 0 {
				break
			}
			out[len(out)-1] = append(out[len(out)-1], c10Piece{Lit: rest[:i]})
			out = append(out, nil)
			rest = rest[i+len(sep):]
		}
		out[len(out)-1] = append(out[len(out)-1], c10Piece{Lit: rest})
	}
	return out
}

// c10TextEq compares a text with a concrete string: 1 equal, 0 different, -1 depends on the numbers.
func c10TextEq(ps []c10Piece, c string) int {
	sym := false
	for _, p := range ps {
		if p.Num != nil {
			sym = true
		}
	}
	if !sym {
		s := ""
		for _, p := range ps {
			s += p.Lit
		}
		if s == c {
			return 1
		}
		return 0
	}
	// can the text spell c at all? a number matches an optional '-' and a non-empty run of digits
	var match func(i int, rest string) bool
	match = func(i int, rest string) bool {
		if i == len(ps) {
			return rest == ""
		}
		p := ps[i]
		if p.Num == nil {
			return strings.HasPrefix(rest, p.Lit) && match(i+1, rest[len(p.Lit):])
		}
		j := 0
		if !p.Num.nonNegative() && strings.HasPrefix(rest, "-") {
			j = 1
		}
		for k := j; k < len(rest) && rest[k] >= '0' && rest[k] <= '9'; k++ {
			if match(i+1, rest[k+1:]) {
				return true
			}
		}
		return false
	}
	if match(0, c) {
		return -1
	}
	return 0
}

type c10Env map[types.Object]c10Val

func (e c10Env) with(o types.Object, v c10Val) c10Env {
	n := make(c10Env, len(e)+1)
	for k, x := range e {
		n[k] = x
	}
	n[o] = v
	return n
}

// c10PathCond is an undecided branch condition assumed on a path.
type c10PathCond struct {
	Cond  c10Val
	Taken bool
}

// c10Outcome is one way an interpreted function can end.
type c10Outcome struct {
	Res         []c10Val
	Panic       bool
	PanicWhy    string
	Conds       []c10PathCond
	Unsupported string // a statement/shape outside the interpreter's enumerated forms
	Pos         token.Pos
	Final       c10Env // variables at the end (effects on slice receivers)
}

const (
	c10CtlNone = iota
	c10CtlBreak
	c10CtlContinue
)

type c10State struct {
	env   c10Env
	conds []c10PathCond
	ctl   int
}

const c10MaxDepth = 8

// c10ParseCall records one evaluated strconv parse of symbolic decimal text.
type c10ParseCall struct {
	Call   *ast.CallExpr
	Fn     string
	V      c10Vec // the number whose decimal text is parsed
	Base   int64
	Bits   int64
	Signed bool
	Known  bool // base and bit size are constants
}

// c10Eval interprets expressions and function bodies of one package.
type c10Eval struct {
	pk        *packages.Package
	info      *types.Info
	decls     map[*types.Func]*ast.FuncDecl
	addrTaken map[types.Object]bool
	errVars   map[types.Object]bool // package-level `var ErrX = errors.New(...)` never reassigned
	Inlined   int                   // number of callee bodies interpreted
	Exprs     int                   // number of expression nodes folded

	pan      string                    // set when the expression being evaluated panics (index out of range, failed assertion)
	tables   map[types.Object]ast.Expr // read-only package-level tables (c10_interp_lit.go)
	bldEsc   map[types.Object]bool     // builder variables whose address escapes (c10_interp_builder.go)
	litStack []*ast.FuncLit            // function literals being interpreted
	sorts    []c10SortEvent            // calls of package sort reached (c10_interp_sort.go)
	fork     *c10Fork                  // non-nil while a statement-level evaluation explores the outcomes of inlined callees

	// scenario bookkeeping (reset by the rules between runs)
	rel        func(a, b string) int // order of two tagged keys: -1, 0, +1; 2 = unknown
	keysUsed   map[string]bool       // accessors of tagged keys that were compared
	cmpStrs    map[string]bool       // string constants some text was compared with
	lenConsts  []int64               // integer constants a slice length was compared with / shifted by
	lenEscapes string                // a slice length used in a way the arity argument does not cover
	parses     []c10ParseCall
}

func c10NewEval(pk *packages.Package) *c10Eval {
	ev := &c10Eval{pk: pk, info: pk.TypesInfo, decls: map[*types.Func]*ast.FuncDecl{}, addrTaken: map[types.Object]bool{}, errVars: map[types.Object]bool{}}
	assigned := map[types.Object]bool{}
	for _, f := range pk.Syntax {
		for _, d := range f.Decls {
			if fd, ok := d.(*ast.FuncDecl); ok && fd.Body != nil {
				if obj, _ := pk.TypesInfo.Defs[fd.Name].(*types.Func); obj != nil {
					ev.decls[obj] = fd
				}
			}
		}
		ast.Inspect(f, func(n ast.Node) bool {
			switch x := n.(type) {
			case *ast.UnaryExpr:
				if x.Op == token.AND {
					e := ast.Unparen(x.X)
					for {
						switch y := e.(type) {
						case *ast.SelectorExpr:
							e = ast.Unparen(y.X)
							continue
						case *ast.IndexExpr:
							e = ast.Unparen(y.X)
							continue
						}
						break
					}
					if id, ok := e.(*ast.Ident); ok {
						if o := pk.TypesInfo.Uses[id]; o != nil {
							ev.addrTaken[o] = true
						}
					}
				}
			case *ast.AssignStmt:
				for _, l := range x.Lhs {
					if id, ok := ast.Unparen(l).(*ast.Ident); ok {
						if o := pk.TypesInfo.Uses[id]; o != nil {
							assigned[o] = true
						}
					}
				}
			}
			return true
		})
	}
	for _, f := range pk.Syntax {
		for _, d := range f.Decls {
			gd, ok := d.(*ast.GenDecl)
			if !ok || gd.Tok != token.VAR {
				continue
			}
			for _, sp := range gd.Specs {
				vs := sp.(*ast.ValueSpec)
				if len(vs.Values) != len(vs.Names) {
					continue
				}
				for i, nm := range vs.Names {
					call, ok := ast.Unparen(vs.Values[i]).(*ast.CallExpr)
					if !ok {
						continue
					}
					fn := callee(ev.info, call)
					o := ev.info.Defs[nm]
					if o != nil && !assigned[o] && !ev.addrTaken[o] && (isPkgFunc(fn, "errors", "New") || isPkgFunc(fn, "fmt", "Errorf")) {
						ev.errVars[o] = true
					}
				}
			}
		}
	}
	return ev
}

// resetScenario clears the per-run bookkeeping.
func (ev *c10Eval) resetScenario() {
	ev.rel, ev.keysUsed, ev.cmpStrs, ev.lenConsts, ev.lenEscapes, ev.parses, ev.pan = nil, map[string]bool{}, map[string]bool{}, nil, "", nil, ""
}

// intType returns width and signedness of an integer type under the loaded build configuration
// (types.Sizes of the package: int is 32 bits when GOARCH=386).
func (ev *c10Eval) intType(t types.Type) (int, bool, bool) {
	if t == nil {
		return 0, false, false
	}
	b, ok := t.Underlying().(*types.Basic)
	if !ok || b.Info()&types.IsInteger == 0 {
		return 0, false, false
	}
	if b.Info()&types.IsUntyped != 0 {
		return 64, true, true
	}
	w := 64
	if ev.pk.TypesSizes != nil {
		w = int(ev.pk.TypesSizes.Sizeof(t)) * 8
	}
	return w, b.Info()&types.IsUnsigned == 0, true
}

func (ev *c10Eval) isString(t types.Type) bool {
	if t == nil {
		return false
	}
	b, ok := t.Underlying().(*types.Basic)
	return ok && b.Info()&types.IsString != 0
}

// unknownOf is the value of an expression nothing is known about.
func (ev *c10Eval) unknownOf(t types.Type, why string) c10Val {
	if w, s, ok := ev.intType(t); ok {
		v := c10IntVal(c10TopVec(w, s))
		v.Why = why
		return v
	}
	if tp, ok := t.(*types.Tuple); ok && tp.Len() > 1 {
		out := c10Val{K: c10VTuple, Why: why}
		for i := 0; i < tp.Len(); i++ {
			out.Args = append(out.Args, ev.unknownOf(tp.At(i).Type(), why))
		}
		return out
	}
	if t != nil {
		if b, ok := t.Underlying().(*types.Basic); ok && b.Info()&types.IsBoolean != 0 {
			return c10Val{K: c10VBool, Tri: -1, Why: why}
		}
	}
	return c10OpaqueVal(why)
}

func (ev *c10Eval) zeroOf(t types.Type) c10Val {
	if c10IsBuilder(t) {
		if _, isPtr := t.(*types.Pointer); !isPtr {
			return c10StrVal("") // an empty strings.Builder / bytes.Buffer: the text written so far
		}
	}
	if w, s, ok := ev.intType(t); ok {
		return c10IntVal(c10ConstVec(0, w, s))
	}
	if ev.isString(t) {
		return c10StrVal("")
	}
	switch u := t.Underlying().(type) {
	case *types.Pointer, *types.Map, *types.Interface, *types.Signature, *types.Chan:
		return c10Val{K: c10VNil}
	case *types.Slice:
		return c10SliceVal(nil)
	case *types.Array:
		if u.Len() <= 4096 {
			out := c10Val{K: c10VSlice, Args: make([]c10Val, u.Len())}
			for i := range out.Args {
				out.Args[i] = ev.zeroOf(u.Elem())
			}
			return out
		}
	case *types.Struct:
		out := c10Val{K: c10VStruct, Fields: map[*types.Var]c10Val{}}
		for i := 0; i < u.NumFields(); i++ {
			out.Fields[u.Field(i)] = ev.zeroOf(u.Field(i).Type())
		}
		return out
	case *types.Basic:
		if u.Info()&types.IsBoolean != 0 {
			return c10BoolVal(false)
		}
	}
	return c10OpaqueVal("zero value of " + t.String())
}

func (ev *c10Eval) constVal(tv types.TypeAndValue) (c10Val, bool) {
	if tv.Value == nil {
		return c10Val{}, false
	}
	switch tv.Value.Kind() {
	case constant.String:
		return c10StrVal(constant.StringVal(tv.Value)), true
	case constant.Bool:
		return c10BoolVal(constant.BoolVal(tv.Value)), true
	case constant.Int:
		w, s, ok := ev.intType(tv.Type)
		if !ok {
			w, s = 64, true
		}
		if u, exact := constant.Uint64Val(tv.Value); exact {
			return c10IntVal(c10ConstVec(u, w, s)), true
		}
		if i, exact := constant.Int64Val(tv.Value); exact {
			return c10IntVal(c10ConstVec(uint64(i), w, s)), true
		}
	}
	return c10Val{}, false
}

func (ev *c10Eval) isConstExpr(e ast.Expr) bool {
	tv, ok := ev.info.Types[ast.Unparen(e)]
	return ok && tv.Value != nil
}
