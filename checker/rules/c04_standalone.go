package rules

import (
	"strings"

	"osmcheck/core"
)

// c04X1Handed: a MarshalXML that delegates to the tag-driven encoding writes the name it was handed, or a name that
// depends on it; it is judged for every name a caller hands in: the tag of every tag-marshalled field that holds the
// type (encoding/xml's field marshaller reads the field back under that tag). The name handed in when the value is
// marshalled on its own is judged by standalone@T.
func c04X1Handed(r *core.R, v *c04Verdicts, root *c04Root, tr *c04Trace) {
	delegating := false
	for _, em := range tr.emits {
		if self, _, why := c04SelfDelegation(root, em); self && why == "" && len(em.open) == 0 {
			delegating = true
		}
	}
	if !delegating {
		return
	}
	c := "root@" + root.name
	pos := root.fi.Decl.Pos()
	holders := c04FieldsOfType(r.P, root.T)
	var oks []string
	for _, h := range holders {
		i := strings.LastIndex(h, "=")
		field, tag := h[:i], h[i+1:]
		ov := c04StartOverrideOf(r.P, root.fi, tag)
		switch {
		case ov.Unknown != "":
			v.unknown(c, pos, "%s, handed <%s> for %s: %s", root.name, tag, field, ov.Unknown)
			return
		case ov.Forced != "" && ov.Forced != tag:
			v.bad(c, pos, "%s writes <%s> when it is handed <%s>, the tag %s is read back under: the field is lost on unmarshalling", root.name, ov.Forced, tag, field)
			return
		}
		oks = append(oks, field+" <"+tag+">")
	}
	v.ok(c, pos, "delegates to the tag-driven encoding and keeps the name of every tag-marshalled holder (%d: %s)", len(holders), strings.Join(oks, ", "))
}

// c04X1Standalone: every type of package osm that is marshalled on its own - the documents (OSM, Change, Diff) and the
// objects the scanner yields (the element types of osm.OSM's element fields, bounds included) - gets the element name
// the formats give it (tables/osmxml.json) when it is encoded without an enclosing element: xml.Marshal(v) /
// Encoder.Encode(v), where encoding/xml derives the name from XMLName, or else from the Go type name, unless the
// type's MarshalXML changes it. The decoders read exactly these names (osmxml.Scanner dispatches on them).
func c04X1Standalone(r *core.R, v *c04Verdicts, tbl *c03Table) {
	pk := c03OsmPkg(r.P)
	names := []string{"OSM", "Change", "Diff"}
	if osmNT, _ := structType(pk, "OSM"); osmNT != nil {
		for _, f := range c03XMLTypeInfo(osmNT).Fields {
			if f.Kind == c03Elem && len(f.Via) == 0 {
				if n := c03TypeName(c03ElemType(f.Var.Type())); n != "" {
					names = append(names, n)
				}
			}
		}
	}
	seen := map[string]bool{}
	for _, n := range names {
		nt, _ := structType(pk, n)
		tt := tbl.Type(n)
		if seen[n] || nt == nil || tt == nil {
			continue
		}
		seen[n] = true
		c := "standalone@" + n
		pos := nt.Obj().Pos()
		var whys []string
		bad := false
		for _, en := range c03EmittedNames(r.P, nt, "", "") {
			switch {
			case en.Err != "":
				v.unknown(c, pos, "the element name of a %s marshalled on its own: %s", n, en.Err)
				bad = true
			case en.Name != tt.Element:
				v.bad(c, pos, "a %s marshalled on its own (xml.Marshal, Encoder.Encode) is written as <%s> (%s); the element of the format is <%s> (%s), which is what xml.Unmarshal into a %s with an XMLName, the enclosing documents and the streaming scanner read", n, en.Name, en.Why, tt.Element, tt.Doc, n)
				bad = true
			default:
				whys = append(whys, en.Why)
			}
		}
		if !bad {
			v.ok(c, pos, "marshalled on its own a %s is written as <%s> (%s) = element of the format", n, tt.Element, strings.Join(whys, "; "))
		}
	}
}
