package rules

import (
	"go/ast"
	"go/token"
	"go/types"
)

// recvOkVars collects the variables that hold the second value of a receive from class cls in unit u and the helpers it
// calls (`v, ok := <-ch`, `case v, ok = <-ch:`): false means the channel was closed and nothing was received.
func (p *c02Pipe) recvOkVars(u *unit, cls string) map[types.Object]bool {
	out := map[types.Object]bool{}
	m := p.m
	m.deepWalk(u, func(s *pbfSite, n ast.Node) bool {
		as, ok := n.(*ast.AssignStmt)
		if !ok || len(as.Lhs) != 2 || len(as.Rhs) != 1 {
			return true
		}
		ue, ok := ast.Unparen(as.Rhs[0]).(*ast.UnaryExpr)
		if !ok || ue.Op != token.ARROW {
			return true
		}
		// (a helper shared by several callers is visited once: any of the classes its channel can have counts)
		restore := m.view.withCalls(s.calls())
		cs := m.classesOf(ue.X, map[types.Object]bool{})
		restore()
		if !cs[cls] {
			return true
		}
		if o := objOf(m.info, as.Lhs[1]); o != nil {
			out[o] = true
		}
		return true
	})
	return out
}

// c02FlagFalse: taking the edge `cond == val` establishes that one of the flag variables is false.
func c02FlagFalse(info *types.Info, flags map[types.Object]bool, cond ast.Expr, val bool) bool {
	if len(flags) == 0 {
		return false
	}
	var facts []guardFact
	splitFacts(cond, val, nil, &facts)
	for _, ft := range facts {
		if id, ok := ast.Unparen(ft.expr).(*ast.Ident); ok && !ft.val && flags[objOf(info, id)] {
			return true
		}
	}
	return false
}
