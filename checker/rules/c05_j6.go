package rules

import (
	"go/ast"
	"go/types"

	"osmcheck/core"
)

// c05J6: a value decoded into an interface-typed shim field (e.g. the top-level version, "number or string") is converted
// by a construct that is total over dynamic types. Which dynamic type a number arrives as depends on the installed
// codec (float64 with encoding/json, json.Number / int64 with UseNumber-style codecs), so a type switch without a
// default branch silently drops the value for some codec configurations.
func c05J6(r *core.R) {
	pk := r.P.Pkg("")
	info := pk.TypesInfo
	n := 0
	for _, fi := range allFuncs(pk) {
		if fi.Obj.Name() != "UnmarshalJSON" || fi.Obj.Type().(*types.Signature).Recv() == nil {
			continue
		}
		// interface-typed fields of local struct variables
		type shimField struct {
			v *types.Var // local
			f *types.Var
		}
		var fields []shimField
		seen := map[*types.Var]bool{}
		ast.Inspect(fi.Decl.Body, func(x ast.Node) bool {
			sel, ok := x.(*ast.SelectorExpr)
			if !ok {
				return true
			}
			f := fieldOf(info, sel)
			if f == nil || seen[f] {
				return true
			}
			if _, isIface := f.Type().Underlying().(*types.Interface); !isIface {
				return true
			}
			lv, _ := objOf(info, sel.X).(*types.Var)
			if lv == nil || lv.IsField() {
				return true
			}
			if _, isStruct := lv.Type().Underlying().(*types.Struct); !isStruct {
				return true
			}
			seen[f] = true
			fields = append(fields, shimField{lv, f})
			return true
		})
		for _, sf := range fields {
			n++
			c := "total@" + fi.Name() + " " + sf.v.Name() + "." + sf.f.Name()
			isField := func(e ast.Expr) bool {
				e = ast.Unparen(e)
				return fieldOf(info, e) == sf.f
			}
			verdict, why := "", ""
			var pos = fi.Decl.Pos()
			ast.Inspect(fi.Decl.Body, func(x ast.Node) bool {
				switch s := x.(type) {
				case *ast.TypeSwitchStmt:
					var tag ast.Expr
					switch a := s.Assign.(type) {
					case *ast.AssignStmt:
						if ta, ok := a.Rhs[0].(*ast.TypeAssertExpr); ok {
							tag = ta.X
						}
					case *ast.ExprStmt:
						if ta, ok := a.X.(*ast.TypeAssertExpr); ok {
							tag = ta.X
						}
					}
					if tag == nil || !isField(tag) {
						return true
					}
					pos = s.Pos()
					hasDefault, nilOnly := false, true
					for _, cl := range s.Body.List {
						cc := cl.(*ast.CaseClause)
						if cc.List == nil {
							hasDefault = len(cc.Body) > 0
							continue
						}
						for _, t := range cc.List {
							if id, ok := t.(*ast.Ident); !ok || id.Name != "nil" {
								nilOnly = false
							}
						}
					}
					if hasDefault || nilOnly {
						verdict = "ok"
						why = "type switch with a non-empty default branch"
					} else {
						verdict = "bad"
						why = "the type switch on `" + src(r.P.Fset, tag) + "` has no default branch: a value of any other dynamic type (json.Number or an integer type from a codec configured to keep numbers exact) is dropped and the field stays empty, although the same document decodes with the standard codec"
					}
				case *ast.CallExpr:
					fn := callee(info, s)
					if fn != nil && fn.Pkg() != nil && fn.Pkg().Path() == "fmt" && (fn.Name() == "Sprintf" || fn.Name() == "Sprint") {
						for _, a := range s.Args {
							if isField(a) && verdict == "" {
								verdict, why, pos = "ok", "formatted by fmt."+fn.Name()+", which accepts every dynamic type", s.Pos()
							}
						}
					}
				case *ast.TypeAssertExpr:
					if s.Type != nil && isField(s.X) && verdict == "" {
						verdict, pos = "bad", s.Pos()
						why = "`" + src(r.P.Fset, s) + "` accepts a single dynamic type; numbers arrive as float64, json.Number or integers depending on the codec"
					}
				}
				return true
			})
			switch verdict {
			case "ok":
				r.OK(c, pos, "%s", why)
			case "bad":
				r.Bad(c, pos, "%s", why)
			default:
				r.Unknown(c, pos, "interface-typed shim field %s is converted in a way the rule does not know (accepted: fmt.Sprint(f), a type switch with default)", sf.f.Name())
			}
		}
	}
	if n == 0 {
		r.Anchor("interface-typed shim field in an UnmarshalJSON method (version: number or string)")
	}
}
