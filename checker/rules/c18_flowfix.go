package rules

import (
	"go/ast"
	"go/types"

	"golang.org/x/tools/go/cfg"
)

// flow propagates the facts through fd starting from in. It returns the facts at the normal exits, the
// facts of the slice fd returns (meet over its return statements; zero when it returns none), and
// returns=false when fd has no normal exit.
func (env *c18FlowEnv) flow(fd *ast.FuncDecl, in c18Flow) (c18Flow, c18UF, bool) {
	info := env.c.info
	g := newCFG(info, fd.Body)
	fr := &c18FlowRun{env: env, fd: fd, preds: map[*cfg.Block][]*cfg.Block{}, sortIn: map[*cfg.Block]*ast.CallExpr{}, retVal: map[*ast.CallExpr]c18UF{}}
	fr.loops = env.loopsOf(fd, g)
	for _, b := range g.Blocks {
		if !b.Live {
			continue
		}
		for _, s := range b.Succs {
			fr.preds[s] = append(fr.preds[s], b)
		}
	}
	inS, outS := map[*cfg.Block]c18Flow{}, map[*cfg.Block]c18Flow{}
	have := map[*cfg.Block]bool{}
	entry := g.Blocks[0]
	for round := 0; round < 64; round++ {
		changed := false
		for _, b := range g.Blocks {
			if !b.Live {
				continue
			}
			var st c18Flow
			got := false
			if b == entry {
				st, got = in, true
			}
			for _, p := range fr.preds[b] {
				if !have[p] {
					continue
				}
				es := fr.edge(p, b, outS[p])
				if !got {
					st, got = es, true
				} else {
					st = st.meet(es)
				}
			}
			if !got {
				continue
			}
			o := fr.transfer(b, st)
			if !have[b] || !inS[b].eq(st) || !outS[b].eq(o) {
				have[b], inS[b], outS[b] = true, st, o
				changed = true
			}
		}
		if !changed {
			break
		}
	}
	env.diagnose(fr, have, inS)

	// the named result of the table's type, for bare returns
	var named types.Object
	if fd.Type.Results != nil {
		for _, fld := range fd.Type.Results.List {
			for _, nm := range fld.Names {
				if o := info.Defs[nm]; o != nil && types.Identical(o.Type().Underlying(), env.c.table.Type().Underlying()) {
					named = o
				}
			}
		}
	}
	var res c18Flow
	var rv c18UF
	got, gotRet := false, false
	for _, b := range g.Blocks {
		if !b.Live || !have[b] || len(b.Succs) != 0 || c18IsPanicExit(info, b) {
			continue
		}
		if !got {
			res, got = outS[b], true
		} else {
			res = res.meet(outS[b])
		}
		if len(b.Nodes) == 0 {
			continue
		}
		ret, ok := b.Nodes[len(b.Nodes)-1].(*ast.ReturnStmt)
		if !ok {
			continue
		}
		var v c18UF
		switch {
		case len(ret.Results) == 1:
			v = fr.value(ret.Results[0], outS[b])
		case len(ret.Results) == 0 && named != nil:
			v = outS[b].f[named]
		default:
			continue
		}
		if !gotRet {
			rv, gotRet = v, true
		} else {
			rv = c18UF{u: rv.u && v.u, s: rv.s && v.s}
		}
	}
	if !got {
		return in, c18UF{}, false
	}
	return res, rv, true
}

// diagnose records, for every loop over a tracked slice, what the analysis found (used for the failure text).
func (env *c18FlowEnv) diagnose(fr *c18FlowRun, have map[*cfg.Block]bool, inS map[*cfg.Block]c18Flow) {
	info := env.c.info
	for _, l := range fr.loops {
		d := c18LoopDiag{pos: l.stmt.Pos(), everyIter: have[l.head] && inS[l.head].e, onlyHead: fr.onlyHead(l), loaded: have[l.head] && inS[l.head].f[l.over].u}
		if rs, ok := l.stmt.(*ast.RangeStmt); ok && rs.Value != nil {
			d.elem = src(env.r.P.Fset, rs.Value)
		} else if l.key != nil {
			d.elem = l.over.Name() + "[" + l.key.Name() + "]"
		}
		for b := range l.in {
			if c := fr.sortIn[b]; c != nil {
				d.hasSort, d.sortText, d.sortPos = true, src(env.r.P.Fset, c), c.Pos()
			}
		}
		if st, ok := l.stmt.(*ast.RangeStmt); ok && l.val != nil {
			ast.Inspect(st.Body, func(n ast.Node) bool {
				if as, ok := n.(*ast.AssignStmt); ok {
					for _, lh := range as.Lhs {
						if fieldOf(info, lh) == env.c.valsF && rootObj(info, lh) == l.val {
							d.copyAsg = true
						}
					}
				}
				return true
			})
		}
		env.loops = append(env.loops, d)
	}
}
