package rules

import (
	"go/ast"
	"go/token"
	"go/types"

	"golang.org/x/tools/go/cfg"
)

// flow propagates the facts through fd starting from in. It returns the facts at the normal exits, the
// facts of the slice fd returns (meet over its return statements; zero when it returns none), and
// returns=false when fd has no normal exit.
func (env *c18FlowEnv) flow(fd *ast.FuncDecl, in c18Flow) (c18Flow, c18Ret, bool) {
	info := env.c.info
	g := newCFG(info, fd.Body)
	fr := &c18FlowRun{env: env, fd: fd, preds: map[*cfg.Block][]*cfg.Block{}, sortIn: map[*cfg.Block]*ast.CallExpr{}, retVal: map[*ast.CallExpr]c18Ret{}}
	fr.loops = env.loopsOf(fd, g)
	for _, b := range g.Blocks {
		if !b.Live {
			continue
		}
		for _, s := range b.Succs {
			fr.preds[s] = append(fr.preds[s], b)
		}
	}
	inS, outS := map[*cfg.Block]c18Flow{}, map[*cfg.Block]c18Flow{}
	have := map[*cfg.Block]bool{}
	entry := g.Blocks[0]
	for round := 0; round < 64; round++ {
		changed := false
		for _, b := range g.Blocks {
			if !b.Live {
				continue
			}
			var st c18Flow
			got := false
			if b == entry {
				st, got = in, true
			}
			for _, p := range fr.preds[b] {
				if !have[p] {
					continue
				}
				es := fr.edge(p, b, outS[p])
				if !got {
					st, got = es, true
				} else {
					st = st.meet(es)
				}
			}
			if !got {
				continue
			}
			o := fr.transfer(b, st)
			if !have[b] || !inS[b].eq(st) || !outS[b].eq(o) {
				have[b], inS[b], outS[b] = true, st, o
				changed = true
			}
		}
		if !changed {
			break
		}
	}
	env.diagnose(fr, have, inS)

	// results: the one of the table's type (named, for bare returns) and the error
	var named types.Object
	tblIdx, errIdx, nres := -1, -1, 0
	if fd.Type.Results != nil {
		for _, fld := range fd.Type.Results.List {
			t := info.TypeOf(fld.Type)
			k := len(fld.Names)
			if k == 0 {
				k = 1
			}
			for j := 0; j < k; j++ {
				if t != nil && types.Identical(t.Underlying(), env.c.table.Type().Underlying()) {
					tblIdx = nres
					if len(fld.Names) > 0 {
						named = info.Defs[fld.Names[j]]
					}
				} else if t != nil && types.Identical(t, types.Universe.Lookup("error").Type()) {
					errIdx = nres
				}
				nres++
			}
		}
	}
	dom := dominators(g)
	// settle resolves conditional facts at a block: they hold if the block is only reached with the error nil
	settle := func(b *cfg.Block, uf c18UF) c18UF {
		if uf.errv == nil {
			return uf
		}
		if c18KnownNil(info, factsAt(info, g, dom, b), uf.errv) {
			uf.errv = nil
			return uf
		}
		return c18UF{}
	}
	var res c18Flow
	var rv c18Ret
	got, gotRet := false, false
	for _, b := range g.Blocks {
		if !b.Live || !have[b] || len(b.Succs) != 0 || c18IsPanicExit(info, b) {
			continue
		}
		o := outS[b]
		for k, uf := range o.f {
			if uf.errv != nil {
				o = o.with(k, settle(b, uf))
			}
		}
		if !got {
			res, got = o, true
		} else {
			res = res.meet(o)
		}
		if len(b.Nodes) == 0 || tblIdx < 0 {
			continue
		}
		ret, ok := b.Nodes[len(b.Nodes)-1].(*ast.ReturnStmt)
		if !ok {
			continue
		}
		var v c18UF
		switch {
		case len(ret.Results) == nres:
			if errIdx >= 0 && isNilIdent(ast.Unparen(ret.Results[tblIdx])) && !isNilIdent(ast.Unparen(ret.Results[errIdx])) {
				rv.errPath = true // `return nil, err`: no table on this path; the caller has to test the error
				continue
			}
			v = settle(b, fr.value(ret.Results[tblIdx], outS[b]))
		case len(ret.Results) == 0 && named != nil:
			v = o.f[named]
		default:
			continue
		}
		v.grp = nil
		if !gotRet {
			rv.uf, gotRet = v, true
		} else {
			rv.uf = c18UF{u: rv.uf.u && v.u, s: rv.uf.s && v.s}
		}
	}
	if !got {
		return in, c18Ret{}, false
	}
	return res, rv, true
}

// c18KnownNil: the guard facts establish that variable o is nil (`o != nil` false or `o == nil` true).
func c18KnownNil(info *types.Info, facts []guardFact, o types.Object) bool {
	for _, f := range facts {
		l, op, r, ok := cmpNorm(f.expr)
		if !ok {
			continue
		}
		var other ast.Expr
		switch {
		case isNilIdent(ast.Unparen(r)):
			other = l
		case isNilIdent(ast.Unparen(l)):
			other = r
		default:
			continue
		}
		if objOf(info, ast.Unparen(other)) != o {
			continue
		}
		if (op == token.NEQ && !f.val) || (op == token.EQL && f.val) {
			return true
		}
	}
	return false
}

// diagnose records, for every loop over a tracked slice, what the analysis found (used for the failure text).
func (env *c18FlowEnv) diagnose(fr *c18FlowRun, have map[*cfg.Block]bool, inS map[*cfg.Block]c18Flow) {
	info := env.c.info
	for _, l := range fr.loops {
		d := c18LoopDiag{pos: l.stmt.Pos(), everyIter: have[l.head] && inS[l.head].e, onlyHead: fr.onlyHead(l), loaded: have[l.head] && inS[l.head].f[l.over].u}
		if rs, ok := l.stmt.(*ast.RangeStmt); ok && rs.Value != nil {
			d.elem = src(env.r.P.Fset, rs.Value)
		} else if l.key != nil {
			d.elem = l.over.Name() + "[" + l.key.Name() + "]"
		}
		for b := range l.in {
			if c := fr.sortIn[b]; c != nil {
				d.hasSort, d.sortText, d.sortPos = true, src(env.r.P.Fset, c), c.Pos()
			}
		}
		if st, ok := l.stmt.(*ast.RangeStmt); ok && l.val != nil {
			ast.Inspect(st.Body, func(n ast.Node) bool {
				if as, ok := n.(*ast.AssignStmt); ok {
					for _, lh := range as.Lhs {
						if fieldOf(info, lh) == env.c.valsF && rootObj(info, lh) == l.val {
							d.copyAsg = true
						}
					}
				}
				return true
			})
		}
		env.loops = append(env.loops, d)
	}
}
