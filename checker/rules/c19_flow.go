package rules

// c19_flow.go — C19.M7, flow part: narrowing on a missing file through a carrier variable.
//
// "The cursor moves past unprobed sequence numbers only on evidence from a FOUND state" also rules out the indirect
// form: an id is recorded while the probe found no file (`floorID = lowerID` in the `state == nil` branch) and a
// later iteration, in the found-state branch, restarts the cursor from it (`lowerID = floorID`). The write sits in
// a found branch but its value is evidence from a 404. Decided by data flow inside the finder's loop:
//   - carriers: variables (or struct fields) assigned, on the walk "the probe found no file", from the cursor or
//     from another carrier;
//   - a write of the cursor (anywhere in the loop, unit steps of the cursor itself excepted) narrows on missing
//     when its right-hand side reads a carrier whose value may come from an earlier iteration: no definition of
//     that variable lies between the probe and the write on every path (dominance), i.e. the value read is the one
//     recorded under a 404. A variable recomputed in the same iteration before the write (`newID := …; lowerID =
//     newID`) is judged by what it is recomputed from.

import (
	"go/ast"
	"go/token"
	"go/types"
	"sort"
)

// c19FlowVars lists the variables and struct fields an expression reads.
func c19FlowVars(info *types.Info, e ast.Node) []types.Object {
	var out []types.Object
	seen := map[types.Object]bool{}
	ast.Inspect(e, func(n ast.Node) bool {
		switch x := n.(type) {
		case *ast.Ident:
			if v, ok := info.Uses[x].(*types.Var); ok && !seen[v] {
				seen[v] = true
				out = append(out, v)
			}
		}
		return true
	})
	return out
}

// c19DefTarget returns the variable (or field) a statement defines as a whole and the expression it is given
// (nil for ++/--: the old value of the same variable).
func c19DefTargets(info *types.Info, n ast.Node) (targets []types.Object, rhs []ast.Expr) {
	target := func(l ast.Expr) types.Object {
		if f := fieldOf(info, l); f != nil {
			return f
		}
		return objOf(info, l)
	}
	switch s := n.(type) {
	case *ast.AssignStmt:
		for i, l := range s.Lhs {
			t := target(l)
			if t == nil {
				continue
			}
			var r ast.Expr
			if len(s.Lhs) == len(s.Rhs) {
				r = s.Rhs[i]
			} else if len(s.Rhs) == 1 {
				r = s.Rhs[0]
			}
			if s.Tok != token.ASSIGN && s.Tok != token.DEFINE {
				r = &ast.BinaryExpr{X: l, Op: token.ADD, Y: r} // op-assign reads the old value too
			}
			targets, rhs = append(targets, t), append(rhs, r)
		}
	case *ast.IncDecStmt:
		if t := target(s.X); t != nil {
			targets, rhs = append(targets, t), append(rhs, s.X)
		}
	case *ast.ValueSpec:
		for i, nm := range s.Names {
			if o := info.Defs[nm]; o != nil && i < len(s.Values) {
				targets, rhs = append(targets, o), append(rhs, s.Values[i])
			}
		}
	}
	return
}

// c19Carrier is a cursor write that reads an id recorded under a 404.
type c19Carrier struct {
	write   ast.Node
	carrier types.Object
	defined ast.Node // where the carrier was given the 404 id
}

// staleNarrowings finds the cursor writes of the finder's loop that narrow on missing through a carrier variable.
// direct are the cursor writes already reported because they are reached right after a probe that found no file.
func (m *c19Model) staleNarrowings(s *c19Search, direct map[ast.Node]bool) []c19Carrier {
	info := m.info
	F, cur := s.finder, s.fCursor
	g := m.graph(F)
	blk, idx := blockOf(g.g, s.fFetch.Pos())
	if blk == nil {
		return nil
	}
	// carriers: defined on the "found no file" walk from the cursor or another carrier
	carrierDef := map[types.Object]ast.Node{}
	var order []ast.Node
	m.orderWalk(blk, idx, m.nilAtom(s.fS, true), nil, func(n ast.Node) bool {
		order = append(order, n)
		return !c19Overwrites(info, n, s.fS)
	}, nil)
	for changed := true; changed; {
		changed = false
		for _, n := range order {
			ts, rs := c19DefTargets(info, n)
			for i, t := range ts {
				if t == cur || carrierDef[t] != nil || rs[i] == nil {
					continue
				}
				for _, v := range c19FlowVars(info, rs[i]) {
					if v == cur || carrierDef[v] != nil {
						carrierDef[t] = n
						changed = true
						break
					}
				}
			}
		}
	}
	if len(carrierDef) == 0 {
		return nil
	}
	// definitions inside the loop, per variable
	defs := map[types.Object][]ast.Node{}
	defRHS := map[ast.Node]map[types.Object]ast.Expr{}
	for _, b := range g.g.Blocks {
		if !b.Live {
			continue
		}
		for _, n := range b.Nodes {
			if !c19Contains(s.fLoop, n.Pos()) {
				continue
			}
			ts, rs := c19DefTargets(info, n)
			for i, t := range ts {
				defs[t] = append(defs[t], n)
				if defRHS[n] == nil {
					defRHS[n] = map[types.Object]ast.Expr{}
				}
				defRHS[n][t] = rs[i]
			}
		}
	}
	// the value of x read at node `at`: fresh when a definition between the probe and `at` dominates `at`
	var stale func(x types.Object, at ast.Node, depth int) (types.Object, bool)
	stale = func(x types.Object, at ast.Node, depth int) (types.Object, bool) {
		if depth > 4 || x == cur {
			return nil, false
		}
		for _, d := range defs[x] {
			if d == at || !posDominates(g.g, g.dom, s.fFetch.Pos(), d.Pos()) || !posDominates(g.g, g.dom, d.Pos(), at.Pos()) {
				continue
			}
			// recomputed in this iteration: judged by what it is recomputed from
			if rhs := defRHS[d][x]; rhs != nil {
				for _, v := range c19FlowVars(info, rhs) {
					if v == x {
						continue
					}
					if c, ok := stale(v, d, depth+1); ok {
						return c, true
					}
				}
			}
			return nil, false
		}
		if carrierDef[x] != nil {
			return x, true
		}
		return nil, false
	}
	var out []c19Carrier
	for _, b := range g.g.Blocks {
		if !b.Live {
			continue
		}
		for _, n := range b.Nodes {
			if !c19Contains(s.fLoop, n.Pos()) || direct[n] {
				continue
			}
			ts, rs := c19DefTargets(info, n)
			for i, t := range ts {
				if t != cur || rs[i] == nil {
					continue
				}
				if st := c19StepOf(info, n); st != nil && st.v == cur {
					continue
				}
				for _, v := range c19FlowVars(info, rs[i]) {
					if c, ok := stale(v, n, 0); ok {
						out = append(out, c19Carrier{write: n, carrier: c, defined: carrierDef[c]})
						break
					}
				}
			}
		}
	}
	sort.Slice(out, func(i, j int) bool { return out[i].write.Pos() < out[j].write.Pos() })
	return out
}
