package rules

import (
	"fmt"
	"os"
	"strings"

	"osmcheck/core"
)

// c11Dump prints the paths of a function when C11_DUMP names it (debugging aid).
func c11Dump(r *core.R, name string, paths []c11Out) {
	if os.Getenv("C11_DUMP") != name {
		return
	}
	ctl := []string{"normal", "break", "continue", "return", "panic", "back"}
	for i, p := range paths {
		fmt.Fprintf(os.Stderr, "--- path %d %s %s\n", i, ctl[p.ctl], p.loopKey)
		var res []string
		for _, v := range p.res {
			res = append(res, v.key())
		}
		fmt.Fprintf(os.Stderr, "  res: %s\n", strings.Join(res, " | "))
		ai := 0
		for _, e := range p.st.ev {
			for ; ai < e.nas; ai++ {
				fmt.Fprintf(os.Stderr, "  assume %v %s\n", p.st.as[ai].val, p.st.as[ai].atom.key())
			}
			switch e.kind {
			case "call":
				fmt.Fprintf(os.Stderr, "  call  %s   [%s]\n", e.call.key(), e.fr)
			case "store":
				fmt.Fprintf(os.Stderr, "  store %s = %s   [%s]\n", e.lhs.key(), e.rhs.key(), e.fr)
			case "loop":
				var pre []string
				for o, v := range e.pre {
					pre = append(pre, o.Name()+"="+v.key())
				}
				fmt.Fprintf(os.Stderr, "  loop  %s pre{%s}\n", e.key, strings.Join(pre, ", "))
			}
		}
		for ; ai < len(p.st.as); ai++ {
			fmt.Fprintf(os.Stderr, "  assume %v %s\n", p.st.as[ai].val, p.st.as[ai].atom.key())
		}
		for _, n := range p.st.notes {
			fmt.Fprintf(os.Stderr, "  NOTE %s\n", n)
		}
	}
}
