package rules

import (
	"fmt"
	"go/ast"
	"go/token"
	"go/types"
	"strconv"
	"strings"
)

// expr folds an expression.
func (ev *c10Eval) expr(e ast.Expr, env c10Env, depth int) c10Val {
	e = ast.Unparen(e)
	ev.Exprs++
	tv := ev.info.Types[e]
	if v, ok := ev.constVal(tv); ok {
		return v
	}
	switch x := e.(type) {
	case *ast.Ident:
		obj := ev.info.Uses[x]
		if obj == nil {
			obj = ev.info.Defs[x]
		}
		if _, isNil := obj.(*types.Nil); isNil {
			return c10Val{K: c10VNil}
		}
		if v, ok := env[obj]; ok {
			return v
		}
		if ev.errVars[obj] {
			return c10Val{K: c10VErr}
		}
		if f, isFunc := obj.(*types.Func); isFunc && ev.decls[f] != nil && f.Type().(*types.Signature).Recv() == nil {
			return c10Val{K: c10VFunc, Fn: ev.decls[f]}
		}
		if lit, isTable := ev.tableVars()[obj]; isTable {
			return ev.expr(lit, c10Env{}, depth)
		}
		return ev.unknownOf(tv.Type, "value of `"+x.Name+"` is not tracked")
	case *ast.BinaryExpr:
		return ev.binary(x, env, depth)
	case *ast.UnaryExpr:
		a := ev.expr(x.X, env, depth)
		switch x.Op {
		case token.NOT:
			if a.K == c10VBool {
				return c10NotVal(a)
			}
		case token.XOR:
			if a.K == c10VInt {
				return c10IntVal(a.V.not())
			}
		case token.ADD:
			return a
		case token.SUB:
			if a.K == c10VInt {
				if z, ok := c10ConstVec(0, a.V.W, a.V.Signed).sub(a.V); ok {
					return c10IntVal(z)
				}
			}
		case token.AND:
			// pointers are modelled by the value they point to (read-only alias; variables whose address
			// is taken are never reassigned by the interpreter, see execStmt)
			return a
		}
		return ev.unknownOf(tv.Type, "unary "+x.Op.String())
	case *ast.StarExpr:
		pv := ev.expr(x.X, env, depth)
		if pv.K == c10VNil {
			ev.pan = "nil pointer dereference"
		}
		return pv
	case *ast.SelectorExpr:
		if sel := ev.info.Selections[x]; sel != nil && sel.Kind() == types.FieldVal {
			base := ev.expr(x.X, env, depth)
			if base.K == c10VDyn && len(base.Args) == 1 {
				base = base.Args[0]
			}
			if base.K == c10VStruct && len(sel.Index()) == 1 {
				if v, ok := base.Fields[sel.Obj().(*types.Var)]; ok {
					return v
				}
			}
			return ev.unknownOf(tv.Type, "field "+sel.Obj().Name()+" is not an input of the id")
		}
		if o := ev.info.Uses[x.Sel]; o != nil && ev.errVars[o] {
			return c10Val{K: c10VErr}
		}
		return ev.unknownOf(tv.Type, "selector")
	case *ast.IndexExpr:
		base := ev.expr(x.X, env, depth)
		idx := ev.expr(x.Index, env, depth)
		if base.K == c10VSlice && idx.K == c10VInt {
			if i, ok := idx.V.signedConst(); ok {
				if i < 0 || i >= int64(len(base.Args)) {
					ev.pan = fmt.Sprintf("index out of range [%d] with length %d", i, len(base.Args))
					return ev.unknownOf(tv.Type, ev.pan)
				}
				return base.Args[i]
			}
		}
		if ps, isText := c10Pieces(base); isText {
			if pc, off, ok := ev.resolvePos(ps, idx); ok {
				if pc >= len(ps) {
					ev.pan = "index out of range of the string"
					return ev.unknownOf(tv.Type, ev.pan)
				}
				if !c10OpaqueLen(ps[pc]) {
					return c10IntVal(c10ConstVec(uint64(ps[pc].Lit[off]), 8, false))
				}
			}
		}
		if base.K == c10VMap {
			v, found, ok := ev.mapIndex(base, idx)
			if ok {
				if tp, isTuple := tv.Type.(*types.Tuple); isTuple && tp.Len() == 2 {
					return c10Val{K: c10VTuple, Args: []c10Val{v, c10BoolVal(found)}}
				}
				return v
			}
		}
		return ev.unknownOf(tv.Type, "indexed value")
	case *ast.SliceExpr:
		base := ev.expr(x.X, env, depth)
		var lo, hi *c10Val
		if x.Low != nil {
			v := ev.expr(x.Low, env, depth)
			lo = &v
		}
		if x.High != nil {
			v := ev.expr(x.High, env, depth)
			hi = &v
		}
		if ps, isText := c10Pieces(base); isText && !x.Slice3 {
			if v, pan, ok := ev.textSlice(ps, lo, hi); ok {
				if pan != "" {
					ev.pan = pan
					return ev.unknownOf(tv.Type, pan)
				}
				return v
			}
		}
		if base.K == c10VSlice && !x.Slice3 {
			l, h := int64(0), int64(len(base.Args))
			okB := true
			if lo != nil {
				l, okB = lo.V.signedConst()
				okB = okB && lo.K == c10VInt
			}
			if hi != nil && okB {
				h, okB = hi.V.signedConst()
				okB = okB && hi.K == c10VInt
			}
			if okB {
				if l < 0 || h > int64(len(base.Args)) || l > h {
					ev.pan = "slice bounds out of range"
					return ev.unknownOf(tv.Type, ev.pan)
				}
				return c10SliceVal(base.Args[l:h])
			}
		}
		return ev.unknownOf(tv.Type, "slice expression")
	case *ast.CompositeLit:
		return ev.compositeLit(x, env, depth)
	case *ast.FuncLit:
		return c10Val{K: c10VFunc, Lit: x, Cap: env}
	case *ast.TypeAssertExpr:
		if x.Type == nil {
			return ev.unknownOf(tv.Type, "type switch guard")
		}
		v, ok := ev.assert(ev.expr(x.X, env, depth), ev.info.TypeOf(x.Type))
		if tp, isTuple := tv.Type.(*types.Tuple); isTuple && tp.Len() == 2 {
			if v.K == c10VOpaque && !ok {
				return c10Val{K: c10VTuple, Args: []c10Val{v, {K: c10VBool, Tri: -1}}}
			}
			return c10Val{K: c10VTuple, Args: []c10Val{v, c10BoolVal(ok)}}
		}
		if v.K == c10VOpaque {
			return v
		}
		if !ok {
			ev.pan = "type assertion to " + ev.info.TypeOf(x.Type).String() + " fails"
			return ev.unknownOf(tv.Type, ev.pan)
		}
		return v
	case *ast.CallExpr:
		return ev.callExpr(x, env, depth)
	}
	return ev.unknownOf(tv.Type, fmt.Sprintf("%T", e))
}

// assert models x.(T) for an interface value with known dynamic type: (value, holds). An opaque result
// means the dynamic type is unknown.
func (ev *c10Eval) assert(v c10Val, t types.Type) (c10Val, bool) {
	if v.K == c10VNil {
		return c10Val{K: c10VNil}, false
	}
	if v.K != c10VDyn {
		return c10OpaqueVal("dynamic type of the asserted value is not known"), false
	}
	if _, isIface := t.Underlying().(*types.Interface); isIface {
		if types.Implements(v.Dyn, t.Underlying().(*types.Interface)) {
			return v, true
		}
		return ev.zeroOf(t), false
	}
	if types.Identical(v.Dyn, t) {
		return v.Args[0], true
	}
	return ev.zeroOf(t), false
}

func c10NotVal(a c10Val) c10Val {
	out := a
	switch a.Tri {
	case 1:
		out.Tri = 0
	case 0:
		out.Tri = 1
	default:
		if a.Cmp != nil {
			c := *a.Cmp
			c.Neg = !c.Neg
			out.Cmp = &c
		}
	}
	return out
}

// noteStrCmp records the string constant a text is compared with.
func (ev *c10Eval) noteStrCmp(a, b ast.Expr, av, bv c10Val) {
	if ev.cmpStrs == nil {
		return
	}
	if ev.isConstExpr(b) && bv.K == c10VStr && !ev.isConstExpr(a) {
		ev.cmpStrs[bv.S] = true
	}
	if ev.isConstExpr(a) && av.K == c10VStr && !ev.isConstExpr(b) {
		ev.cmpStrs[av.S] = true
	}
}

// noteLenCmp records the constant a slice length is compared with.
func (ev *c10Eval) noteLenCmp(a, b c10Val) {
	for _, p := range [][2]c10Val{{a, b}, {b, a}} {
		if !p[0].Len {
			continue
		}
		if c, ok := p[1].V.signedConst(); ok && p[1].K == c10VInt && !p[1].Len {
			if c < 0 {
				c = -c
			}
			ev.lenConsts = append(ev.lenConsts, c)
		} else if !p[1].Len {
			ev.lenEscapes = "a part count is compared with a value that is not a constant"
		}
	}
}

// eqVals decides a == b: 1, 0, or -1.
func (ev *c10Eval) eqVals(a, b c10Val) int {
	switch {
	case a.K == c10VInt && b.K == c10VInt:
		if a.Tag != "" && b.Tag != "" {
			if r := ev.relOf(a.Tag, b.Tag); r != 2 {
				return map[bool]int{true: 1, false: 0}[r == 0]
			}
			return -1
		}
		return c10VecEq(a.V, b.V)
	case (a.K == c10VStr || a.K == c10VText) && (b.K == c10VStr || b.K == c10VText):
		if b.K == c10VText {
			a, b = b, a
		}
		if b.K == c10VText {
			return -1
		}
		ps, _ := c10Pieces(a)
		return c10TextEq(ps, b.S)
	case a.K == c10VBool && b.K == c10VBool && a.Tri != -1 && b.Tri != -1:
		return map[bool]int{true: 1, false: 0}[a.Tri == b.Tri]
	case a.K == c10VNil && b.K == c10VNil:
		return 1
	case a.K == c10VErr && b.K == c10VNil, a.K == c10VNil && b.K == c10VErr:
		return 0
	case a.K == c10VNil && (b.K == c10VDyn || b.K == c10VStruct), b.K == c10VNil && (a.K == c10VDyn || a.K == c10VStruct):
		return 0
	case a.K == c10VNil && (b.K == c10VInt || b.K == c10VStr || b.K == c10VText), b.K == c10VNil && (a.K == c10VInt || a.K == c10VStr || a.K == c10VText):
		return 0 // a pointer is modelled by the value it points to: it points to something, so it is not nil
	}
	return -1
}

// relOf returns the scenario's order of two tagged keys (2 = unknown).
func (ev *c10Eval) relOf(ta, tb string) int {
	ea, aa, _ := strings.Cut(ta, "|")
	eb, ab, _ := strings.Cut(tb, "|")
	if ev.keysUsed != nil {
		ev.keysUsed[aa] = true
		ev.keysUsed[ab] = true
	}
	if aa != ab {
		return 2
	}
	if ea == eb {
		return 0
	}
	if ev.rel == nil {
		return 2
	}
	return ev.rel(ea, eb)
}

func (ev *c10Eval) binary(x *ast.BinaryExpr, env c10Env, depth int) c10Val {
	tv := ev.info.Types[x]
	switch x.Op {
	case token.LAND, token.LOR:
		a := ev.expr(x.X, env, depth)
		if a.K == c10VBool && a.Tri != -1 {
			if (x.Op == token.LAND) == (a.Tri == 0) {
				return a // short circuit
			}
			return ev.expr(x.Y, env, depth)
		}
		// the right operand is only evaluated speculatively: a panic in it is not definite
		saved := ev.pan
		b := ev.expr(x.Y, env, depth)
		if ev.pan != saved {
			ev.pan = saved
			return c10Val{K: c10VBool, Tri: -1, Why: "right operand may panic"}
		}
		if b.K == c10VBool && b.Tri != -1 && (x.Op == token.LAND) == (b.Tri == 0) {
			return b
		}
		return c10Val{K: c10VBool, Tri: -1}
	}
	a := ev.expr(x.X, env, depth)
	b := ev.expr(x.Y, env, depth)
	if v, ok := ev.posBinary(x.Op, a, b); ok {
		return v
	}
	switch x.Op {
	case token.EQL, token.NEQ:
		ev.noteStrCmp(x.X, x.Y, a, b)
		if a.K == c10VInt && b.K == c10VInt {
			ev.noteLenCmp(a, b)
		}
		tri := ev.eqVals(a, b)
		out := c10Val{K: c10VBool, Tri: tri}
		if tri == -1 {
			out.Cmp = &c10Cmp{Op: token.EQL, L: a, R: b, Neg: x.Op == token.NEQ}
		} else if x.Op == token.NEQ {
			out.Tri = 1 - tri
		}
		return out
	case token.LSS, token.LEQ, token.GTR, token.GEQ:
		if a.K == c10VInt && b.K == c10VInt {
			ev.noteLenCmp(a, b)
			decide := func(c int) c10Val { // c = sign of a-b
				return c10BoolVal(map[token.Token]bool{token.LSS: c < 0, token.LEQ: c <= 0, token.GTR: c > 0, token.GEQ: c >= 0}[x.Op])
			}
			if a.Tag != "" && b.Tag != "" {
				if r := ev.relOf(a.Tag, b.Tag); r != 2 {
					return decide(r)
				}
			}
			ia, oka := a.V.signedConst()
			ib, okb := b.V.signedConst()
			if oka && okb && a.Tag == "" && b.Tag == "" {
				if a.V.Signed || (ia >= 0 && ib >= 0) {
					switch {
					case ia < ib:
						return decide(-1)
					case ia > ib:
						return decide(1)
					}
					return decide(0)
				}
			}
			// a provably non-negative value against a non-positive constant, e.g. strings.Index(..) < 0
			if okb && ib <= 0 && a.V.nonNegative() && a.Tag == "" {
				if ib < 0 {
					return decide(1)
				}
				if x.Op == token.LSS {
					return c10BoolVal(false)
				}
				if x.Op == token.GEQ {
					return c10BoolVal(true)
				}
			}
			if oka && ia <= 0 && b.V.nonNegative() && b.Tag == "" {
				if ia < 0 {
					return decide(-1)
				}
				if x.Op == token.GTR {
					return c10BoolVal(false)
				}
				if x.Op == token.LEQ {
					return c10BoolVal(true)
				}
			}
		}
		return c10Val{K: c10VBool, Tri: -1, Cmp: &c10Cmp{Op: x.Op, L: a, R: b}}
	}
	if x.Op == token.ADD {
		if pa, ok := c10Pieces(a); ok {
			if pb, ok := c10Pieces(b); ok {
				return c10MkText(append(append([]c10Piece{}, pa...), pb...))
			}
		}
	}
	if a.K != c10VInt || b.K != c10VInt {
		return ev.unknownOf(tv.Type, "operand of "+x.Op.String()+" is not an integer the domain tracks")
	}
	if a.Len || b.Len {
		other := b
		if b.Len {
			other = a
		}
		c, isConst := other.V.signedConst()
		if (x.Op == token.ADD || x.Op == token.SUB) && isConst && !other.Len {
			if c < 0 {
				c = -c
			}
			ev.lenConsts = append(ev.lenConsts, c)
		} else {
			ev.lenEscapes = "a part count is used in arithmetic other than ± a constant"
		}
	}
	keepLen := func(v c10Val) c10Val { v.Len = a.Len || b.Len; return v }
	switch x.Op {
	case token.OR:
		return c10IntVal(a.V.or(b.V))
	case token.AND:
		return c10IntVal(a.V.and(b.V))
	case token.XOR:
		return c10IntVal(a.V.xor(b.V))
	case token.AND_NOT:
		return c10IntVal(a.V.andNot(b.V))
	case token.ADD:
		return keepLen(c10IntVal(a.V.add(b.V)))
	case token.SUB:
		if v, ok := a.V.sub(b.V); ok {
			return keepLen(c10IntVal(v))
		}
	case token.SHL, token.SHR:
		if u, ok := b.V.constant(); ok && u < 64 {
			if x.Op == token.SHL {
				return c10IntVal(a.V.shl(int(u)))
			}
			return c10IntVal(a.V.shr(int(u)))
		}
	case token.MUL, token.QUO, token.REM:
		// by a constant power of two: a shift / a mask (division and remainder only for non-negative values,
		// where Go's truncated division agrees with the shift)
		pv, cv := a, b
		if _, isConst := a.V.constant(); isConst && x.Op == token.MUL {
			if _, bConst := b.V.constant(); !bConst {
				pv, cv = b, a
			}
		}
		if u, ok := cv.V.constant(); ok && u != 0 && u&(u-1) == 0 && u>>62 == 0 {
			k := 0
			for u>>uint(k) != 1 {
				k++
			}
			switch {
			case x.Op == token.MUL:
				return c10IntVal(pv.V.shl(k))
			case x.Op == token.QUO && pv.V.nonNegative():
				return c10IntVal(pv.V.shr(k))
			case x.Op == token.REM && pv.V.nonNegative():
				return c10IntVal(pv.V.and(c10ConstVec(u-1, pv.V.W, pv.V.Signed)))
			}
		}
		if ac, ok := a.V.signedConst(); ok {
			if bc, ok := b.V.signedConst(); ok && a.V.Signed && (x.Op == token.MUL || bc != 0) {
				r := map[token.Token]int64{token.MUL: ac * bc}[x.Op]
				if x.Op == token.QUO {
					r = ac / bc
				} else if x.Op == token.REM {
					r = ac % bc
				}
				return c10IntVal(c10ConstVec(uint64(r), a.V.W, true))
			}
		}
	}
	return ev.unknownOf(tv.Type, "operator "+x.Op.String()+" has no transfer function for these operands")
}

// sprintf renders a constant format with plain verbs into a text.
func (ev *c10Eval) sprintf(format string, args []c10Val) c10Val {
	var ps []c10Piece
	k := 0
	for i := 0; i < len(format); i++ {
		if format[i] != '%' {
			ps = append(ps, c10Piece{Lit: string(format[i])})
			continue
		}
		if i+1 >= len(format) {
			return c10OpaqueVal("format ends in %")
		}
		verb := format[i+1]
		i++
		if verb == '%' {
			ps = append(ps, c10Piece{Lit: "%"})
			continue
		}
		if !strings.ContainsRune("sdv", rune(verb)) {
			return c10OpaqueVal(fmt.Sprintf("format verb %%%c is not one of %%s %%d %%v", verb))
		}
		if k >= len(args) {
			return c10OpaqueVal("format has more verbs than arguments")
		}
		a := args[k]
		k++
		switch {
		case (a.K == c10VStr || a.K == c10VText) && verb != 'd':
			if a.K == c10VStr && c10IsGeneric(a.S) {
				return c10OpaqueVal("formatting a generic text")
			}
			p, _ := c10Pieces(a)
			ps = append(ps, p...)
		case a.K == c10VInt && verb != 's' && a.Tag == "":
			p, _ := c10Pieces(c10DecText(a.V))
			ps = append(ps, p...)
		default:
			return c10OpaqueVal(fmt.Sprintf("argument %d of the format (%s) cannot be rendered with %%%c", k, a, verb))
		}
	}
	if k != len(args) {
		return c10OpaqueVal("format has fewer verbs than arguments")
	}
	return c10MkText(ps)
}

// parseNum is the transfer function of strconv.ParseInt / ParseUint / Atoi.
func (ev *c10Eval) parseNum(call *ast.CallExpr, fn *types.Func, args []c10Val) c10Val {
	t64 := types.Typ[types.Int64]
	signed := true
	switch fn.Name() {
	case "ParseUint":
		t64, signed = types.Typ[types.Uint64], false
	case "Atoi":
		t64 = types.Typ[types.Int]
	}
	w, _, _ := ev.intType(t64)
	tuple := func(v c10Val, err c10Val) c10Val { return c10Val{K: c10VTuple, Args: []c10Val{v, err}} }
	fail := func() c10Val { return tuple(c10IntVal(c10ConstVec(0, w, signed)), c10Val{K: c10VErr}) }
	unknown := func(why string) c10Val {
		return tuple(ev.unknownOf(t64, why), c10OpaqueVal(why))
	}
	base, bits := int64(10), int64(0)
	known := true
	if fn.Name() != "Atoi" {
		if len(args) != 3 {
			return unknown("strconv call shape")
		}
		b, okb := args[1].V.signedConst()
		s, oks := args[2].V.signedConst()
		if args[1].K != c10VInt || args[2].K != c10VInt || !okb || !oks {
			known = false
		}
		base, bits = b, s
	}
	if bits == 0 {
		bits = int64(w) // the platform int for Atoi / bitSize 0
		if fn.Name() != "Atoi" {
			iw, _, _ := ev.intType(types.Typ[types.Int])
			bits = int64(iw)
		}
	}
	ps, ok := c10Pieces(args[0])
	if !ok {
		return unknown("the parsed text is not tracked")
	}
	if args[0].K == c10VStr {
		s := args[0].S
		if c10IsGeneric(s) {
			return fail() // stands for text that is not a number
		}
		if !known {
			return unknown("non-constant base or bit size")
		}
		if signed {
			v, err := strconv.ParseInt(s, int(base), int(bits))
			if err != nil {
				return fail()
			}
			return tuple(c10IntVal(c10ConstVec(uint64(v), w, true)), c10Val{K: c10VNil})
		}
		v, err := strconv.ParseUint(s, int(base), int(bits))
		if err != nil {
			return fail()
		}
		return tuple(c10IntVal(c10ConstVec(v, w, false)), c10Val{K: c10VNil})
	}
	if len(ps) == 1 && ps[0].Num != nil {
		v := *ps[0].Num
		pc := c10ParseCall{Call: call, Fn: fn.Name(), V: v, Base: base, Bits: bits, Signed: signed, Known: known}
		ev.parses = append(ev.parses, pc)
		need := int64(v.highLane() + 1)
		if signed {
			need++
		}
		switch {
		case !known:
			return unknown("non-constant base or bit size")
		case base != 10:
			return unknown(fmt.Sprintf("decimal text is parsed with base %d", base))
		case !v.nonNegative() && !signed:
			return unknown("a possibly negative number is parsed as unsigned")
		case bits < need:
			return unknown(fmt.Sprintf("the number needs %d bits, the parse accepts %d", need, bits))
		}
		return tuple(c10IntVal(v.convert(w, signed)), c10Val{K: c10VNil})
	}
	// a mix of literal text and numbers: a syntax error as soon as a literal holds a non-digit
	for i, p := range ps {
		if p.Num != nil {
			continue
		}
		for j, ch := range p.Lit {
			if ch >= '0' && ch <= '9' {
				continue
			}
			if i == 0 && j == 0 && (ch == '+' || ch == '-') && len(p.Lit) > 1 {
				continue
			}
			if ch == '_' && base == 0 {
				return unknown("underscore with base 0")
			}
			return fail()
		}
	}
	return unknown("digits adjacent to a symbolic number")
}

// stringsCall holds the transfer functions of package strings.
func (ev *c10Eval) stringsCall(fn *types.Func, args []c10Val, t types.Type) (c10Val, bool) {
	if len(args) < 2 {
		return c10Val{}, false
	}
	if v, ok := ev.stringsPosCall(fn, args); ok {
		return v, true
	}
	if fn.Name() == "Join" && args[0].K == c10VSlice && args[1].K == c10VStr {
		var all []c10Piece
		for i, el := range args[0].Args {
			q, ok := c10Pieces(el)
			if !ok || (el.K == c10VStr && c10IsGeneric(el.S)) {
				return c10Val{}, false
			}
			if i > 0 {
				all = append(all, c10Piece{Lit: args[1].S})
			}
			all = append(all, q...)
		}
		return c10MkText(all), true
	}
	ps, ok := c10Pieces(args[0])
	if !ok || args[1].K != c10VStr || !c10SepOK(args[1].S) {
		return c10Val{}, false
	}
	sep := args[1].S
	for _, p := range ps {
		// a generic piece stands for any text free of the property's two separators; nothing is known about
		// other substrings of it
		if p.Num == nil && c10IsGeneric(p.Lit) && sep != c10Sep1 && sep != c10Sep2 {
			return c10Val{}, false
		}
	}
	mk := func(parts [][]c10Piece) c10Val {
		var el []c10Val
		for _, p := range parts {
			el = append(el, c10MkText(p))
		}
		return c10SliceVal(el)
	}
	switch fn.Name() {
	case "Split":
		return mk(c10SplitPieces(ps, sep, 0)), true
	case "SplitN":
		if len(args) != 3 || args[2].K != c10VInt {
			return c10Val{}, false
		}
		n, ok := args[2].V.signedConst()
		if !ok {
			return c10Val{}, false
		}
		if n == 0 {
			return c10SliceVal(nil), true
		}
		if n < 0 {
			n = 0
		}
		return mk(c10SplitPieces(ps, sep, int(n))), true
	case "Cut":
		parts := c10SplitPieces(ps, sep, 2)
		if len(parts) == 1 {
			return c10Val{K: c10VTuple, Args: []c10Val{c10MkText(parts[0]), c10StrVal(""), c10BoolVal(false)}}, true
		}
		return c10Val{K: c10VTuple, Args: []c10Val{c10MkText(parts[0]), c10MkText(parts[1]), c10BoolVal(true)}}, true
	case "Contains":
		return c10BoolVal(len(c10SplitPieces(ps, sep, 0)) > 1), true
	case "Count":
		w, s, _ := ev.intType(types.Typ[types.Int])
		v := c10IntVal(c10ConstVec(uint64(len(c10SplitPieces(ps, sep, 0))-1), w, s))
		v.Len = true
		return v, true
	}
	return c10Val{}, false
}

func (ev *c10Eval) callExpr(call *ast.CallExpr, env c10Env, depth int) c10Val {
	tv := ev.info.Types[call]
	// conversion
	if ftv, ok := ev.info.Types[call.Fun]; ok && ftv.IsType() && len(call.Args) == 1 {
		a := ev.expr(call.Args[0], env, depth)
		if w, s, ok := ev.intType(ftv.Type); ok {
			if a.K == c10VInt {
				out := c10IntVal(a.V.convert(w, s))
				if w >= a.V.W && s == a.V.Signed {
					out.Tag = a.Tag // same integer order
				}
				out.Len = a.Len
				if w >= a.V.W {
					out.Pos = a.Pos
				}
				return out
			}
			return ev.unknownOf(ftv.Type, "conversion of a non-integer")
		}
		if ev.isString(ftv.Type) && (a.K == c10VStr || a.K == c10VText) {
			a.Bytes = false // string(b) copies the bytes
			return a
		}
		if ev.isString(ftv.Type) {
			if ps, ok := c10BytesOf(a); ok {
				return c10MkText(ps)
			}
		}
		if c10IsByteSlice(ftv.Type) && (a.K == c10VStr || a.K == c10VText) {
			a.Bytes = true // []byte(s) copies the text
			return a
		}
		switch ftv.Type.Underlying().(type) {
		case *types.Slice:
			if a.K == c10VSlice || a.K == c10VNil {
				return a
			}
		case *types.Pointer:
			if a.K == c10VNil || a.K == c10VStruct {
				return a
			}
		case *types.Interface:
			return a
		}
		return ev.unknownOf(ftv.Type, "conversion to "+ftv.Type.String())
	}
	switch builtinName(ev.info, call) {
	case "len":
		if len(call.Args) == 1 {
			a := ev.expr(call.Args[0], env, depth)
			w, s, _ := ev.intType(types.Typ[types.Int])
			switch {
			case a.K == c10VSlice:
				v := c10IntVal(c10ConstVec(uint64(len(a.Args)), w, s))
				v.Len = true
				return v
			case a.K == c10VNil:
				return c10IntVal(c10ConstVec(0, w, s))
			case a.K == c10VStr && !c10IsGeneric(a.S):
				return c10IntVal(c10ConstVec(uint64(len(a.S)), w, s))
			case a.K == c10VStr || a.K == c10VText:
				ps, _ := c10Pieces(a)
				return ev.posVal(ps, len(ps), 0) // the end of the text as a cut point
			}
			v := ev.unknownOf(types.Typ[types.Int], "length of an untracked value")
			v.V.L[63] = c10Lane{} // lengths are non-negative
			v.V = v.V.norm()
			return v
		}
	case "append":
		var args []c10Val
		for _, a := range call.Args {
			args = append(args, ev.expr(a, env, depth))
		}
		if c10IsByteSlice(tv.Type) {
			if v, ok := ev.appendBytes(args, call.Ellipsis.IsValid()); ok {
				return v
			}
		}
		if len(args) > 0 && (args[0].K == c10VSlice || args[0].K == c10VNil) && !call.Ellipsis.IsValid() {
			return c10SliceVal(append(append([]c10Val{}, args[0].Args...), args[1:]...))
		}
		if len(args) == 2 && call.Ellipsis.IsValid() && (args[0].K == c10VSlice || args[0].K == c10VNil) && (args[1].K == c10VSlice || args[1].K == c10VNil) {
			return c10SliceVal(append(append([]c10Val{}, args[0].Args...), args[1].Args...))
		}
		return ev.unknownOf(tv.Type, "append to an untracked slice")
	case "make":
		if v, ok := ev.makeCall(call, env, depth); ok {
			return v
		}
		return ev.unknownOf(tv.Type, "make with a non-constant size")
	case "panic":
		for _, a := range call.Args {
			ev.expr(a, env, depth)
		}
		ev.pan = "explicit panic"
		return c10OpaqueVal("panic")
	case "":
	default:
		return ev.unknownOf(tv.Type, "builtin "+builtinName(ev.info, call))
	}
	if v, ok := ev.builderExpr(call, env); ok {
		return v
	}
	fn := callee(ev.info, call)
	if fn == nil {
		// a function literal held in a local variable (or invoked in place): interpret its body in the
		// environment it captured; it must not assign to captured variables (see assignTo)
		if fv := ev.expr(call.Fun, env, depth); fv.K == c10VFunc && !call.Ellipsis.IsValid() {
			var as []c10Val
			for _, a := range call.Args {
				as = append(as, ev.expr(a, env, depth))
			}
			return ev.finishCall(ev.callLit(fv, as, depth+1), "the function literal", tv.Type)
		}
	}
	var args []c10Val
	evalArgs := func() {
		if args == nil {
			for _, a := range call.Args {
				args = append(args, ev.expr(a, env, depth))
			}
		}
	}
	switch {
	case isPkgFunc(fn, "fmt", "Sprintf") && len(call.Args) >= 1:
		evalArgs()
		if args[0].K != c10VStr {
			return c10OpaqueVal("Sprintf format is not a constant")
		}
		return ev.sprintf(args[0].S, args[1:])
	case isPkgFunc(fn, "fmt", "Errorf"), isPkgFunc(fn, "errors", "New"):
		evalArgs()
		return c10Val{K: c10VErr}
	case fn != nil && fn.Pkg() != nil && fn.Pkg().Path() == "strconv" && fn.Type().(*types.Signature).Recv() == nil:
		evalArgs()
		switch fn.Name() {
		case "ParseInt", "ParseUint", "Atoi":
			if len(args) >= 1 {
				return ev.parseNum(call, fn, args)
			}
		case "AppendInt", "AppendUint":
			if v, ok := ev.strconvAppend(fn.Name(), args); ok {
				return v
			}
		case "Itoa":
			if len(args) == 1 && args[0].K == c10VInt && args[0].Tag == "" {
				return c10DecText(args[0].V)
			}
		case "FormatInt", "FormatUint":
			if len(args) == 2 && args[0].K == c10VInt && args[0].Tag == "" && args[1].K == c10VInt {
				if b, ok := args[1].V.signedConst(); ok && b == 10 {
					return c10DecText(args[0].V)
				}
			}
		}
	case fn != nil && fn.Pkg() != nil && fn.Pkg().Path() == "sort" && fn.Type().(*types.Signature).Recv() == nil:
		if v, ok := ev.sortCall(call, fn.Name(), env, depth); ok {
			return v
		}
	case fn != nil && fn.Pkg() != nil && fn.Pkg().Path() == "strings" && fn.Type().(*types.Signature).Recv() == nil:
		evalArgs()
		if v, ok := ev.stringsCall(fn, args, tv.Type); ok {
			return v
		}
	}
	// in-package functions and methods, dynamic dispatch on known dynamic types
	var recv *c10Val
	target := fn
	if sel, ok := ast.Unparen(call.Fun).(*ast.SelectorExpr); ok && fn != nil && fn.Type().(*types.Signature).Recv() != nil {
		rv := ev.expr(sel.X, env, depth)
		if rv.K == c10VDyn {
			if obj, _, _ := types.LookupFieldOrMethod(rv.Dyn, true, ev.pk.Types, fn.Name()); obj != nil {
				if f, ok := obj.(*types.Func); ok {
					target = f
					rv = rv.Args[0]
				}
			}
		}
		recv = &rv
		if ev.decls[target] == nil && rv.Tag != "" && len(call.Args) == 0 {
			// an accessor of an opaque sort element (interface method): an opaque key of that element
			out := ev.unknownOf(tv.Type, "key "+fn.FullName()+" of an abstract element")
			elem, _, _ := strings.Cut(rv.Tag, "|")
			out.Tag = elem + "|" + fn.FullName()
			return out
		}
	}
	if fd := ev.decls[target]; fd != nil {
		evalArgs()
		if call.Ellipsis.IsValid() || fd.Type.Params.NumFields() != len(args) {
			return ev.unknownOf(tv.Type, "variadic call of "+funcName(target))
		}
		return ev.finishCall(ev.call(fd, recv, args, depth+1), funcName(target), tv.Type)
	}
	evalArgs()
	name := "call"
	if fn != nil {
		name = "call of " + fn.FullName()
	}
	return ev.unknownOf(tv.Type, name+" is not interpreted")
}

// callLit interprets a function literal value.
func (ev *c10Eval) callLit(fv c10Val, args []c10Val, depth int) []c10Outcome {
	if fv.Fn != nil {
		return ev.call(fv.Fn, nil, args, depth)
	}
	ev.litStack = append(ev.litStack, fv.Lit)
	defer func() { ev.litStack = ev.litStack[:len(ev.litStack)-1] }()
	return ev.callBody(fv.Lit.Type, fv.Lit.Body, fv.Cap, args, depth)
}

// finishCall turns the outcomes of an inlined callee into the value of the call expression.
func (ev *c10Eval) finishCall(outs []c10Outcome, name string, t types.Type) c10Val {
	if o, ok := ev.forkCallee(outs); ok {
		outs = []c10Outcome{o}
	}
	if len(outs) == 1 && !outs[0].Panic && outs[0].Unsupported == "" {
		switch len(outs[0].Res) {
		case 0:
			return c10Val{K: c10VTuple}
		case 1:
			return outs[0].Res[0]
		}
		return c10Val{K: c10VTuple, Args: outs[0].Res}
	}
	why := fmt.Sprintf("%s has %d outcomes on this input", name, len(outs))
	allPanic := len(outs) > 0
	for _, o := range outs {
		if o.Unsupported != "" {
			why = name + ": " + o.Unsupported
		}
		if !o.Panic {
			allPanic = false
		}
	}
	if allPanic {
		why = name + " panics on this input"
		ev.pan = why
	}
	return ev.unknownOf(t, why)
}
