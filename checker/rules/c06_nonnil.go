package rules

import (
	"fmt"
	"go/ast"
	"go/token"
	"go/types"

	"osmcheck/core"
)

// c06KnownNonNil decides whether expression e is certainly non-nil at pos in f:
//   - the branch conditions controlling pos establish `e != nil` (for e itself, or for the expression a local that is
//     defined once was read from, and the other way round);
//   - e is a fresh allocation (or a local defined once from one);
//   - e is a parameter of the function and every call site of the function passes a value known non-nil there.
func c06KnownNonNil(p *core.Program, f *c01Fn, e ast.Expr, pos token.Pos, depth int) (bool, string) {
	info := f.info
	e = ast.Unparen(e)
	facts := f.factsAtPos(pos)
	if ft := knownNonNil(facts, func(y ast.Expr) bool { return c06SameValue(info, f.body, y, f.body, e) }); ft != nil {
		return true, fmt.Sprintf("`%s` is %v on every path", types.ExprString(ft.expr), ft.val)
	}
	xe := ast.Unparen(c01Expand(info, f.body, e))
	if ue, ok := xe.(*ast.UnaryExpr); ok && ue.Op == token.AND {
		if _, isLit := ast.Unparen(ue.X).(*ast.CompositeLit); isLit {
			return true, "a freshly allocated message"
		}
	}
	if call, ok := xe.(*ast.CallExpr); ok && builtinName(info, call) == "new" {
		return true, "a freshly allocated message"
	}
	if id, ok := xe.(*ast.Ident); ok && depth < 3 {
		o := objOf(info, id)
		if idx := c01ParamIndex(info, f.fi, o); idx >= 0 && len(c01Defs(info, f.body, o)) == 0 && f.body == f.fi.Decl.Body {
			n, all := 0, true
			var where []string
			for _, caller := range allFuncs(f.pk) {
				cf0 := c01FnOf(p, caller)
				ast.Inspect(caller.Decl.Body, func(x ast.Node) bool {
					call, ok := x.(*ast.CallExpr)
					if !ok || callee(info, call) != f.fi.Obj || idx >= len(call.Args) {
						return true
					}
					n++
					ok2, why := c06KnownNonNil(p, cf0.innermost(call), call.Args[idx], call.Pos(), depth+1)
					if !ok2 {
						all = false
					}
					where = append(where, caller.Name()+": "+why)
					return true
				})
			}
			if n > 0 && all {
				return true, fmt.Sprintf("parameter %s, non-nil at every call site (%v)", o.Name(), where)
			}
			return false, fmt.Sprintf("parameter %s is not known non-nil at every call site", o.Name())
		}
	}
	return false, "no controlling condition establishes `" + types.ExprString(e) + " != nil`"
}
