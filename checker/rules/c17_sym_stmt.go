package rules

import (
	"go/ast"
	"go/token"
)

// statements of the symbolic interpreter (c17_sym.go)

// block runs the statements; next is called for every path that falls off the end, ret for every return.
func (s *c17Sym) block(list []ast.Stmt, env c17Env, next func(c17Env), ret func([]c17SV)) {
	if len(list) == 0 {
		next(env)
		return
	}
	s.stmt(list[0], env, func(e c17Env) { s.block(list[1:], e, next, ret) }, ret)
}

func (s *c17Sym) assign(lhs ast.Expr, v c17SV, env c17Env) {
	switch x := ast.Unparen(lhs).(type) {
	case *ast.Ident:
		if o := objOf(s.a.info, x); o != nil {
			env[o] = v
		}
	case *ast.IndexExpr:
		// list[i] = point (presized and indexed instead of appended); lists are values here, aliases are not modelled
		id, ok := ast.Unparen(x.X).(*ast.Ident)
		if !ok {
			return
		}
		o := objOf(s.a.info, id)
		l, i := env[o], s.eval(x.Index, env)
		if o == nil || l.kind != c17List {
			return
		}
		if i.kind != c17Int || v.kind != c17Tok {
			env[o] = c17SV{}
			return
		}
		if i.i < 0 || i.i >= int64(len(l.list)) {
			panic(c17Panic{x})
		}
		nl := append([]string{}, l.list...)
		nl[i.i] = v.tok
		env[o] = c17SV{kind: c17List, list: nl}
	}
}

// copyInto models copy(dst, src) for a destination held in a variable.
func (s *c17Sym) copyInto(call *ast.CallExpr, env c17Env) {
	if len(call.Args) != 2 {
		return
	}
	id, ok := ast.Unparen(call.Args[0]).(*ast.Ident)
	if !ok {
		return
	}
	o := objOf(s.a.info, id)
	dst, src := env[o], s.eval(call.Args[1], env)
	if o == nil || dst.kind != c17List {
		return
	}
	if src.kind != c17List {
		env[o] = c17SV{}
		return
	}
	nl := append([]string{}, dst.list...)
	copy(nl, src.list)
	env[o] = c17SV{kind: c17List, list: nl}
}

func (s *c17Sym) stmt(st ast.Stmt, env c17Env, next func(c17Env), ret func([]c17SV)) {
	info := s.a.info
	s.paths++
	if s.paths > 4000 {
		s.gaveUp = append(s.gaveUp, st)
		return
	}
	defer func() {
		if r := recover(); r != nil {
			if p, ok := r.(c17Panic); ok {
				s.panics = append(s.panics, p.at)
				return
			}
			panic(r)
		}
	}()
	switch x := st.(type) {
	case *ast.BlockStmt:
		s.block(x.List, env, next, ret)
	case *ast.ExprStmt:
		s.eval(x.X, env)
		if call, ok := x.X.(*ast.CallExpr); ok {
			switch builtinName(info, call) {
			case "panic":
				return
			case "copy":
				s.copyInto(call, env)
			}
		}
		next(env)
	case *ast.EmptyStmt:
		next(env)
	case *ast.DeclStmt:
		if gd, ok := x.Decl.(*ast.GenDecl); ok && gd.Tok == token.VAR {
			for _, sp := range gd.Specs {
				vs := sp.(*ast.ValueSpec)
				for i, nm := range vs.Names {
					v := c17SV{}
					if len(vs.Values) == len(vs.Names) {
						v = s.eval(vs.Values[i], env)
					}
					if o := info.Defs[nm]; o != nil {
						env[o] = v
					}
				}
			}
		}
		next(env)
	case *ast.AssignStmt:
		if len(x.Lhs) == len(x.Rhs) && (x.Tok == token.ASSIGN || x.Tok == token.DEFINE) {
			vals := make([]c17SV, len(x.Rhs))
			for i, r := range x.Rhs {
				vals[i] = s.eval(r, env)
			}
			for i, l := range x.Lhs {
				s.assign(l, vals[i], env)
			}
		} else {
			for _, r := range x.Rhs {
				s.eval(r, env)
			}
			for _, l := range x.Lhs {
				s.assign(l, s.opaque(info.TypeOf(l)), env)
			}
		}
		next(env)
	case *ast.IncDecStmt:
		s.assign(x.X, c17SV{}, env)
		next(env)
	case *ast.ReturnStmt:
		var vals []c17SV
		for _, r := range x.Results {
			vals = append(vals, s.eval(r, env))
		}
		ret(vals)
	case *ast.IfStmt:
		run := func(e c17Env) {
			c := s.eval(x.Cond, e)
			thenB := func(e2 c17Env) { s.block(x.Body.List, e2, next, ret) }
			elseB := func(e2 c17Env) {
				if x.Else != nil {
					s.stmt(x.Else, e2, next, ret)
				} else {
					next(e2)
				}
			}
			switch {
			case c.kind == c17Bool && c.b:
				thenB(e)
			case c.kind == c17Bool:
				elseB(e)
			default:
				thenB(e.clone())
				elseB(e.clone())
			}
		}
		if x.Init != nil {
			s.stmt(x.Init, env, run, ret)
		} else {
			run(env)
		}
	case *ast.SwitchStmt:
		s.switchStmt(x, env, next, ret)
	case *ast.ForStmt, *ast.RangeStmt:
		// not entered: whatever the loop assigns is unknown afterwards
		ast.Inspect(x, func(n ast.Node) bool {
			switch y := n.(type) {
			case *ast.AssignStmt:
				for _, l := range y.Lhs {
					s.assign(l, c17SV{}, env)
				}
			case *ast.IncDecStmt:
				s.assign(y.X, c17SV{}, env)
			case *ast.CompositeLit:
				if namedPath(info.TypeOf(y)) == c17PolygonPath && len(y.Elts) == 1 {
					s.gaveUp = append(s.gaveUp, st) // a ring built inside a loop is not followed
				}
			}
			return true
		})
		next(env)
	default:
		s.gaveUp = append(s.gaveUp, st)
	}
}
