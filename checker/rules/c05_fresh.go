package rules

import (
	"go/token"
	"go/types"

	"osmcheck/core"
)

// C05.J9: fresh decode targets in the JSON readers (the twin of C03.T6).
//
// encoding/json (and any codec that follows its contract) decodes INTO the value it is handed: entries already in a
// non-nil map stay, elements of a reused slice keep the fields the document does not mention, and a decode that fails
// half way leaves what it wrote so far. A reader may therefore only hand the codec a target that was created in the
// same call (a zero value, a fresh make / literal / new) - or the receiver itself, whose previous contents are the
// caller's business - and may only overwrite field by field elements of a slice it created itself. Observed on the
// explored paths of every UnmarshalJSON method of package osm:
//   - a target read from a package-level variable, or built on the receiver's previous storage, is a violation;
//   - a target obtained from code that is not entered (a pool's Get) is of unknown origin: undecided - and a
//     violation when a path hands the same value back to a package-level object (Put) without having emptied it
//     (no delete / clear on it on that path): the next user of the shared storage inherits what this call decoded;
//   - a field-wise store into an element of a slice that was not created in this call is a violation.

// c05Origin classifies where a decode target's storage comes from: "" = created in this call.
func c05Origin(st *c03State, v *c03V, recv types.Object, depth int) (retained, unknown string) {
	if v == nil {
		return "", ""
	}
	if depth > 6 {
		return "", "a value of unknown origin"
	}
	if v.Shared != nil {
		return "the package-level variable " + v.Shared.Name(), ""
	}
	switch v.K {
	case c03KNil, c03KStr, c03KInt, c03KBool, c03KStruct, c03KPtr:
		return "", ""
	case c03KAddr:
		if pv, ok := v.Var.(*types.Var); ok && pv.Pkg() != nil && pv.Parent() == pv.Pkg().Scope() {
			return "the package-level variable " + pv.Name(), ""
		}
		return c05Origin(st, st.Pointee(v), recv, depth+1)
	case c03KList:
		if v.Base == nil {
			return "", ""
		}
		return c05Origin(st, v.Base, recv, depth+1)
	case c03KInit:
		switch v.Root.Kind {
		case "decoded":
			return "", "" // produced by an earlier decode of this call
		case "elem", "key", "assert":
			return c05Origin(st, v.Root.Of, recv, depth+1)
		case "global":
			return "the package-level variable " + v.Root.Obj.Name(), ""
		case "param":
			if v.Root.Obj == recv {
				return "the receiver's previous contents (" + v.PathString() + ")", ""
			}
			return "", "" // data handed in by the caller (the bytes to decode)
		}
	case c03KUnk:
		if v.Fn == nil && len(v.From) == 0 {
			return "", ""
		}
		for _, f := range v.From {
			if r, _ := c05Origin(st, f, recv, depth+1); r != "" {
				if v.Fn != nil {
					return "", "the result of " + funcName(v.Fn) + " on " + r
				}
				return r, ""
			}
		}
		if v.Fn != nil && v.Call != nil {
			return "", "the result of " + funcName(v.Fn)
		}
		return "", ""
	}
	return "", ""
}

func c05J9(r *core.R) {
	c03Init(r)
	pk := c03OsmPkg(r.P)
	cx := c05NewCodec(r.P)
	n := 0
	var v c04Verdicts
	for _, fi := range allFuncs(pk) {
		sig := fi.Obj.Type().(*types.Signature)
		if fi.Obj.Name() != "UnmarshalJSON" || sig.Recv() == nil {
			continue
		}
		root := c05FuncLabel(fi)
		c := "fresh@" + root
		x, paths := cx.run(fi, c05Scen{Tag: "fresh targets", Errors: true})
		nops := 0
		var okPos token.Pos
		for _, pa := range paths {
			tr := pa.St.Trace
			for i := range tr {
				e := &tr[i]
				// a field-wise store into an element of a slice this call did not create
				var slice *c03V
				switch {
				case e.Kind == "store" && len(e.Field) > 0 && e.Target != nil && e.Target.IsInit("elem"):
					slice = e.Target.Root.Of // x[i].F = v through a pointer-like element
				case e.Kind == "store" && e.Why == "indexed store" && e.Val != nil && e.Val.K == c03KStruct && e.Val.Base != nil && e.Val.Base.IsInit("elem"):
					slice = e.Target // x[i].F = v as an update of the element x[i]
				}
				if slice != nil {
					if ret, _ := c05Origin(pa.St, slice, sig.Recv(), 0); ret != "" {
						v.bad(c, e.Node.Pos(), "`%s` overwrites one field of an element of %s: the other fields of that element survive from before the call, so the decoded value is a mix of the document and the previous contents", src(r.P.Fset, e.Node), ret)
					}
				}
			}
			for _, op := range cx.ops(pa) {
				if op.dir != "unmarshal" {
					continue
				}
				nops++
				okPos = op.ev.Node.Pos()
				target := op.operand
				if target.K == c03KAddr {
					target = op.pointee
				}
				if target == nil || (op.operand.IsInit("param") && op.operand.Root.Obj == sig.Recv() && len(op.operand.Path) == 0) {
					continue // the receiver itself: decoding into the value being unmarshalled
				}
				ret, unk := c05Origin(pa.St, target, sig.Recv(), 0)
				call := src(r.P.Fset, op.ev.Call)
				switch {
				case ret != "":
					v.bad(c, op.ev.Node.Pos(), "`%s` decodes into %s: the codec fills the value it is handed (existing map entries stay, reused elements keep the fields the document lacks, a failed decode leaves what it wrote), so what is decoded depends on earlier calls", call, ret)
				case unk != "":
					// handed back to shared storage on this path without having been emptied?
					back, emptied := "", false
					for i := range pa.St.Trace {
						e := &pa.St.Trace[i]
						if e.Kind == "builtin" && (e.Why == "delete" || e.Why == "clear") && len(e.Args) > 0 {
							a := e.Args[0]
							if (a.Key != "" && a.Key == target.Key) || (a.IsInit("decoded") && op.operand.K == c03KAddr && a.Root.Obj == op.operand.Var) {
								emptied = true
							}
						}
						if e.Kind == "call" && e.Call != op.ev.Call && e.Recv != nil && target.Key != "" {
							if rr, _ := c05Origin(pa.St, e.Recv, sig.Recv(), 0); rr != "" {
								for _, a := range e.Args {
									if a != nil && a.Key == target.Key && i > c05EventIndex(pa.St.Trace, op.ev) {
										back = src(r.P.Fset, e.Call) + " (" + rr + ")"
									}
								}
							}
						}
					}
					if back != "" && !emptied {
						v.bad(c, op.ev.Node.Pos(), "`%s` decodes into %s, and on a path (%s) the value is handed back by `%s` without having been emptied: whatever the codec put into it - also by a decode that failed half way - is what the next user of that storage starts with", call, unk, c05ForkText(r, pa), back)
					} else {
						v.unknown(c, op.ev.Node.Pos(), "`%s` decodes into %s: a target that is not created in this call must be provably empty (the codec keeps what is in it), which is not decided", call, unk)
					}
				}
			}
		}
		if nops == 0 {
			continue
		}
		n++
		if x.Aborted != "" {
			v.unknown(c, fi.Decl.Pos(), "%s could not be explored completely: %s", root, x.Aborted)
		}
		v.ok(c, okPos, "every value %s hands the codec to decode into is created in the same call (or is the receiver itself); no element of older storage is overwritten field by field", root)
	}
	v.emit(r)
	r.Stat("decoding_UnmarshalJSON_methods", n)
	if n == 0 {
		r.Anchor("an UnmarshalJSON method of package osm that hands the codec a decode target")
	}
}

func c05EventIndex(tr []c03Event, e *c03Event) int {
	for i := range tr {
		if &tr[i] == e {
			return i
		}
	}
	return -1
}
