package rules

import "osmcheck/core"

// c20Mutants5: defects seeded into the allocation-saving shapes of c20Benign6.
func c20Mutants5() []core.Mutant {
	return []core.Mutant{
		{Name: "one-buffer-url-params-appended-without-ampersand", File: "osmapi/node.go",
			Find: `	data := make([]byte, 0, 11*len(ids))
	for i, id := range ids {
		if i != 0 {
			data = append(data, byte(','))
		}
		data = strconv.AppendInt(data, int64(id), 10)
	}
	url := ds.baseURL() + "/nodes?nodes=" + string(data)
	if len(params) > 0 {
		url += "&" + params
	}

	o := &osm.OSM{}
	if err := ds.getFromAPI(ctx, url, &o); err != nil {
		return nil, err
	}

	return o.Nodes, nil
}
`,
			Replace: `	buf := urlBuffer(ds.baseURL(), "/nodes?nodes=", len(ids), params)
	for i, id := range ids {
		buf = appendNth(buf, i, int64(id))
	}
	url := urlFinish(buf, params)

	o := &osm.OSM{}
	if err := ds.getFromAPI(ctx, url, &o); err != nil {
		return nil, err
	}

	return o.Nodes, nil
}

// urlBuffer starts a multi fetch url in a buffer big enough for n ids and the params.
func urlBuffer(base, path string, n int, params string) []byte {
	buf := make([]byte, 0, len(base)+len(path)+n*21+1+len(params))
	buf = append(buf, base...)
	return append(buf, path...)
}

// appendNth appends the i-th id, comma separated.
func appendNth(buf []byte, i int, id int64) []byte {
	if i != 0 {
		buf = append(buf, ',')
	}
	return strconv.AppendInt(buf, id, 10)
}

// urlFinish appends the optional params and returns the url (a copy of the buffer).
func urlFinish(buf []byte, params string) string {
	if len(params) > 0 {
		buf = append(buf, '?')
		buf = append(buf, params...)
	}
	return string(buf)
}
`, ExpectRule: "H4", ExpectConstruct: "path@(*Datasource).Nodes"},
		{Name: "one-buffer-url-separator-guard-off-by-one", File: "osmapi/node.go",
			Find: `	data := make([]byte, 0, 11*len(ids))
	for i, id := range ids {
		if i != 0 {
			data = append(data, byte(','))
		}
		data = strconv.AppendInt(data, int64(id), 10)
	}
	url := ds.baseURL() + "/nodes?nodes=" + string(data)
	if len(params) > 0 {
		url += "&" + params
	}

	o := &osm.OSM{}
	if err := ds.getFromAPI(ctx, url, &o); err != nil {
		return nil, err
	}

	return o.Nodes, nil
}
`,
			Replace: `	buf := urlBuffer(ds.baseURL(), "/nodes?nodes=", len(ids), params)
	for i, id := range ids {
		buf = appendNth(buf, i, int64(id))
	}
	url := urlFinish(buf, params)

	o := &osm.OSM{}
	if err := ds.getFromAPI(ctx, url, &o); err != nil {
		return nil, err
	}

	return o.Nodes, nil
}

// urlBuffer starts a multi fetch url in a buffer big enough for n ids and the params.
func urlBuffer(base, path string, n int, params string) []byte {
	buf := make([]byte, 0, len(base)+len(path)+n*21+1+len(params))
	buf = append(buf, base...)
	return append(buf, path...)
}

// appendNth appends the i-th id, comma separated.
func appendNth(buf []byte, i int, id int64) []byte {
	if i > 1 {
		buf = append(buf, ',')
	}
	return strconv.AppendInt(buf, id, 10)
}

// urlFinish appends the optional params and returns the url (a copy of the buffer).
func urlFinish(buf []byte, params string) string {
	if len(params) > 0 {
		buf = append(buf, '&')
		buf = append(buf, params...)
	}
	return string(buf)
}
`, ExpectRule: "H4", ExpectConstruct: "path@(*Datasource).Nodes"},
		{Name: "status-fast-path-precondition-too-wide", File: "osmapi/datasource.go",
			Find: `	if resp.StatusCode == http.StatusNotFound {
		return &NotFoundError{URL: url}
	}

	if resp.StatusCode == http.StatusForbidden {
		return &ForbiddenError{URL: url}
	}

	if resp.StatusCode == http.StatusGone {
		return &GoneError{URL: url}
	}

	if resp.StatusCode == http.StatusRequestURITooLong {
		return &RequestURITooLongError{URL: url}
	}

	if resp.StatusCode != http.StatusOK {
		return &UnexpectedStatusCodeError{
			Code: resp.StatusCode,
			URL:  url,
		}
	}

	return xml.NewDecoder(resp.Body).Decode(item)
}
`,
			Replace: `	// the common case first, everything else is an error.
	if resp.StatusCode <= http.StatusOK {
		return xml.NewDecoder(resp.Body).Decode(item)
	}

	return statusErr(resp.StatusCode, url)
}

// statusErr maps a non 200 status code to its typed error.
func statusErr(code int, url string) error {
	switch code {
	case http.StatusNotFound:
		return &NotFoundError{URL: url}
	case http.StatusForbidden:
		return &ForbiddenError{URL: url}
	case http.StatusGone:
		return &GoneError{URL: url}
	case http.StatusRequestURITooLong:
		return &RequestURITooLongError{URL: url}
	}
	return &UnexpectedStatusCodeError{Code: code, URL: url}
}
`, ExpectRule: "H3", ExpectConstruct: "status other"},
		{Name: "lazily-allocated-list-drops-leading-parameter-without-options", File: "osmapi/note.go",
			Find: `	params := make([]string, 0, 1+len(opts))
	params = append(params, fmt.Sprintf("bbox=%f,%f,%f,%f",
		bounds.MinLon, bounds.MinLat,
		bounds.MaxLon, bounds.MaxLat))
`,
			Replace: `	var params []string
	if len(opts) > 0 {
		params = make([]string, 0, 1+len(opts))
		params = append(params, fmt.Sprintf("bbox=%f,%f,%f,%f",
			bounds.MinLon, bounds.MinLat,
			bounds.MaxLon, bounds.MaxLat))
	}
`, ExpectRule: "H4", ExpectConstruct: "path@(*Datasource).Notes"},
		{Name: "at-appendformat-without-utc", File: "osmapi/options.go",
			Find: `	return append(p, "at="+o.t.UTC().Format("2006-01-02T15:04:05Z")), nil
`,
			Replace: `	const layout = "2006-01-02T15:04:05Z"
	var scratch [len("at=") + len(layout)]byte
	buf := append(scratch[:0], "at="...)
	buf = o.t.AppendFormat(buf, layout)
	return append(p, string(buf)), nil
`, ExpectRule: "H6", ExpectConstruct: "apply@At"},
	}
}
