package rules

import (
	"fmt"
	"go/ast"
	"go/token"
	"go/types"
	"path/filepath"
	"sort"

	"golang.org/x/tools/go/cfg"

	"osmcheck/core"
)

// ---- typing of protoscan messages and iterators --------------------------------------------------------------
//
// The model is built by propagation, never by names of functions or locals:
//   - the bytes returned (in the worker role) by the function that dispatches on the blob encoding hold a
//     PrimitiveBlock (the one frozen fact: OSMData blobs hold a PrimitiveBlock);
//   - `d, err := m.MessageData()` executed under field number N of message M holds the message type of M.N;
//   - typed bytes keep their type through locals, struct fields, parameters of statically resolved calls of the
//     package and function results;
//   - `x := protoscan.New(d)` scans the message type of d; a *protoscan.Message parameter scans what its call
//     sites pass, and inherits the field number under which the call executes.
// "Executes under field number N" is decided on the CFG through guard facts (case clause of a switch on
// FieldNumber(), tagless switch, if/else chains, merged guards, a local holding FieldNumber()).

// c01MsgVar is a protoscan.Message variable with the descriptor message it scans.
type c01MsgVar struct {
	obj   types.Object
	fi    *FuncInfo
	msg   string // descriptor message name
	decl  token.Pos
	binds []c01MsgBind // for parameters: the call sites that bind it
}

type c01MsgBind struct {
	caller *FuncInfo
	call   *ast.CallExpr
	mv     *c01MsgVar
}

// c01Read is one decode call on a message variable.
type c01Read struct {
	call   *ast.CallExpr
	method string
	fi     *FuncInfo
	mv     *c01MsgVar // nil: the message could not be typed
	cases  []int      // field numbers under which the call executes (empty: none established)
}

// c01Iter describes a cached iterator field of the per-worker decoder.
type c01Iter struct {
	field   *types.Var
	sources []c01IterSrc // where it is assigned: (message, field number)
}

type c01IterSrc struct {
	msg string
	num int
	pos token.Pos
	fi  *FuncInfo
}

type c01Model struct {
	p      *core.Program
	m      *pbfModel
	desc   *c01Descriptor
	worker []*FuncInfo // hand-written functions of the worker role
	vars   []*c01MsgVar
	byObj  map[types.Object]*c01MsgVar
	// data typing: local / parameter / struct field holding the bytes of a message -> message name
	dataMsg map[types.Object]string
	funcRet map[*types.Func]string // first result holds the bytes of a message
	iters   map[*types.Var]*c01Iter
	// iterator-typed parameters bound to decoder fields at call sites
	paramIter map[types.Object][]*types.Var // a shared helper may be handed several columns
	reads     []*c01Read
	blobData  *FuncInfo // function dispatching on the blob encoding
	entry     *FuncInfo // decode entry point of the per-worker decoder
	errs      []string
}

var c01Cache = map[*core.Program]*c01Model{}

func c01Get(r *core.R) *c01Model {
	if cm, ok := c01Cache[r.P]; ok {
		return cm
	}
	cm := &c01Model{p: r.P, byObj: map[types.Object]*c01MsgVar{}, dataMsg: map[types.Object]string{}, funcRet: map[*types.Func]string{},
		iters: map[*types.Var]*c01Iter{}, paramIter: map[types.Object][]*types.Var{}}
	c01Cache[r.P] = cm
	cm.m = c01PipelineModel(r.P)
	if len(cm.m.errs) > 0 {
		for _, e := range cm.m.errs {
			cm.errs = append(cm.errs, "pipeline model: "+e)
		}
		return cm
	}
	d, err := c01ParseProto(filepath.Join(r.P.Root, "osmpbf", "internal", "osmpbf", "osmformat.proto"))
	if err != nil {
		cm.errs = append(cm.errs, "osmformat.proto: "+err.Error())
		return cm
	}
	cm.desc = d
	cm.build()
	return cm
}

const protoscanMsg = "github.com/paulmach/protoscan.Message"
const protoscanIter = "github.com/paulmach/protoscan.Iterator"

// c01BlobDataFunc finds, by role, the function that turns a blob into the bytes of its message: the hand-written
// function of the package that looks at both the Raw and the ZlibData field of the generated Blob type.
func c01BlobDataFunc(p *core.Program, m *pbfModel) *FuncInfo {
	var res *FuncInfo
	for _, f := range allFuncs(m.pk) {
		if isGenerated(p, f.Decl.Pos()) {
			continue
		}
		raw, zl := false, false
		ast.Inspect(f.Decl.Body, func(x ast.Node) bool {
			if sel, ok := x.(*ast.SelectorExpr); ok {
				if fld := fieldOf(m.info, sel); fld != nil && c01IsGenerated(selRecv(m.info, sel), "Blob") {
					switch fld.Name() {
					case "Raw":
						raw = true
					case "ZlibData":
						zl = true
					}
				}
			}
			if call, ok := x.(*ast.CallExpr); ok {
				if fn := callee(m.info, call); fn != nil && c01IsGenerated(c01RecvTypeOf(fn), "Blob") {
					switch fn.Name() {
					case "GetRaw":
						raw = true
					case "GetZlibData":
						zl = true
					}
				}
			}
			return true
		})
		if raw && zl {
			res = f
		}
	}
	return res
}

// dataKey returns the object (local, parameter or struct field) a pure expression denotes for data typing.
func (cm *c01Model) dataKey(e ast.Expr) types.Object {
	e = ast.Unparen(e)
	switch x := e.(type) {
	case *ast.Ident:
		return objOf(cm.m.info, x)
	case *ast.SelectorExpr:
		if f := fieldOf(cm.m.info, x); f != nil {
			return f
		}
	}
	return nil
}

func c01IsByteSlice(t types.Type) bool {
	if t == nil {
		return false
	}
	sl, ok := t.Underlying().(*types.Slice)
	return ok && types.Identical(sl.Elem(), types.Typ[types.Byte])
}

// dataOf returns the message whose bytes expression e holds, or "".
func (cm *c01Model) dataOf(e ast.Expr) string {
	e = ast.Unparen(e)
	if call, ok := e.(*ast.CallExpr); ok {
		return cm.callData(call)
	}
	if k := cm.dataKey(e); k != nil {
		return cm.dataMsg[k]
	}
	return ""
}

// callData: the message whose bytes the first result of call holds.
func (cm *c01Model) callData(call *ast.CallExpr) string {
	fn := callee(cm.m.info, call)
	if fn == nil {
		return ""
	}
	if cm.blobData != nil && fn == cm.blobData.Obj {
		return "PrimitiveBlock"
	}
	return cm.funcRet[fn]
}

// fieldNumberOf reports whether e denotes the current field number of message variable mv inside f:
// `mv.FieldNumber()` or a local all of whose definitions are that call.
func (cm *c01Model) isFieldNumberOf(f *c01Fn, e ast.Expr, mv types.Object) bool {
	info := cm.m.info
	e = ast.Unparen(e)
	if call, ok := e.(*ast.CallExpr); ok {
		if c01IsConversion(info, call) && len(call.Args) == 1 {
			return cm.isFieldNumberOf(f, call.Args[0], mv)
		}
		if !isMethod(callee(info, call), protoscanMsg, "FieldNumber") {
			return false
		}
		sel, ok := ast.Unparen(call.Fun).(*ast.SelectorExpr)
		return ok && c01RootObj(info, sel.X) == mv
	}
	if id, ok := e.(*ast.Ident); ok {
		o := objOf(info, id)
		if o == nil || o == mv {
			return false
		}
		ds := c01Defs(info, f.body, o)
		if len(ds) == 0 {
			return false
		}
		for _, d := range ds {
			if d.rhs == nil || d.index >= 0 {
				return false
			}
			if _, isId := ast.Unparen(d.rhs).(*ast.Ident); isId {
				return false
			}
			if !cm.isFieldNumberOf(f, d.rhs, mv) {
				return false
			}
		}
		return true
	}
	return false
}

// casesAt returns the field numbers of message variable mv under which node n of fi executes. The local
// control flow is decided through guard facts; for a message parameter the cases of its call sites are inherited.
func (cm *c01Model) casesAt(fi *FuncInfo, n ast.Node, mv *c01MsgVar, depth int) []int {
	info := cm.m.info
	f := c01FnOf(cm.p, fi).innermost(n)
	seen := map[int]bool{}
	var out []int
	for _, fact := range f.factsAtPos(n.Pos()) {
		a, b, ok := c01EqFact(fact)
		if !ok {
			continue
		}
		for _, pr := range [][2]ast.Expr{{a, b}, {b, a}} {
			if v, okc := constInt(info, pr[1]); okc && cm.isFieldNumberOf(f, pr[0], mv.obj) && !seen[int(v)] {
				seen[int(v)] = true
				out = append(out, int(v))
			}
		}
	}
	if len(out) == 0 {
		// `case A, B:` of a switch on the field number: the body executes under one of the listed numbers
		if tb := f.blockOf(n.Pos()); tb != nil {
			var best *cfg.Block
			for _, b := range f.g.Blocks {
				if b.Live && b.Kind == cfg.KindSwitchCaseBody && (b == tb || f.dom[tb][b]) {
					cc, ok := b.Stmt.(*ast.CaseClause)
					if !ok || len(cc.List) < 2 {
						continue
					}
					blk, _ := f.par[cc].(*ast.BlockStmt)
					sw, _ := f.par[blk].(*ast.SwitchStmt)
					if sw == nil || sw.Tag == nil || !cm.isFieldNumberOf(f, sw.Tag, mv.obj) {
						continue
					}
					if best == nil || f.dom[b][best] {
						best = b
					}
				}
			}
			if best != nil {
				for _, ce := range best.Stmt.(*ast.CaseClause).List {
					if v, okc := constInt(info, ce); okc && !seen[int(v)] {
						seen[int(v)] = true
						out = append(out, int(v))
					}
				}
			}
		}
	}
	if len(out) == 0 {
		// a range test on the field number (`fn < 1 || fn > 6` excluded): every number in the range
		lo, hi, hasLo, hasHi := int64(0), int64(0), false, false
		for _, fact := range f.factsAtPos(n.Pos()) {
			l, op, rr, ok := cmpNorm(fact.expr)
			if !ok || (op != token.LSS && op != token.LEQ) {
				continue
			}
			l, rr = c01StripConv(info, l), c01StripConv(info, rr)
			lc, lok := constInt(info, l)
			rc, rok := constInt(info, rr)
			switch {
			case rok && !lok && cm.isFieldNumberOf(f, l, mv.obj): // fn op C
				switch {
				case op == token.LSS && fact.val: // fn < C
					if !hasHi || rc-1 < hi {
						hi, hasHi = rc-1, true
					}
				case op == token.LEQ && fact.val:
					if !hasHi || rc < hi {
						hi, hasHi = rc, true
					}
				case op == token.LSS && !fact.val: // fn >= C
					if !hasLo || rc > lo {
						lo, hasLo = rc, true
					}
				case op == token.LEQ && !fact.val: // fn > C
					if !hasLo || rc+1 > lo {
						lo, hasLo = rc+1, true
					}
				}
			case lok && !rok && cm.isFieldNumberOf(f, rr, mv.obj): // C op fn
				switch {
				case op == token.LSS && fact.val: // C < fn
					if !hasLo || lc+1 > lo {
						lo, hasLo = lc+1, true
					}
				case op == token.LEQ && fact.val:
					if !hasLo || lc > lo {
						lo, hasLo = lc, true
					}
				case op == token.LSS && !fact.val: // fn <= C
					if !hasHi || lc < hi {
						hi, hasHi = lc, true
					}
				case op == token.LEQ && !fact.val: // fn < C
					if !hasHi || lc-1 < hi {
						hi, hasHi = lc-1, true
					}
				}
			}
		}
		if hasLo && hasHi && hi-lo < 32 {
			for v := lo; v <= hi; v++ {
				if !seen[int(v)] {
					seen[int(v)] = true
					out = append(out, int(v))
				}
			}
		}
	}
	if len(out) > 0 || depth > 3 {
		return out
	}
	for _, b := range mv.binds {
		for _, c := range cm.casesAt(b.caller, b.call, b.mv, depth+1) {
			if !seen[c] {
				seen[c] = true
				out = append(out, c)
			}
		}
	}
	sort.Ints(out)
	return out
}

// msgVarOf resolves a message expression (`msg`, `*msg`, `&msg`) to its typed variable.
func (cm *c01Model) msgVarOf(e ast.Expr) *c01MsgVar {
	o := c01RootObj(cm.m.info, e)
	if o == nil {
		return nil
	}
	return cm.byObj[o]
}

func (cm *c01Model) fail(format string, args ...interface{}) {
	s := fmt.Sprintf(format, args...)
	for _, e := range cm.errs {
		if e == s {
			return
		}
	}
	cm.errs = append(cm.errs, s)
}

func (cm *c01Model) setData(k types.Object, msg string, changed *bool) {
	if k == nil || msg == "" {
		return
	}
	if old := cm.dataMsg[k]; old == "" {
		cm.dataMsg[k] = msg
		*changed = true
	} else if old != msg {
		cm.fail("%s holds both %s and %s data", k.Name(), old, msg)
	}
}

func (cm *c01Model) build() {
	m := cm.m
	info := m.info
	cm.worker = c01RoleFuncs(m, "worker")
	if len(cm.worker) == 0 {
		cm.fail("no function runs in the worker role")
		return
	}
	cm.entry = c01DecodeEntry(m)
	if cm.entry == nil {
		cm.fail("decode entry point of the per-worker decoder (method taking the blob and returning the objects)")
		return
	}
	cm.blobData = c01BlobDataFunc(cm.p, m)
	if cm.blobData == nil {
		cm.fail("function dispatching on the blob encoding (Raw / ZlibData)")
		return
	}
	isWorker := map[*types.Func]bool{}
	for _, fi := range cm.worker {
		isWorker[fi.Obj] = true
	}
	// fixpoint: data typing, message variables, parameter bindings
	for changed, rounds := true, 0; changed && rounds < 12; rounds++ {
		changed = false
		for _, fi := range cm.worker {
			fi := fi
			define := func(lhs []ast.Expr, rhs ast.Expr, pos token.Pos) {
				rhs = ast.Unparen(rhs)
				call, isCall := rhs.(*ast.CallExpr)
				if !isCall {
					if len(lhs) == 1 && c01IsByteSlice(info.TypeOf(rhs)) {
						cm.setData(cm.dataKey(lhs[0]), cm.dataOf(rhs), &changed)
					}
					return
				}
				fn := callee(info, call)
				switch {
				case isPkgFunc(fn, "github.com/paulmach/protoscan", "New") && len(call.Args) == 1 && len(lhs) == 1:
					msg := cm.dataOf(call.Args[0])
					vo := cm.dataKey(lhs[0])
					if msg != "" && vo != nil {
						if old := cm.byObj[vo]; old == nil {
							mv := &c01MsgVar{obj: vo, fi: fi, msg: msg, decl: pos}
							cm.vars = append(cm.vars, mv)
							cm.byObj[vo] = mv
							changed = true
						} else if old.msg != msg {
							cm.fail("message variable %s of %s scans both %s and %s", vo.Name(), fi.Name(), old.msg, msg)
						}
					}
				case isMethod(fn, protoscanMsg, "MessageData") && len(lhs) >= 1:
					sel, ok := ast.Unparen(call.Fun).(*ast.SelectorExpr)
					if !ok {
						return
					}
					mv := cm.msgVarOf(sel.X)
					if mv == nil {
						return
					}
					for _, n := range cm.casesAt(fi, call, mv, 0) {
						if f := cm.desc.Messages[mv.msg].Fields[n]; f != nil && f.IsMsg {
							cm.setData(cm.dataKey(lhs[0]), f.Type, &changed)
						}
					}
				default:
					if len(lhs) >= 1 && c01IsByteSlice(info.TypeOf(lhs[0])) {
						cm.setData(cm.dataKey(lhs[0]), cm.callData(call), &changed)
					}
				}
			}
			ast.Inspect(fi.Decl.Body, func(n ast.Node) bool {
				switch s := n.(type) {
				case *ast.AssignStmt:
					if len(s.Rhs) == 1 {
						define(s.Lhs, s.Rhs[0], s.Pos())
					} else if len(s.Rhs) == len(s.Lhs) {
						for i := range s.Lhs {
							define(s.Lhs[i:i+1], s.Rhs[i], s.Pos())
						}
					}
				case *ast.ValueSpec:
					var lhs []ast.Expr
					for _, nm := range s.Names {
						lhs = append(lhs, nm)
					}
					if len(s.Values) == 1 {
						define(lhs, s.Values[0], s.Pos())
					} else if len(s.Values) == len(lhs) {
						for i := range lhs {
							define(lhs[i:i+1], s.Values[i], s.Pos())
						}
					}
				case *ast.ReturnStmt:
					if len(s.Results) >= 1 && c01IsByteSlice(info.TypeOf(s.Results[0])) {
						if msg := cm.dataOf(s.Results[0]); msg != "" && fi != cm.blobData {
							if old := cm.funcRet[fi.Obj]; old == "" {
								cm.funcRet[fi.Obj] = msg
								changed = true
							} else if old != msg {
								cm.fail("%s returns both %s and %s data", fi.Name(), old, msg)
							}
						}
					}
				case *ast.CallExpr:
					tf := c01Callee(m.pk, s)
					if tf == nil || !isWorker[tf.Obj] || tf == cm.blobData {
						return true
					}
					params := c01ParamObjs(info, tf)
					for i, a := range s.Args {
						if i >= len(params) || params[i] == nil {
							continue
						}
						po := params[i]
						if c01IsByteSlice(po.Type()) {
							cm.setData(po, cm.dataOf(a), &changed)
							continue
						}
						if namedPath(po.Type()) == protoscanMsg {
							src := cm.msgVarOf(a)
							if src == nil {
								continue
							}
							pv := cm.byObj[po]
							if pv == nil {
								pv = &c01MsgVar{obj: po, fi: tf, msg: src.msg, decl: po.Pos()}
								cm.vars = append(cm.vars, pv)
								cm.byObj[po] = pv
								changed = true
							} else if pv.msg != src.msg {
								cm.fail("message parameter %s of %s receives both %s and %s", po.Name(), tf.Name(), pv.msg, src.msg)
							}
							dup := false
							for _, b := range pv.binds {
								if b.call == s {
									dup = true
								}
							}
							if !dup {
								pv.binds = append(pv.binds, c01MsgBind{caller: fi, call: s, mv: src})
								changed = true
							}
						}
					}
				}
				return true
			})
		}
	}
	if len(cm.vars) == 0 {
		cm.fail("no protoscan message could be typed from the primitive block bytes")
		return
	}
	sort.Slice(cm.vars, func(i, j int) bool { return cm.vars[i].decl < cm.vars[j].decl })
	// iterator-typed parameters bound at call sites (transitively)
	for changed, rounds := true, 0; changed && rounds < 6; rounds++ {
		changed = false
		for _, fi := range cm.worker {
			ast.Inspect(fi.Decl.Body, func(n ast.Node) bool {
				call, ok := n.(*ast.CallExpr)
				if !ok {
					return true
				}
				tf := c01Callee(m.pk, call)
				if tf == nil {
					return true
				}
				params := c01ParamObjs(info, tf)
				for i, a := range call.Args {
					if i >= len(params) || params[i] == nil || namedPath(params[i].Type()) != protoscanIter {
						continue
					}
					for _, f := range cm.iterFieldsIn(fi, a) {
						dup := false
						for _, o := range cm.paramIter[params[i]] {
							if o == f {
								dup = true
							}
						}
						if !dup {
							cm.paramIter[params[i]] = append(cm.paramIter[params[i]], f)
							changed = true
						}
					}
				}
				return true
			})
		}
	}
	// reads and iterator assignments
	for _, fi := range cm.worker {
		fi := fi
		ast.Inspect(fi.Decl.Body, func(n ast.Node) bool {
			switch s := n.(type) {
			case *ast.CallExpr:
				fn := callee(info, s)
				if fn == nil {
					return true
				}
				sel, ok := ast.Unparen(s.Fun).(*ast.SelectorExpr)
				if !ok {
					return true
				}
				recvT := ""
				if sl := info.Selections[sel]; sl != nil {
					recvT = namedPath(sl.Recv())
				}
				if recvT != protoscanMsg {
					return true
				}
				switch fn.Name() {
				case "Next", "Err", "FieldNumber", "Skip", "Reset", "WireType":
					return true
				}
				rd := &c01Read{call: s, method: fn.Name(), fi: fi, mv: cm.msgVarOf(sel.X)}
				if rd.mv != nil {
					rd.cases = cm.casesAt(fi, s, rd.mv, 0)
				}
				cm.reads = append(cm.reads, rd)
			case *ast.AssignStmt:
				// F, err = X.Iterator(F)
				if len(s.Rhs) != 1 || len(s.Lhs) < 1 {
					return true
				}
				call, ok := ast.Unparen(s.Rhs[0]).(*ast.CallExpr)
				if !ok || !isMethod(callee(info, call), protoscanMsg, "Iterator") {
					return true
				}
				sel, ok := ast.Unparen(call.Fun).(*ast.SelectorExpr)
				if !ok {
					return true
				}
				mv := cm.msgVarOf(sel.X)
				if mv == nil {
					return true
				}
				f := cm.iterFieldIn(fi, s.Lhs[0])
				if f == nil {
					// `*table[fn], err = X.Iterator(...)`: a table of pointers to the cached iterators indexed by the
					// field number: entry K is filled under field number K
					if tab, idx := cm.iterTableStore(fi, s.Lhs[0]); tab != nil && cm.isFieldNumberOf(c01FnOf(cm.p, fi).innermost(call), idx, mv.obj) {
						for _, c := range cm.casesAt(fi, call, mv, 0) {
							tf := tab[int64(c)]
							if tf == nil {
								continue
							}
							if cm.iters[tf] == nil {
								cm.iters[tf] = &c01Iter{field: tf}
							}
							cm.iters[tf].sources = append(cm.iters[tf].sources, c01IterSrc{msg: mv.msg, num: c, pos: s.Pos(), fi: fi})
						}
					}
					return true
				}
				it := cm.iters[f]
				if it == nil {
					it = &c01Iter{field: f}
					cm.iters[f] = it
				}
				cases := cm.casesAt(fi, call, mv, 0)
				if len(cases) == 0 {
					it.sources = append(it.sources, c01IterSrc{msg: mv.msg, num: -1, pos: s.Pos(), fi: fi})
				}
				for _, c := range cases {
					it.sources = append(it.sources, c01IterSrc{msg: mv.msg, num: c, pos: s.Pos(), fi: fi})
				}
			}
			return true
		})
	}
}

// c01Param returns the idx-th parameter object of a declared function.
func c01Param(info *types.Info, fi *FuncInfo, idx int) types.Object {
	ps := c01ParamObjs(info, fi)
	if idx >= 0 && idx < len(ps) {
		return ps[idx]
	}
	return nil
}

// iterFieldsIn resolves an iterator expression inside fi to the cached decoder field(s) it can denote: a selector of
// an iterator field of the per-worker decoder, a parameter bound to one or several at its call sites, or a local
// alias of either.
func (cm *c01Model) iterFieldsIn(fi *FuncInfo, e ast.Expr) []*types.Var {
	info := cm.m.info
	if fi != nil {
		e = c01Expand(info, fi.Decl.Body, e)
	}
	e = ast.Unparen(e)
	if f := fieldOf(info, e); f != nil && namedPath(f.Type()) == protoscanIter {
		return []*types.Var{f}
	}
	if o := objOf(info, e); o != nil {
		return cm.paramIter[o]
	}
	return nil
}

// iterFieldIn is iterFieldsIn for expressions that denote exactly one field (nil otherwise).
func (cm *c01Model) iterFieldIn(fi *FuncInfo, e ast.Expr) *types.Var {
	if fs := cm.iterFieldsIn(fi, e); len(fs) == 1 {
		return fs[0]
	}
	return nil
}

// iterField resolves an iterator expression (dec.F or a bound parameter) to the decoder field.
func (cm *c01Model) iterField(e ast.Expr) *types.Var { return cm.iterFieldIn(nil, e) }

// iterColumn returns the descriptor field(s) an iterator field carries: a single (type, name, delta) when all its
// assignment sites agree on name and element type.
func (cm *c01Model) iterColumn(f *types.Var) (*c01Field, string) {
	it := cm.iters[f]
	if it == nil || len(it.sources) == 0 {
		return nil, "never assigned from Message.Iterator"
	}
	var first *c01Field
	for _, s := range it.sources {
		msg := cm.desc.Messages[s.msg]
		if msg == nil || msg.Fields[s.num] == nil {
			return nil, fmt.Sprintf("assigned under field number %d of %s, which the descriptor does not define", s.num, s.msg)
		}
		fd := msg.Fields[s.num]
		if first == nil {
			first = fd
		} else if first.Name != fd.Name || first.Type != fd.Type || first.Delta != fd.Delta {
			return nil, fmt.Sprintf("assigned from %s.%s (%s) and from a column named %s (%s)", s.msg, fd.Name, fd.Type, first.Name, first.Type)
		}
	}
	return first, ""
}

// c01ScopedFact is a guard fact together with the body it was established in (for expanding locals).
type c01ScopedFact struct {
	guardFact
	f *c01Fn
}

// factsChain returns the guard facts controlling node n of fi and, when the message variable mv is a parameter,
// the facts controlling the calls that bind it (transitively): the conditions under which a read in an extracted
// helper executes are those of the helper plus those of its call sites.
func (cm *c01Model) factsChain(fi *FuncInfo, n ast.Node, mv *c01MsgVar, depth int) []c01ScopedFact {
	f := c01FnOf(cm.p, fi).innermost(n)
	var out []c01ScopedFact
	for _, ft := range f.factsAtPos(n.Pos()) {
		out = append(out, c01ScopedFact{ft, f})
	}
	if mv == nil || depth > 3 {
		return out
	}
	for _, b := range mv.binds {
		out = append(out, cm.factsChain(b.caller, b.call, b.mv, depth+1)...)
	}
	return out
}
