package rules

import (
	"go/ast"
	"go/types"
)

// Cached aliases of the ordering's Done channel.
//
// `<-o.ctx.Done()` may be spelled through a field that holds the channel, fetched once when the ordering is built
// (`cancelled: ctx.Done()`). Such a field is the same channel provided that every value ever stored in it is Done() of the
// very context stored in the ordering's context field, that all those stores happen in the constructor before the
// producer starts, and that nothing else in the package assigns the field.

// doneAliases returns the fields of the ordering that hold the Done channel of the ordering's own context.
func (m *c14Model) doneAliases() map[*types.Var]bool {
	if m.doneAlias != nil {
		return m.doneAlias
	}
	m.doneAlias = map[*types.Var]bool{}
	st, ok := m.named.Underlying().(*types.Struct)
	if !ok {
		return m.doneAlias
	}
	ctxKeys := map[string]bool{}
	for _, in := range m.fieldInits(m.fCtx) {
		if in.val != nil {
			ctxKeys[in.val.key] = true
		}
	}
	var afterGo c14Set
	if m.goNode != nil {
		afterGo = m.cg.reach(m.cg.statesOf(m.goNode), nil, nil)
	}
	for i := 0; i < st.NumFields(); i++ {
		f := st.Field(i)
		if _, isChan := f.Type().Underlying().(*types.Chan); !isChan || f == m.fOut || f == m.fStop {
			continue
		}
		m.fieldOwner[f] = m.named
		inits := m.fieldInits(f)
		ok := len(inits) > 0
		initAst := map[ast.Node]bool{}
		for _, in := range inits {
			v := in.val
			fn, _ := v.obj.(*types.Func)
			if v == nil || v.k != 'C' || fn == nil || !isMethod(fn, "context.Context", "Done") || v.x == nil || !ctxKeys[v.x.key] {
				ok = false // not Done() of the context the ordering keeps (e.g. taken from the parent before WithCancel)
			}
			if afterGo != nil && afterGo.hasNode(in.n) {
				ok = false
			}
			initAst[in.n.ast] = true
		}
		// no other assignment of the field anywhere in the package
		if ok {
			for _, fi := range allFuncs(m.pk) {
				ast.Inspect(fi.Decl.Body, func(n ast.Node) bool {
					if as, isAssign := n.(*ast.AssignStmt); isAssign && !initAst[as] {
						for _, l := range as.Lhs {
							if fieldOf(m.info, l) == f {
								ok = false
							}
						}
					}
					return true
				})
			}
		}
		if ok {
			m.doneAlias[f] = true
		}
	}
	return m.doneAlias
}

// isDoneChan: v is the Done channel of the ordering's own context, spelled directly or through a caching field.
func (m *c14Model) isDoneChan(g *c14Graph, v *c14Val) bool {
	if m.isMethodOn(g, v, m.fCtx, "context.Context", "Done") {
		return true
	}
	v = c14StripAddr(v)
	if v != nil && v.k == 'f' {
		if f, ok := v.obj.(*types.Var); ok && m.doneAliases()[f] && m.isField(g, v, f) {
			return true
		}
	}
	return false
}
