package rules

// c16_rules_ring.go — rule R1: the orientation decision of MultiSegment.Ring(o) as a truth table.
//
// The computed orientation of a ring (orb.Ring.Orientation, mputil.MultiSegment.Orientation: shoelace sums over
// floats) is not evaluated: it is an oracle. For every question the oracle is asked, both answers are explored; the
// rule checks what Ring does with the answer, and that the question was about the complete ring.

import (
	"fmt"
	"strings"

	"osmcheck/core"
)

// c16Ask is one question to the orientation oracle.
type c16Ask struct {
	chain  []string
	answer int64
}

// c16OrientHooks installs the orientation oracle: answer decides, log records.
func (e *c16Env) orientHooks(answer func(m *c16M, chain []string) int64, log *[]c16Ask) map[string]c16Hook {
	ask := func(m *c16M, chain []string, ok bool) (c16Val, bool) {
		if !ok {
			m.abort("orientation asked of something that is not a list of symbolic points")
		}
		a := answer(m, chain)
		*log = append(*log, c16Ask{chain: chain, answer: a})
		return a, true
	}
	return map[string]c16Hook{
		"(" + c16OrbPath + ".Ring).Orientation": func(m *c16M, recv c16Val, _ []c16Val) (c16Val, bool) {
			chain, ok := c16Toks(recv)
			return ask(m, chain, ok)
		},
		"(" + c16MputilPath + ".MultiSegment).Orientation": func(m *c16M, recv c16Val, _ []c16Val) (c16Val, bool) {
			var chain []string
			ms, ok := recv.(c16Slice)
			for _, sv := range ms.elems() {
				s, ok2 := c16ReadSeg(sv)
				ok = ok && ok2
				chain = append(chain, s.toks...)
			}
			return ask(m, chain, ok)
		},
	}
}

// c16EitherWay: the oracle answer is a decision explored both ways.
func c16EitherWay(m *c16M, chain []string) int64 {
	if m.choose("computed orientation of "+strings.Join(chain, ""), 2) == 1 {
		return c16CCW
	}
	return c16CW
}

type c16RingRun struct {
	ring c16Val
	asks []c16Ask
}

// ringVerdict evaluates MultiSegment(segs).Ring(o) on every path of oracle answers.
func (e *c16Env) ringVerdict(segs []c16Seg, o int64) c16Verdict {
	var chain []string
	annotated, dir := false, int64(0)
	for _, s := range segs {
		chain = append(chain, s.toks...)
		if s.orient != 0 {
			annotated = true
			dir = s.orient
			if s.reversed {
				dir = -dir
			}
		}
	}
	var log []c16Ask
	hooks := e.orientHooks(c16EitherWay, &log)
	outs, complete := c16Explore(e.r.P, hooks, func(m *c16M) c16Val {
		log = nil
		ring := m.callFunc(e.ring, e.segments(e.msT, segs), o)
		return c16RingRun{ring: ring, asks: log}
	})
	if !complete {
		return c16Verdict{undecided: "too many paths"}
	}
	for _, out := range outs {
		val, v := c16Settle(out)
		if !v.ok() {
			return v
		}
		run := val.(c16RingRun)
		got, ok := c16Toks(run.ring)
		if !ok {
			return c16Verdict{undecided: "Ring did not return a concrete list of points: " + c16Show(run.ring)}
		}
		if !c16SameToks(got, chain) && !c16SameToks(got, c16Rev(chain)) {
			return c16Verdict{bad: fmt.Sprintf("the ring is %v: not the points of the segments %v in order (or all of them in reverse)", got, chain)}
		}
		eff := dir // direction in which the concatenated points run
		if !annotated {
			eff = 0
			consistent := true
			for _, a := range run.asks {
				var d int64
				switch {
				case c16SameToks(a.chain, chain):
					d = a.answer
				case c16SameToks(a.chain, c16Rev(chain)):
					d = -a.answer
				default:
					return c16Verdict{bad: fmt.Sprintf("the orientation was computed of %v, which is not the complete ring %v", a.chain, chain)}
				}
				if eff != 0 && eff != d {
					consistent = false
				}
				eff = d
			}
			if !consistent {
				continue // the oracle contradicted itself on this path
			}
			if eff == 0 {
				return c16Verdict{bad: "no member is annotated and the orientation of the ring is never computed: the result cannot have the requested orientation for both directions of the input"}
			}
		}
		want := chain
		if eff != o {
			want = c16Rev(chain)
		}
		if !c16SameToks(got, want) {
			return c16Verdict{bad: fmt.Sprintf("points run %s, Ring(%s) returns them %s (oracle: %s)", c16Dir(eff), c16Dir(o), map[bool]string{true: "reversed", false: "as they are"}[!c16SameToks(got, chain)], c16ChoicesText(out.choices))}
		}
	}
	return c16Verdict{}
}

func c16Dir(o int64) string {
	switch o {
	case c16CW:
		return "CW"
	case c16CCW:
		return "CCW"
	}
	return fmt.Sprint(o)
}

func c16R1(r *core.R) {
	e := c16NewEnv(r)
	if !e.ok {
		return
	}
	pos := e.ring.Decl.Pos()
	lines := [][]string{{"a", "b"}, {"c", "d"}, {"e", "a"}}
	report := func(construct, what string, scenarios [][]c16Seg) {
		n := 0
		for _, sc := range scenarios {
			for _, o := range []int64{c16CW, c16CCW} {
				v := e.ringVerdict(sc, o)
				text := fmt.Sprintf("MultiSegment{%s}.Ring(%s)", c16SegsOrientText(sc), c16Dir(o))
				switch {
				case v.undecided != "":
					r.Unknown(construct, pos, "%s could not be evaluated: %s", text, v.undecided)
					return
				case v.bad != "":
					r.Bad(construct, pos, "%s: %s. %s", text, v.bad, what)
					return
				}
				n++
			}
		}
		r.Stat("ring scenarios", n)
		r.OK(construct, pos, "%d abstract inputs x every oracle answer, all as demanded: %s", n, what)
	}
	// annotation patterns: per segment 0 = not annotated, else annotated with Reversed false/true such that the
	// actual direction (Orientation, negated when Reversed) is d
	var annotated, mixed, plain [][]c16Seg
	for _, d := range []int64{c16CW, c16CCW} {
		for mask := 0; mask < 27; mask++ {
			var sc []c16Seg
			kinds := 0
			for i, k := 0, mask; i < 3; i, k = i+1, k/3 {
				s := c16Seg{idx: i, toks: lines[i]}
				switch k % 3 {
				case 1:
					s.orient = d
				case 2:
					s.orient, s.reversed = -d, true
				}
				if k%3 == 0 {
					kinds |= 1
					s.reversed = i%2 == 1 // the flag of an unannotated member carries no information
				} else {
					kinds |= 2
				}
				sc = append(sc, s)
			}
			switch kinds {
			case 1:
				for flags := 0; d == c16CW && flags < 8; flags++ { // the flag of an unannotated member carries no information
					v := append([]c16Seg{}, sc...)
					for i := range v {
						v[i].reversed = flags&(1<<i) != 0
					}
					plain = append(plain, v)
				}
			case 2:
				annotated = append(annotated, sc)
			default:
				mixed = append(mixed, sc)
			}
		}
	}
	report("Ring[annotated]", "with annotated members the ring is reversed exactly when their actual direction (Orientation, negated when Reversed) differs from the requested one, whatever the computed orientation is", annotated)
	report("Ring[unannotated]", "without annotation the ring is reversed exactly when the computed orientation of the complete ring differs from the requested one", plain)
	report("Ring[mixed]", "one annotated member decides for the whole ring; members without annotation do not", mixed)
}

func c16SegsOrientText(ss []c16Seg) string {
	parts := []string{}
	for _, s := range ss {
		parts = append(parts, fmt.Sprintf("%v Orientation=%d Reversed=%v", s.toks, s.orient, s.reversed))
	}
	return strings.Join(parts, "; ")
}
