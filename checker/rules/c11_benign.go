package rules

import "osmcheck/core"

// Behaviour-preserving variants of the code C11 is about (regression suite of the rules: each must stay
// silent). Classes (ROBUSTNESS.md): 1 extract/inline, 2 control-flow shape, 3 naming/aliases/constants,
// 4 statement order, 5 moves (a helper added to a file is found by role wherever it is).

const (
	c11fCompute = "annotate/internal/core/compute.go"
	c11fChild   = "annotate/shared/child.go"
	c11fWay     = "annotate/way.go"
	c11fRel     = "annotate/relation.go"
	c11fErrors  = "annotate/errors.go"
	c11fDS      = "annotate/datasource.go"
	c11fOpts    = "annotate/options.go"
)

var c11Benign = []core.Mutant{
	// ---- class 1: extract helper (window start, early returns, switch inside) -- the helper lands after mapChildLocs' neighbour
	{Name: "start-extracted-to-helper", File: c11fCompute,
		Find:    "\t\t\tstart := 0\n\t\t\tif c != nil {\n\t\t\t\tstart = c.VersionIndex + 1\n\t\t\t} else {\n\t\t\t\t// current child is not defined, is next child\n\t\t\t\tnext := child.VersionBefore(timeThresholdParent(parent, 0))\n\t\t\t\tif next == nil {\n\t\t\t\t\tstart = 0\n\t\t\t\t} else {\n\t\t\t\t\tstart = next.VersionIndex + 1\n\t\t\t\t}\n\t\t\t}\n",
		Replace: "\t\t\twindowStart := func(cur *shared.Child) int {\n\t\t\t\tswitch {\n\t\t\t\tcase cur != nil:\n\t\t\t\t\treturn cur.VersionIndex + 1\n\t\t\t\t}\n\t\t\t\tif prev := child.VersionBefore(timeThresholdParent(parent, 0)); prev != nil {\n\t\t\t\t\treturn 1 + prev.VersionIndex\n\t\t\t\t}\n\t\t\t\treturn 0\n\t\t\t}\n\t\t\tstart := windowStart(c)\n"},
	{Name: "filter-test-extracted", File: c11fCompute,
		Find:    "\t\t\tif annotated[j] && filter != nil && !filter(fid) {\n\t\t\t\tcontinue\n\t\t\t}\n\n\t\t\tif result[fid] == nil {\n\t\t\t\tresult[fid] = make([]childLoc, 0, len(parents))\n\t\t\t}\n\n\t\t\tresult[fid] = append(result[fid], childLoc{Parent: i, Index: j})\n\t\t}\n\t}\n\n\treturn result\n}\n",
		Replace: "\t\t\tif skipRef(annotated[j], filter, fid) {\n\t\t\t\tcontinue\n\t\t\t}\n\n\t\t\tif result[fid] == nil {\n\t\t\t\tresult[fid] = make([]childLoc, 0, len(parents))\n\t\t\t}\n\n\t\t\tresult[fid] = append(result[fid], childLoc{Parent: i, Index: j})\n\t\t}\n\t}\n\n\treturn result\n}\n\n// skipRef: already annotated refs are skipped when the filter rejects them.\nfunc skipRef(done bool, keep func(osm.FeatureID) bool, id osm.FeatureID) bool {\n\tif !done || keep == nil {\n\t\treturn false\n\t}\n\treturn !keep(id)\n}\n"},
	{Name: "results-tail-extracted", File: c11fCompute,
		Find:    "\tfor _, r := range results {\n\t\tr.SortByIndex()\n\t}\n\n\treturn results, nil\n}\n",
		Replace: "\treturn sortedByIndex(results), nil\n}\n\nfunc sortedByIndex(all []osm.Updates) []osm.Updates {\n\tfor i := range all {\n\t\tall[i].SortByIndex()\n\t}\n\n\treturn all\n}\n"},
	{Name: "committed-helper-single-literal", File: c11fChild,
		Find:    "\tc := &Child{\n\t\tID:          r.FeatureID(),\n\t\tVersion:     r.Version,\n\t\tChangesetID: r.ChangesetID,\n\t\tVisible:     r.Visible,\n\t\tTimestamp:   r.Timestamp,\n\t}\n\n\tif r.Committed != nil {\n\t\tc.Committed = *r.Committed\n\t}\n\n\treturn c\n}\n",
		Replace: "\treturn &Child{\n\t\tID:          r.FeatureID(),\n\t\tVersion:     r.Version,\n\t\tChangesetID: r.ChangesetID,\n\t\tVisible:     r.Visible,\n\t\tTimestamp:   r.Timestamp,\n\t\tCommitted:   timeOrZero(r.Committed),\n\t}\n}\n\nfunc timeOrZero(t *time.Time) (res time.Time) {\n\tif t != nil {\n\t\tres = *t\n\t}\n\treturn\n}\n"},
	// ---- class 1: inline (the stamping helper inlined into Update; construct-then-patch)
	{Name: "stamp-inlined-into-update", File: c11fChild,
		Find:    "\treturn osm.Update{\n\t\tVersion:     c.Version,\n\t\tTimestamp:   updateTimestamp(c.Timestamp, c.Committed),\n",
		Replace: "\tstamp := c.Committed\n\tif c.Committed.IsZero() || c.Timestamp.Before(osm.CommitInfoStart) {\n\t\tstamp = c.Timestamp\n\t}\n\n\treturn osm.Update{\n\t\tVersion:     c.Version,\n\t\tTimestamp:   stamp,\n"},
	// ---- class 2: control-flow shape
	{Name: "window-branch-inverted-continue", File: c11fCompute,
		Find:    "\t\t\t\tif child[k].Visible {\n\t\t\t\t\t// It's possible for this child to be present at multiple locations in the parent\n\t\t\t\t\tfor _, cl := range locs {\n\t\t\t\t\t\tu := child[k].Update()\n\t\t\t\t\t\tu.Index = cl.Index\n\t\t\t\t\t\tupdates = append(updates, u)\n\t\t\t\t\t}\n\t\t\t\t} else {\n",
		Replace: "\t\t\t\tif version := child[k]; version.Visible {\n\t\t\t\t\tfor n := range locs {\n\t\t\t\t\t\tu := version.Update()\n\t\t\t\t\t\tu.Index = locs[n].Index\n\t\t\t\t\t\tupdates = append(updates, u)\n\t\t\t\t\t}\n\t\t\t\t\tcontinue\n\t\t\t\t}\n\t\t\t\t{\n"},
	{Name: "missing-history-merged-guards", File: c11fCompute,
		Find:    "\t\t\tif !histories.NotFound(err) {\n\t\t\t\treturn nil, err\n\t\t\t}\n\n\t\t\tif opts.IgnoreMissingChildren {\n\t\t\t\tcontinue\n\t\t\t}\n\n\t\t\treturn nil, &NoHistoryError{ChildID: fid}\n",
		Replace: "\t\t\tmissing := histories.NotFound(err)\n\t\t\tswitch {\n\t\t\tcase missing && opts.IgnoreMissingChildren:\n\t\t\t\tcontinue\n\t\t\tcase missing:\n\t\t\t\treturn nil, &NoHistoryError{ChildID: fid}\n\t\t\tdefault:\n\t\t\t\treturn nil, err\n\t\t\t}\n"},
	{Name: "visible-test-if-init-captured", File: c11fCompute,
		Find:    "\t\t\tif !parent.Visible() {\n\t\t\t\tcontinue\n\t\t\t}\n\n\t\t\tvar nextParent Parent\n\t\t\tif parentIndex < len(parents)-1 {\n\t\t\t\tnextParent = parents[parentIndex+1]\n\t\t\t}\n",
		Replace: "\t\t\tif deleted := !parent.Visible(); deleted {\n\t\t\t\tcontinue\n\t\t\t}\n\n\t\t\tvar nextParent Parent\n\t\t\tif following := parentIndex + 1; following < len(parents) {\n\t\t\t\tnextParent = parents[following]\n\t\t\t}\n"},
	{Name: "novisible-split-guards", File: c11fCompute,
		Find:    "\t\t\tif c == nil && !opts.IgnoreInconsistency {\n\t\t\t\treturn nil, &NoVisibleChildError{\n\t\t\t\t\tChildID:   fid,\n\t\t\t\t\tTimestamp: timeThresholdParent(parent, 0)}\n\t\t\t}\n",
		Replace: "\t\t\tif c == nil {\n\t\t\t\tif strict := !opts.IgnoreInconsistency; strict {\n\t\t\t\t\tat := timeThresholdParent(parent, 0)\n\t\t\t\t\treturn nil, &NoVisibleChildError{Timestamp: at, ChildID: fid}\n\t\t\t\t}\n\t\t\t}\n"},
	{Name: "stamp-demorgan-inverted", File: c11fChild,
		Find:    "\tif timestamp.Before(osm.CommitInfoStart) || committed.IsZero() {\n\t\treturn timestamp\n\t}\n\n\treturn committed\n",
		Replace: "\tif !timestamp.Before(osm.CommitInfoStart) && !committed.IsZero() {\n\t\treturn committed\n\t}\n\n\treturn timestamp\n"},
	{Name: "maperrors-assertion-chain", File: c11fErrors,
		Find:    "\tswitch t := err.(type) {\n\tcase *core.NoHistoryError:\n\t\treturn &NoHistoryError{\n\t\t\tID: t.ChildID,\n\t\t}\n\tcase *core.NoVisibleChildError:\n\t\treturn &NoVisibleChildError{\n\t\t\tID:        t.ChildID,\n\t\t\tTimestamp: t.Timestamp,\n\t\t}\n\t}\n\n\treturn err\n",
		Replace: "\tif nh, ok := err.(*core.NoHistoryError); ok {\n\t\treturn &NoHistoryError{ID: nh.ChildID}\n\t}\n\n\tnv, ok := err.(*core.NoVisibleChildError)\n\tif !ok {\n\t\treturn err\n\t}\n\n\tpublic := &NoVisibleChildError{ID: nv.ChildID}\n\tpublic.Timestamp = nv.Timestamp\n\treturn public\n"},
	{Name: "less-chain-form-with-locals", File: "node.go",
		Find:    "\tif ns[i].ID == ns[j].ID {\n\t\treturn ns[i].Version < ns[j].Version\n\t}\n\n\treturn ns[i].ID < ns[j].ID\n",
		Replace: "\ta, b := ns[i], ns[j]\n\tswitch {\n\tcase a.ID < b.ID:\n\t\treturn true\n\tcase b.ID < a.ID:\n\t\treturn false\n\t}\n\n\treturn b.Version > a.Version\n"},
	// ---- class 3: aliases, renamed locals, named constants
	{Name: "setchild-pointer-alias-nested", File: c11fWay,
		Find:    "\tif child == nil {\n\t\treturn\n\t}\n\n\tw.Way.Nodes[idx].Version = child.Version\n\tw.Way.Nodes[idx].ChangesetID = child.ChangesetID\n\tw.Way.Nodes[idx].Lat = child.Lat\n\tw.Way.Nodes[idx].Lon = child.Lon\n",
		Replace: "\tif child != nil {\n\t\tnode := &w.Way.Nodes[idx]\n\t\tnode.Lat, node.Lon = child.Lat, child.Lon\n\t\tnode.Version = child.Version\n\t\tnode.ChangesetID = child.ChangesetID\n\t}\n"},
	{Name: "group-head-renamed-named-constant", File: c11fCompute,
		Find:    "\t\tfor _, locs := range locations.GroupByParent() {\n\t\t\t// figure out the parent and the next parent\n\t\t\tparentIndex := locs[0].Parent\n",
		Replace: "\t\tconst head = 0\n\t\tfor _, locs := range locations.GroupByParent() {\n\t\t\tfirstLoc := &locs[head]\n\t\t\tparentIndex := firstLoc.Parent\n"},
	{Name: "groupby-renamed-inlined-key", File: c11fCompute,
		Find:    "\tfor len(locs) > 0 {\n\t\tp := locs[0].Parent\n\t\tend := 0\n\n\t\tfor end < len(locs) && locs[end].Parent == p {\n\t\t\tend++\n\t\t}\n\n\t\tresult = append(result, locs[:end])\n\t\tlocs = locs[end:]\n\t}\n",
		Replace: "\tfor len(locs) != 0 {\n\t\tn := 0\n\t\tfor ; n < len(locs); n++ {\n\t\t\tif locs[0].Parent != locs[n].Parent {\n\t\t\t\tbreak\n\t\t\t}\n\t\t}\n\n\t\tgroup, rest := locs[:n], locs[n:]\n\t\tresult = append(result, group)\n\t\tlocs = rest\n\t}\n"},
	{Name: "refs-element-alias", File: c11fRel,
		Find:    "\tfor i := range r.Relation.Members {\n\t\tids[i] = r.Relation.Members[i].FeatureID()\n\t\tannotated[i] = r.Relation.Members[i].Version != 0\n\t}\n",
		Replace: "\tmembers := r.Relation.Members\n\tfor i := range members {\n\t\tm := &members[i]\n\t\tannotated[i] = 0 != m.Version\n\t\tids[i] = m.FeatureID()\n\t}\n"},
	{Name: "option-local-and-conversion", File: c11fOpts,
		Find:    "\treturn func(o *core.Options) error {\n\t\to.IgnoreMissingChildren = yes\n\t\treturn nil\n\t}\n",
		Replace: "\tset := func(target *core.Options) (err error) {\n\t\tvalue := yes\n\t\ttarget.IgnoreMissingChildren = value\n\t\treturn err\n\t}\n\n\treturn Option(set)\n"},
	// ---- class 4: reordered independent statements
	{Name: "conversion-sort-first-index-loop", File: c11fDS,
		Find:    "\tlist := make(core.ChildList, len(nodes))\n\tnodes.SortByIDVersion()\n\tfor i, n := range nodes {\n\t\tc := shared.FromNode(n)\n\t\tc.VersionIndex = i\n\t\tlist[i] = c\n\t}\n",
		Replace: "\tnodes.SortByIDVersion()\n\tlist := make(core.ChildList, len(nodes))\n\tfor i := range nodes {\n\t\tlist[i] = shared.FromNode(nodes[i])\n\t\tlist[i].VersionIndex = i\n\t}\n"},
	{Name: "reverse-guard-respelled", File: c11fDS,
		Find:    "\t\tif i != 0 {\n\t\t\tc.ReverseOfPrevious = IsReverse(w, ways[i-1])\n\t\t}\n\n\t\tlist[i] = c\n",
		Replace: "\t\tlist[i] = c\n\t\tif i < 1 {\n\t\t\tcontinue\n\t\t}\n\n\t\tprevious := ways[i-1]\n\t\tc.ReverseOfPrevious = IsReverse(w, previous)\n"},
	{Name: "window-bounds-reordered", File: c11fCompute,
		Find:    "\t\t\tnextVersion := nextVersionIndex(c, child, nextParent, opts)\n\n\t\t\tstart := 0\n\t\t\tif c != nil {\n\t\t\t\tstart = c.VersionIndex + 1\n\t\t\t} else {\n\t\t\t\t// current child is not defined, is next child\n\t\t\t\tnext := child.VersionBefore(timeThresholdParent(parent, 0))\n\t\t\t\tif next == nil {\n\t\t\t\t\tstart = 0\n\t\t\t\t} else {\n\t\t\t\t\tstart = next.VersionIndex + 1\n\t\t\t\t}\n\t\t\t}\n",
		Replace: "\t\t\tvar start int\n\t\t\tif c == nil {\n\t\t\t\tif before := child.VersionBefore(timeThresholdParent(parent, 0)); before != nil {\n\t\t\t\t\tstart = before.VersionIndex + 1\n\t\t\t\t}\n\t\t\t} else {\n\t\t\t\tstart = c.VersionIndex + 1\n\t\t\t}\n\n\t\t\tnextVersion := nextVersionIndex(c, child, nextParent, opts)\n"},
	{Name: "ways-option-loop-counting-if-init", File: c11fWay,
		Find:    "\tfor _, o := range opts {\n\t\terr := o(computeOpts)\n\t\tif err != nil {\n\t\t\treturn err\n\t\t}\n\t}\n",
		Replace: "\tfor n := 0; n < len(opts); n++ {\n\t\tif err := opts[n](computeOpts); err != nil {\n\t\t\treturn err\n\t\t}\n\t}\n"},
	// ---- classes 1+2+3+5 together: Compute split into fetchHistory / annotateGroup / firstUpdate / collectUpdates
	{Name: "compute-split-into-helpers", File: c11fCompute,
		Find:    "\tresults := make([]osm.Updates, len(parents))\n\tfor fid, locations := range mapChildLocs(parents, opts.ChildFilter) {\n\t\tchild, err := histories.Get(ctx, fid)\n\t\tif err != nil {\n\t\t\tif !histories.NotFound(err) {\n\t\t\t\treturn nil, err\n\t\t\t}\n\n\t\t\tif opts.IgnoreMissingChildren {\n\t\t\t\tcontinue\n\t\t\t}\n\n\t\t\treturn nil, &NoHistoryError{ChildID: fid}\n\t\t}\n\n\t\tfor _, locs := range locations.GroupByParent() {\n\t\t\t// figure out the parent and the next parent\n\t\t\tparentIndex := locs[0].Parent\n\t\t\tparent := parents[parentIndex]\n\t\t\tif !parent.Visible() {\n\t\t\t\tcontinue\n\t\t\t}\n\n\t\t\tvar nextParent Parent\n\t\t\tif parentIndex < len(parents)-1 {\n\t\t\t\tnextParent = parents[parentIndex+1]\n\t\t\t}\n\n\t\t\t// get the current child\n\t\t\tc := child.FindVisible(\n\t\t\t\tparent.ChangesetID(),\n\t\t\t\ttimeThresholdParent(parent, 0),\n\t\t\t\topts.Threshold,\n\t\t\t)\n\t\t\tif c == nil && !opts.IgnoreInconsistency {\n\t\t\t\treturn nil, &NoVisibleChildError{\n\t\t\t\t\tChildID:   fid,\n\t\t\t\t\tTimestamp: timeThresholdParent(parent, 0)}\n\t\t\t}\n\n\t\t\t// straight up set this child on major version\n\t\t\tfor _, cl := range locs {\n\t\t\t\tparent.SetChild(cl.Index, c)\n\t\t\t}\n\n\t\t\t// nextVersionIndex figures out what version of this child\n\t\t\t// is present in the next parent version\n\t\t\tnextVersion := nextVersionIndex(c, child, nextParent, opts)\n\n\t\t\tstart := 0\n\t\t\tif c != nil {\n\t\t\t\tstart = c.VersionIndex + 1\n\t\t\t} else {\n\t\t\t\t// current child is not defined, is next child\n\t\t\t\tnext := child.VersionBefore(timeThresholdParent(parent, 0))\n\t\t\t\tif next == nil {\n\t\t\t\t\tstart = 0\n\t\t\t\t} else {\n\t\t\t\t\tstart = next.VersionIndex + 1\n\t\t\t\t}\n\t\t\t}\n\n\t\t\tvar updates osm.Updates\n\t\t\tfor k := start; k < nextVersion; k++ {\n\t\t\t\tif child[k].Visible {\n\t\t\t\t\t// It's possible for this child to be present at multiple locations in the parent\n\t\t\t\t\tfor _, cl := range locs {\n\t\t\t\t\t\tu := child[k].Update()\n\t\t\t\t\t\tu.Index = cl.Index\n\t\t\t\t\t\tupdates = append(updates, u)\n\t\t\t\t\t}\n\t\t\t\t} else {\n\t\t\t\t\t// A child has become not-visible between parent version.\n\t\t\t\t\t// This is a data inconsistency that can happen in old data\n\t\t\t\t\t// i.e. pre element versioning.\n\t\t\t\t\t//\n\t\t\t\t\t// see node 321452894, changed 7 times in\n\t\t\t\t\t// the same changeset, version 5 was a delete. (also node 65172196)\n\t\t\t\t\tif !opts.IgnoreInconsistency {\n\t\t\t\t\t\treturn nil, fmt.Errorf(\"%v: %v: child deleted between parent versions\",\n\t\t\t\t\t\t\tparent.ID(), fid)\n\t\t\t\t\t}\n\t\t\t\t}\n\t\t\t}\n\n\t\t\t// we have what we need for this parent version.\n\t\t\tresults[parentIndex] = append(results[parentIndex], updates...)\n\t\t}\n\t}\n\n\tfor _, r := range results {\n\t\tr.SortByIndex()\n\t}\n\n\treturn results, nil\n}\n\n",
		Replace: "\tresults := make([]osm.Updates, len(parents))\n\tfor fid, locations := range mapChildLocs(parents, opts.ChildFilter) {\n\t\tchild, skip, err := fetchHistory(ctx, histories, fid, opts)\n\t\tif err != nil {\n\t\t\treturn nil, err\n\t\t}\n\t\tif skip {\n\t\t\tcontinue\n\t\t}\n\n\t\tfor _, locs := range locations.GroupByParent() {\n\t\t\tupdates, err := annotateGroup(parents, locs, fid, child, opts)\n\t\t\tif err != nil {\n\t\t\t\treturn nil, err\n\t\t\t}\n\n\t\t\t// we have what we need for this parent version.\n\t\t\tat := locs[0].Parent\n\t\t\tresults[at] = append(results[at], updates...)\n\t\t}\n\t}\n\n\tfor _, r := range results {\n\t\tr.SortByIndex()\n\t}\n\n\treturn results, nil\n}\n\n// fetchHistory gets the history of a child, skip is true if it is missing and that is okay.\nfunc fetchHistory(ctx context.Context, ds Datasourcer, id osm.FeatureID, o *Options) (ChildList, bool, error) {\n\tlist, err := ds.Get(ctx, id)\n\tif err == nil {\n\t\treturn list, false, nil\n\t}\n\n\tif ds.NotFound(err) {\n\t\tif o.IgnoreMissingChildren {\n\t\t\treturn nil, true, nil\n\t\t}\n\n\t\treturn nil, false, &NoHistoryError{ChildID: id}\n\t}\n\n\treturn nil, false, err\n}\n\n// annotateGroup sets the child on one parent version and computes the updates up to the next one.\nfunc annotateGroup(all []Parent, group childLocs, id osm.FeatureID, history ChildList, o *Options) (osm.Updates, error) {\n\tidx := group[0].Parent\n\tp := all[idx]\n\tif !p.Visible() {\n\t\treturn nil, nil\n\t}\n\n\tvar following Parent\n\tif idx+1 < len(all) {\n\t\tfollowing = all[idx+1]\n\t}\n\n\twhen := timeThresholdParent(p, 0)\n\tcurrent := history.FindVisible(p.ChangesetID(), when, o.Threshold)\n\tif current == nil && !o.IgnoreInconsistency {\n\t\treturn nil, &NoVisibleChildError{ChildID: id, Timestamp: when}\n\t}\n\n\tfor i := range group {\n\t\tp.SetChild(group[i].Index, current)\n\t}\n\n\treturn collectUpdates(p, group, id, history, firstUpdate(current, history, when), nextVersionIndex(current, history, following, o), o.IgnoreInconsistency)\n}\n\nfunc firstUpdate(current *shared.Child, history ChildList, when time.Time) int {\n\tif current == nil {\n\t\tcurrent = history.VersionBefore(when)\n\t}\n\tif current == nil {\n\t\treturn 0\n\t}\n\treturn current.VersionIndex + 1\n}\n\nfunc collectUpdates(p Parent, group childLocs, id osm.FeatureID, history ChildList, from, to int, lenient bool) (osm.Updates, error) {\n\tvar updates osm.Updates\n\tfor ; from < to; from++ {\n\t\tversion := history[from]\n\t\tif !version.Visible {\n\t\t\tif lenient {\n\t\t\t\tcontinue\n\t\t\t}\n\t\t\treturn nil, fmt.Errorf(\"%v: %v: child deleted between parent versions\", p.ID(), id)\n\t\t}\n\n\t\tfor _, loc := range group {\n\t\t\tu := version.Update()\n\t\t\tu.Index = loc.Index\n\t\t\tupdates = append(updates, u)\n\t\t}\n\t}\n\n\treturn updates, nil\n}\n\n"},
	// ---- A6
	{Name: "updates-less-nested-aliases", File: "update.go",
		Find:    "\tif us[i].Index != us[j].Index {\n\t\treturn us[i].Index < us[j].Index\n\t}\n\n\tif !us[i].Timestamp.Equal(us[j].Timestamp) {\n\t\treturn us[i].Timestamp.Before(us[j].Timestamp)\n\t}\n\n\treturn us[i].Version < us[j].Version\n",
		Replace: "\ta, b := us[i], &us[j]\n\tif a.Index == b.Index {\n\t\tif a.Timestamp.Equal(b.Timestamp) {\n\t\t\treturn a.Version < b.Version\n\t\t}\n\n\t\treturn b.Timestamp.After(a.Timestamp)\n\t}\n\n\treturn b.Index > a.Index\n"},
	{Name: "compute-sort-counting-loop", File: c11fCompute,
		Find:    "\tfor _, r := range results {\n\t\tr.SortByIndex()\n\t}\n",
		Replace: "\tfor n := 0; n < len(results); n++ {\n\t\tresults[n].SortByIndex()\n\t}\n"},

	// ---- round 3: the update built once before the location loop, closures handed around, loops in other forms, grouped parameters
	{Name: "update-built-once-before-location-loop", File: c11fCompute,
		Find:    "\t\t\t\t\tfor _, cl := range locs {\n\t\t\t\t\t\tu := child[k].Update()\n\t\t\t\t\t\tu.Index = cl.Index\n\t\t\t\t\t\tupdates = append(updates, u)\n\t\t\t\t\t}\n",
		Replace: "\t\t\t\t\tu := child[k].Update()\n\t\t\t\t\tfor _, cl := range locs {\n\t\t\t\t\t\tu.Index = cl.Index\n\t\t\t\t\t\tupdates = append(updates, u)\n\t\t\t\t\t}\n"},
	{Name: "locations-via-closure-helper", File: c11fCompute,
		Find:    "\t\t\t\t\tfor _, cl := range locs {\n\t\t\t\t\t\tu := child[k].Update()\n\t\t\t\t\t\tu.Index = cl.Index\n\t\t\t\t\t\tupdates = append(updates, u)\n\t\t\t\t\t}\n",
		Replace: "\t\t\t\t\teach := func(f func(index int)) {\n\t\t\t\t\t\tfor i := 0; i < len(locs); i++ {\n\t\t\t\t\t\t\tf(locs[i].Index)\n\t\t\t\t\t\t}\n\t\t\t\t\t}\n\t\t\t\t\teach(func(at int) {\n\t\t\t\t\t\tu := child[k].Update()\n\t\t\t\t\t\tu.Index = at\n\t\t\t\t\t\tupdates = append(updates, u)\n\t\t\t\t\t})\n"},
	{Name: "window-ranges-over-subslice", File: c11fCompute,
		Find:    "\t\t\tfor k := start; k < nextVersion; k++ {\n\t\t\t\tif child[k].Visible {\n\t\t\t\t\t// It's possible for this child to be present at multiple locations in the parent\n\t\t\t\t\tfor _, cl := range locs {\n\t\t\t\t\t\tu := child[k].Update()\n\t\t\t\t\t\tu.Index = cl.Index\n\t\t\t\t\t\tupdates = append(updates, u)\n\t\t\t\t\t}\n\t\t\t\t} else {\n\t\t\t\t\t// A child has become not-visible between parent version.\n\t\t\t\t\t// This is a data inconsistency that can happen in old data\n\t\t\t\t\t// i.e. pre element versioning.\n\t\t\t\t\t//\n\t\t\t\t\t// see node 321452894, changed 7 times in\n\t\t\t\t\t// the same changeset, version 5 was a delete. (also node 65172196)\n\t\t\t\t\tif !opts.IgnoreInconsistency {\n\t\t\t\t\t\treturn nil, fmt.Errorf(\"%v: %v: child deleted between parent versions\",\n\t\t\t\t\t\t\tparent.ID(), fid)\n\t\t\t\t\t}\n\t\t\t\t}\n\t\t\t}\n\n",
		Replace: "\t\t\tif start < nextVersion {\n\t\t\t\tfor _, version := range child[start:nextVersion] {\n\t\t\t\t\tif !version.Visible {\n\t\t\t\t\t\tif !opts.IgnoreInconsistency {\n\t\t\t\t\t\t\treturn nil, fmt.Errorf(\"%v: %v: child deleted between parent versions\",\n\t\t\t\t\t\t\t\tparent.ID(), fid)\n\t\t\t\t\t\t}\n\n\t\t\t\t\t\tcontinue\n\t\t\t\t\t}\n\n\t\t\t\t\tfor _, cl := range locs {\n\t\t\t\t\t\tu := version.Update()\n\t\t\t\t\t\tu.Index = cl.Index\n\t\t\t\t\t\tupdates = append(updates, u)\n\t\t\t\t\t}\n\t\t\t\t}\n\t\t\t}\n\n"},
	{Name: "setchild-counting-loop-grouped-struct", File: c11fCompute,
		Find:    "\t\t\tfor _, cl := range locs {\n\t\t\t\tparent.SetChild(cl.Index, c)\n\t\t\t}\n",
		Replace: "\t\t\ttype target struct {\n\t\t\t\tp  Parent\n\t\t\t\tls childLocs\n\t\t\t}\n\t\t\tjob := target{p: parent, ls: locs}\n\t\t\tfor n := 0; n < len(job.ls); n++ {\n\t\t\t\tjob.p.SetChild(job.ls[n].Index, c)\n\t\t\t}\n"},
	{Name: "current-child-through-closure", File: c11fCompute,
		Find:    "\t\t\tc := child.FindVisible(\n\t\t\t\tparent.ChangesetID(),\n\t\t\t\ttimeThresholdParent(parent, 0),\n\t\t\t\topts.Threshold,\n\t\t\t)\n",
		Replace: "\t\t\tcurrent := func(eps time.Duration) *shared.Child {\n\t\t\t\tat := timeThresholdParent(parent, 0)\n\t\t\t\treturn child.FindVisible(parent.ChangesetID(), at, eps)\n\t\t\t}\n\t\t\tc := current(opts.Threshold)\n"},

	// ---- round 4: the bound of the window (nextVersionIndex) respelled
	{Name: "bound-fallback-through-local", File: c11fCompute,
		Find:    "\t// visble or not, we want to want to include it.\n\t// novisible versions of this child will be filtered out below.\n\treturn next.VersionIndex + 1\n}\n",
		Replace: "\tk := next.VersionIndex\n\treturn k + 1\n}\n"},
	{Name: "bound-at-next-branches-inverted", File: c11fCompute,
		Find:    "\t\tif timeThreshold(next, 0).Before(timeThresholdParent(nextParent, -opts.Threshold)) {\n\t\t\treturn next.VersionIndex + 1\n\t\t}\n\n\t\treturn next.VersionIndex\n",
		Replace: "\t\tlate := !timeThreshold(next, 0).Before(timeThresholdParent(nextParent, -opts.Threshold))\n\t\tif late {\n\t\t\treturn next.VersionIndex\n\t\t}\n\n\t\treturn 1 + next.VersionIndex\n"},
	{Name: "bound-fallback-after-helper-closure", File: c11fCompute,
		Find:    "\t// visble or not, we want to want to include it.\n\t// novisible versions of this child will be filtered out below.\n\treturn next.VersionIndex + 1\n}\n",
		Replace: "\tafter := func(v *shared.Child) int { return v.VersionIndex + 1 }\n\treturn after(next)\n}\n"},
	{Name: "bound-fallback-switch-form", File: c11fCompute,
		Find:    "\tnext = child.VersionBefore(ts)\n\tif next == nil {\n\t\t// missing at current and next parent.\n\t\treturn 0 // no updates.\n\t}\n\n\t// visble or not, we want to want to include it.\n\t// novisible versions of this child will be filtered out below.\n\treturn next.VersionIndex + 1\n}\n",
		Replace: "\tswitch last := child.VersionBefore(ts); {\n\tcase last == nil:\n\t\treturn 0\n\tdefault:\n\t\treturn last.VersionIndex + 1\n\t}\n}\n"},
	{Name: "bound-no-next-parent-named-last", File: c11fCompute,
		Find:    "\t\treturn child[len(child)-1].VersionIndex + 1\n",
		Replace: "\t\tlast := child[len(child)-1]\n\t\treturn 1 + last.VersionIndex\n"},

	// ---- round 5: the grouping method respelled (decided by finite-domain evaluation)
	{Name: "groupby-start-end-markers", File: c11fCompute,
		Find:    "\tvar result []childLocs\n\n\tfor len(locs) > 0 {\n\t\tp := locs[0].Parent\n\t\tend := 0\n\n\t\tfor end < len(locs) && locs[end].Parent == p {\n\t\t\tend++\n\t\t}\n\n\t\tresult = append(result, locs[:end])\n\t\tlocs = locs[end:]\n\t}\n\n\treturn result\n",
		Replace: "\tvar result []childLocs\n\n\tstart := 0\n\tfor end := 1; end <= len(locs); end++ {\n\t\tif end == len(locs) || locs[end].Parent != locs[start].Parent {\n\t\t\tresult = append(result, locs[start:end])\n\t\t\tstart = end\n\t\t}\n\t}\n\n\treturn result\n"},
	{Name: "groupby-flush-at-end", File: c11fCompute,
		Find:    "\tvar result []childLocs\n\n\tfor len(locs) > 0 {\n\t\tp := locs[0].Parent\n\t\tend := 0\n\n\t\tfor end < len(locs) && locs[end].Parent == p {\n\t\t\tend++\n\t\t}\n\n\t\tresult = append(result, locs[:end])\n\t\tlocs = locs[end:]\n\t}\n\n\treturn result\n",
		Replace: "\tif len(locs) == 0 {\n\t\treturn nil\n\t}\n\n\tvar result []childLocs\n\tstart := 0\n\tfor i := 1; i < len(locs); i++ {\n\t\tif locs[i].Parent != locs[i-1].Parent {\n\t\t\tresult = append(result, locs[start:i])\n\t\t\tstart = i\n\t\t}\n\t}\n\n\treturn append(result, locs[start:])\n"},
	{Name: "groupby-emit-helper-closure", File: c11fCompute,
		Find:    "\tvar result []childLocs\n\n\tfor len(locs) > 0 {\n\t\tp := locs[0].Parent\n\t\tend := 0\n\n\t\tfor end < len(locs) && locs[end].Parent == p {\n\t\t\tend++\n\t\t}\n\n\t\tresult = append(result, locs[:end])\n\t\tlocs = locs[end:]\n\t}\n\n\treturn result\n",
		Replace: "\tvar result []childLocs\n\temit := func(from, to int) int {\n\t\tresult = append(result, locs[from:to])\n\t\treturn to\n\t}\n\n\tstart := 0\n\tfor i := range locs {\n\t\tif i > start && locs[i].Parent != locs[start].Parent {\n\t\t\tstart = emit(start, i)\n\t\t}\n\t}\n\tif start < len(locs) {\n\t\temit(start, len(locs))\n\t}\n\n\treturn result\n"},

	// ---- round 6: representation changes: comparator carried in a struct field / sort.Slice closure, generic list builder with a callback,
	// window state in a struct, (value, found) results, named constant as sentinel
	{Name: "updates-sorter-struct-with-order-field", File: "update.go",
		Find:    "type updatesSortIndex Updates\n\n// SortByIndex will sort the updates by index in ascending order.\nfunc (us Updates) SortByIndex()           { sort.Sort(updatesSortIndex(us)) }\nfunc (us updatesSortIndex) Len() int      { return len(us) }\nfunc (us updatesSortIndex) Swap(i, j int) { us[i], us[j] = us[j], us[i] }\nfunc (us updatesSortIndex) Less(i, j int) bool {\n\tif us[i].Index != us[j].Index {\n\t\treturn us[i].Index < us[j].Index\n\t}\n\n\tif !us[i].Timestamp.Equal(us[j].Timestamp) {\n\t\treturn us[i].Timestamp.Before(us[j].Timestamp)\n\t}\n\n\treturn us[i].Version < us[j].Version\n}\n",
		Replace: "// updatesSorter sorts updates by the order it carries.\ntype updatesSorter struct {\n\tlist  Updates\n\torder func(a, b *Update) bool\n}\n\nfunc (s updatesSorter) Len() int           { return len(s.list) }\nfunc (s updatesSorter) Swap(i, j int)      { s.list[i], s.list[j] = s.list[j], s.list[i] }\nfunc (s updatesSorter) Less(i, j int) bool { return s.order(&s.list[i], &s.list[j]) }\n\n// SortByIndex will sort the updates by index in ascending order.\nfunc (us Updates) SortByIndex() { sort.Sort(updatesSorter{list: us, order: byIndexTimeVersion}) }\n\nfunc byTime(a, b *Update) bool { return a.Timestamp.Before(b.Timestamp) }\n\nfunc byIndexTimeVersion(a, b *Update) bool {\n\tswitch {\n\tcase a.Index != b.Index:\n\t\treturn a.Index < b.Index\n\tcase a.Timestamp.Equal(b.Timestamp):\n\t\treturn a.Version < b.Version\n\t}\n\treturn byTime(a, b)\n}\n"},
	{Name: "updates-sorter-field-holds-closure", File: "update.go",
		Find:    "type updatesSortIndex Updates\n\n// SortByIndex will sort the updates by index in ascending order.\nfunc (us Updates) SortByIndex()           { sort.Sort(updatesSortIndex(us)) }\nfunc (us updatesSortIndex) Len() int      { return len(us) }\nfunc (us updatesSortIndex) Swap(i, j int) { us[i], us[j] = us[j], us[i] }\nfunc (us updatesSortIndex) Less(i, j int) bool {\n\tif us[i].Index != us[j].Index {\n\t\treturn us[i].Index < us[j].Index\n\t}\n\n\tif !us[i].Timestamp.Equal(us[j].Timestamp) {\n\t\treturn us[i].Timestamp.Before(us[j].Timestamp)\n\t}\n\n\treturn us[i].Version < us[j].Version\n}\n",
		Replace: "type updatesSorter struct {\n\tlist  Updates\n\torder func(i, j int) bool\n}\n\nfunc (s *updatesSorter) Len() int           { return len(s.list) }\nfunc (s *updatesSorter) Swap(i, j int)      { s.list[i], s.list[j] = s.list[j], s.list[i] }\nfunc (s *updatesSorter) Less(i, j int) bool { return s.order(i, j) }\n\n// SortByIndex will sort the updates by index in ascending order.\nfunc (us Updates) SortByIndex() {\n\ts := &updatesSorter{list: us}\n\ts.order = func(i, j int) bool {\n\t\ta, b := s.list[i], s.list[j]\n\t\tif a.Index != b.Index {\n\t\t\treturn a.Index < b.Index\n\t\t}\n\t\tif a.Timestamp.Equal(b.Timestamp) {\n\t\t\treturn a.Version < b.Version\n\t\t}\n\t\treturn a.Timestamp.Before(b.Timestamp)\n\t}\n\tsort.Sort(s)\n}\n"},
	{Name: "updates-sort-slice-closure", File: "update.go",
		Find:    "type updatesSortIndex Updates\n\n// SortByIndex will sort the updates by index in ascending order.\nfunc (us Updates) SortByIndex()           { sort.Sort(updatesSortIndex(us)) }\nfunc (us updatesSortIndex) Len() int      { return len(us) }\nfunc (us updatesSortIndex) Swap(i, j int) { us[i], us[j] = us[j], us[i] }\nfunc (us updatesSortIndex) Less(i, j int) bool {\n\tif us[i].Index != us[j].Index {\n\t\treturn us[i].Index < us[j].Index\n\t}\n\n\tif !us[i].Timestamp.Equal(us[j].Timestamp) {\n\t\treturn us[i].Timestamp.Before(us[j].Timestamp)\n\t}\n\n\treturn us[i].Version < us[j].Version\n}\n",
		Replace: "// SortByIndex will sort the updates by index in ascending order.\nfunc (us Updates) SortByIndex() {\n\tsort.Slice(us, func(i, j int) bool {\n\t\ta, b := &us[i], &us[j]\n\t\tif a.Index != b.Index {\n\t\t\treturn a.Index < b.Index\n\t\t}\n\t\tif !a.Timestamp.Equal(b.Timestamp) {\n\t\t\treturn a.Timestamp.Before(b.Timestamp)\n\t\t}\n\t\treturn a.Version < b.Version\n\t})\n}\n"},
	{Name: "childlist-generic-builder-with-callback", File: "annotate/datasource.go",
		Find:    "func relationsToChildList(relations osm.Relations) core.ChildList {\n\tif len(relations) == 0 {\n\t\treturn nil\n\t}\n\n\tlist := make(core.ChildList, len(relations))\n\trelations.SortByIDVersion()\n\tfor i, r := range relations {\n\t\tc := shared.FromRelation(r)\n\t\tc.VersionIndex = i\n\t\tlist[i] = c\n\t}\n\n\treturn list\n}\n",
		Replace: "func relationsToChildList(relations osm.Relations) core.ChildList {\n\trelations.SortByIDVersion()\n\treturn buildChildren(len(relations), func(at int) *shared.Child { return shared.FromRelation(relations[at]) })\n}\n\n// buildChildren makes the list of n children, the i-th one produced by child(i).\nfunc buildChildren(n int, child func(at int) *shared.Child) core.ChildList {\n\tif n == 0 {\n\t\treturn nil\n\t}\n\n\tchildren := make(core.ChildList, n)\n\tfor at := 0; at < n; at++ {\n\t\tchildren[at] = child(at)\n\t\tchildren[at].VersionIndex = at\n\t}\n\n\treturn children\n}\n"},
	{Name: "window-state-in-struct-found-result", File: "annotate/internal/core/compute.go",
		Find:    "\t\t\tstart := 0\n\t\t\tif c != nil {\n\t\t\t\tstart = c.VersionIndex + 1\n\t\t\t} else {\n\t\t\t\t// current child is not defined, is next child\n\t\t\t\tnext := child.VersionBefore(timeThresholdParent(parent, 0))\n\t\t\t\tif next == nil {\n\t\t\t\t\tstart = 0\n\t\t\t\t} else {\n\t\t\t\t\tstart = next.VersionIndex + 1\n\t\t\t\t}\n\t\t\t}\n\n\t\t\tvar updates osm.Updates\n\t\t\tfor k := start; k < nextVersion; k++ {\n",
		Replace: "\t\t\ttype span struct{ from, to int }\n\t\t\twindow := span{to: nextVersion}\n\t\t\tlookup := func() (*shared.Child, bool) {\n\t\t\t\tv := child.VersionBefore(timeThresholdParent(parent, 0))\n\t\t\t\treturn v, v != nil\n\t\t\t}\n\t\t\tif c != nil {\n\t\t\t\twindow.from = c.VersionIndex + 1\n\t\t\t} else if before, found := lookup(); found {\n\t\t\t\twindow.from = before.VersionIndex + 1\n\t\t\t}\n\n\t\t\tvar updates osm.Updates\n\t\t\tfor k := window.from; k < window.to; k++ {\n"},
	{Name: "no-updates-sentinel-named-constant", File: "annotate/internal/core/compute.go",
		Find:    "\t\treturn 0 // no updates.\n\t}\n\n\t// current child and next parent are far apart.",
		Replace: "\t\tconst noUpdates = 0\n\t\treturn noUpdates\n\t}\n\n\t// current child and next parent are far apart."},

	// ---- append-built <-> presized+indexed
	{Name: "childlist-append-built", File: "annotate/datasource.go",
		Find:    "\tlist := make(core.ChildList, len(nodes))\n\tnodes.SortByIDVersion()\n\tfor i, n := range nodes {\n\t\tc := shared.FromNode(n)\n\t\tc.VersionIndex = i\n\t\tlist[i] = c\n\t}\n",
		Replace: "\tnodes.SortByIDVersion()\n\tlist := make(core.ChildList, 0, len(nodes))\n\tfor _, n := range nodes {\n\t\tc := shared.FromNode(n)\n\t\tc.VersionIndex = len(list)\n\t\tlist = append(list, c)\n\t}\n"},
	{Name: "refs-append-built-counting-loop", File: "annotate/way.go",
		Find:    "\tids := make(osm.FeatureIDs, len(w.Way.Nodes))\n\tannotated := make([]bool, len(w.Way.Nodes))\n\n\tfor i := range w.Way.Nodes {\n\t\tids[i] = w.Way.Nodes[i].FeatureID()\n\t\tannotated[i] = w.Way.Nodes[i].Version != 0\n\t}\n",
		Replace: "\tvar (\n\t\tids       osm.FeatureIDs\n\t\tannotated = make([]bool, 0, len(w.Way.Nodes))\n\t)\n\n\tfor n := 0; n < len(w.Way.Nodes); n++ {\n\t\tnode := &w.Way.Nodes[n]\n\t\tids = append(ids, node.FeatureID())\n\t\tannotated = append(annotated, node.Version != 0)\n\t}\n"},

	// ---- round 7: reversal flag guards, right-sized copies of the result lists, pointers to locals / method values / defer
	{Name: "reverse-flag-and-guard", File: "annotate/datasource.go",
		Find:    "\t\tif i != 0 {\n\t\t\tc.ReverseOfPrevious = IsReverse(w, ways[i-1])\n\t\t}\n",
		Replace: "\t\tc.ReverseOfPrevious = i > 0 && IsReverse(w, ways[i-1])\n"},
	{Name: "reverse-flag-via-variable", File: "annotate/datasource.go",
		Find:    "\t\tif i != 0 {\n\t\t\tc.ReverseOfPrevious = IsReverse(w, ways[i-1])\n\t\t}\n",
		Replace: "\t\treversed := false\n\t\tif i >= 1 {\n\t\t\treversed = IsReverse(ways[i-1], w)\n\t\t}\n\t\tc.ReverseOfPrevious = reversed\n"},
	{Name: "results-compacted-then-sorted", File: "annotate/internal/core/compute.go",
		Find:    "\tfor _, r := range results {\n\t\tr.SortByIndex()\n\t}\n",
		Replace: "\tfor i := range results {\n\t\tif r := results[i]; cap(r)-len(r) >= 32 {\n\t\t\tresults[i] = append(make(osm.Updates, 0, len(r)), r...)\n\t\t}\n\n\t\tresults[i].SortByIndex()\n\t}\n"},
	{Name: "results-sorted-then-compacted", File: "annotate/internal/core/compute.go",
		Find:    "\tfor _, r := range results {\n\t\tr.SortByIndex()\n\t}\n",
		Replace: "\tfor i, r := range results {\n\t\tr.SortByIndex()\n\t\tif cap(r)-len(r) >= 32 {\n\t\t\tresults[i] = append(make(osm.Updates, 0, len(r)), r...)\n\t\t}\n\t}\n"},
	{Name: "updates-through-pointer-and-method-value", File: "annotate/internal/core/compute.go",
		Find:    "\t\t\t\t\tfor _, cl := range locs {\n\t\t\t\t\t\tu := child[k].Update()\n\t\t\t\t\t\tu.Index = cl.Index\n\t\t\t\t\t\tupdates = append(updates, u)\n\t\t\t\t\t}\n",
		Replace: "\t\t\t\t\temit := func(dst *osm.Updates, build func() osm.Update) {\n\t\t\t\t\t\tdefer func() {}()\n\t\t\t\t\t\tfor i := range locs {\n\t\t\t\t\t\t\tu := build()\n\t\t\t\t\t\t\tu.Index = locs[i].Index\n\t\t\t\t\t\t\t*dst = append(*dst, u)\n\t\t\t\t\t\t}\n\t\t\t\t\t}\n\t\t\t\t\temit(&updates, child[k].Update)\n"},

	// ---- round 8: reversal flag in a later pass over the built list, De Morgan on the filter guard, an option refusing negative values
	{Name: "reverse-in-second-pass", File: "annotate/datasource.go",
		Find:    "\t\tif i != 0 {\n\t\t\tc.ReverseOfPrevious = IsReverse(w, ways[i-1])\n\t\t}\n\n\t\tlist[i] = c\n\t}\n\n\treturn list\n",
		Replace: "\t\tlist[i] = c\n\t}\n\n\tfor i := 1; i < len(list); i++ {\n\t\tlist[i].ReverseOfPrevious = IsReverse(ways[i], ways[i-1])\n\t}\n\n\treturn list\n"},
	{Name: "reverse-in-second-pass-range-continue", File: "annotate/datasource.go",
		Find:    "\t\tif i != 0 {\n\t\t\tc.ReverseOfPrevious = IsReverse(w, ways[i-1])\n\t\t}\n\n\t\tlist[i] = c\n\t}\n\n\treturn list\n",
		Replace: "\t\tlist[i] = c\n\t}\n\n\tfor i := range list {\n\t\tif i == 0 {\n\t\t\tcontinue\n\t\t}\n\t\tprev, cur := ways[i-1], ways[i]\n\t\tlist[i].ReverseOfPrevious = IsReverse(prev, cur)\n\t}\n\n\treturn list\n"},
	{Name: "filter-guard-demorgan", File: "annotate/internal/core/compute.go",
		Find:    "\t\t\tif annotated[j] && filter != nil && !filter(fid) {\n",
		Replace: "\t\t\tif !(!annotated[j] || filter == nil || filter(fid)) {\n"},
	{Name: "threshold-refuses-negative", File: "annotate/options.go",
		Find:    "\t\to.Threshold = t\n\t\treturn nil\n",
		Replace: "\t\tif t < 0 {\n\t\t\treturn nil\n\t\t}\n\n\t\to.Threshold = t\n\t\treturn nil\n"},

	// ---- round 8: labelled `for {}` + switch window, result struct with a named result, method on a captured-variables struct writing
	// through a pointer field, callback iterator whose bool result means "keep going"
	{Name: "window-pipeline-struct-emitter-each", File: c11fCompute,
		Find:    "\t\t\t// nextVersionIndex figures out what version of this child\n\t\t\t// is present in the next parent version\n\t\t\tnextVersion := nextVersionIndex(c, child, nextParent, opts)\n\n\t\t\tstart := 0\n\t\t\tif c != nil {\n\t\t\t\tstart = c.VersionIndex + 1\n\t\t\t} else {\n\t\t\t\t// current child is not defined, is next child\n\t\t\t\tnext := child.VersionBefore(timeThresholdParent(parent, 0))\n\t\t\t\tif next == nil {\n\t\t\t\t\tstart = 0\n\t\t\t\t} else {\n\t\t\t\t\tstart = next.VersionIndex + 1\n\t\t\t\t}\n\t\t\t}\n\n\t\t\tvar updates osm.Updates\n\t\t\tfor k := start; k < nextVersion; k++ {\n\t\t\t\tif child[k].Visible {\n\t\t\t\t\t// It's possible for this child to be present at multiple locations in the parent\n\t\t\t\t\tfor _, cl := range locs {\n\t\t\t\t\t\tu := child[k].Update()\n\t\t\t\t\t\tu.Index = cl.Index\n\t\t\t\t\t\tupdates = append(updates, u)\n\t\t\t\t\t}\n\t\t\t\t} else {\n\t\t\t\t\t// A child has become not-visible between parent version.\n\t\t\t\t\t// This is a data inconsistency that can happen in old data\n\t\t\t\t\t// i.e. pre element versioning.\n\t\t\t\t\t//\n\t\t\t\t\t// see node 321452894, changed 7 times in\n\t\t\t\t\t// the same changeset, version 5 was a delete. (also node 65172196)\n\t\t\t\t\tif !opts.IgnoreInconsistency {\n\t\t\t\t\t\treturn nil, fmt.Errorf(\"%v: %v: child deleted between parent versions\",\n\t\t\t\t\t\t\tparent.ID(), fid)\n\t\t\t\t\t}\n\t\t\t\t}\n\t\t\t}\n\n\t\t\t// we have what we need for this parent version.\n\t\t\tresults[parentIndex] = append(results[parentIndex], updates...)\n\t\t}\n\t}\n\n\tfor _, r := range results {\n\t\tr.SortByIndex()\n\t}\n\n\treturn results, nil\n}\n\n",
		Replace: "\t\t\twin := windowOf(c, child, parent, nextParent, opts)\n\n\t\t\tvar updates osm.Updates\n\t\t\tem := emitter{into: &updates, locs: locs}\n\t\t\tk := win.from\n\t\twindow:\n\t\t\tfor {\n\t\t\t\tswitch {\n\t\t\t\tcase k >= win.to:\n\t\t\t\t\tbreak window\n\t\t\t\tcase child[k].Visible:\n\t\t\t\t\tem.emit(child[k])\n\t\t\t\tcase !opts.IgnoreInconsistency:\n\t\t\t\t\treturn nil, fmt.Errorf(\"%v: %v: child deleted between parent versions\",\n\t\t\t\t\t\tparent.ID(), fid)\n\t\t\t\t}\n\t\t\t\tk++\n\t\t\t}\n\n\t\t\t// we have what we need for this parent version.\n\t\t\tresults[parentIndex] = append(results[parentIndex], updates...)\n\t\t}\n\t}\n\n\tfor _, r := range results {\n\t\tr.SortByIndex()\n\t}\n\n\treturn results, nil\n}\n\n// span is the half open range of child versions that are minor versions of a parent.\ntype span struct{ from, to int }\n\nfunc windowOf(c *shared.Child, child ChildList, parent, nextParent Parent, opts *Options) (w span) {\n\tw.to = nextVersionIndex(c, child, nextParent, opts)\n\tif c == nil {\n\t\tc = child.VersionBefore(timeThresholdParent(parent, 0))\n\t}\n\tif c != nil {\n\t\tw.from = c.VersionIndex + 1\n\t}\n\treturn\n}\n\n// emitter appends one update per location.\ntype emitter struct {\n\tinto *osm.Updates\n\tlocs childLocs\n}\n\nfunc (e *emitter) emit(c *shared.Child) {\n\te.locs.each(func(cl childLoc) bool {\n\t\tu := c.Update()\n\t\tu.Index = cl.Index\n\t\t*e.into = append(*e.into, u)\n\t\treturn true\n\t})\n}\n\n// each calls f for every location until it returns false.\nfunc (locs childLocs) each(f func(childLoc) bool) {\n\tfor _, cl := range locs {\n\t\tif !f(cl) {\n\t\t\treturn\n\t\t}\n\t}\n}\n\n"},

	// ---- round 9: the location map obtained elsewhere than from make
	{Name: "location-map-reused-and-emptied", File: c11fCompute,
		Find:    "// mapChildLocs builds a cache of a where a child is in a set of parents.\nfunc mapChildLocs(parents []Parent, filter func(osm.FeatureID) bool) map[osm.FeatureID]childLocs {\n\tresult := make(map[osm.FeatureID]childLocs)\n",
		Replace: "// spareChildLocs is the location map of the previous call, kept for its buckets.\nvar spareChildLocs = make(map[osm.FeatureID]childLocs)\n\n// mapChildLocs builds a cache of a where a child is in a set of parents.\nfunc mapChildLocs(parents []Parent, filter func(osm.FeatureID) bool) map[osm.FeatureID]childLocs {\n\tresult := spareChildLocs\n\tfor stale := range result {\n\t\tdelete(result, stale)\n\t}\n"},
	{Name: "location-map-from-helper", File: c11fCompute,
		Find:    "// mapChildLocs builds a cache of a where a child is in a set of parents.\nfunc mapChildLocs(parents []Parent, filter func(osm.FeatureID) bool) map[osm.FeatureID]childLocs {\n\tresult := make(map[osm.FeatureID]childLocs)\n",
		Replace: "func newChildLocsMap(sizeHint int) map[osm.FeatureID]childLocs {\n\treturn make(map[osm.FeatureID]childLocs, sizeHint)\n}\n\n// mapChildLocs builds a cache of a where a child is in a set of parents.\nfunc mapChildLocs(parents []Parent, filter func(osm.FeatureID) bool) map[osm.FeatureID]childLocs {\n\tresult := newChildLocsMap(len(parents))\n"},
	{Name: "empty-history-guarded-before-last-version", File: c11fCompute,
		Find:    "\tif nextParent == nil {\n\t\t// No next parent version",
		Replace: "\tif len(child) < 1 {\n\t\treturn 0\n\t}\n\n\tif nextParent == nil {\n\t\t// No next parent version"},
}
