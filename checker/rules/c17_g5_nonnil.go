package rules

import (
	"go/ast"
	"go/token"
	"sort"
)

// nonnil@<func>: every value put into the feature list is known not to be nil at that point. The builders return nil
// for elements that do not map to a feature (a node without location, a one-point way, a route without resolvable
// members); emitting that nil would add an empty entry to the collection for an element that must yield none.
// Accepted evidence, whatever the shape: a guard fact `x != nil` controlling the emission (also when the emission
// lives in a closure or helper and x is its parameter), x built in place (&T{…}, geojson.NewFeature(…)), or x coming
// from a package helper none of whose returns can be nil.
func (an *c17G5An) checkNonNil() {
	r, info, fset := an.r, an.a.info, an.a.fset
	var fns []*c17Fn
	for fn := range an.sites {
		fns = append(fns, fn)
	}
	sort.Slice(fns, func(i, j int) bool { return fns[i].Decl.Pos() < fns[j].Decl.Pos() })
	n := 0
	for _, fn := range fns {
		for _, s := range an.sites[fn] {
			if s.callee != nil || s.inLit {
				continue
			}
			var vals []ast.Expr
			switch x := s.node.(type) {
			case *ast.CallExpr:
				if builtinName(info, x) == "append" {
					vals = x.Args[1:]
					if x.Ellipsis.IsValid() {
						vals = vals[:len(vals)-1]
					}
				} else {
					vals = x.Args // FeatureCollection.Append(f)
				}
			case *ast.CompositeLit:
				for _, el := range x.Elts {
					if kv, ok := el.(*ast.KeyValueExpr); ok {
						el = kv.Value
					}
					vals = append(vals, el)
				}
			}
			b := fn.blockAt(s.node.Pos())
			for _, v := range vals {
				n++
				c := "nonnil@" + fn.Name()
				switch {
				case an.nonNilValue(fn, v, 0):
					r.OK(c, v.Pos(), "`%s` in `%s` is built in place or comes from a helper that never returns nil", src(fset, v), src(fset, s.node))
				case b != nil && knownNonNil(fn.factsAt(b), func(e ast.Expr) bool { return sameChain(info, stripDerefParen(e), stripDerefParen(v)) }) != nil:
					r.OK(c, v.Pos(), "`%s != nil` is a fact at `%s`", src(fset, v), src(fset, s.node))
				default:
					r.Bad(c, v.Pos(), "`%s` can be nil when `%s` runs (no controlling `%s != nil`): the builders return nil for elements that yield no feature, and that nil would be added to the collection", src(fset, v), src(fset, s.node), src(fset, v))
				}
			}
		}
	}
	if n == 0 {
		r.Unknown("nonnil@Convert", token.NoPos, "no direct emission with a value the rule can examine")
	}
}

func (an *c17G5An) nonNilValue(fn *c17Fn, e ast.Expr, depth int) bool {
	a, info := an.a, an.a.info
	e = ast.Unparen(e)
	if depth > 3 {
		return false
	}
	if call, ok := e.(*ast.CallExpr); ok {
		if f := callee(info, call); f != nil && f.Pkg() != nil && f.Pkg().Path() == "github.com/paulmach/orb/geojson" && f.Name() == "NewFeature" {
			return true
		}
	}
	if id, ok := e.(*ast.Ident); ok {
		if o := objOf(info, id); o != nil {
			if init := a.singleInit(fn, o); init != nil {
				return an.nonNilValue(fn, init, depth+1)
			}
		}
		return false
	}
	return a.nilOf(fn, e, c17Val{}, 0) == triF
}
