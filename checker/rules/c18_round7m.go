package rules

import "osmcheck/core"

// init assigns both results of the helper to the table and the error, and tests the error afterwards.
const c18ShapeParseAssignThenCheck = `func init() {
	var err error
	polyConditions, err = parsePolyConditions(string(polygonJSON))
	if err != nil {
		// This must be valid json
		panic(err)
	}
}
` + c18ShapeParseHelperOnly

const c18ShapeParseHelperOnly = `
func parsePolyConditions(data string) ([]polyCondition, error) {
	var conditions []polyCondition
	if err := json.Unmarshal([]byte(data), &conditions); err != nil {
		return nil, err
	}

	for i := range conditions {
		sort.Strings(conditions[i].Values)
	}

	return conditions, nil
}
`

func c18Round7bBenign() []core.Mutant {
	return []core.Mutant{
		{Name: "init-assigns-results-then-checks-error", File: "polygon.go", Find: c18SrcInit, Replace: c18ShapeParseAssignThenCheck},
	}
}

// c18Round7Mutants: the seed of round 7 (an `area` pre-check in the helper relations share) and defects in the
// hand-written search, the literal relation table and the (slice, error) parse helper.
func c18Round7Mutants() []core.Mutant {
	rel := c18SrcRel + "}\n"
	return []core.Mutant{
		c18Seed("relation-helper-area-precheck", rel, c18ShapeRelationLiteralTable, "\tfor _, c := range conditions {\n",
			"\tif area := tags.Find(\"area\"); area == \"no\" {\n\t\treturn false\n\t} else if area != \"\" {\n\t\treturn true\n\t}\n\n\tfor _, c := range conditions {\n", "L4", "reads only"),
		c18Seed("relation-table-values-unsorted", rel, c18ShapeRelationLiteralTable, `[]string{"boundary", "multipolygon"}`, `[]string{"multipolygon", "boundary"}`, "L4", "type=boundary"),
		c18Seed("relation-table-blacklist", rel, c18ShapeRelationLiteralTable, "Condition: conditionWhitelist,", "Condition: conditionBlacklist,", "L4", "others"),
		c18Seed("relation-table-extra-value", rel, c18ShapeRelationLiteralTable, `[]string{"boundary", "multipolygon"}`, `[]string{"boundary", "multipolygon", "site"}`, "L4", "others"),
		c18Seed("relation-table-second-entry", rel, c18ShapeRelationLiteralTable, "\t\tValues:    []string{\"boundary\", \"multipolygon\"},\n\t},\n", "\t\tValues:    []string{\"boundary\", \"multipolygon\"},\n\t},\n\t{Key: \"route\", Condition: conditionAll},\n", "L4", "reads only"),
		c18Seed("search-upper-bound-misses-equal", c18SrcLoop, c18ShapeWayLoopGenericHelper, "if list[mid] < v {", "if list[mid] <= v {", "L3", "branch whitelist"),
		c18Seed("search-hi-mid-minus-1", c18SrcLoop, c18ShapeWayLoopGenericHelper, "\t\t\thi = mid\n", "\t\t\thi = mid - 1\n", "L3", "branch whitelist"),
		c18Seed("search-lo-not-advanced", c18SrcLoop, c18ShapeWayLoopGenericHelper, "lo = mid + 1", "lo = mid", "L3", "branch"),
		c18Seed("search-final-check-unbounded", c18SrcLoop, c18ShapeWayLoopGenericHelper, "return lo < len(list) && list[lo] == v", "return list[lo] == v", "L3", "branch"),
		c18Seed("search-starts-at-1", c18SrcLoop, c18ShapeWayLoopGenericHelper, "lo, hi := 0, len(list)", "lo, hi := 1, len(list)", "L3", "branch whitelist"),
		c18Seed("closed-search-hi-is-len", c18SrcLoop, c18ShapeClosedIntervalSearch, "lo, hi := 0, len(list)-1", "lo, hi := 0, len(list)", "L3", "branch"),
		c18Seed("closed-search-misses-last", c18SrcLoop, c18ShapeClosedIntervalSearch, "for lo <= hi {", "for lo < hi {", "L3", "branch whitelist"),
		c18Seed("accepts-whitelist-and-blacklist-swapped", c18SrcLoop, c18ShapeWayLoopGenericHelper, "\tcase conditionWhitelist:\n\t\treturn lowerBoundHas(c.Values, v)\n\tcase conditionBlacklist:", "\tcase conditionBlacklist:\n\t\treturn lowerBoundHas(c.Values, v)\n\tcase conditionWhitelist:", "L3", "branch whitelist"),
		c18Seed("parse-helper-sort-skipped", c18SrcInit, c18ShapeParseHelperWithError, "\tfor i := range conditions {\n\t\tsort.Strings(conditions[i].Values)\n\t}\n\n", "", "L2", "sorted@"),
		c18Seed("parse-helper-sorts-only-long-lists", c18SrcInit, c18ShapeParseHelperWithError, "\t\tsort.Strings(conditions[i].Values)\n", "\t\tif len(conditions[i].Values) > 3 {\n\t\t\tsort.Strings(conditions[i].Values)\n\t\t}\n", "L2", "sorted@"),
		c18Seed("parse-helper-literal-truncated", c18SrcInit, c18ShapeParseHelperWithError, "json.Unmarshal([]byte(data), &conditions)", "json.Unmarshal([]byte(data[:len(data)/2]), &conditions)", "L1", ""),
	}
}
