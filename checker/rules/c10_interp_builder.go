package rules

import (
	"go/ast"
	"go/token"
	"go/types"
)

// strings.Builder / bytes.Buffer held in a local variable: the variable's abstract value is the text written
// so far. Supported: WriteString, WriteByte, WriteRune, fmt.Fprintf(&b, constant format, ...), Grow, Reset as
// statements; String() and Len() as expressions. Anything else done with the variable is not interpreted.

func c10IsBuilder(t types.Type) bool {
	switch namedPath(t) {
	case "strings.Builder", "bytes.Buffer":
		return true
	}
	return false
}

// builderVar returns the local builder variable an expression (b or &b) denotes.
func (ev *c10Eval) builderVar(e ast.Expr, env c10Env) (types.Object, c10Val, bool) {
	e = ast.Unparen(e)
	if u, ok := e.(*ast.UnaryExpr); ok && u.Op == token.AND {
		e = ast.Unparen(u.X)
	}
	id, ok := e.(*ast.Ident)
	if !ok {
		return nil, c10Val{}, false
	}
	o := ev.info.Uses[id]
	if o == nil || !c10IsBuilder(o.Type()) {
		return nil, c10Val{}, false
	}
	if ev.builderEscapes()[o] {
		return nil, c10Val{}, false // its address goes somewhere else than fmt.Fprintf: writes could be missed
	}
	v, tracked := env[o]
	if _, isText := c10Pieces(v); !tracked || !isText {
		return nil, c10Val{}, false
	}
	return o, v, true
}

// builderStmt executes a statement-level write into a builder; handled=false when the call is something else.
func (ev *c10Eval) builderStmt(call *ast.CallExpr, env c10Env, depth int) (c10Env, bool, string) {
	var o types.Object
	var cur, add c10Val
	fn := callee(ev.info, call)
	switch {
	case isPkgFunc(fn, "fmt", "Fprintf") && len(call.Args) >= 2:
		var ok bool
		if o, cur, ok = ev.builderVar(call.Args[0], env); !ok {
			return env, false, ""
		}
		f := ev.expr(call.Args[1], env, depth)
		if f.K != c10VStr {
			return env, true, "Fprintf format is not a constant"
		}
		var args []c10Val
		for _, a := range call.Args[2:] {
			args = append(args, ev.expr(a, env, depth))
		}
		add = ev.sprintf(f.S, args)
	default:
		sel, isSel := ast.Unparen(call.Fun).(*ast.SelectorExpr)
		if !isSel || fn == nil {
			return env, false, ""
		}
		var ok bool
		if o, cur, ok = ev.builderVar(sel.X, env); !ok {
			return env, false, ""
		}
		switch fn.Name() {
		case "Grow":
			return env, true, ""
		case "Reset":
			return env.with(o, c10StrVal("")), true, ""
		case "WriteString":
			add = ev.expr(call.Args[0], env, depth)
		case "WriteByte", "WriteRune":
			a := ev.expr(call.Args[0], env, depth)
			c, isConst := a.V.signedConst()
			if a.K != c10VInt || !isConst || c <= 0 || c > 127 {
				return env, true, "a non-constant byte is written into a builder"
			}
			add = c10StrVal(string(rune(c)))
		default:
			return env, true, "builder method " + fn.Name() + " is not interpreted"
		}
	}
	pa, ok1 := c10Pieces(cur)
	pb, ok2 := c10Pieces(add)
	if !ok1 || !ok2 {
		return env, true, "the text written into a builder is not tracked: " + add.String()
	}
	return env.with(o, c10MkText(append(append([]c10Piece{}, pa...), pb...))), true, ""
}

// builderExpr folds b.String() / b.Len().
func (ev *c10Eval) builderExpr(call *ast.CallExpr, env c10Env) (c10Val, bool) {
	sel, ok := ast.Unparen(call.Fun).(*ast.SelectorExpr)
	if !ok || len(call.Args) != 0 {
		return c10Val{}, false
	}
	_, cur, ok := ev.builderVar(sel.X, env)
	if !ok {
		return c10Val{}, false
	}
	switch sel.Sel.Name {
	case "String":
		return cur, true
	case "Len":
		ps, _ := c10Pieces(cur)
		return ev.posVal(ps, len(ps), 0), true
	}
	return c10Val{}, false
}

// builderEscapes lists the builder variables whose address is taken anywhere but as the writer of fmt.Fprintf.
func (ev *c10Eval) builderEscapes() map[types.Object]bool {
	if ev.bldEsc != nil {
		return ev.bldEsc
	}
	ev.bldEsc = map[types.Object]bool{}
	allowed := map[ast.Expr]bool{}
	for _, f := range ev.pk.Syntax {
		ast.Inspect(f, func(n ast.Node) bool {
			if call, ok := n.(*ast.CallExpr); ok && len(call.Args) > 0 && isPkgFunc(callee(ev.info, call), "fmt", "Fprintf") {
				allowed[call.Args[0]] = true
			}
			return true
		})
		ast.Inspect(f, func(n ast.Node) bool {
			u, ok := n.(*ast.UnaryExpr)
			if !ok || u.Op != token.AND || allowed[u] {
				return true
			}
			if id, ok := ast.Unparen(u.X).(*ast.Ident); ok {
				if o := ev.info.Uses[id]; o != nil && c10IsBuilder(o.Type()) {
					ev.bldEsc[o] = true
				}
			}
			return true
		})
	}
	return ev.bldEsc
}
