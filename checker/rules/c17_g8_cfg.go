package rules

import (
	"go/ast"
	"go/types"

	"golang.org/x/tools/go/cfg"
)

// Path questions of C17.G8 ("is this executed for every element / on every path"), asked on the CFG.

// c17IsExit: b ends the function normally (a return, or falling off the end); a panic is not an exit.
func c17IsExit(info *types.Info, b *cfg.Block) bool {
	if !b.Live || len(b.Succs) != 0 {
		return false
	}
	if len(b.Nodes) > 0 {
		if es, ok := b.Nodes[len(b.Nodes)-1].(*ast.ExprStmt); ok {
			if call, ok := es.X.(*ast.CallExpr); ok && builtinName(info, call) == "panic" {
				return false
			}
		}
	}
	return true
}

// avoidReach returns the blocks reachable from start without entering a block of avoid; next, when non-nil, gives the
// successors to follow (used to prune edges known to be taken only by elements covered otherwise).
func c17AvoidReach(start *cfg.Block, avoid map[*cfg.Block]bool, next func(*cfg.Block) []*cfg.Block) map[*cfg.Block]bool {
	seen := map[*cfg.Block]bool{}
	if start == nil || avoid[start] {
		return seen
	}
	work := []*cfg.Block{start}
	for len(work) > 0 {
		b := work[len(work)-1]
		work = work[:len(work)-1]
		if seen[b] || avoid[b] {
			continue
		}
		seen[b] = true
		succs := b.Succs
		if next != nil {
			succs = next(b)
		}
		work = append(work, succs...)
	}
	return seen
}

// loopBlocks returns the head, first body block and done block of a range loop.
func (fn *c17Fn) loopBlocks(rs *ast.RangeStmt) (head, body, done *cfg.Block) {
	for _, b := range fn.graph().Blocks {
		if b.Stmt != rs {
			continue
		}
		switch b.Kind {
		case cfg.KindRangeLoop:
			head = b
		case cfg.KindRangeBody:
			body = b
		case cfg.KindRangeDone:
			done = b
		}
	}
	return
}

// everyIteration: every iteration of loop executes (a block of) target, and the loop is never left early. It returns ""
// or what goes wrong. next prunes edges (see c17AvoidReach).
func (fn *c17Fn) everyIteration(loop *ast.RangeStmt, target map[*cfg.Block]bool, next func(*cfg.Block) []*cfg.Block) string {
	info := fn.a.info
	head, body, done := fn.loopBlocks(loop)
	if head == nil || body == nil {
		return "the loop is not in the control-flow graph"
	}
	avoid := map[*cfg.Block]bool{head: true}
	if done != nil {
		avoid[done] = true
	}
	for b := range target {
		avoid[b] = true
	}
	if !target[body] {
		r := c17AvoidReach(body, avoid, next)
		for b := range r {
			succs := b.Succs
			if next != nil {
				succs = next(b)
			}
			for _, s := range succs {
				switch {
				case s == head:
					return "some path through one iteration goes back to the loop head without it (a `continue` or a branch around it)"
				case s == done && done != nil:
					return "some path leaves the loop by `break` before it"
				}
			}
			if c17IsExit(info, b) {
				return "some path returns from inside the loop before it"
			}
		}
	}
	// leaving the loop early after it leaves the remaining elements out
	inLoop := c17AvoidReach(body, map[*cfg.Block]bool{head: true}, nil)
	for b := range inLoop {
		for _, s := range b.Succs {
			if done != nil && s == done {
				return "the loop can be left by `break`: the remaining elements are not visited"
			}
		}
		if c17IsExit(info, b) {
			return "the function can return from inside the loop: the remaining elements are not visited"
		}
	}
	return ""
}

// everyPath: every path from the entry of fn to a normal exit executes (a block of) target.
func (fn *c17Fn) everyPath(target map[*cfg.Block]bool) bool {
	g := fn.graph()
	r := c17AvoidReach(g.Blocks[0], target, nil)
	for b := range r {
		if c17IsExit(fn.a.info, b) {
			return false
		}
	}
	return true
}

// blocksOf returns the live block containing n as a one-element set (nil when not found).
func (fn *c17Fn) blockSet(n ast.Node) map[*cfg.Block]bool {
	b := fn.blockAt(n.Pos())
	if b == nil {
		return nil
	}
	return map[*cfg.Block]bool{b: true}
}
