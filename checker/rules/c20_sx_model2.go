package rules

import (
	"go/types"
	"net/url"
	"sort"
)

// valuesEncode models url.Values{"k": {v}, ...}.Encode(): keys sorted, `key=QueryEscape(value)` joined with "&".
func (x *c20SX) valuesEncode(m c20V) (c20V, bool) {
	if m.k != c20kAgg || !m.b {
		return c20V{}, false
	}
	type kv struct {
		k string
		v c20Sym
	}
	var kvs []kv
	for i, k := range m.keys {
		l := m.vs[i]
		if k.k != c20kStr || len(k.sym.holes()) != 0 || l.k != c20kList || l.in || l.star != nil || len(l.elems) != 1 {
			return c20V{}, false
		}
		val := c20MergeLits(l.elems[0])
		switch {
		case len(val.holes()) == 0:
			val = c20Lit(url.QueryEscape(val.render(nil)))
		case len(val) == 1 && val[0].hole != nil && val[0].hole.fn == "" && !val[0].hole.base:
			h := *val[0].hole
			h.fn = "escape"
			val = c20Sym{{hole: &h}}
		default:
			return c20V{}, false
		}
		kvs = append(kvs, kv{k.sym.render(nil), val})
	}
	sort.Slice(kvs, func(i, j int) bool { return kvs[i].k < kvs[j].k })
	var out c20Sym
	for i, e := range kvs {
		if i > 0 {
			out = append(out, c20Tok{lit: "&"})
		}
		out = append(out, c20Tok{lit: url.QueryEscape(e.k) + "="})
		out = append(out, e.v...)
	}
	return c20StrV(out), true
}

// formatFloatFn returns strconv.FormatFloat given another function of package strconv.
func (x *c20SX) formatFloatFn(fn *types.Func) *types.Func {
	if f, ok := fn.Pkg().Scope().Lookup("FormatFloat").(*types.Func); ok {
		return f
	}
	return fn
}
