package rules

import "osmcheck/core"

// Mutants and behaviour-preserving variants for C04.X8 (hand-formatted times in the XML writers).

const c04DiscussionDoc = "// MarshalXML implements the xml.Marshaller method to exclude this\n// whole element if the comments are empty.\n"

func c04CommentMarshaler(layout string) string {
	return "// MarshalXML writes the comment's date by hand.\nfunc (c ChangesetComment) MarshalXML(e *xml.Encoder, start xml.StartElement) error {\n\tstart.Attr = append(start.Attr,\n\t\txml.Attr{Name: xml.Name{Local: \"user\"}, Value: c.User},\n\t\txml.Attr{Name: xml.Name{Local: \"date\"}, Value: c.Timestamp.Format(" + layout + ")})\n\tif err := e.EncodeToken(start); err != nil {\n\t\treturn err\n\t}\n\tif err := e.EncodeElement(c.Text, xml.StartElement{Name: xml.Name{Local: \"text\"}}); err != nil {\n\t\treturn err\n\t}\n\treturn e.EncodeToken(start.End())\n}\n\n" + c04DiscussionDoc
}

var c04TimeMutants = []core.Mutant{
	{Name: "x8-comment-date-hand-formatted-rfc3339", File: "changeset.go", Find: c04DiscussionDoc, Replace: c04CommentMarshaler("time.RFC3339"), ExpectRule: "X8", ExpectConstruct: "time@ChangesetComment.MarshalXML"},
	{Name: "x8-comment-date-seconds-literal", File: "changeset.go", Find: c04DiscussionDoc, Replace: c04CommentMarshaler("\"2006-01-02T15:04:05Z\""), ExpectRule: "X8", ExpectConstruct: "time@ChangesetComment.MarshalXML"},
	{Name: "x8-date-written-with-other-layout-than-read", File: "note.go", Find: "return e.EncodeElement(d.Format(\"2006-01-02 15:04:05.999999999 MST\"), start)", Replace: "const written = \"2006-01-02 15:04:05.999999999 -0700\"\n\treturn e.EncodeElement(d.Format(written), start)", ExpectRule: "X8", ExpectConstruct: "time@Date.MarshalXML"},
	// e426c5e: Date.MarshalXML keeps the sub-second part; the shape before the repair formatted with the reader's layout
	{Name: "old-shape-date-written-without-fraction", File: "note.go", Find: "return e.EncodeElement(d.Format(\"2006-01-02 15:04:05.999999999 MST\"), start)", Replace: "return e.EncodeElement(d.Format(dateLayout), start)", ExpectRule: "X8", ExpectConstruct: "time@Date.MarshalXML"},
	{Name: "x8-date-written-with-millisecond-fraction", File: "note.go", Find: "return e.EncodeElement(d.Format(\"2006-01-02 15:04:05.999999999 MST\"), start)", Replace: "return e.EncodeElement(d.Format(\"2006-01-02 15:04:05.999 MST\"), start)", ExpectRule: "X8", ExpectConstruct: "time@Date.MarshalXML"},
	{Name: "x8-date-fraction-not-after-seconds", File: "note.go", Find: "return e.EncodeElement(d.Format(\"2006-01-02 15:04:05.999999999 MST\"), start)", Replace: "return e.EncodeElement(d.Format(\"2006-01-02 15:04:05 MST .999999999\"), start)", ExpectRule: "X8", ExpectConstruct: "time@Date.MarshalXML"},
}
