package rules

import "osmcheck/core"

// Round-8 performance shapes of the XML decoders: DecodeElement(obj) for a pointer obj, the action body made lazily by
// a helper, a guarded fast path before time.Parse. Mutants: the lazily made body dropped on the path that makes it, an
// alias taken before the value is set. (Whether a fast path agrees with time.Parse where its guard holds is value-dependent and not decided: T4 judges the fallback.)

var c03R8Mutants = []core.Mutant{
	{Name: "lazy-action-body-not-kept-when-first-made", File: "diff.go",
		Find:       "\t\t\tr := &Relation{}\n\t\t\tif err := d.DecodeElement(&r, &start); err != nil {\n\t\t\t\treturn err\n\t\t\t}\n\t\t\tif a.OSM == nil {\n\t\t\t\ta.OSM = &OSM{}\n\t\t\t}\n\t\t\ta.OSM.Relations = append(a.OSM.Relations, r)\n\t\t}\n\t}\n\n\treturn nil\n}\n",
		Replace:    "\t\t\tr := &Relation{}\n\t\t\tif err := d.DecodeElement(r, &start); err != nil {\n\t\t\t\treturn err\n\t\t\t}\n\t\t\tinner := a.inner()\n\t\t\tinner.Relations = append(inner.Relations, r)\n\t\t}\n\t}\n\n\treturn nil\n}\n\nfunc (a *Action) inner() *OSM {\n\tif a.OSM == nil {\n\t\treturn &OSM{}\n\t}\n\n\treturn a.OSM\n}\n",
		ExpectRule: "T4", ExpectConstruct: "case \"relation\""},
	{Name: "action-body-alias-taken-before-it-is-made", File: "diff.go",
		Find:       "\t\t\tif a.OSM == nil {\n\t\t\t\ta.OSM = &OSM{}\n\t\t\t}\n\t\t\ta.OSM.Ways = append(a.OSM.Ways, w)\n",
		Replace:    "\t\t\tinner := a.OSM\n\t\t\tif a.OSM == nil {\n\t\t\t\ta.OSM = &OSM{}\n\t\t\t}\n\t\t\tinner.Ways = append(inner.Ways, w)\n",
		ExpectRule: "T4", ExpectConstruct: "case \"way\""},
}

var c03R8Benign = []core.Mutant{
	{Name: "action-child-decoded-without-address-lazy-body-helper", File: "diff.go",
		Find:    "\t\t\tr := &Relation{}\n\t\t\tif err := d.DecodeElement(&r, &start); err != nil {\n\t\t\t\treturn err\n\t\t\t}\n\t\t\tif a.OSM == nil {\n\t\t\t\ta.OSM = &OSM{}\n\t\t\t}\n\t\t\ta.OSM.Relations = append(a.OSM.Relations, r)\n\t\t}\n\t}\n\n\treturn nil\n}\n",
		Replace: "\t\t\tr := &Relation{}\n\t\t\tif err := d.DecodeElement(r, &start); err != nil {\n\t\t\t\treturn err\n\t\t\t}\n\t\t\tinner := a.inner()\n\t\t\tinner.Relations = append(inner.Relations, r)\n\t\t}\n\t}\n\n\treturn nil\n}\n\nfunc (a *Action) inner() *OSM {\n\tif a.OSM == nil {\n\t\ta.OSM = &OSM{}\n\t}\n\n\treturn a.OSM\n}\n"},
	{Name: "scan-node-decoded-without-address-of-pointer", File: "osmxml/scanner.go",
		Find:    "\t\t\terr = s.decoder.DecodeElement(&node, &se)\n",
		Replace: "\t\t\terr = s.decoder.DecodeElement(node, &se)\n"},
	{Name: "date-constant-fast-path-before-parse", File: "note.go",
		Find:    "\td.Time, err = time.Parse(dateLayout, s)\n\treturn err\n}\n",
		Replace: "\tif s == \"1970-01-01 00:00:00 UTC\" {\n\t\td.Time = time.Unix(0, 0).UTC()\n\t\treturn nil\n\t}\n\n\td.Time, err = time.Parse(dateLayout, s)\n\treturn err\n}\n"},
}
