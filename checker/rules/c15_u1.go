package rules

import (
	"go/ast"
	"go/token"
	"go/types"
	"sort"

	"osmcheck/core"
)

// ---------------------------------------------------------------- roots

// c15Root is an exported function of package osm with a time.Time parameter that reaches (itself or through
// unexported helpers) a loop over an osm.Updates value: a "time-bounded scan" of the update list.
type c15Root struct {
	f     *c15Fn
	envs  []*c15Env
	sites []c15LoopSite
}

func (w *c15World) roots() []*c15Root {
	var out []*c15Root
	for _, fi := range w.order {
		if !fi.Obj.Exported() {
			continue
		}
		f := w.fn(fi.Obj)
		if f == nil || len(f.timeParams()) == 0 {
			continue
		}
		envs := w.reach(f)
		var sites []c15LoopSite
		for _, env := range envs {
			for _, l := range w.loopsIn(env.fn) {
				sites = append(sites, c15LoopSite{env: env, loop: l})
			}
		}
		if len(sites) == 0 {
			continue
		}
		out = append(out, &c15Root{f: f, envs: envs, sites: sites})
	}
	return out
}

// c15APIs are the exported functions the property names; they are anchors (exported API cannot be renamed by a
// refactoring). Everything below them is found by role.
var c15APIs = []string{"(*Way).ApplyUpdatesUpTo", "(*Relation).ApplyUpdatesUpTo", "Updates.UpTo", "(*Way).LineStringAt"}

func (w *c15World) rootByName(roots []*c15Root, name string) *c15Root {
	for _, rt := range roots {
		if rt.f.name() == name {
			return rt
		}
	}
	return nil
}

// ---------------------------------------------------------------- loop evaluation

// c15LoopEval is the behaviour of one loop body for each relative order of the element's timestamp and t.
type c15LoopEval struct {
	site     c15LoopSite
	filtered *c15Fn // the loop ranges over the result of this verified in-time filter called with t
	wk       map[c15Ord]*c15Walk
	eff      map[c15Ord][]ast.Node
	unknown  []ast.Expr
	atoms    int
}

var c15Ords = []c15Ord{c15OrdBefore, c15OrdEqual, c15OrdAfter}

func (w *c15World) evalLoop(site c15LoopSite) *c15LoopEval {
	ev := &c15LoopEval{site: site, wk: map[c15Ord]*c15Walk{}, eff: map[c15Ord][]ast.Node{}}
	if f := w.filteredSource(site); f != nil {
		ev.filtered = f
		return ev
	}
	l := site.loop
	for _, ord := range c15Ords {
		o := &c15Oracle{w: w, loop: l, lenv: site.env, ord: ord}
		wk := w.walk(l.entry, 0, c15WalkOpt{env: site.env, loop: l, oracle: o})
		ev.wk[ord] = wk
		ev.eff[ord] = w.effects(l.body, wk)
		ev.unknown = append(ev.unknown, o.unknownTimes...)
		ev.atoms += o.timeAtoms
	}
	return ev
}

// sourceCall resolves the ranged expression of a loop to `call` / result k of `call` when it is a call, a local whose
// single definition is a call, or a local defined by the only tuple assignment `…, x, … := call`.
func (w *c15World) sourceCall(site c15LoopSite) (*ast.CallExpr, int, token.Pos) {
	e := ast.Unparen(site.loop.x)
	k := 0
	at := site.loop.pos()
	if id, ok := e.(*ast.Ident); ok {
		ob := objOf(w.info, id)
		f := site.env.fn
		if d := f.singleDef(ob); d != nil {
			e = ast.Unparen(d)
			at = d.Pos()
		} else if td, ok := f.tupleDef(ob); ok {
			e, k = td.call, td.k
			at = td.call.Pos()
		}
	}
	call, ok := e.(*ast.CallExpr)
	if !ok {
		return nil, 0, at
	}
	return call, k, at
}

// filteredSource: the loop ranges over result k of `F(…, t)` (directly or through a local) where F is verified to
// return at position k exactly the in-time elements of its input, and the time argument is the API's t.
func (w *c15World) filteredSource(site c15LoopSite) *c15Fn {
	call, k, _ := w.sourceCall(site)
	if call == nil {
		return nil
	}
	f := w.samePkgCallee(call)
	if f == nil || w.filterResult(f) != k {
		return nil
	}
	ce := w.childEnv(site.env, call, f)
	tps := f.timeParams()
	if len(tps) != 1 {
		return nil
	}
	arg, ok := ce.bind[tps[0]]
	if !ok {
		return nil
	}
	o := &c15Oracle{w: w}
	if o.timeRole(arg.env, arg.expr) != 'T' {
		return nil
	}
	return f
}

// filterResult: f(us, t) returns at result position k exactly the elements of its Updates input that are not after
// t, in order: one loop over the input that classifies by t (U1's partition rule); an element at or before t is
// appended, on every path and as the only effect, to a list P that has no other non-empty assignment; every
// return is after the completed loop and returns P at position k. Returns k, or -1.
func (w *c15World) filterResult(f *c15Fn) int {
	if v, ok := w.filterMemo[f.fi.Obj]; ok {
		if v == -2 {
			return -1 // in progress (recursion)
		}
		return v
	}
	w.filterMemo[f.fi.Obj] = -2
	k := w.filterResult1(f)
	w.filterMemo[f.fi.Obj] = k
	return k
}

func (w *c15World) filterResult1(f *c15Fn) int {
	sig := f.fi.Obj.Type().(*types.Signature)
	if len(f.timeParams()) != 1 || sig.Results().Len() == 0 {
		return -1
	}
	loops := w.loopsIn(f)
	if len(loops) != 1 {
		return -1
	}
	env := w.rootEnv(f)
	l := loops[0]
	if l.entry == nil || l.head == nil || l.done == nil {
		return -1
	}
	xp := w.pathOf(env, l.x, false)
	if xp == nil || len(xp.steps) != 0 || !f.isInput(xp.root) || len(f.defs[xp.root]) != 0 {
		return -1
	}
	site := c15LoopSite{env: env, loop: l}
	ev := w.evalLoop(site)
	if ev.filtered != nil || len(ev.unknown) > 0 || w.partitionDefect(ev) != "" {
		return -1
	}
	P, node, _ := w.collector(site, ev.eff[c15OrdBefore], []c15Ord{c15OrdBefore, c15OrdEqual})
	if P == nil {
		return -1
	}
	for _, ord := range []c15Ord{c15OrdBefore, c15OrdEqual} {
		wk := ev.wk[ord]
		if wk.done || len(wk.returns) > 0 || wk.escape != nil || wk.dead != nil {
			return -1
		}
	}
	if w.otherAssigns(f, P, node, l) != "" {
		return -1
	}
	// every return is after the loop and returns P at the same position
	k := -1
	good := true
	nret := 0
	inspectNoLit(f.fi.Decl.Body, func(n ast.Node) bool {
		ret, ok := n.(*ast.ReturnStmt)
		if !ok {
			return true
		}
		nret++
		b, _ := blockOf(f.g, ret.Pos())
		if b == nil || !(b == l.done || f.dom[b][l.done]) {
			good = false
			return true
		}
		pos := -1
		if len(ret.Results) == 0 {
			for i := 0; i < sig.Results().Len(); i++ {
				if types.Object(sig.Results().At(i)) == P {
					pos = i
				}
			}
		} else if len(ret.Results) == sig.Results().Len() {
			for i, e := range ret.Results {
				if p := w.pathOf(env, e, false); p != nil && p.root == P && len(p.steps) == 0 {
					pos = i
				}
			}
		}
		if pos < 0 || (k >= 0 && k != pos) {
			good = false
		}
		k = pos
		return true
	})
	if !good || nret == 0 || k < 0 || !isUpdatesType(sig.Results().At(k).Type()) {
		return -1
	}
	return k
}

// partitionDefect checks the partition rule on an evaluated loop and returns "" or what is wrong.
//
//	after t  : every path comes back to the loop head (no break, return, panic, jump out);
//	           none of its effects is an effect of the in-time handling;
//	before t and equal to t: same effects and same exits ("up to and including").
func (w *c15World) partitionDefect(ev *c15LoopEval) string {
	P := w.r.P
	after, before, equal := ev.wk[c15OrdAfter], ev.wk[c15OrdBefore], ev.wk[c15OrdEqual]
	switch {
	case after.done:
		return "when the update is stamped after t a path leaves the loop (break)"
	case len(after.returns) > 0:
		return "when the update is stamped after t a path leaves the function (" + src(P.Fset, after.returns[0]) + " at " + P.Rel(after.returns[0].Pos()) + ")"
	case after.dead != nil:
		return "when the update is stamped after t a path panics (" + P.Rel(after.dead.Pos()) + ")"
	case after.escape != nil:
		return "when the update is stamped after t a path jumps out of the loop (" + P.Rel(after.escape.Pos()) + ")"
	case !after.head:
		return "when the update is stamped after t no path returns to the loop head"
	}
	in := map[ast.Node]bool{}
	for _, n := range ev.eff[c15OrdBefore] {
		in[n] = true
	}
	for _, n := range ev.eff[c15OrdEqual] {
		in[n] = true
	}
	for _, n := range ev.eff[c15OrdAfter] {
		if in[n] {
			if ev.atoms == 0 {
				return "the loop has no test that compares the element's Timestamp with t: `" + src(P.Fset, n) + "` (" + P.Rel(n.Pos()) + ") is executed for updates stamped after t as well"
			}
			return "`" + src(P.Fset, n) + "` (" + P.Rel(n.Pos()) + ") is executed both for an update stamped after t and for an update stamped at or before t: updates after t are not excluded"
		}
	}
	if d := c15NodeSetDiff(ev.eff[c15OrdBefore], ev.eff[c15OrdEqual]); d != nil {
		return "`" + src(P.Fset, d) + "` (" + P.Rel(d.Pos()) + ") is executed for an update stamped before t but not for one stamped exactly at t, or vice versa: the bound is inclusive"
	}
	if before.head != equal.head || before.done != equal.done || len(before.returns) != len(equal.returns) {
		return "an update stamped exactly at t leaves the loop body differently from one stamped before t: the bound is inclusive"
	}
	if len(in) == 0 && len(ev.eff[c15OrdAfter]) == 0 {
		return "the loop body has no observable effect"
	}
	return ""
}

func c15NodeSetDiff(a, b []ast.Node) ast.Node {
	ma, mb := map[ast.Node]bool{}, map[ast.Node]bool{}
	for _, n := range a {
		ma[n] = true
	}
	for _, n := range b {
		mb[n] = true
	}
	for _, n := range a {
		if !mb[n] {
			return n
		}
	}
	for _, n := range b {
		if !ma[n] {
			return n
		}
	}
	return nil
}

// ---------------------------------------------------------------- U1

func c15U1(r *core.R) {
	w := c15NewWorld(r)
	if w.pk == nil {
		r.Anchor("package osm")
		return
	}
	roots := w.roots()
	r.Stat("time_bounded_scans", len(roots))
	analysed := map[*c15Loop]bool{}
	doLoop := func(c string, site c15LoopSite) {
		analysed[site.loop] = true
		r.Stat("loops_over_Updates", 1)
		l := site.loop
		if l.head == nil || l.entry == nil || l.done == nil {
			r.Unknown(c, l.pos(), "loop not found in the control-flow graph")
			return
		}
		ev := w.evalLoop(site)
		if ev.filtered != nil {
			r.OK(c, l.pos(), "ranges over %s: %s is verified to return exactly the updates not stamped after its time argument, in order, and is called with t", src(r.P.Fset, l.x), ev.filtered.name())
			return
		}
		if w.countingLoop(ev) != nil && len(ev.unknown) == 0 && w.countedOrders(ev) == "all" {
			r.OKTrivial(c, l.pos(), "pure counting pass over %s: its only effect is an increment executed for every update, whatever its Timestamp", src(r.P.Fset, l.x))
			return
		}
		if len(ev.unknown) > 0 {
			r.Unknown(c, ev.unknown[0].Pos(), "condition `%s` involves the update's Timestamp or t but is not one of the understood comparisons (After/Before/Equal/Compare between the element's Timestamp and the API's time parameter)", src(r.P.Fset, ev.unknown[0]))
			return
		}
		if why := w.partitionDefect(ev); why != "" {
			r.Bad(c, l.pos(), "loop over %s in %s: %s; the list is stored in index order, not time order, so every update must be classified on its own", src(r.P.Fset, l.x), l.fn.name(), why)
			return
		}
		r.OK(c, l.pos(), "evaluated for Timestamp before/equal/after t: after t every path returns to the loop head with %d effect(s) disjoint from the %d in-time effect(s); before and equal behave alike",
			len(ev.eff[c15OrdAfter]), len(ev.eff[c15OrdBefore]))
	}
	for _, rt := range roots {
		for _, site := range rt.sites {
			doLoop("loop@"+rt.f.name(), site)
		}
	}
	for _, name := range c15APIs {
		if w.rootByName(roots, name) == nil {
			r.Anchor("loop over osm.Updates reached from " + name)
		}
	}
	// loops not reached from an exported time-bounded function
	for _, fi := range w.order {
		f := w.fn(fi.Obj)
		if f == nil {
			continue
		}
		for _, l := range w.loopsIn(f) {
			if analysed[l] {
				continue
			}
			if len(f.timeParams()) > 0 {
				doLoop("loop@"+f.name(), c15LoopSite{env: w.rootEnv(f), loop: l})
			} else {
				r.OKTrivial("loop@"+f.name(), l.pos(), "loop over %s is not time-bounded: neither %s nor any exported caller with a time parameter reaches it", src(r.P.Fset, l.x), f.name())
			}
		}
	}
}

func c15SortedKeys(m map[string]bool) []string {
	var out []string
	for k := range m {
		out = append(out, k)
	}
	sort.Strings(out)
	return out
}
