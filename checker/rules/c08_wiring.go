package rules

import (
	"fmt"
	"go/ast"
	"go/token"
	"go/types"
	"sort"
	"strings"

	"golang.org/x/tools/go/cfg"

	"osmcheck/core"
)

// C08.O3 — skip flag, decoded kind and filter agree per group field. Everything is keyed on roles taken from the
// typed decoding model of C01 (which read executes under which field number of the PrimitiveGroup message) and on
// guard facts / finite-domain evaluation, so if-chains, switches, inverted branches, merged guards, locals holding a
// flag and extracted helpers are the same program to this rule.

func c08O3(r *core.R) {
	cm := c01ModelOrAnchor(r)
	if cm == nil {
		return
	}
	m := cm.m
	q := c08QField(r, m)
	if q == nil {
		return
	}
	info := m.info
	fs := r.P.Fset
	kinds := c08Kinds(m)
	if len(kinds) < 4 {
		r.Anchor("PrimitiveGroup descriptor (generated struct tags)")
		return
	}
	// the group scanner: the function holding the message variable created from PrimitiveGroup bytes
	var gv *c01MsgVar
	for _, mv := range cm.vars {
		if mv.msg == "PrimitiveGroup" && len(mv.binds) == 0 && gv == nil {
			gv = mv
		}
	}
	if gv == nil {
		r.Anchor("protoscan message created from the bytes of a primitive group")
		return
	}
	gs := gv.fi
	gf := c01FnOf(r.P, gs)
	isScannerField := func(e ast.Expr, scope ast.Node) *types.Var {
		e = c01Expand(info, scope, e)
		sel, ok := ast.Unparen(e).(*ast.SelectorExpr)
		if !ok {
			return nil
		}
		f := fieldOf(info, sel)
		if f == nil {
			return nil
		}
		if namedPath(selRecv(info, sel)) != namedPath(m.scannerT) {
			return c08KnobAliases(m)[f] // a private copy of the knob (O9 decides whether it was taken)
		}
		return f
	}
	var ks []int64
	for k := range kinds {
		ks = append(ks, k)
	}
	sort.Slice(ks, func(i, j int) bool { return ks[i] < ks[j] })
	fl := &c08Flow{r: r, m: m, info: info, q: q, memo: map[string]int{}, stack: map[string]bool{}}
	for _, k := range ks {
		kind := kinds[k]
		c := fmt.Sprintf("field %d (%s)@%s", k, kind, gs.Name())
		// the reads of the field's message data
		var reads []*c01Read
		for _, rd := range cm.reads {
			if rd.mv == nil || rd.mv.msg != "PrimitiveGroup" || rd.method != "MessageData" {
				continue
			}
			for _, cs := range rd.cases {
				if int64(cs) == k {
					reads = append(reads, rd)
				}
			}
		}
		if len(reads) == 0 {
			// not decoded: acceptable when the field is rejected with an error
			rejected := false
			ast.Inspect(gs.Decl.Body, func(n ast.Node) bool {
				ret, ok := n.(*ast.ReturnStmt)
				if !ok || len(ret.Results) == 0 {
					return true
				}
				cases := cm.casesAt(gs, ret, gv, 0)
				if len(cases) == 1 && int64(cases[0]) == k && c01IsErrNonNilExpr(info, ret.Results[len(ret.Results)-1], gf.factsAtPos(ret.Pos())) {
					rejected = true
				}
				return true
			})
			if !rejected {
				// ... or by assigning the error the function then returns on every path
				for _, b := range gf.g.Blocks {
					if !b.Live {
						continue
					}
					for i, n := range b.Nodes {
						e := c08ErrAssign(info, gf, n)
						if e == nil {
							continue
						}
						cases := cm.casesAt(gs, n, gv, 0)
						if len(cases) == 1 && int64(cases[0]) == k && c08ReturnsErrFrom(info, gf, b, i+1, e) {
							rejected = true
						}
					}
				}
			}
			if rejected {
				r.OKTrivial(c+" unsupported", gs.Decl.Pos(), "field %d is rejected with an error (C06.E7)", k)
			} else {
				r.Bad(c, gs.Decl.Pos(), "no branch decodes group field %d (%s) and none rejects it with an error", k, kind)
			}
			continue
		}
		for _, rd := range reads {
			var flags []guardFact
			var flagFields []*types.Var
			other := ""
			for _, sf := range cm.factsChain(rd.fi, rd.call, rd.mv, 0) {
				fact, f := sf.guardFact, sf.f
				// the message variable as it is called in the body the fact comes from
				mvo := rd.mv.obj
				for _, cand := range cm.vars {
					if cand.msg == "PrimitiveGroup" && cand.fi.Obj == f.fi.Obj {
						mvo = cand.obj
					}
				}
				// a decision looked up in a constant table by the field number: the entry for this field
				if sub, zero := c08TableSubst(cm, f, fact.expr, mvo, k); zero {
					continue // no entry: the constant false
				} else if sub != fact.expr {
					fact.expr = sub
				}
				if fld := isScannerField(fact.expr, f.body); fld != nil && types.Identical(fld.Type(), types.Typ[types.Bool]) {
					flags = append(flags, fact)
					flagFields = append(flagFields, fld)
					continue
				}
				a, b, _, isEq := c01EqCmp(fact.expr)
				if isEq && (cm.isFieldNumberOf(f, a, mvo) || cm.isFieldNumberOf(f, b, mvo)) {
					continue
				}
				if x, _, isNil := c01NilCmp(fact.expr); isNil && isErrorType(info.TypeOf(x)) {
					continue
				}
				if c01ContainsCall(fact.expr, func(call *ast.CallExpr) bool { return isMethod(callee(info, call), protoscanMsg, "Next") }) {
					continue
				}
				// a compound condition of another branch whose value follows from the field number alone
				// (e.g. `fn == 2 && !SkipNodes` being false here because fn is 3)
				if v := c01Eval(info, fact.expr, func(at ast.Expr) c01Tri {
					x, y, neq, isEq := c01EqCmp(at)
					if !isEq {
						// an ordering test of the field number against a constant
						if l, op, rr, okc := cmpNorm(at); okc && (op == token.LSS || op == token.LEQ) {
							l, rr = c01StripConv(info, l), c01StripConv(info, rr)
							lc, lok := constInt(info, l)
							rc, rok := constInt(info, rr)
							switch {
							case rok && cm.isFieldNumberOf(f, l, mvo):
								return c01Bool(k < rc || (op == token.LEQ && k == rc))
							case lok && cm.isFieldNumberOf(f, rr, mvo):
								return c01Bool(lc < k || (op == token.LEQ && lc == k))
							}
						}
						return c01U
					}
					for _, pr := range [][2]ast.Expr{{x, y}, {y, x}} {
						if cv, okc := constInt(info, pr[1]); okc && cm.isFieldNumberOf(f, pr[0], mvo) {
							return c01Bool((cv == k) != neq)
						}
					}
					return c01U
				}); v == c01Bool(fact.val) {
					continue
				}
				other = src(fs, fact.expr)
			}
			want := "Skip" + kind + "s"
			switch {
			case len(flags) == 0:
				r.Bad(c+" flag", rd.call.Pos(), "group field %d is decoded without a test of a skip flag controlling `%s`: setting %s does not skip the %ss", k, src(fs, rd.call), want, kind)
			case other != "":
				r.Unknown(c+" flag", rd.call.Pos(), "besides the field number and the skip flag, `%s` controls the decoding of group field %d: the rule only accepts `field number == %d` and `!%s`", other, k, k, want)
			default:
				okFlag := true
				for i, fact := range flags {
					if flagFields[i].Name() != want || fact.val {
						okFlag = false
						got := flagFields[i].Name()
						if fact.val {
							got += " being true"
						}
						r.Bad(c+" flag", rd.call.Pos(), "group field %d holds %ss but its decoding is controlled by %s: setting %s does not skip them (and the flag tested skips the wrong kind)", k, kind, got, want)
						break
					}
				}
				if okFlag {
					r.OK(c+" flag", rd.call.Pos(), "group field %d (%s in the descriptor) is decoded only when %s is false", k, kind, want)
				}
			}
		}
		c08FilterWiring(r, cm, fl, gs, gv, k, kind, c)
	}
	c08SkipRule(r, cm, gs, gv)
}

// c08AppendSite is one place where an element is handed to the consumer.
type c08AppendSite struct {
	fi   *FuncInfo
	node ast.Node
	elem types.Object
}

// c08FilterWiring: the elements of one kind are appended exactly when their filter is nil or accepts them, the filter
// is the one of that kind, it is applied to the element that is appended, after that element was decoded.
func c08FilterWiring(r *core.R, cm *c01Model, fl *c08Flow, gs *FuncInfo, gv *c01MsgVar, k int64, kind, c string) {
	m := cm.m
	info := m.info
	fs := r.P.Fset
	want := "Filter" + kind
	var sites []c08AppendSite
	tracked := c08Tracked(r, m, fl.q)
	for _, el := range tracked {
		inReach := false
		for _, fi := range c01Reachable(r.P, gs) {
			if fi.Obj == el.fi.Obj {
				inReach = true
			}
		}
		if !inReach {
			continue
		}
		// a parameter that is merely handed on (an "emit" helper) is judged at its callers
		if idx := c01ParamIndex(info, el.fi, el.obj); idx >= 0 && !c08WritesThroughParam(m, el.fi.Obj, idx, 0) {
			continue
		}
		f := c01FnOf(r.P, el.fi)
		for _, b := range f.g.Blocks {
			if !b.Live {
				continue
			}
			for _, n := range b.Nodes {
				if !fl.escapes(f, n, el.obj, 0) {
					continue
				}
				if !fl.escapes(f, n, el.obj, 3) && c08EscapeJudgedInCallee(fl, f, n, el.obj, tracked) {
					continue // the append (and its filter test) lives in a callee that has its own site
				}
				sites = append(sites, c08AppendSite{el.fi, n, el.obj})
			}
		}
	}
	found := false
	for _, s := range sites {
		f := c01FnOf(r.P, s.fi)
		et := namedPath(s.elem.Type())
		inBranch := false
		if s.fi.Obj == gs.Obj {
			cases := cm.casesAt(gs, s.node, gv, 0)
			if len(cases) != 1 || int64(cases[0]) != k {
				continue // the append of another field's branch
			}
			inBranch = true
		}
		if et != core.ModulePath+"."+kind {
			if inBranch {
				found = true
				r.Bad(c+" type", s.node.Pos(), "the branch for %ss appends a %s", kind, et)
			}
			continue
		}
		found = true
		ab := f.blockOf(s.node.Pos())
		// the conditions that decide about the append: every dominating branch condition that mentions a filter of the scanner
		isFilterRef := func(e ast.Expr) *types.Var {
			e = c01Expand(info, f.body, e)
			sel, ok := ast.Unparen(e).(*ast.SelectorExpr)
			if !ok {
				return nil
			}
			fld := selField(info, sel) // also for selectors synthesised by predicate inlining
			fld = c08KnobOf(m, fld)
			if fld == nil {
				return nil
			}
			if _, isFunc := fld.Type().Underlying().(*types.Signature); !isFunc {
				return nil
			}
			return fld
		}
		var first *cfg.Block
		filterNodeOf := map[*cfg.Block]ast.Node{}
		bad := ""
		var filterCall *ast.CallExpr
		for _, b := range f.g.Blocks {
			if !b.Live || b == ab || !f.dom[ab][b] {
				continue
			}
			cond := c08CondExpanded(info, f, f.condOf(b))
			if cond == nil {
				continue
			}
			mentions := false
			ast.Inspect(cond, func(x ast.Node) bool {
				switch y := x.(type) {
				case *ast.CallExpr:
					if fld := isFilterRef(y.Fun); fld != nil {
						mentions = true
						switch {
						case fld.Name() != want:
							bad = "uses " + fld.Name() + " for a " + kind
						case len(y.Args) != 1 || !fl.is(f, y.Args[0], s.elem):
							bad = "the filter is not applied to the element that is appended"
						default:
							filterCall = y
						}
					}
				case *ast.SelectorExpr:
					if fld := isFilterRef(y); fld != nil {
						mentions = true
						if fld.Name() != want {
							bad = "uses " + fld.Name() + " for a " + kind
						}
					}
				}
				return true
			})
			if mentions {
				filterNodeOf[b] = b.Nodes[len(b.Nodes)-1]
				// a decision read into a boolean local is taken where the local is defined
				if id, isId := ast.Unparen(f.condOf(b)).(*ast.Ident); isId {
					if ds := c01Defs(info, f.body, objOf(info, id)); len(ds) == 1 && ds[0].stmt != nil {
						filterNodeOf[b] = ds[0].stmt
					}
				}
			}
			if mentions && (first == nil || f.dom[first][b]) {
				first = b
			}
		}
		switch {
		case bad != "":
			r.Bad(c+" filter", s.node.Pos(), "accept test of %ss: %s", kind, bad)
			continue
		case first == nil:
			r.Bad(c+" filter", s.node.Pos(), "`%s` is not controlled by %s: the filter is ignored", src(fs, s.node), want)
			continue
		}
		// decision table: nil filter → appended; filter accepts → appended; filter rejects → not appended
		type row struct {
			isNil, accepts bool
			wantReached    bool
			name           string
		}
		rows := []row{{true, false, true, "a nil filter"}, {false, true, true, "a filter that accepts the element"}, {false, false, false, "a filter that rejects the element"}}
		verdict := ""
		for _, rw := range rows {
			atom := func(a ast.Expr) c01Tri {
				if x, neq, ok := c01NilCmp(a); ok {
					if fld := isFilterRef(x); fld != nil && fld.Name() == want {
						return c01Bool(rw.isNil != neq)
					}
				}
				if call, ok := ast.Unparen(a).(*ast.CallExpr); ok {
					if fld := isFilterRef(call.Fun); fld != nil && fld.Name() == want {
						if rw.isNil {
							return c01U // calling a nil filter: must not be evaluated
						}
						return c01Bool(rw.accepts)
					}
				}
				return c01U
			}
			some, all := c08Reaches(info, f, first, ab, atom)
			switch {
			case rw.wantReached && !some:
				verdict = fmt.Sprintf("with %s the element is not appended", rw.name)
			case rw.wantReached && !all:
				verdict = fmt.Sprintf("with %s another condition still decides whether the element is appended", rw.name)
			case !rw.wantReached && some:
				verdict = fmt.Sprintf("with %s the element can still be appended", rw.name)
			}
			if verdict != "" {
				break
			}
		}
		if verdict != "" {
			r.Bad(c+" filter", s.node.Pos(), "accept test of %ss (`%s`): %s; the rule is: append iff %s == nil || %s(element)", kind, src(fs, c08CondExpanded(info, f, f.condOf(first))), verdict, want, want)
			continue
		}
		// the filter sees the element decoded in this iteration: a write through / decode into the element dominates the
		// test that consults the filter (in this function, or for a parameter at every call site of the function)
		decoded := false
		if filterCall != nil {
			evalBlk, _ := blockOf(f.g, filterNodeOf[first].Pos())
			evalNode := filterNodeOf[first]
			if evalBlk != nil {
				// the CFG node that holds the evaluation (a statement of a block, or the block's condition)
				for _, nd := range evalBlk.Nodes {
					if nd.Pos() <= evalNode.Pos() && evalNode.End() <= nd.End() {
						evalNode = nd
					}
				}
				decoded = c08DecodedBefore(r, fl, f, evalBlk, evalNode, s.elem, 0)
			}
		}
		if !decoded {
			r.Bad(c+" filter", s.node.Pos(), "the filter for %ss is evaluated before the element is decoded in this iteration: it sees the previous (or an empty) element", kind)
			continue
		}
		r.OK(c+" filter", s.node.Pos(), "the %s is appended iff %s is nil or accepts it (decision table evaluated on the CFG), the filter is applied to the decoded element before `append`", kind, want)
	}
	if !found {
		r.Bad(c+" filter", gs.Decl.Pos(), "no accept test that appends a %s to the object slice is reachable from the branch of group field %d", kind, k)
	}
}

// c08CondExpanded replaces a condition that is a single boolean local read once by the expression it was read from.
func c08CondExpanded(info *types.Info, f *c01Fn, cond ast.Expr) ast.Expr {
	if cond == nil {
		return nil
	}
	return c08InlinePreds(f.pk, c01Expand(info, f.body, cond), 0)
}

// c08WritesElem: node n writes through element variable x (assignment rooted at it, or a call handing it to a
// function of the package that writes through the parameter or returns it decoded).
func c08WritesElem(fl *c08Flow, f *c01Fn, n ast.Node, x types.Object) bool {
	info := fl.info
	hit := false
	ast.Inspect(n, func(y ast.Node) bool {
		switch s := y.(type) {
		case *ast.FuncLit:
			return false
		case *ast.AssignStmt:
			for i, l := range s.Lhs {
				if _, isId := ast.Unparen(l).(*ast.Ident); !isId && (c01RootObj(info, l) == x || fl.below(f, l, x)) {
					hit = true
				}
				// x (re)defined as the element a decoding helper hands back: `x, err := decode(.., slot)` where the
				// callee writes through that parameter and returns it
				if fl.isSelf(l, x) && i == 0 && len(s.Rhs) == 1 {
					if call, ok := ast.Unparen(s.Rhs[0]).(*ast.CallExpr); ok {
						if tf := c01Callee(f.pk, call); tf != nil {
							for ai, a := range call.Args {
								if !c08IsElemType(info.TypeOf(a)) || !c08WritesThroughParam(fl.m, tf.Obj, ai, 0) {
									continue
								}
								a := a
								if c08ReturnsParamP(fl.m, call, func(e ast.Expr) bool { return e == a }) {
									hit = true
								}
							}
						}
					}
				}
			}
		case *ast.CallExpr:
			if tf := c01Callee(f.pk, s); tf != nil {
				for i, a := range s.Args {
					if fl.is(f, a, x) && c08WritesThroughParam(fl.m, tf.Obj, i, 0) {
						hit = true
					}
				}
			}
		}
		return !hit
	})
	return hit
}

// c08Reaches walks f from block `from` evaluating every branch condition with atom (single-definition boolean locals
// expanded) and reports whether some path reaches block `to`, and whether all paths do (a path that comes back to
// `from`, leaves the function or passes another exit without reaching `to` is a miss).
func c08Reaches(info *types.Info, f *c01Fn, from, to *cfg.Block, atom func(ast.Expr) c01Tri) (some, all bool) {
	all = true
	seen := map[*cfg.Block]bool{}
	var dfs func(b *cfg.Block, start bool)
	dfs = func(b *cfg.Block, start bool) {
		if b == to {
			some = true
			return
		}
		if !start && b == from {
			all = false
			return
		}
		if seen[b] {
			return
		}
		seen[b] = true
		if len(b.Succs) == 0 {
			all = false
			return
		}
		cond := c08CondExpanded(info, f, f.condOf(b))
		for si, nb := range b.Succs {
			if cond != nil && len(b.Succs) == 2 {
				v := c01Eval(info, cond, func(a ast.Expr) c01Tri { return atom(c01Expand(info, f.body, a)) })
				if (si == 0 && v == c01F) || (si == 1 && v == c01T) {
					continue
				}
			}
			dfs(nb, false)
		}
	}
	dfs(from, true)
	if !some {
		all = false
	}
	return
}

// c08SkipRule: every cycle of the group loop consumes the current field (reads its message data, skips it, or hands
// the message to a function that does) or leaves the function.
func c08SkipRule(r *core.R, cm *c01Model, gs *FuncInfo, gv *c01MsgVar) {
	info := cm.m.info
	c := "skip@" + gs.Name()
	f := c01FnOf(r.P, gs)
	isGroupMsg := func(e ast.Expr) bool {
		mv := cm.msgVarOf(e)
		return mv != nil && mv.msg == "PrimitiveGroup"
	}
	consume := c01NewSum(r.P, func(g *c01Fn, n ast.Node) bool {
		return c01ContainsCall(n, func(call *ast.CallExpr) bool {
			fn := callee(info, call)
			if !(isMethod(fn, protoscanMsg, "MessageData") || isMethod(fn, protoscanMsg, "Skip") || isMethod(fn, protoscanMsg, "Message")) {
				return false
			}
			sel, ok := ast.Unparen(call.Fun).(*ast.SelectorExpr)
			return ok && isGroupMsg(sel.X)
		})
	})
	// the group loop: the loop whose head tests Next() of the group message
	var loop *c01Loop
	for _, l := range c01Loops(f) {
		cond := f.condOf(l.head)
		if cond != nil && c01ContainsCall(cond, func(call *ast.CallExpr) bool {
			if !isMethod(callee(info, call), protoscanMsg, "Next") {
				return false
			}
			sel, ok := ast.Unparen(call.Fun).(*ast.SelectorExpr)
			return ok && c01RootObj(info, sel.X) == gv.obj
		}) {
			loop = l
		}
	}
	if loop == nil {
		r.Unknown(c, gs.Decl.Pos(), "no loop controlled by %s.Next() found in %s", gv.obj.Name(), gs.Name())
		return
	}
	// a cycle head → ... → head that passes no consuming node
	free := false
	type skey struct {
		b *cfg.Block
		e types.Object
	}
	seen := map[skey]bool{}
	// e: an error variable known to be non-nil on the path (assigned a certain error and not assigned since)
	var dfs func(b *cfg.Block, e types.Object)
	dfs = func(b *cfg.Block, e types.Object) {
		if free || seen[skey{b, e}] || !loop.blocks[b] {
			return
		}
		seen[skey{b, e}] = true
		for _, n := range b.Nodes {
			if consume.nodeMust(f, n) {
				return
			}
			if o := c08ErrAssign(info, f, n); o != nil {
				e = o
			} else if e != nil && c08Assigns(info, n, e) {
				e = nil
			}
		}
		v := c01U
		if len(b.Succs) == 2 {
			v = c08CondKnowing(info, f.condOf(b), e)
		}
		for si, nb := range b.Succs {
			if (si == 0 && v == c01F) || (si == 1 && v == c01T) {
				continue
			}
			if nb == loop.head {
				// the cycle is only closed when the loop goes on: a loop condition that is false because an error
				// was recorded leaves the loop
				if c08CondKnowing(info, f.condOf(loop.head), e) == c01F {
					continue
				}
				free = true
				return
			}
			dfs(nb, e)
		}
	}
	for _, nb := range loop.head.Succs {
		if loop.blocks[nb] {
			dfs(nb, nil)
		}
	}
	if free {
		r.Bad(c, loop.head.Nodes[0].Pos(), "there is a path through the group loop that neither decodes the current field nor calls %s.Skip(): a skipped element kind (or an unknown field) is not passed over and the following fields are misparsed", gv.obj.Name())
	} else {
		r.OK(c, loop.head.Nodes[0].Pos(), "every cycle of the group loop either reads the field's message data, calls %s.Skip(), or leaves the function", gv.obj.Name())
	}
	_ = strings.TrimSpace
	_ = token.NoPos
}

// c08EscapeJudgedInCallee: node n hands x to a function of the package whose parameter is itself a tracked element
// variable that the callee decodes into (so the callee's own append site is judged there).
func c08EscapeJudgedInCallee(fl *c08Flow, f *c01Fn, n ast.Node, x types.Object, tracked []c08Elem) bool {
	return c08JudgedBelow(fl, f, n, x, tracked, 0)
}

// c08JudgedBelow follows the element of slot x from node n into the functions of the package it is handed to (as an
// argument, or, for a slot that is a struct field, through any callee that mentions the field) until it reaches a
// parameter that is itself a tracked element variable the callee writes through.
func c08JudgedBelow(fl *c08Flow, f *c01Fn, n ast.Node, x types.Object, tracked []c08Elem, depth int) bool {
	if depth > 3 {
		return false
	}
	judged := false
	inCallee := func(tf *FuncInfo, y types.Object) {
		g := c01FnOf(fl.r.P, tf)
		for _, b := range g.g.Blocks {
			if !b.Live {
				continue
			}
			for _, nd := range b.Nodes {
				if !judged && fl.escapes(g, nd, y, 0) && c08JudgedBelow(fl, g, nd, y, tracked, depth+1) {
					judged = true
				}
			}
		}
	}
	ast.Inspect(n, func(y ast.Node) bool {
		call, ok := y.(*ast.CallExpr)
		if !ok || judged {
			return !judged
		}
		tf := c01Callee(f.pk, call)
		if tf == nil {
			return true
		}
		took := false
		for i, a := range call.Args {
			if !fl.is(f, a, x) {
				continue
			}
			took = true
			po := c01Param(fl.info, tf, i)
			if po == nil {
				continue
			}
			for _, el := range tracked {
				if el.obj == po && c08WritesThroughParam(fl.m, tf.Obj, i, 0) {
					judged = true
				}
			}
			if !judged {
				inCallee(tf, po)
			}
		}
		if !took && fl.mentions(tf, x) {
			inCallee(tf, x)
		}
		return true
	})
	return judged
}

// c08IsScannerField: fld is a field of the Scanner struct.
func c08IsScannerField(m *pbfModel, fld *types.Var) bool {
	st, ok := m.scannerT.Underlying().(*types.Struct)
	if !ok {
		return false
	}
	for i := 0; i < st.NumFields(); i++ {
		if st.Field(i) == fld {
			return true
		}
	}
	return false
}

// c08DecodedBefore: a write through (or decode into) element variable x dominates node `at` of block blk in f; when x
// is a parameter of f that is not written before, the same must hold for the argument at every call site of f.
func c08DecodedBefore(r *core.R, fl *c08Flow, f *c01Fn, blk *cfg.Block, at ast.Node, x types.Object, depth int) bool {
	info := fl.info
	if at == nil {
		return false
	}
	for _, b := range f.g.Blocks {
		if !b.Live {
			continue
		}
		for i, n := range b.Nodes {
			if !c08WritesElem(fl, f, n, x) {
				continue
			}
			if b == blk {
				for j, m := range blk.Nodes {
					if m == at && i < j {
						return true
					}
				}
				continue
			}
			if f.dom[blk][b] {
				return true
			}
		}
	}
	idx := c01ParamIndex(info, f.fi, x)
	if idx < 0 || depth > 2 {
		return false
	}
	n, all := 0, true
	for _, caller := range allFuncs(f.pk) {
		cf0 := c01FnOf(r.P, caller)
		ast.Inspect(caller.Decl.Body, func(y ast.Node) bool {
			call, ok := y.(*ast.CallExpr)
			if !ok || callee(info, call) != f.fi.Obj || idx >= len(call.Args) {
				return true
			}
			n++
			cf := cf0.innermost(call)
			cb, ci := blockOf(cf.g, call.Pos())
			ao := objOf(info, call.Args[idx])
			if sel, isSel := ast.Unparen(call.Args[idx]).(*ast.SelectorExpr); isSel && ao == nil {
				// the argument is a slot that is a struct field
				if fv := fieldOf(info, sel); fv != nil && c08IsElemType(fv.Type()) {
					ao = fv
				}
			}
			if cb == nil || ao == nil || !c08DecodedBefore(r, fl, cf, cb, cb.Nodes[ci], ao, depth+1) {
				all = false
			}
			return true
		})
	}
	return n > 0 && all
}
