package rules

import (
	"strings"

	"osmcheck/core"
)

// c16JoinArms is the if / else-if chain of Join as it stands (anchor text of several variants).
const c16JoinArms = "\t\t\t\tif last.Equal(segment.First()) {\n\t\t\t\t\t// nice fit at the end of current\n\n\t\t\t\t\tsegment.Line = segment.Line[1:]\n\t\t\t\t\tcurrent = append(current, segment)\n\t\t\t\t\tfoundAt = i\n\t\t\t\t\tbreak\n\t\t\t\t} else if last.Equal(segment.Last()) {\n\t\t\t\t\t// reverse it and it'll fit at the end\n\t\t\t\t\tsegment.Reverse()\n\n\t\t\t\t\tsegment.Line = segment.Line[1:]\n\t\t\t\t\tcurrent = append(current, segment)\n\t\t\t\t\tfoundAt = i\n\t\t\t\t\tbreak\n\t\t\t\t} else if first.Equal(segment.Last()) {\n\t\t\t\t\t// nice fit at the start of current\n\t\t\t\t\tsegment.Line = segment.Line[:len(segment.Line)-1]\n\t\t\t\t\tcurrent = append(MultiSegment{segment}, current...)\n\n\t\t\t\t\tfoundAt = i\n\t\t\t\t\tbreak\n\t\t\t\t} else if first.Equal(segment.First()) {\n\t\t\t\t\t// reverse it and it'll fit at the start\n\t\t\t\t\tsegment.Reverse()\n\n\t\t\t\t\tsegment.Line = segment.Line[:len(segment.Line)-1]\n\t\t\t\t\tcurrent = append(MultiSegment{segment}, current...)\n\n\t\t\t\t\tfoundAt = i\n\t\t\t\t\tbreak\n\t\t\t\t}\n"

// c16JoinRemoval is the removal of the matched segment from the work list as it stands.
const c16JoinRemoval = "\t\t\tif foundAt < len(segments)/2 {\n\t\t\t\t// first half, shift up\n\t\t\t\tfor i := foundAt; i > 0; i-- {\n\t\t\t\t\tsegments[i] = segments[i-1]\n\t\t\t\t}\n\t\t\t\tsegments = segments[1:]\n\t\t\t} else {\n\t\t\t\t// second half, shift down\n\t\t\t\tfor i := foundAt + 1; i < len(segments); i++ {\n\t\t\t\t\tsegments[i-1] = segments[i]\n\t\t\t\t}\n\t\t\t\tsegments = segments[:len(segments)-1]\n\t\t\t}\n"

// c16JoinTail is the rest of Join after the arms.
const c16JoinTail = "\t\t\t}\n\n\t\t\tif foundAt == -1 {\n\t\t\t\tbreak // Invalid geometry (dangling way, unclosed ring)\n\t\t\t}\n\n\t\t\t// remove the found/matched segment from the list.\n" + c16JoinRemoval + "\t\t}\n\n\t\tlists = append(lists, current)\n\t}\n\n\treturn lists\n}\n"

// c16JoinHelperForm: the four arms spelled "classify, normalise, attach" with a closure and a helper. FLIP is the
// expression deciding whether the way is turned round, TRIM the trimming in attach (c16_mutants2.go breaks them).
const c16JoinHelperForm = "\t\t\t\tfit := func(s Segment) (atEnd, withFirst, ok bool) {\n\t\t\t\t\tswitch {\n\t\t\t\t\tcase last.Equal(s.First()):\n\t\t\t\t\t\treturn true, true, true\n\t\t\t\t\tcase last.Equal(s.Last()):\n\t\t\t\t\t\treturn true, false, true\n\t\t\t\t\tcase first.Equal(s.Last()):\n\t\t\t\t\t\treturn false, false, true\n\t\t\t\t\tcase first.Equal(s.First()):\n\t\t\t\t\t\treturn false, true, true\n\t\t\t\t\t}\n\n\t\t\t\t\treturn false, false, false\n\t\t\t\t}\n\n\t\t\t\tatEnd, withFirst, ok := fit(segment)\n\t\t\t\tif !ok {\n\t\t\t\t\tcontinue\n\t\t\t\t}\n\n\t\t\t\tif FLIP {\n\t\t\t\t\tsegment.Reverse()\n\t\t\t\t}\n\n\t\t\t\tcurrent = attach(current, segment, atEnd)\n\t\t\t\tfoundAt = i\n\t\t\t\tbreak\n"

const c16JoinHelpers = "\n// attach adds the normalised segment at the end or the start of the group, the shared point is kept once.\nfunc attach(group MultiSegment, s Segment, atEnd bool) MultiSegment {\n\tif atEnd {\n\t\ts.Line = TRIM\n\t\treturn append(group, s)\n\t}\n\n\ts.Line = s.Line[:len(s.Line)-1]\n\treturn append(MultiSegment{s}, group...)\n}\n"

// c16JoinHelperText renders the helper form with the given flip condition and trimming.
func c16JoinHelperText(flip, trim string) string {
	return strings.Replace(c16JoinHelperForm, "FLIP", flip, 1) + c16JoinTail + strings.Replace(c16JoinHelpers, "TRIM", trim, 1)
}

// c16RingTail is the rest of MultiSegment.Ring after the annotation test.
const c16RingTail = "\t\t}\n\n\t\tring = append(ring, s.Line...)\n\t}\n\n\tif (haveOrient && reversed) || (!haveOrient && ring.Orientation() != o) {\n\t\tring.Reverse()\n\t}\n\n\treturn ring\n}\n"

// c16JoinSwitchForm: the search loop of Join as a tagless switch with a labelled break.
const c16JoinSwitchForm = "\t\tsearch:\n\t\t\tfor i, segment := range segments {\n\t\t\t\tswitch {\n\t\t\t\tcase last.Equal(segment.First()):\n\t\t\t\t\tsegment.Line = segment.Line[1:]\n\t\t\t\t\tcurrent = append(current, segment)\n\t\t\t\t\tfoundAt = i\n\t\t\t\t\tbreak search\n\t\t\t\tcase last.Equal(segment.Last()):\n\t\t\t\t\tsegment.Reverse()\n\t\t\t\t\tsegment.Line = segment.Line[1:]\n\t\t\t\t\tcurrent = append(current, segment)\n\t\t\t\t\tfoundAt = i\n\t\t\t\t\tbreak search\n\t\t\t\tcase first.Equal(segment.Last()):\n\t\t\t\t\tsegment.Line = segment.Line[:len(segment.Line)-1]\n\t\t\t\t\tcurrent = append(MultiSegment{segment}, current...)\n\t\t\t\t\tfoundAt = i\n\t\t\t\t\tbreak search\n\t\t\t\tcase first.Equal(segment.First()):\n\t\t\t\t\tsegment.Reverse()\n\t\t\t\t\tsegment.Line = segment.Line[:len(segment.Line)-1]\n\t\t\t\t\tcurrent = append(MultiSegment{segment}, current...)\n\t\t\t\t\tfoundAt = i\n\t\t\t\t\tbreak search\n\t\t\t\t}\n\t\t\t}\n"

// c16Benign: behaviour-preserving rewrites (one overlay edit each) of the code the rules evaluate; all silent.
var c16Benign = append(append(append(append(append([]core.Mutant{}, c16Benign1...), c16Benign2...), c16Benign3...), c16Benign4...), c16Benign5...)

var c16Benign1 = []core.Mutant{
	// control-flow shape: tagless switch with a labelled break
	{Name: "join-switch-form", File: c16JoinGo,
		Find:    "\t\t\tfor i, segment := range segments {\n" + c16JoinArms + "\t\t\t}\n",
		Replace: c16JoinSwitchForm},
	// extract + two-step "normalise then attach": classification closure, attach helper
	{Name: "join-normalise-then-attach", File: c16JoinGo, Find: c16JoinArms + c16JoinTail, Replace: c16JoinHelperText("atEnd != withFirst", "s.Line[1:]")},
	// any equivalent removal of the matched segment
	{Name: "join-equivalent-removal", File: c16JoinGo, Find: c16JoinRemoval,
		Replace: "\t\t\tsegments = append(segments[:foundAt], segments[foundAt+1:]...)\n"},
	// merged arms: the two appending arms and the two prepending arms share their tail
	{Name: "join-merged-arms", File: c16JoinGo, Find: c16JoinArms,
		Replace: "\t\t\t\tif fitsFirst, fitsLast := last.Equal(segment.First()), last.Equal(segment.Last()); fitsFirst || fitsLast {\n\t\t\t\t\tif !fitsFirst {\n\t\t\t\t\t\tsegment.Reverse()\n\t\t\t\t\t}\n\n\t\t\t\t\tsegment.Line = segment.Line[1:]\n\t\t\t\t\tcurrent = append(current, segment)\n\t\t\t\t\tfoundAt = i\n\t\t\t\t\tbreak\n\t\t\t\t}\n\n\t\t\t\tif fitsLast, fitsFirst := first.Equal(segment.Last()), first.Equal(segment.First()); fitsLast || fitsFirst {\n\t\t\t\t\tif !fitsLast {\n\t\t\t\t\t\tsegment.Reverse()\n\t\t\t\t\t}\n\n\t\t\t\t\tsegment.Line = segment.Line[:len(segment.Line)-1]\n\t\t\t\t\tcurrent = append(MultiSegment{segment}, current...)\n\t\t\t\t\tfoundAt = i\n\t\t\t\t\tbreak\n\t\t\t\t}\n"},
	// loop form + renamed locals: index loop, explicit copy of the element, found flag instead of -1
	{Name: "join-index-loop", File: c16JoinGo,
		Find:    "\t\t\tfoundAt := -1\n\t\t\tfor i, segment := range segments {\n",
		Replace: "\t\t\tfoundAt := -1\n\t\t\tfor i := 0; i < len(segments); i++ {\n\t\t\t\tsegment := segments[i]\n"},
	{Name: "join-pop-renamed", File: c16JoinGo,
		Find:    "\t\tcurrent := MultiSegment{segments[len(segments)-1]}\n\t\tsegments = segments[:len(segments)-1]\n",
		Replace: "\t\ttop := len(segments) - 1\n\t\tseed := segments[top]\n\t\tsegments = segments[:top]\n\t\tcurrent := MultiSegment{seed}\n"},
	// inverted branch / filter idiom in compact
	{Name: "compact-filter-idiom", File: c16JoinGo,
		Find:    "\tat := 0\n\tfor _, s := range ms {\n\t\tif len(s.Line) <= 1 {\n\t\t\tcontinue\n\t\t}\n\n\t\tms[at] = s\n\t\tat++\n\t}\n\n\treturn ms[:at]\n",
		Replace: "\tkept := ms[:0]\n\tfor _, s := range ms {\n\t\tif len(s.Line) >= 2 {\n\t\t\tkept = append(kept, s)\n\t\t}\n\t}\n\n\treturn kept\n"},
	// named constant, ring test split off the loop condition
	{Name: "join-loop-guards-split", File: c16JoinGo,
		Find:    "\t\tfor len(segments) != 0 && !current.First().Equal(current.Last()) {\n",
		Replace: "\t\tfor {\n\t\t\tif len(segments) == 0 {\n\t\t\t\tbreak\n\t\t\t}\n\n\t\t\tif closed := current.First().Equal(current.Last()); closed {\n\t\t\t\tbreak\n\t\t\t}\n\n"},
	// Reverse: statements reordered, the reversal spelled out
	{Name: "reverse-spelled-out", File: c16MputilGo,
		Find:    "\ts.Reversed = !s.Reversed\n\ts.Line.Reverse()\n",
		Replace: "\tfor i, j := 0, len(s.Line)-1; i < j; i, j = i+1, j-1 {\n\t\ts.Line[i], s.Line[j] = s.Line[j], s.Line[i]\n\t}\n\n\tif s.Reversed {\n\t\ts.Reversed = false\n\t} else {\n\t\ts.Reversed = true\n\t}\n"},
	// Ring: decision unfolded (De Morgan / nesting), helper for the actual direction of a member
	{Name: "ring-decision-nested", File: c16MputilGo,
		Find:    "\tif (haveOrient && reversed) || (!haveOrient && ring.Orientation() != o) {\n\t\tring.Reverse()\n\t}\n",
		Replace: "\tif haveOrient {\n\t\tif reversed {\n\t\t\tring.Reverse()\n\t\t}\n\t} else if !(ring.Orientation() == o) {\n\t\tring.Reverse()\n\t}\n"},
	{Name: "ring-direction-helper", File: c16MputilGo,
		Find:    "\t\t\tif (s.Orientation == o) == s.Reversed {\n\t\t\t\treversed = true\n\t\t\t}\n" + c16RingTail,
		Replace: "\t\t\tif actualDirection(s) != o {\n\t\t\t\treversed = true\n\t\t\t}\n" + c16RingTail + "\n// actualDirection is the annotated direction of the way, corrected for a line that was turned round.\nfunc actualDirection(s Segment) orb.Orientation {\n\tif s.Reversed {\n\t\treturn -s.Orientation\n\t}\n\n\treturn s.Orientation\n}\n"},
	{Name: "ring-eager-orientation", File: c16MputilGo,
		Find:    "\tif (haveOrient && reversed) || (!haveOrient && ring.Orientation() != o) {\n",
		Replace: "\tcomputed := ring.Orientation()\n\tturn := reversed\n\tif !haveOrient {\n\t\tturn = computed != o\n\t}\n\n\tif turn {\n"},
}
