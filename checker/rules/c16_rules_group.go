package rules

// c16_rules_group.go — rule G1: mputil.Group sorts the way members into outer and inner segments, keeps Reversed in
// step with the direction of every line it hands over, and records the member's index. Which annotated members
// it turns round beforehand is not checked: any choice gives the same rings as long as the flag follows the line.

import (
	"fmt"
	"go/types"

	"osmcheck/core"
)

func c16G1(r *core.R) {
	e := c16NewEnv(r)
	if !e.ok {
		return
	}
	pos := e.group.Decl.Pos()
	sig := e.group.Obj.Type().(*types.Signature)
	if sig.Params().Len() != 3 || sig.Results().Len() != 3 {
		r.Unknown("Group[signature]", pos, "mputil.Group no longer has the shape (members, ways, at) -> (outer, inner, tainted)")
		return
	}
	ways := map[int64]c16Way{}
	var mems []c16Mem
	add := func(kind, role string, orient int64, toks []string) {
		ref := int64(100 + len(mems))
		if toks != nil {
			ways[ref] = c16Way{id: ref, toks: toks}
		}
		mems = append(mems, c16Mem{kind: kind, ref: ref, role: role, orient: orient})
	}
	add("node", "outer", 0, nil)
	add("way", "outer", 0, []string{"a", "b", "c"})
	add("way", "outer", c16CW, []string{"c", "d", "e"})
	add("way", "inner", c16CCW, []string{"p", "q", "r"})
	add("way", "outer", 0, nil) // way not available
	add("way", "outer", c16CCW, []string{"e", "f", "a"})
	add("relation", "inner", 0, nil)
	add("way", "inner", 0, []string{"r", "s", "t"})
	add("way", "", 0, []string{"u", "v", "w"})
	add("way", "inner", c16CW, []string{"t", "u", "p"})
	add("way", "subarea", c16CW, []string{"x", "y", "z"})
	if !e.ok {
		return
	}
	var wl []c16Way
	for _, k := range c16SortedKeys(ways) {
		wl = append(wl, ways[k])
	}
	var membersAfter c16Val
	val, v := e.single(nil, func(m *c16M) c16Val {
		mv := e.membersValue(mems)
		membersAfter = mv
		return m.callFunc(e.group, nil, mv, e.wayMap(m, sig.Params().At(1).Type(), wl, true), c16Zero(sig.Params().At(2).Type()))
	})
	text := "Group(" + c16MemsText(mems, ways) + ")"
	if !v.ok() {
		if v.undecided != "" {
			r.Unknown("Group[evaluation]", pos, "%s could not be evaluated: %s", text, v.undecided)
		} else {
			r.Bad("Group[evaluation]", pos, "%s: %s", text, v.bad)
		}
		return
	}
	res, _ := val.(c16Tuple)
	if len(res) != 3 {
		r.Unknown("Group[evaluation]", pos, "%s did not yield three results", text)
		return
	}
	lists := map[string][]c16Seg{}
	for i, role := range []string{"outer", "inner"} {
		sl, ok := res[i].(c16Slice)
		for _, sv := range sl.elems() {
			s, ok2 := c16ReadSeg(sv)
			ok = ok && ok2
			lists[role] = append(lists[role], s)
		}
		if !ok {
			r.Unknown("Group[role="+role+"]", pos, "%s: the %s result is not a concrete list of segments: %s", text, role, c16Show(res[i]))
			return
		}
	}
	// per role: the member ways, in member order, pre-normalised
	indexOK := true
	indexWhy := ""
	for _, role := range []string{"outer", "inner"} {
		var want []c16Seg
		for i, mm := range mems {
			if w, ok := ways[mm.ref]; ok && mm.kind == "way" && mm.role == role {
				s := c16Seg{idx: i, toks: w.toks, orient: mm.orient}
				want = append(want, s)
			}
		}
		got := lists[role]
		why := ""
		if len(got) != len(want) {
			why = fmt.Sprintf("%d segments, want %d (the way members with role %q whose way is available)", len(got), len(want), role)
		}
		for k := 0; why == "" && k < len(want); k++ {
			g, w := got[k], want[k]
			stored := w.toks
			if g.reversed {
				stored = c16Rev(stored)
			}
			switch {
			case !c16SameToks(g.toks, w.toks) && !c16SameToks(g.toks, c16Rev(w.toks)):
				why = fmt.Sprintf("segment %d is %v, want the way of member %d: %v", k, g.toks, w.idx, w.toks)
			case !c16SameToks(g.toks, stored):
				why = fmt.Sprintf("member %d (annotated %s) arrives as %v with Reversed=%v, its way is stored as %v: Reversed must say whether the line runs against the stored way (Ring and the annotation read it)", w.idx, c16Dir(w.orient), g.toks, g.reversed, w.toks)
			case g.orient != w.orient:
				why = fmt.Sprintf("member %d: Orientation %d, the member is annotated %d", w.idx, g.orient, w.orient)
			}
			if g.idx != w.idx && indexOK {
				indexOK, indexWhy = false, fmt.Sprintf("the segment of member %d carries Index %d: annotateOrientation writes the orientation to members[Index], so Index must be the position in the member list (members that are not ways count)", w.idx, g.idx)
			}
		}
		construct := "Group[role=" + role + "]"
		if why != "" {
			r.Bad(construct, pos, "%s: %s list: %s", text, role, why)
		} else {
			r.OK(construct, pos, "%d way members with role %s, in member order; Reversed set exactly on the lines that run against their stored way; Orientation copied", len(want), role)
		}
	}
	if indexOK {
		r.OK("Group[index]", pos, "Segment.Index is the member's position in the member list")
	} else {
		r.Bad("Group[index]", pos, "%s: %s", text, indexWhy)
	}
	if t, ok := res[2].(bool); !ok || !t {
		r.Bad("Group[missing-way]", pos, "%s: a way member whose way is not available must be reported as tainted, got %s", text, c16Show(res[2]))
	} else {
		r.OK("Group[missing-way]", pos, "a member whose way is not available yields no segment and taints the result")
	}
	if after, ok := c16ReadMembers(membersAfter); ok {
		for i, o := range after {
			if o != mems[i].orient {
				r.Bad("Group[members-untouched]", pos, "%s changes the annotation of member %d", text, i)
				return
			}
		}
	}
}
