package rules

import (
	"fmt"
	"go/token"
	"go/types"
	"reflect"
	"sort"

	"osmcheck/core"
)

// Unexported identifiers the C04 rules are keyed on: none. The hand-written writers are the MarshalXML methods of
// package osm (found through their signature) and whatever they call; the rules look at what those methods *do* with
// the encoder under a few abstract inputs (rules/c04_model.go), not at which helper contains which statement.

func init() {
	register(&core.Property{
		ID:    "C04",
		Title: "XML marshal/unmarshal round-trips every object and container",
		Explanation: "Structural necessary conditions on every hand-written XML writer of package osm (every MarshalXML method with everything it calls, explored path by path by an abstract interpreter under fixed abstract inputs; helper names, parameter and local names, statement order of independent statements, if/switch form and the file the code lives in do not matter): " +
			"(X1) with every field set, for each Encode / EncodeElement call the element name encoding/xml will emit — computed by the naming model: start element given, else XMLName tag, else enclosing field tag, else the Go type name — equals the tag under which the receiver field being encoded is read back; the wrapper elements open around it are exactly the tags of the fields on the way to it (create/modify/delete, old/new); a forced document root name is the documented one; every start token is closed by an end token of the same name; a MarshalXML that hands the whole value to the tag-driven encoding as a method-less type with the same fields and tags (`type plain T; e.EncodeElement(plain(v), start)`) is modelled as that encoding, judged for every name it can be handed (the tag of every tag-marshalled holder must be kept; other tags or the type itself are violations); every type that is marshalled on its own - the documents OSM, Change, Diff and the element types of osm.OSM's element fields, Bounds included - gets its element name of tables/osmxml.json when it is encoded without an enclosing element (XMLName, or else the Go type name unless MarshalXML renames it: `<Bounds>` is a violation); " +
			"(X2) each attr-tagged field of a type with a hand-written MarshalXML appears in the start token's attribute list under its tag name with the field's value: with every field set, with only that field set (so its guard tests that field and nothing else), and with only that field empty exactly when the tag does not say omitempty; no attribute is written that no field reads; " +
			"(X3) completeness: for every element-tagged field of the marshalled type (and, for fields written as a wrapped OSM body, every element-tagged field of osm.OSM below it), when only that field is set it is encoded on every path; the elements Action writes directly are exactly the kinds Action.UnmarshalXML stores back, accumulating (a decoder that replaces the body per child loses all but the last, C03.T4); " +
			"(X4) Action.MarshalXML and Action.UnmarshalXML agree on {type attribute, old, new}; marshalling an action whose directly embedded element is nil touches nothing through the nil pointer; " +
			"(X5) Date is written as text with a layout its reader parses (equal, or with a fractional-seconds field after the seconds, which time.Parse accepts without the layout naming it) that keeps nanoseconds; " +
			"(X6) an element is left out only when its value is absent: whenever a single field of the value is set the element's own start token (the wrapper of a block, the element of a type with MarshalXML) is written on every path, and a nil block writes nothing and dereferences nothing. " +
			"(X8) a time formatted by hand and handed to the encoder (found by type: (time.Time).Format / AppendFormat results that reach an Encoder call, through whatever constant, local or helper) uses a layout the reader parses and keeps the sub-second part: with the type's own UnmarshalXML (osm.Date, the OSM notes format) the reader's layout plus a nanosecond fractional-seconds field right after the seconds (time.Parse reads it although the layout does not name it; a writer without it, or with a shorter one, drops what the reader would read back), otherwise time.Time's own unmarshaler, i.e. RFC 3339 with nanoseconds - a layout without fractional seconds drops them; every other time of the package (created_at, closed_at, timestamp, date attributes) is a time.Time written by encoding/xml itself through MarshalText. " +
			"Types without a hand-written marshaller are written and read by the same tags and are symmetric by construction of encoding/xml (tag well-formedness is C03.T1). " +
			"NOT decided: equality of values after the trip (time precision, float formatting, strings XML cannot represent), diff create actions holding several elements, allocated-but-empty containers.",
		Assumptions: []string{"go/types (x/tools v0.29.0)", "documented naming rules of encoding/xml marshalValue/defaultStart (re-implemented in rules/c03_xmlmodel.go)", "the path-enumerating abstract interpreter of rules/c03_eval.go (one iteration per loop, lists built on the path and counted loops unrolled, closures / deferred calls / pointers to fields / unexported dispatch tables followed, calls outside the repository opaque, goroutines / goto / generic functions / unknown call targets make the exploration undecided; Encoder calls are assumed to succeed)", "tables/osmxml.json for document root names"},
		LevelText:   "Structural necessary conditions: every element/attribute name the hand-written XML writers emit equals the name the library's own tags (or custom decoders) read it back under, for every field, under abstract inputs that set one field at a time; hand-written containers emit every field they can read and skip an element only when its value is absent. Value equality after the round trip is not decided.",
		LevelNote:   "Trusts the type checker, the documented naming rules of encoding/xml and the abstract interpreter's modelling of the Go statements used by the writers (anything it does not model is reported as undecided); covers the hand-written writers of package osm (everything else is tag-driven both ways).",
		Technique:   "abstract interpretation of the hand-written marshallers over a finite set of scenarios (which fields are empty), observing the Encoder calls with symbolic arguments; type-resolved model of encoding/xml element naming applied to each observed call; sibling agreement between marshal and unmarshal observations",
		DesignRef:   "DESIGN.md §5 C04, §3.3",
		Rules: []*core.Rule{
			{ID: "X1", Floor: 30, Doc: "emitted element name = name read back for every encoded field; wrappers = tags of the enclosing fields; roots named and closed (5 roots + 8 fields + 5 blocks); delegation to the tag-driven encoding (Bounds: 2); 10 types marshalled on their own get their element name", Run: c04X1},
			{ID: "X2", Floor: 15, Doc: "attributes written under their tag names, from their fields, guarded by their own emptiness iff omitempty (11 attr-tagged fields written by hand + 4 of Bounds through delegation)", Run: c04X2},
			{ID: "X3", Floor: 50, Doc: "completeness: every element field is encoded when it alone is set (8 direct + 35 in wrapped bodies + 7 kinds of the embedded action element)", Run: c04X3},
			{ID: "X4", Floor: 4, Doc: "Action marshal/unmarshal symmetry on type, old, new, embedded element", Run: c04X4},
			{ID: "X5", Floor: 2, Doc: "Date: the reader parses what the writer formats, nanoseconds kept, written and read as text", Run: c04X5},
			{ID: "X6", Floor: 14, Doc: "an element is skipped only when its value is absent; a nil block writes and dereferences nothing (4 roots + 5 blocks written, 5 blocks absent)", Run: c04X6},
			{ID: "X7", Floor: 3, Doc: "every XML marshaler (MarshalXML / MarshalXMLAttr / MarshalText) of the package has a value receiver, so that it is in the method set of T and *T and a value that is not addressable is still written in the documented form (5 today)", Run: c04X7},
			{ID: "X8", Floor: 1, Doc: "a time formatted by hand in an XML writer uses a layout its reader parses: the type's own UnmarshalXML with the same layout, else time.Time's unmarshaler, i.e. RFC 3339 with nanoseconds (Date.MarshalXML)", Run: c04X8},
		},
		Mutants: append(append([]core.Mutant{}, append(append(append(append([]core.Mutant{}, c04Mutants...), c04Mutants2...), append(append([]core.Mutant{}, c04TimeMutants...), append(append([]core.Mutant{}, c04Mutants3...), append(append([]core.Mutant{}, c04Mutants4...), append(append([]core.Mutant{}, c04BoundsMutants...), c04R8Mutants...)...)...)...)...), core.Mutant{Name: "x7-date-marshalxml-pointer-receiver", File: "note.go", Find: "func (d Date) MarshalXML(", Replace: "func (d *Date) MarshalXML(", ExpectRule: "X7", ExpectConstruct: "receiver@Date.MarshalXML"})...), c04Mutants5...),
		Benign:  append(append([]core.Mutant{}, append(append(append([]core.Mutant{}, c04Benign...), c04Benign2...), append(append([]core.Mutant{}, c04Benign3...), append(append([]core.Mutant{}, c04Benign4...), append(append([]core.Mutant{}, c04BoundsBenign...), c04R8Benign...)...)...)...)...), c04Benign5...),
	})
}

func c04RecvTypeOf(fn *types.Func) types.Type {
	if fn == nil {
		return nil
	}
	if r := fn.Type().(*types.Signature).Recv(); r != nil {
		return r.Type()
	}
	return nil
}

// c04FieldsOfType lists the element fields, in structs of package osm marshalled by the default rules
// (no MarshalXML), whose element type is t.
func c04FieldsOfType(p *core.Program, t types.Type) []string {
	pk := c03OsmPkg(p)
	var out []string
	sc := pk.Types.Scope()
	for _, n := range sc.Names() {
		tn, ok := sc.Lookup(n).(*types.TypeName)
		if !ok {
			continue
		}
		ti := c03XMLTypeInfo(tn.Type())
		if ti == nil || c03Implements(p, tn.Type(), "encoding/xml", "Marshaler") != "" || !c04HasXMLTags(tn.Type()) {
			continue // a struct without a single xml tag (a JSON shim, an internal record) is no XML holder
		}
		for _, f := range ti.Fields {
			if f.Kind == c03Elem && len(f.Via) == 0 && types.Identical(c03ElemType(f.Var.Type()), c03Deref(t)) {
				out = append(out, n+"."+f.Var.Name()+"="+f.Path())
			}
		}
	}
	return out
}

// c04Verdicts collects one verdict per construct: violated beats undecided beats discharged.
type c04Verdicts struct {
	order []string
	m     map[string]*c04Verdict
}

type c04Verdict struct {
	status string
	pos    token.Pos
	msg    string
}

func (v *c04Verdicts) put(status, construct string, pos token.Pos, format string, args ...interface{}) {
	if v.m == nil {
		v.m = map[string]*c04Verdict{}
	}
	rank := map[string]int{core.Discharged: 0, core.Undecided: 1, core.Violated: 2}
	cur := v.m[construct]
	if cur == nil {
		v.order = append(v.order, construct)
		v.m[construct] = &c04Verdict{status, pos, fmt.Sprintf(format, args...)}
		return
	}
	if rank[status] > rank[cur.status] {
		*cur = c04Verdict{status, pos, fmt.Sprintf(format, args...)}
	}
}

func (v *c04Verdicts) ok(c string, pos token.Pos, f string, a ...interface{}) {
	v.put(core.Discharged, c, pos, f, a...)
}
func (v *c04Verdicts) bad(c string, pos token.Pos, f string, a ...interface{}) {
	v.put(core.Violated, c, pos, f, a...)
}
func (v *c04Verdicts) unknown(c string, pos token.Pos, f string, a ...interface{}) {
	v.put(core.Undecided, c, pos, f, a...)
}

func (v *c04Verdicts) emit(r *core.R) {
	for _, c := range v.order {
		x := v.m[c]
		switch x.status {
		case core.Discharged:
			r.OK(c, x.pos, "%s", x.msg)
		case core.Violated:
			r.Bad(c, x.pos, "%s", x.msg)
		default:
			r.Unknown(c, x.pos, "%s", x.msg)
		}
	}
}

// rootTokens returns the start tokens written at depth 0.
func (tr *c04Trace) rootTokens() []c04Token {
	var out []c04Token
	for _, t := range tr.tokens {
		if t.start && t.depth == 0 {
			out = append(out, t)
		}
	}
	return out
}

// wrappersOf returns the names of the wrappers open around an emission, below the root element.
func (tr *c04Trace) wrappersOf(em c04Emit) []c04Name {
	if len(em.open) == 0 {
		return nil
	}
	return em.open[1:]
}

func c04Explored(v *c04Verdicts, root *c04Root, trs []*c04Trace, aborted string) bool {
	if aborted != "" {
		v.unknown("explore@"+root.name, root.fi.Decl.Pos(), "%s could not be explored completely: %s", root.name, aborted)
		return false
	}
	for _, tr := range trs {
		if tr.path.End == "stuck" {
			v.unknown("explore@"+root.name, tr.path.Pos, "%s contains a statement the analysis does not model: %s", root.name, tr.path.Why)
			return false
		}
	}
	return true
}

func c04Keys(m map[string]string) []string {
	var out []string
	for k := range m {
		out = append(out, k)
	}
	sort.Strings(out)
	return out
}

func c04MissPos(tr *c04Trace, fallback token.Pos) token.Pos {
	if tr != nil && tr.path.Pos.IsValid() {
		return tr.path.Pos
	}
	return fallback
}

// c04HasXMLTags: the struct type names an xml key for at least one of its fields.
func c04HasXMLTags(t types.Type) bool {
	st, ok := t.Underlying().(*types.Struct)
	if !ok {
		return false
	}
	for i := 0; i < st.NumFields(); i++ {
		if _, has := reflect.StructTag(st.Tag(i)).Lookup("xml"); has {
			return true
		}
	}
	return false
}
