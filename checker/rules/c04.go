package rules

import (
	"go/ast"
	"go/token"
	"go/types"
	"sort"
	"strings"

	"osmcheck/core"
)

// Unexported identifiers the C04 rules are keyed on: none by name. The helpers are found by role:
//   - "inner emitter": a function of package osm with an *xml.Encoder parameter that is not a MarshalXML method
//     (today marshalInnerXML, marshalInnerElementsXML, marshalInnerChange);
//   - "full body emitter": the *OSM method OSM.MarshalXML calls with its encoder (today marshalInnerXML);
//   - "element emitter": the *OSM method Action.MarshalXML calls on a.OSM (today marshalInnerElementsXML);
//   - "wrapper": an inner emitter whose start token takes its name from a string parameter (today marshalInnerChange).

func init() {
	register(&core.Property{
		ID:    "C04",
		Title: "XML marshal/unmarshal round-trips every object and container",
		Explanation: "Structural necessary conditions on every hand-written XML writer of package osm (every function with an *xml.Encoder parameter): " +
			"(X1) for each Encode / EncodeElement / EncodeToken(start) the element name encoding/xml will emit — computed by the naming model: start element given, else XMLName tag, else enclosing field tag, else the Go type name — equals the tag under which the encoded field or block is read back (or, for a forced document root, the documented root name); start tokens are closed by the End() of the same start element; " +
			"(X2) each attr-tagged field of a type with a hand-written MarshalXML is appended to start.Attr under its tag name, from that field, guarded by a non-emptiness test exactly when the tag says omitempty, and no attribute is written that no field reads; " +
			"(X3) the full body emitter encodes every element-tagged field of osm.OSM and is called between the start and end token of every OSM-valued block; the element emitter used for diff create actions encodes exactly the kinds Action.UnmarshalXML stores back; " +
			"(X4) Action.MarshalXML and Action.UnmarshalXML agree on {type attribute, old, new} and the directly embedded element is only written when present; " +
			"(X5) Date is written as text with the layout constant it is parsed with. " +
			"Types without a hand-written marshaller are written and read by the same tags and are symmetric by construction of encoding/xml (tag well-formedness is C03.T1). " +
			"NOT decided: equality of values after the trip (time precision, float formatting, strings XML cannot represent), diff create actions holding several elements.",
		Assumptions: []string{"go/types (x/tools v0.29.0)", "documented naming rules of encoding/xml marshalValue/defaultStart (re-implemented in rules/c03_xmlmodel.go)", "tables/osmxml.json for document root names"},
		LevelText:   "Structural necessary conditions: every element/attribute name the hand-written XML writers emit equals the name the library's own tags (or custom decoders) read it back under, at every emission site; hand-written containers emit every field they can read. Value equality after the round trip is not decided.",
		LevelNote:   "Trusts the type checker and the documented naming rules of encoding/xml; covers the hand-written writers of package osm (everything else is tag-driven both ways).",
		Technique:   "type-resolved model of encoding/xml element naming applied at every emission site of the hand-written marshallers; sibling agreement between marshal and unmarshal tables",
		DesignRef:   "DESIGN.md §5 C04, §3.3",
		Rules: []*core.Rule{
			{ID: "X1", Floor: 22, Doc: "emitted element name = name read back, at every Encode/EncodeElement/EncodeToken(start) site", Run: c04X1},
			{ID: "X2", Floor: 11, Doc: "attributes written under their tag names, from their fields, guarded iff omitempty", Run: c04X2},
			{ID: "X3", Floor: 12, Doc: "completeness of the OSM body emitters", Run: c04X3},
			{ID: "X4", Floor: 4, Doc: "Action marshal/unmarshal symmetry on type, old, new, embedded element", Run: c04X4},
			{ID: "X5", Floor: 2, Doc: "Date: one layout constant both ways, written and read as text", Run: c04X5},
			{ID: "X6", Floor: 3, Doc: "marshal helpers skip an element only when the value is absent", Run: c04X6},
		},
		Mutants: []core.Mutant{
			{Name: "x6-skip-block-without-elements", File: "change.go", Find: "func marshalInnerChange(e *xml.Encoder, name string, o *OSM) error {\n\tif o == nil {", Replace: "func marshalInnerChange(e *xml.Encoder, name string, o *OSM) error {\n\tif len(o.Elements()) == 0 {", ExpectRule: "X6", ExpectConstruct: "marshalInnerChange"},
			{Name: "change-modify-block-renamed", File: "change.go", Find: "marshalInnerChange(e, \"modify\", c.Modify)", Replace: "marshalInnerChange(e, \"modified\", c.Modify)", ExpectRule: "X1", ExpectConstruct: "c.Modify"},
			{Name: "osm-root-renamed", File: "osm.go", Find: "start.Name.Local = \"osm\"", Replace: "start.Name.Local = \"OSM\"", ExpectRule: "X1", ExpectConstruct: "root@OSM.MarshalXML"},
			{Name: "discussion-comment-renamed", File: "changeset.go", Find: "t := xml.StartElement{Name: xml.Name{Local: \"comment\"}}", Replace: "t := xml.StartElement{Name: xml.Name{Local: \"comments\"}}", ExpectRule: "X1", ExpectConstruct: "csd.Comments"},
			{Name: "osm-nodes-tag-plural", File: "osm.go", Find: "Nodes     Nodes     `xml:\"node\"`", Replace: "Nodes     Nodes     `xml:\"nodes\"`", ExpectRule: "X1", ExpectConstruct: "o.Nodes"},
			{Name: "action-old-writes-new", File: "diff.go", Find: "marshalInnerChange(e, \"old\", a.Old)", Replace: "marshalInnerChange(e, \"old\", a.New)", ExpectRule: "X1", ExpectConstruct: "a.New"},
			{Name: "change-root-not-closed", File: "change.go", Find: "\treturn e.EncodeToken(start.End())\n}\n\nfunc marshalInnerChange", Replace: "\treturn e.EncodeToken(start)\n}\n\nfunc marshalInnerChange", ExpectRule: "X1", ExpectConstruct: "root@Change.MarshalXML"},
			{Name: "users-encoded-by-type-name", File: "osm.go", Find: "return e.Encode(o.Users)\n}\n\nfunc (o *OSM) marshalInnerElementsXML", Replace: "return e.EncodeElement(o.Users, xml.StartElement{Name: xml.Name{Local: \"users\"}})\n}\n\nfunc (o *OSM) marshalInnerElementsXML", ExpectRule: "X1", ExpectConstruct: "o.Users"},
			{Name: "osm-generator-guard-dropped", File: "osm.go", Find: "\tif o.Generator != \"\" {\n\t\tstart.Attr = append(start.Attr, xml.Attr{Name: xml.Name{Local: \"generator\"}, Value: o.Generator})\n\t}", Replace: "\tstart.Attr = append(start.Attr, xml.Attr{Name: xml.Name{Local: \"generator\"}, Value: o.Generator})", ExpectRule: "X2", ExpectConstruct: "OSM.Generator"},
			{Name: "change-generator-attr-renamed", File: "change.go", Find: "xml.Name{Local: \"generator\"}", Replace: "xml.Name{Local: \"generated\"}", ExpectRule: "X2", ExpectConstruct: "Change.Generator"},
			{Name: "change-attribution-from-license", File: "change.go", Find: "Value: c.Attribution}", Replace: "Value: c.License}", ExpectRule: "X2", ExpectConstruct: "Change.Attribution"},
			{Name: "inner-drops-changesets", File: "osm.go", Find: "\tif err := e.Encode(o.Changesets); err != nil {\n\t\treturn err\n\t}\n\n", Replace: "", ExpectRule: "X3", ExpectConstruct: "OSM.Changesets"},
			{Name: "elements-drop-ways", File: "osm.go", Find: "\tif err := e.Encode(o.Ways); err != nil {\n\t\treturn err\n\t}\n\n\treturn e.Encode(o.Relations)", Replace: "\treturn e.Encode(o.Relations)", ExpectRule: "X3", ExpectConstruct: "kind OSM.Ways"},
			{Name: "change-block-elements-only", File: "change.go", Find: "if err := o.marshalInnerXML(e); err != nil {", Replace: "if err := o.marshalInnerElementsXML(e); err != nil {", ExpectRule: "X3", ExpectConstruct: "body@marshalInnerChange"},
			{Name: "action-type-read-from-other-attr", File: "diff.go", Find: "if attr.Name.Local == \"type\" {", Replace: "if attr.Name.Local == \"kind\" {", ExpectRule: "X4", ExpectConstruct: "attr type"},
			{Name: "action-old-new-swapped-on-read", File: "diff.go", Find: "\t\tcase \"old\":\n\t\t\ta.Old = &OSM{}\n\t\t\tif err := d.DecodeElement(a.Old, &start); err != nil {", Replace: "\t\tcase \"old\":\n\t\t\ta.New = &OSM{}\n\t\t\tif err := d.DecodeElement(a.New, &start); err != nil {", ExpectRule: "X4", ExpectConstruct: "block old"},
			{Name: "action-element-unguarded", File: "diff.go", Find: "\tif a.OSM != nil {\n\t\tif err := a.OSM.marshalInnerElementsXML(e); err != nil {\n\t\t\treturn err\n\t\t}\n\t}", Replace: "\tif err := a.OSM.marshalInnerElementsXML(e); err != nil {\n\t\treturn err\n\t}", ExpectRule: "X4", ExpectConstruct: "embedded"},
			{Name: "date-format-other-layout", File: "note.go", Find: "return e.EncodeElement(d.Format(dateLayout), start)", Replace: "return e.EncodeElement(d.Format(time.RFC3339), start)", ExpectRule: "X5", ExpectConstruct: "layout@Date"},
			{Name: "date-marshalled-as-struct", File: "note.go", Find: "return e.EncodeElement(d.Format(dateLayout), start)", Replace: "_ = d.Format(dateLayout)\n\treturn e.EncodeElement(d.Time, start)", ExpectRule: "X5", ExpectConstruct: "text@Date"},
		},
	})
}

// ---- collection of emission sites ---------------------------------------------------------------

// c04Emitter is a function of package osm that writes XML by hand.
type c04Emitter struct {
	fi  *FuncInfo
	enc *types.Var
}

func c04Emitters(p *core.Program) []*c04Emitter {
	var out []*c04Emitter
	for _, fi := range allFuncs(c03OsmPkg(p)) {
		if enc := c03EncoderParam(fi); enc != nil {
			out = append(out, &c04Emitter{fi: fi, enc: enc})
		}
	}
	sort.Slice(out, func(i, j int) bool { return out[i].fi.Decl.Pos() < out[j].fi.Decl.Pos() })
	return out
}

// c04EncCall is one call of an Encoder method on the function's encoder parameter.
type c04EncCall struct {
	call   *ast.CallExpr
	method string
}

func c04EncCalls(em *c04Emitter) []c04EncCall {
	info := em.fi.Pkg.TypesInfo
	var out []c04EncCall
	ast.Inspect(em.fi.Decl.Body, func(n ast.Node) bool {
		call, ok := n.(*ast.CallExpr)
		if !ok {
			return true
		}
		fn := callee(info, call)
		if fn == nil || namedPath(recvTypeOf(fn)) != "encoding/xml.Encoder" {
			return true
		}
		sel, ok := ast.Unparen(call.Fun).(*ast.SelectorExpr)
		if !ok || objOf(info, sel.X) != em.enc {
			return true
		}
		out = append(out, c04EncCall{call: call, method: fn.Name()})
		return true
	})
	return out
}

func recvTypeOf(fn *types.Func) types.Type {
	if r := fn.Type().(*types.Signature).Recv(); r != nil {
		return r.Type()
	}
	return nil
}

// c04ReadBack returns the XML view of the field selected by expression v (recv.F), and the owner type.
func c04ReadBack(info *types.Info, v ast.Expr) (*c03Field, types.Type) {
	f := fieldOf(info, v)
	if f == nil {
		return nil, nil
	}
	sel := ast.Unparen(v).(*ast.SelectorExpr)
	owner := c03Deref(info.TypeOf(sel.X))
	ti := c03XMLTypeInfo(owner)
	if ti == nil {
		return nil, owner
	}
	return ti.FieldOf(f), owner
}

// c04EndOf reports whether e is `X.End()` of a StartElement and returns X's object.
func c04EndOf(info *types.Info, e ast.Expr) (types.Object, bool) {
	call, ok := ast.Unparen(e).(*ast.CallExpr)
	if !ok || !isMethod(callee(info, call), "encoding/xml.StartElement", "End") {
		return nil, false
	}
	sel, ok := ast.Unparen(call.Fun).(*ast.SelectorExpr)
	if !ok {
		return nil, true
	}
	return objOf(info, sel.X), true
}

// c04Closed: after call, the function emits EncodeToken(v.End()) for the start element variable v.
func c04Closed(em *c04Emitter, after token.Pos, v types.Object) bool {
	info := em.fi.Pkg.TypesInfo
	for _, ec := range c04EncCalls(em) {
		if ec.method != "EncodeToken" || len(ec.call.Args) != 1 || ec.call.Pos() < after {
			continue
		}
		if o, isEnd := c04EndOf(info, ec.call.Args[0]); isEnd && o != nil && o == v {
			return true
		}
	}
	return false
}

// c04FieldsOfType lists the element fields, in structs of package osm marshalled by the default rules
// (no MarshalXML), whose element type is t.
func c04FieldsOfType(p *core.Program, t types.Type) []string {
	pk := c03OsmPkg(p)
	var out []string
	sc := pk.Types.Scope()
	for _, n := range sc.Names() {
		tn, ok := sc.Lookup(n).(*types.TypeName)
		if !ok {
			continue
		}
		ti := c03XMLTypeInfo(tn.Type())
		if ti == nil || c03Implements(p, tn.Type(), "encoding/xml", "Marshaler") != "" {
			continue
		}
		for _, f := range ti.Fields {
			if f.Kind == c03Elem && len(f.Via) == 0 && types.Identical(c03ElemType(f.Var.Type()), c03Deref(t)) {
				out = append(out, n+"."+f.Var.Name()+"="+f.Path())
			}
		}
	}
	return out
}

// ---- X1 --------------------------------------------------------------------------------------

func c04X1(r *core.R) {
	c03Init(r)
	tbl, terr := c03LoadTable()
	if terr != nil {
		r.Anchor("tables/osmxml.json: " + terr.Error())
		return
	}
	ems := c04Emitters(r.P)
	if len(ems) == 0 {
		r.Anchor("functions of package osm with an *xml.Encoder parameter")
		return
	}
	r.Stat("xml_emitter_functions", len(ems))
	for _, em := range ems {
		fi := em.fi
		info := fi.Pkg.TypesInfo
		name := strings.NewReplacer("(*", "", ")", "").Replace(fi.Name())
		for _, ec := range c04EncCalls(em) {
			switch ec.method {
			case "Encode", "EncodeElement":
				v := ec.call.Args[0]
				c := "emit@" + name + " " + src(r.P.Fset, v)
				tmpl := ""
				if ec.method == "EncodeElement" {
					sn := c03ResolveStart(fi, ec.call.Args[1])
					switch sn.Kind {
					case "const":
						tmpl = sn.Const
					case "pass":
						r.OK(c, ec.call.Pos(), "encoded under the start element handed to %s, unrenamed: the caller (encoding/xml's field marshaller) supplies the name of the very field that is read back", name)
						continue
					default:
						r.Unknown(c, ec.call.Pos(), "cannot resolve the element name of `%s`: %s", src(r.P.Fset, ec.call.Args[1]), sn.Why)
						continue
					}
				}
				xf, owner := c04ReadBack(info, v)
				if xf == nil {
					if owner != nil {
						r.Bad(c, ec.call.Pos(), "`%s` writes a field of %s that has no xml element tag: nothing reads it back", src(r.P.Fset, ec.call), c03Short(owner))
					} else {
						r.Unknown(c, ec.call.Pos(), "encoded value `%s` is not a struct field selection; accepted: recv.Field", src(r.P.Fset, v))
					}
					continue
				}
				if xf.Kind != c03Elem || len(xf.Parents) > 0 {
					r.Unknown(c, ec.call.Pos(), "field %s is read back as `%s`: only plain element tags are enumerated", xf.Var.Name(), c03TagOf(xf))
					continue
				}
				bad := false
				var whys []string
				for _, en := range c03EmittedNames(r.P, info.TypeOf(v), tmpl, "") {
					switch {
					case en.Err != "":
						r.Unknown(c, ec.call.Pos(), "%s", en.Err)
						bad = true
					case en.Name != xf.Name:
						r.Bad(c, ec.call.Pos(), "`%s` emits <%s> (%s) but %s.%s is read back from <%s> (tag `%s`): xml.Unmarshal of the written document leaves the field empty (the streaming scanner matches names case-insensitively, so at best the two decoders disagree)",
							src(r.P.Fset, ec.call), en.Name, en.Why, c03Short(owner), xf.Var.Name(), xf.Name, c03TagOf(xf))
						bad = true
					default:
						whys = append(whys, en.Why)
					}
				}
				if !bad {
					r.OK(c, ec.call.Pos(), "emits <%s> (%s) = tag of %s.%s", xf.Name, strings.Join(whys, "; "), c03Short(owner), xf.Var.Name())
				}
			case "EncodeToken":
				arg := ec.call.Args[0]
				if _, isEnd := c04EndOf(info, arg); isEnd {
					continue // paired with its start token below
				}
				if namedPath(info.TypeOf(arg)) != "encoding/xml.StartElement" {
					r.Unknown("token@"+name+" "+src(r.P.Fset, arg), ec.call.Pos(), "token of type %s written by hand: not enumerated", c03Short(info.TypeOf(arg)))
					continue
				}
				sn := c03ResolveStart(fi, arg)
				closed := sn.Var != nil && c04Closed(em, ec.call.End(), sn.Var)
				switch sn.Kind {
				case "const":
					c := "root@" + name
					if fi.Obj.Name() != "MarshalXML" {
						r.Unknown(c, ec.call.Pos(), "constant start token <%s> written by a helper: not enumerated", sn.Const)
						continue
					}
					rt := c03Deref(c03Receiver(fi).Type())
					tt := tbl.Type(c03TypeName(rt))
					nested := c04FieldsOfType(r.P, rt)
					var badNested []string
					for _, nf := range nested {
						if !strings.HasSuffix(nf, "="+sn.Const) {
							badNested = append(badNested, nf)
						}
					}
					ti := c03XMLTypeInfo(rt)
					switch {
					case !closed:
						r.Bad(c, ec.call.Pos(), "the <%s> start token is never closed by EncodeToken(%s.End()): Marshal fails or emits unbalanced XML", sn.Const, sn.Var.Name())
					case tt == nil:
						r.Unknown(c, ec.call.Pos(), "%s forces the element name %q but the type is not in tables/osmxml.json", name, sn.Const)
					case tt.Element != sn.Const:
						r.Bad(c, ec.call.Pos(), "%s forces the element name <%s>; the documented element for %s is <%s> (%s)", name, sn.Const, c03TypeName(rt), tt.Element, tt.Doc)
					case ti != nil && ti.XMLName != nil && ti.XMLName.Name != "" && ti.XMLName.Name != sn.Const:
						r.Bad(c, ec.call.Pos(), "%s forces <%s> but %s.XMLName expects <%s> on unmarshalling", name, sn.Const, c03TypeName(rt), ti.XMLName.Name)
					case len(badNested) > 0:
						r.Bad(c, ec.call.Pos(), "%s forces <%s> wherever the value is marshalled, but tag-decoded field(s) %s read it under another name", name, sn.Const, strings.Join(badNested, ", "))
					default:
						r.OK(c, ec.call.Pos(), "forces <%s> = documented element of %s; closed by %s.End(); no tag-marshalled struct holds a %s under another name (%d holder(s))", sn.Const, c03TypeName(rt), sn.Var.Name(), c03TypeName(rt), len(nested))
					}
				case "pass":
					c := "start@" + name
					if !closed {
						r.Bad(c, ec.call.Pos(), "the start token handed to %s is written but never closed by EncodeToken(%s.End())", name, sn.Var.Name())
					} else {
						r.OK(c, ec.call.Pos(), "writes the start element it was handed, unrenamed (the field marshaller supplies the tag the field is read back under), and closes it with %s.End()", sn.Var.Name())
					}
				case "param":
					c := "wrap@" + name
					if !closed {
						r.Bad(c, ec.call.Pos(), "wrapper start token <%s> is never closed by EncodeToken(%s.End())", sn.Param.Name(), c04VarName(sn.Var))
						continue
					}
					r.OK(c, ec.call.Pos(), "wrapper element named by parameter %s, closed by %s.End(); each call site is checked below", sn.Param.Name(), c04VarName(sn.Var))
					c04WrapperCallSites(r, em, sn.Param)
				default:
					r.Unknown("token@"+name+" "+src(r.P.Fset, arg), ec.call.Pos(), "cannot resolve the element name of start token `%s`: %s", src(r.P.Fset, arg), sn.Why)
				}
			}
		}
	}
}

func c04VarName(o types.Object) string {
	if o == nil {
		return "?"
	}
	return o.Name()
}

// c04WrapCall is one call of a wrapper helper: the constant block name and the field written under it.
type c04WrapCall struct {
	caller *FuncInfo
	call   *ast.CallExpr
	name   string
	nameOK bool
	field  ast.Expr // the struct-field argument (nil when none)
}

// c04WrapperCalls lists the calls of wrapper em (whose element name is parameter nameParam) in package osm.
func c04WrapperCalls(p *core.Program, em *c04Emitter, nameParam types.Object) []c04WrapCall {
	idx := c03ParamIndex(em.fi, nameParam)
	var out []c04WrapCall
	for _, caller := range allFuncs(c03OsmPkg(p)) {
		info := caller.Pkg.TypesInfo
		ast.Inspect(caller.Decl.Body, func(n ast.Node) bool {
			call, ok := n.(*ast.CallExpr)
			if !ok || callee(info, call) != em.fi.Obj || idx < 0 || idx >= len(call.Args) {
				return true
			}
			wc := c04WrapCall{caller: caller, call: call}
			wc.name, wc.nameOK = constString(info, call.Args[idx])
			for i, a := range call.Args {
				if i != idx && fieldOf(info, a) != nil {
					wc.field = a
				}
			}
			out = append(out, wc)
			return true
		})
	}
	return out
}

func c04WrapperCallSites(r *core.R, em *c04Emitter, nameParam types.Object) {
	calls := c04WrapperCalls(r.P, em, nameParam)
	if len(calls) == 0 {
		r.Unknown("block@"+em.fi.Name(), em.fi.Decl.Pos(), "wrapper %s has no caller in package osm", em.fi.Name())
	}
	for _, wc := range calls {
		info := wc.caller.Pkg.TypesInfo
		cname := strings.NewReplacer("(*", "", ")", "").Replace(wc.caller.Name())
		if wc.field == nil {
			r.Unknown("block@"+cname+" "+src(r.P.Fset, wc.call), wc.call.Pos(), "no struct field among the arguments of `%s`", src(r.P.Fset, wc.call))
			continue
		}
		c := "block@" + cname + " " + src(r.P.Fset, wc.field)
		if !wc.nameOK {
			r.Unknown(c, wc.call.Pos(), "block name is not a constant in `%s`", src(r.P.Fset, wc.call))
			continue
		}
		xf, owner := c04ReadBack(info, wc.field)
		switch {
		case xf == nil || xf.Kind != c03Elem:
			r.Bad(c, wc.call.Pos(), "`%s` writes a <%s> block from a field that has no xml element tag: nothing reads it back", src(r.P.Fset, wc.call), wc.name)
		case xf.Path() != wc.name:
			r.Bad(c, wc.call.Pos(), "`%s` writes %s.%s inside <%s> but the field is read back from <%s> (tag `%s`): the block is lost on unmarshalling", src(r.P.Fset, wc.call), c03Short(owner), xf.Var.Name(), wc.name, xf.Path(), c03TagOf(xf))
		default:
			r.OK(c, wc.call.Pos(), "block <%s> = tag of %s.%s", wc.name, c03Short(owner), xf.Var.Name())
		}
	}
}

// ---- X2 --------------------------------------------------------------------------------------

// c04AttrWrite is one `start.Attr = append(start.Attr, xml.Attr{Name: xml.Name{Local: C}, Value: V})`.
type c04AttrWrite struct {
	name    string
	value   ast.Expr
	stmt    *ast.AssignStmt
	guard   *ast.IfStmt // innermost enclosing if, nil when unconditional
	nameOK  bool
	toStart bool
}

func c04AttrWrites(r *core.R, fi *FuncInfo) []c04AttrWrite {
	info := fi.Pkg.TypesInfo
	par := parentsOf(r.P, fi)
	sig := fi.Obj.Type().(*types.Signature)
	var start types.Object
	if sig.Params().Len() == 2 {
		start = sig.Params().At(1)
	}
	var out []c04AttrWrite
	ast.Inspect(fi.Decl.Body, func(n ast.Node) bool {
		as, ok := n.(*ast.AssignStmt)
		if !ok || len(as.Lhs) != 1 || len(as.Rhs) != 1 {
			return true
		}
		call, ok := ast.Unparen(as.Rhs[0]).(*ast.CallExpr)
		if !ok || builtinName(info, call) != "append" || len(call.Args) < 2 {
			return true
		}
		if rootObj(info, as.Lhs[0]) != start || c03SelPath(as.Lhs[0]) != "Attr" {
			return true
		}
		for _, a := range call.Args[1:] {
			cl, ok := ast.Unparen(a).(*ast.CompositeLit)
			if !ok || namedPath(info.TypeOf(cl)) != "encoding/xml.Attr" {
				out = append(out, c04AttrWrite{stmt: as})
				continue
			}
			aw := c04AttrWrite{stmt: as, toStart: sameExpr(info, as.Lhs[0], call.Args[0])}
			for i, el := range cl.Elts {
				var key string
				val := el
				if kv, ok := el.(*ast.KeyValueExpr); ok {
					if k, _ := kv.Key.(*ast.Ident); k != nil {
						key = k.Name
					}
					val = kv.Value
				} else {
					key = []string{"Name", "Value"}[min(i, 1)]
				}
				switch key {
				case "Name":
					aw.name, aw.nameOK = c03NameLit(info, val)
				case "Value":
					aw.value = val
				}
			}
			if ifs, _ := enclosing(par, as, func(n ast.Node) bool { _, ok := n.(*ast.IfStmt); return ok }).(*ast.IfStmt); ifs != nil && ifs.Body.Pos() <= as.Pos() && as.End() <= ifs.Body.End() {
				aw.guard = ifs
			}
			out = append(out, aw)
		}
		return true
	})
	return out
}

// c04NonEmptyTest reports whether cond is a non-emptiness test of recv.F: F != "" / F != 0 / F != nil / len(F) > 0 / len(F) != 0.
func c04NonEmptyTest(info *types.Info, cond ast.Expr, recv types.Object, f *types.Var) bool {
	be, ok := ast.Unparen(cond).(*ast.BinaryExpr)
	if !ok {
		return false
	}
	isF := func(e ast.Expr) bool { return fieldOf(info, e) == f && rootObj(info, e) == recv }
	isZero := func(e ast.Expr) bool {
		if id, ok := ast.Unparen(e).(*ast.Ident); ok && id.Name == "nil" {
			return true
		}
		if v, ok := constString(info, e); ok {
			return v == ""
		}
		if v, ok := constInt(info, e); ok {
			return v == 0
		}
		return false
	}
	switch be.Op {
	case token.NEQ:
		if (isF(be.X) && isZero(be.Y)) || (isF(be.Y) && isZero(be.X)) {
			return true
		}
		if a := lenCallArg(info, be.X); a != nil && isF(a) && isZero(be.Y) {
			return true
		}
	case token.GTR:
		if a := lenCallArg(info, be.X); a != nil && isF(a) && isZero(be.Y) {
			return true
		}
	}
	return false
}

func c04X2(r *core.R) {
	c03Init(r)
	n := 0
	for _, em := range c04Emitters(r.P) {
		fi := em.fi
		if fi.Obj.Name() != "MarshalXML" {
			continue
		}
		info := fi.Pkg.TypesInfo
		recv := c03Receiver(fi)
		rt := c03Deref(recv.Type())
		ti := c03XMLTypeInfo(rt)
		if ti == nil {
			continue
		}
		tname := c03TypeName(rt)
		writes := c04AttrWrites(r, fi)
		used := map[int]bool{}
		for _, f := range ti.Fields {
			if f.Kind != c03Attr || len(f.Via) > 0 {
				continue
			}
			n++
			c := "attr@" + tname + "." + f.Var.Name()
			var hit *c04AttrWrite
			for i := range writes {
				if writes[i].nameOK && writes[i].name == f.Name {
					hit = &writes[i]
					used[i] = true
				}
			}
			if hit == nil {
				// a write from this field under another name?
				other := ""
				for i := range writes {
					if writes[i].value != nil && usesField(info, writes[i].value, f.Var) && !used[i] {
						other = writes[i].name
					}
				}
				if other != "" {
					r.Bad(c, fi.Decl.Pos(), "%s.%s is read from attribute %q (tag `%s`) but %s.MarshalXML writes it as attribute %q", tname, f.Var.Name(), f.Name, c03TagOf(f), tname, other)
				} else {
					r.Bad(c, fi.Decl.Pos(), "%s.%s is read from attribute %q (tag `%s`) but %s.MarshalXML never appends an attribute of that name to the start element: the value is lost on marshalling", tname, f.Var.Name(), f.Name, c03TagOf(f), tname)
				}
				continue
			}
			pos := hit.stmt.Pos()
			switch {
			case !hit.toStart:
				r.Unknown(c, pos, "`%s` is not of the form start.Attr = append(start.Attr, ...)", src(r.P.Fset, hit.stmt))
			case hit.value == nil || !usesField(info, hit.value, f.Var) || rootObj(info, c04FieldSel(info, hit.value, f.Var)) != recv:
				r.Bad(c, pos, "attribute %q is written from `%s`, not from %s.%s which is the field that reads it back", f.Name, src(r.P.Fset, hit.value), tname, f.Var.Name())
			default:
				guarded := hit.guard != nil && c04NonEmptyTest(info, hit.guard.Cond, recv, f.Var)
				switch {
				case hit.guard != nil && !guarded:
					r.Unknown(c, pos, "attribute %q is written under `if %s`, which is not a non-emptiness test of %s.%s", f.Name, src(r.P.Fset, hit.guard.Cond), tname, f.Var.Name())
				case f.OmitEmpty && !guarded:
					r.Bad(c, pos, "the tag of %s.%s says `%s` (omitempty) but MarshalXML writes %s=\"\" unconditionally: an empty value produces an attribute the tag contract (and every tag-driven writer of the same data) omits", tname, f.Var.Name(), c03TagOf(f), f.Name)
				case !f.OmitEmpty && guarded:
					r.Bad(c, pos, "the tag of %s.%s is `%s` (no omitempty) but MarshalXML drops the attribute when the field is empty: hand-written and tag-driven output disagree for the zero value", tname, f.Var.Name(), c03TagOf(f))
				default:
					g := "unconditionally (no omitempty)"
					if guarded {
						g = "under `if " + src(r.P.Fset, hit.guard.Cond) + "` (omitempty)"
					}
					r.OK(c, pos, "written as attribute %q from %s.%s %s", f.Name, tname, f.Var.Name(), g)
				}
			}
		}
		for i, w := range writes {
			if used[i] {
				continue
			}
			c := "attr@" + tname + " " + w.name
			if !w.nameOK {
				r.Unknown(c, w.stmt.Pos(), "`%s`: attribute appended with a non-constant name or not as an xml.Attr literal", src(r.P.Fset, w.stmt))
				continue
			}
			r.Bad(c, w.stmt.Pos(), "%s.MarshalXML writes attribute %q but no field of %s is tagged `%s,attr`: it cannot be read back", tname, w.name, tname, w.name)
		}
	}
	r.Stat("attr_tagged_fields_of_custom_marshallers", n)
}

// c04FieldSel returns the selector expression inside e that selects field f.
func c04FieldSel(info *types.Info, e ast.Expr, f *types.Var) ast.Expr {
	var res ast.Expr
	ast.Inspect(e, func(n ast.Node) bool {
		if sel, ok := n.(*ast.SelectorExpr); ok && res == nil {
			if s := info.Selections[sel]; s != nil && s.Obj() == f {
				res = sel
			}
		}
		return res == nil
	})
	if res == nil {
		return e
	}
	return res
}

// ---- X3 --------------------------------------------------------------------------------------

// c04CalleeOn returns the emitter method of package osm that fi calls with its encoder on an OSM-typed
// receiver expression satisfying pred.
func c04InnerCalls(p *core.Program, fi *FuncInfo) []struct {
	call *ast.CallExpr
	fn   *FuncInfo
	recv ast.Expr
} {
	info := fi.Pkg.TypesInfo
	enc := c03EncoderParam(fi)
	var out []struct {
		call *ast.CallExpr
		fn   *FuncInfo
		recv ast.Expr
	}
	ast.Inspect(fi.Decl.Body, func(n ast.Node) bool {
		call, ok := n.(*ast.CallExpr)
		if !ok {
			return true
		}
		fn := callee(info, call)
		if fn == nil || fn.Pkg() != fi.Obj.Pkg() || fn.Type().(*types.Signature).Recv() == nil {
			return true
		}
		passes := false
		for _, a := range call.Args {
			if objOf(info, a) == enc {
				passes = true
			}
		}
		sel, ok := ast.Unparen(call.Fun).(*ast.SelectorExpr)
		if !passes || !ok {
			return true
		}
		if ci := c03FuncInfoOf(p, fn); ci != nil {
			out = append(out, struct {
				call *ast.CallExpr
				fn   *FuncInfo
				recv ast.Expr
			}{call, ci, sel.X})
		}
		return true
	})
	return out
}

// c04EncodedFields returns the fields of the receiver that emitter fi encodes (Encode/EncodeElement).
func c04EncodedFields(fi *FuncInfo) map[*types.Var]token.Pos {
	info := fi.Pkg.TypesInfo
	out := map[*types.Var]token.Pos{}
	enc := c03EncoderParam(fi)
	if enc == nil {
		return out
	}
	recv := c03Receiver(fi)
	for _, ec := range c04EncCalls(&c04Emitter{fi: fi, enc: enc}) {
		if ec.method != "Encode" && ec.method != "EncodeElement" {
			continue
		}
		if f := fieldOf(info, ec.call.Args[0]); f != nil && rootObj(info, ec.call.Args[0]) == recv {
			out[f] = ec.call.Pos()
		}
	}
	return out
}

// c04Roles finds the full body emitter and the element emitter by role.
func c04Roles(r *core.R) (full, elems *FuncInfo, osmNT *types.Named) {
	pk := c03OsmPkg(r.P)
	osmNT, _ = structType(pk, "OSM")
	om := findFunc(pk, "OSM.MarshalXML")
	am := findFunc(pk, "Action.MarshalXML")
	if osmNT == nil || om == nil || am == nil {
		r.Anchor("osm.OSM, OSM.MarshalXML, Action.MarshalXML")
		return nil, nil, nil
	}
	for _, ic := range c04InnerCalls(r.P, om) {
		if objOf(pk.TypesInfo, ic.recv) == c03Receiver(om) {
			full = ic.fn
		}
	}
	actRecv := c03Receiver(am)
	for _, ic := range c04InnerCalls(r.P, am) {
		if f := fieldOf(pk.TypesInfo, ic.recv); f != nil && f.Embedded() && rootObj(pk.TypesInfo, ic.recv) == actRecv {
			elems = ic.fn
		}
	}
	if full == nil {
		r.Anchor("the *OSM method OSM.MarshalXML calls with its encoder (full body emitter)")
	}
	if elems == nil {
		r.Anchor("the *OSM method Action.MarshalXML calls on its embedded OSM (element emitter)")
	}
	return
}

func c04X3(r *core.R) {
	c03Init(r)
	full, elems, osmNT := c04Roles(r)
	if osmNT == nil {
		return
	}
	pk := c03OsmPkg(r.P)
	osmTI := c03XMLTypeInfo(osmNT)
	if full != nil {
		enc := c04EncodedFields(full)
		fname := strings.NewReplacer("(*", "", ")", "").Replace(full.Name())
		for _, f := range osmTI.Fields {
			if f.Kind != c03Elem {
				continue
			}
			c := "complete@" + fname + " OSM." + f.Var.Name()
			if pos, ok := enc[f.Var]; ok {
				r.OK(c, pos, "element field OSM.%s (<%s>) is encoded", f.Var.Name(), f.Name)
			} else {
				r.Bad(c, full.Decl.Pos(), "%s never encodes OSM.%s although the decoder reads <%s> into it: marshalling an OSM (document, osmChange block, diff old/new) drops every %s", fname, f.Var.Name(), f.Name, f.Name)
			}
		}
		// every OSM-valued block body is produced by the full emitter, between start and end token
		for _, em := range c04Emitters(r.P) {
			fi := em.fi
			if fi.Obj == full.Obj || (elems != nil && fi.Obj == elems.Obj) {
				continue
			}
			var starts []*ast.CallExpr
			for _, ec := range c04EncCalls(em) {
				if ec.method == "EncodeToken" && namedPath(fi.Pkg.TypesInfo.TypeOf(ec.call.Args[0])) == "encoding/xml.StartElement" {
					starts = append(starts, ec.call)
				}
			}
			if len(starts) != 1 {
				continue
			}
			// does the function own an OSM value to write? (receiver of type OSM, or an *OSM parameter)
			owns := c04OwnsOSM(fi, osmNT)
			if owns == nil {
				continue
			}
			nm := strings.NewReplacer("(*", "", ")", "").Replace(fi.Name())
			c := "body@" + nm
			okBody := false
			var other *FuncInfo
			for _, ic := range c04InnerCalls(r.P, fi) {
				if objOf(fi.Pkg.TypesInfo, ic.recv) != owns || ic.call.Pos() < starts[0].End() {
					continue
				}
				if ic.fn.Obj == full.Obj {
					okBody = true
				} else {
					other = ic.fn
				}
			}
			switch {
			case okBody:
				r.OK(c, starts[0].Pos(), "the body of the %s element is written by %s (all element fields of OSM) after the start token", src(r.P.Fset, starts[0].Args[0]), fname)
			case other != nil:
				r.Bad(c, starts[0].Pos(), "%s writes the OSM body through %s, which does not encode every element field of OSM (%s does): bounds/changesets/notes/users of the block are dropped", nm, other.Name(), fname)
			default:
				r.Bad(c, starts[0].Pos(), "%s writes start and end token but never the body of its OSM value (%s)", nm, fname)
			}
		}
	}
	if elems != nil {
		un := findFunc(pk, "(*Action).UnmarshalXML")
		actNT, _ := structType(pk, "Action")
		if un == nil || actNT == nil {
			r.Anchor("osm.(*Action).UnmarshalXML")
			return
		}
		read := c04ActionReads(r, un, actNT, osmNT)
		written := c04EncodedFields(elems)
		names := map[string]bool{}
		for f := range written {
			names[f.Name()] = true
		}
		for p := range read {
			if strings.HasPrefix(p, "OSM.") {
				names[strings.TrimPrefix(p, "OSM.")] = true
			}
		}
		ename := strings.NewReplacer("(*", "", ")", "").Replace(elems.Name())
		for _, n := range c03SortedKeys(names) {
			c := "kind OSM." + n + "@" + ename
			_, rd := read["OSM."+n]
			wr := false
			for f := range written {
				if f.Name() == n {
					wr = true
				}
			}
			switch {
			case rd && wr:
				r.OK(c, elems.Decl.Pos(), "written by %s for a create action and stored back by Action.UnmarshalXML case %q", ename, read["OSM."+n])
			case wr:
				r.Bad(c, elems.Decl.Pos(), "%s writes OSM.%s directly inside <action> but Action.UnmarshalXML has no case storing into it: the element is lost on unmarshalling", ename, n)
			default:
				r.Bad(c, elems.Decl.Pos(), "Action.UnmarshalXML case %q stores into OSM.%s but %s never writes it: a create action holding it marshals to an empty <action>", read["OSM."+n], n, ename)
			}
		}
	}
}

// c04OwnsOSM returns the receiver or parameter of fi whose type is (a pointer to) osm.OSM.
func c04OwnsOSM(fi *FuncInfo, osmNT *types.Named) types.Object {
	sig := fi.Obj.Type().(*types.Signature)
	if rv := sig.Recv(); rv != nil && types.Identical(c03Deref(rv.Type()), osmNT) {
		return rv
	}
	for i := 0; i < sig.Params().Len(); i++ {
		if types.Identical(c03Deref(sig.Params().At(i).Type()), osmNT) {
			return sig.Params().At(i)
		}
	}
	return nil
}

// c04ActionReads maps the Go path (below Action) each case of Action.UnmarshalXML stores into -> case label.
func c04ActionReads(r *core.R, un *FuncInfo, actNT, osmNT *types.Named) map[string]string {
	out := map[string]string{}
	info := un.Pkg.TypesInfo
	tl := c03FindTokenLoop(r, un)
	if tl == nil {
		return out
	}
	actTI, osmTI := c03XMLTypeInfo(actNT), c03XMLTypeInfo(osmNT)
	for _, sw := range c03StringSwitches(info, tl.For.Body) {
		if ok, _ := c03SwitchOnStartName(info, sw.Stmt.Tag, tl.StartVar); !ok {
			continue
		}
		for _, cs := range sw.Cases {
			dcs := c03DecodeCalls(info, cs.Clause)
			if len(dcs) != 1 {
				continue
			}
			if p, why := c03ActionCaseTarget(info, cs, dcs[0], c03Receiver(un), actTI, osmTI, osmNT); why == "" {
				out[p] = cs.Label
			} else if dcs[0].TObj == c03Receiver(un) {
				// record the raw field even when the tag disagrees, for the symmetry rule
				if f := fieldOf(info, dcs[0].Target); f != nil {
					out["!"+f.Name()] = cs.Label
				}
			}
		}
	}
	return out
}

// ---- X4 --------------------------------------------------------------------------------------

// c04AttrReads lists (attribute name -> receiver field) pairs read in an UnmarshalXML by the idiom
// for _, attr := range start.Attr { if attr.Name.Local == "c" { recv.F = ...attr.Value... } }.
func c04AttrReads(fi *FuncInfo) map[string]string {
	info := fi.Pkg.TypesInfo
	recv := c03Receiver(fi)
	out := map[string]string{}
	ast.Inspect(fi.Decl.Body, func(n ast.Node) bool {
		rs, ok := n.(*ast.RangeStmt)
		if !ok || rs.Value == nil || c03SelPath(rs.X) != "Attr" || namedPath(info.TypeOf(rs.Value)) != "encoding/xml.Attr" {
			return true
		}
		av := objOf(info, rs.Value)
		ast.Inspect(rs.Body, func(m ast.Node) bool {
			ifs, ok := m.(*ast.IfStmt)
			if !ok {
				return true
			}
			be, ok := ast.Unparen(ifs.Cond).(*ast.BinaryExpr)
			if !ok || be.Op != token.EQL {
				return true
			}
			x, y := be.X, be.Y
			if _, isConst := constString(info, x); isConst {
				x, y = y, x
			}
			v, isConst := constString(info, y)
			if !isConst || rootObj(info, x) != av || c03SelPath(x) != "Name.Local" {
				return true
			}
			for _, st := range ifs.Body.List {
				if as, ok := st.(*ast.AssignStmt); ok && len(as.Lhs) == 1 && len(as.Rhs) == 1 {
					if f := fieldOf(info, as.Lhs[0]); f != nil && rootObj(info, as.Lhs[0]) == recv && usesObj(info, as.Rhs[0], av) {
						out[v] = f.Name()
					}
				}
			}
			return true
		})
		return true
	})
	return out
}

func c04X4(r *core.R) {
	c03Init(r)
	pk := c03OsmPkg(r.P)
	info := pk.TypesInfo
	ma := findFunc(pk, "Action.MarshalXML")
	un := findFunc(pk, "(*Action).UnmarshalXML")
	actNT, _ := structType(pk, "Action")
	osmNT, _ := structType(pk, "OSM")
	if ma == nil || un == nil || actNT == nil || osmNT == nil {
		r.Anchor("osm.Action MarshalXML/UnmarshalXML")
		return
	}
	// attributes
	reads := c04AttrReads(un)
	writes := c04AttrWrites(r, ma)
	wmap := map[string]string{}
	for _, w := range writes {
		if !w.nameOK || w.value == nil {
			continue
		}
		ast.Inspect(w.value, func(n ast.Node) bool {
			if f := fieldOf(info, exprOf(n)); f != nil && rootObj(info, exprOf(n)) == c03Receiver(ma) {
				wmap[w.name] = f.Name()
			}
			return true
		})
	}
	names := map[string]bool{}
	for k := range reads {
		names[k] = true
	}
	for k := range wmap {
		names[k] = true
	}
	if len(names) == 0 {
		r.Bad("attr type@Action", ma.Decl.Pos(), "neither Action.MarshalXML nor Action.UnmarshalXML handles any attribute: the action type is lost")
	}
	for _, n := range c03SortedKeys(names) {
		c := "attr " + n + "@Action"
		switch {
		case wmap[n] == "":
			r.Bad(c, un.Decl.Pos(), "Action.UnmarshalXML reads attribute %q into Action.%s but Action.MarshalXML never writes it (it writes %v): after a round trip the field is empty", n, reads[n], c04Keys(wmap))
		case reads[n] == "":
			r.Bad(c, ma.Decl.Pos(), "Action.MarshalXML writes attribute %q from Action.%s but Action.UnmarshalXML never reads an attribute of that name (it reads %v): after a round trip Action.%s is empty", n, wmap[n], c04Keys(reads), wmap[n])
		case reads[n] != wmap[n]:
			r.Bad(c, ma.Decl.Pos(), "attribute %q is written from Action.%s but read into Action.%s", n, wmap[n], reads[n])
		default:
			r.OK(c, ma.Decl.Pos(), "written from and read into Action.%s", wmap[n])
		}
	}
	// blocks old/new: wrapper calls in MarshalXML vs cases in UnmarshalXML
	rd := c04ActionReads(r, un, actNT, osmNT)
	type blk struct {
		name, field string
		pos         token.Pos
	}
	var wr []blk
	for _, em := range c04Emitters(r.P) {
		for _, ec := range c04EncCalls(em) {
			if ec.method != "EncodeToken" {
				continue
			}
			if sn := c03ResolveStart(em.fi, ec.call.Args[0]); sn.Kind == "param" {
				for _, wc := range c04WrapperCalls(r.P, em, sn.Param) {
					if wc.caller.Obj == ma.Obj && wc.nameOK && wc.field != nil {
						if f := fieldOf(info, wc.field); f != nil {
							wr = append(wr, blk{wc.name, f.Name(), wc.call.Pos()})
						}
					}
				}
			}
		}
	}
	blocks := map[string]bool{}
	for _, b := range wr {
		blocks[b.name] = true
	}
	for p, l := range rd {
		if !strings.HasPrefix(p, "OSM.") {
			blocks[l] = true
		}
	}
	for _, n := range c03SortedKeys(blocks) {
		c := "block " + n + "@Action"
		var w *blk
		for i := range wr {
			if wr[i].name == n {
				w = &wr[i]
			}
		}
		rfield := ""
		for p, l := range rd {
			if l == n && !strings.HasPrefix(p, "OSM.") {
				rfield = strings.TrimPrefix(p, "!")
			}
		}
		switch {
		case w == nil:
			r.Bad(c, un.Decl.Pos(), "Action.UnmarshalXML reads <%s> into Action.%s but Action.MarshalXML never writes such a block", n, rfield)
		case rfield == "":
			r.Bad(c, w.pos, "Action.MarshalXML writes Action.%s as <%s> but Action.UnmarshalXML has no case %q storing into a field: the block is lost", w.field, n, n)
		case rfield != w.field:
			r.Bad(c, w.pos, "<%s> is written from Action.%s but Action.UnmarshalXML stores it into Action.%s: old and new data change places (or one is lost) over a round trip", n, w.field, rfield)
		default:
			r.OK(c, w.pos, "<%s> written from and read into Action.%s", n, w.field)
		}
	}
	// embedded element only when present
	_, elems, _ := c04Roles(r)
	if elems == nil {
		return
	}
	par := parentsOf(r.P, ma)
	found := false
	for _, ic := range c04InnerCalls(r.P, ma) {
		if ic.fn.Obj != elems.Obj {
			continue
		}
		found = true
		f := fieldOf(info, ic.recv)
		guarded := false
		for p := par[ast.Node(ic.call)]; p != nil; p = par[p] {
			if ifs, ok := p.(*ast.IfStmt); ok && ifs.Body.Pos() <= ic.call.Pos() && ic.call.End() <= ifs.Body.End() && f != nil && c04NonEmptyTest(info, ifs.Cond, c03Receiver(ma), f) {
				guarded = true
			}
		}
		calleeChecks := c04NilChecksReceiver(elems)
		switch {
		case guarded:
			r.OK("embedded@Action.MarshalXML", ic.call.Pos(), "`%s` runs only under a non-nil test of %s", src(r.P.Fset, ic.call), src(r.P.Fset, ic.recv))
		case calleeChecks:
			r.OK("embedded@Action.MarshalXML", ic.call.Pos(), "%s returns early on a nil receiver", elems.Name())
		default:
			r.Bad("embedded@Action.MarshalXML", ic.call.Pos(), "`%s` is called without a nil test of %s and %s dereferences its receiver: marshalling a modify/delete action (no directly embedded element) panics", src(r.P.Fset, ic.call), src(r.P.Fset, ic.recv), elems.Name())
		}
	}
	if !found {
		r.Bad("embedded@Action.MarshalXML", ma.Decl.Pos(), "Action.MarshalXML never writes the directly embedded element of a create action")
	}
}

func exprOf(n ast.Node) ast.Expr {
	e, _ := n.(ast.Expr)
	if e == nil {
		return &ast.BadExpr{}
	}
	return e
}

func c04Keys(m map[string]string) []string {
	var out []string
	for k := range m {
		out = append(out, k)
	}
	sort.Strings(out)
	return out
}

// c04NilChecksReceiver: the first statement of the method is `if recv == nil { return ... }`.
func c04NilChecksReceiver(fi *FuncInfo) bool {
	if len(fi.Decl.Body.List) == 0 {
		return false
	}
	ifs, ok := fi.Decl.Body.List[0].(*ast.IfStmt)
	if !ok {
		return false
	}
	be, ok := ast.Unparen(ifs.Cond).(*ast.BinaryExpr)
	if !ok || be.Op != token.EQL || objOf(fi.Pkg.TypesInfo, be.X) != c03Receiver(fi) {
		return false
	}
	if id, ok := ast.Unparen(be.Y).(*ast.Ident); !ok || id.Name != "nil" {
		return false
	}
	if len(ifs.Body.List) == 0 {
		return false
	}
	_, isRet := ifs.Body.List[len(ifs.Body.List)-1].(*ast.ReturnStmt)
	return isRet
}

// ---- X5 --------------------------------------------------------------------------------------

func c04X5(r *core.R) {
	c03Init(r)
	c03DateLayout(r, "layout@Date")
	pk := c03OsmPkg(r.P)
	info := pk.TypesInfo
	ma := findFunc(pk, "Date.MarshalXML")
	un := findFunc(pk, "(*Date).UnmarshalXML")
	if ma == nil || un == nil {
		r.Anchor("osm.Date MarshalXML/UnmarshalXML")
		return
	}
	c := "text@Date"
	enc := c03EncoderParam(ma)
	var wrote types.Type
	var wpos token.Pos
	nw := 0
	if enc != nil {
		for _, ec := range c04EncCalls(&c04Emitter{fi: ma, enc: enc}) {
			if ec.method == "EncodeElement" || ec.method == "Encode" {
				nw++
				wrote, wpos = info.TypeOf(ec.call.Args[0]), ec.call.Pos()
			}
		}
	}
	dcs := c03DecodeCalls(info, un.Decl.Body)
	switch {
	case nw != 1 || len(dcs) != 1 || dcs[0].TObj == nil:
		r.Unknown(c, ma.Decl.Pos(), "expected one EncodeElement in Date.MarshalXML and one DecodeElement in Date.UnmarshalXML, found %d and %d", nw, len(dcs))
	default:
		rt := c03Deref(dcs[0].TObj.Type())
		isStr := func(t types.Type) bool {
			b, ok := t.Underlying().(*types.Basic)
			return ok && b.Info()&types.IsString != 0
		}
		if isStr(wrote) && isStr(rt) {
			r.OK(c, wpos, "written as the character data of the handed element from a %s, decoded into a %s", c03Short(wrote), c03Short(rt))
		} else {
			r.Bad(c, wpos, "Date.MarshalXML encodes a %s but Date.UnmarshalXML decodes the element text into a %s and parses it with the layout: what is written is not the layout-formatted text that is read", c03Short(wrote), c03Short(rt))
		}
	}
}
