package rules

import (
	"fmt"
	"go/ast"
	"go/token"
	"go/types"
	"sort"
	"strings"

	"osmcheck/core"
)

// c10LayoutOrder decides, for the abstract ids of all kinds of one packed type, that unsigned=signed
// integer comparison of two ids is the lexicographic comparison of (kind lanes, ref, version).
func c10LayoutOrder(ids []c10Vec) (string, bool) {
	minKind, maxRef, minRef, maxVer := 64, -1, 64, -1
	for _, v := range ids {
		if v.hasTop() {
			return "an id has unknown lanes: " + v.String(), false
		}
		if v.L[63].K != c10Zero {
			return "bit 63 is not constant 0 in " + v.String() + ": ids can be negative", false
		}
		last := map[uint8]int{c10SrcRef: -1, c10SrcVer: -1}
		lastBit := map[uint8]int{c10SrcRef: -1, c10SrcVer: -1}
		for i := 0; i < 64; i++ {
			l := v.L[i]
			switch l.K {
			case c10One:
				if i < minKind {
					minKind = i
				}
			case c10Sym:
				if int(l.Bit) <= lastBit[l.Src] {
					return fmt.Sprintf("input bits of %s are not laid out in ascending significance at bit %d of %s", c10SrcName[l.Src], i, v), false
				}
				last[l.Src], lastBit[l.Src] = i, int(l.Bit)
				if l.Src == c10SrcRef {
					if i > maxRef {
						maxRef = i
					}
					if i < minRef {
						minRef = i
					}
				} else if i > maxVer {
					maxVer = i
				}
			}
		}
	}
	if maxRef >= minKind {
		return fmt.Sprintf("reference lanes reach bit %d, kind lanes start at bit %d: a large reference outranks the kind", maxRef, minKind), false
	}
	if maxVer >= minRef && maxRef >= 0 {
		return fmt.Sprintf("version lanes reach bit %d, reference lanes start at bit %d: a large version outranks the reference", maxVer, minRef), false
	}
	if maxVer >= minKind {
		return fmt.Sprintf("version lanes reach bit %d, kind lanes start at bit %d", maxVer, minKind), false
	}
	ver := "no version lanes"
	if maxVer >= 0 {
		ver = fmt.Sprintf("version lanes <= %d", maxVer)
	}
	return fmt.Sprintf("bit 63 = 0; kind lanes >= bit %d > reference lanes %d..%d > %s, each field in ascending bit significance", minKind, maxRef, minRef, ver), true
}

// canonical constructor of a kind for a packed type.
func (m *c10Model) canonical(packed string, k *c10Kind) *FuncInfo {
	if k.IDType == "" {
		if packed != "ObjectID" {
			return nil
		}
		return m.method(k.Struct, "ObjectID")
	}
	return m.method(k.IDType, packed)
}

func (m *c10Model) evalCanonical(packed string, k *c10Kind) (c10Val, string) {
	fi := m.canonical(packed, k)
	if fi == nil {
		return c10Val{}, "constructor of " + packed + " for kind " + k.Name + " not found"
	}
	args, _, err := m.versionArgs(fi)
	if err != "" {
		return c10Val{}, err
	}
	recvT := fi.Obj.Type().(*types.Signature).Recv().Type()
	recv := c10Val{K: c10VNil}
	if k.IDType != "" {
		recv = m.refInput(recvT)
	}
	return m.single(fi, recv, args)
}

func c10K4(r *core.R) {
	m := c10Load(r)
	if m == nil {
		return
	}
	// layout per packed type, from the evaluated constructors
	kindConst := map[string]uint64{}
	for _, packed := range []string{"ObjectID", "ElementID", "FeatureID"} {
		c := "layout@" + packed
		var ids []c10Vec
		bad := ""
		for _, k := range m.kindsOf(packed) {
			v, why := m.evalCanonical(packed, k)
			if why != "" || v.K != c10VInt {
				bad = "constructor for kind " + k.Name + " could not be evaluated: " + why
				break
			}
			ids = append(ids, v.V)
			if u, ok := v.V.constPart(); ok && packed == "FeatureID" {
				kindConst[k.Name] = u
			}
		}
		if bad != "" {
			r.Unknown(c, m.packed[packed].Obj().Pos(), "%s", bad)
			continue
		}
		if why, ok := c10LayoutOrder(ids); ok {
			r.OK(c, m.packed[packed].Obj().Pos(), "%d kinds: %s; hence a < b as integers iff (kind, ref, version) of a precedes that of b", len(ids), why)
		} else {
			r.Bad(c, m.packed[packed].Obj().Pos(), "integer order of %s values is not (kind, ref, version) order: %s", packed, why)
		}
	}
	n, w, rl := kindConst["node"], kindConst["way"], kindConst["relation"]
	if len(kindConst) == 3 && n < w && w < rl {
		r.OK("kind-order", token.NoPos, "kind bits written by NodeID.FeatureID %#x < WayID.FeatureID %#x < RelationID.FeatureID %#x: nodes sort before ways before relations", n, w, rl)
	} else {
		r.Bad("kind-order", token.NoPos, "kind bits written by the node/way/relation constructors (%#x, %#x, %#x) are not ascending: sorted ids are not ordered node < way < relation", n, w, rl)
	}
	m.checkComparators()
	m.checkSorted()
	r.Stat("inlined_calls", m.ev.Inlined)
}

// quietProducerOK runs the K2 check of one id method without emitting obligations.
func (m *c10Model) quietProducerOK(fi *FuncInfo) (bool, string) {
	scratch := &core.R{P: m.r.P, PropID: m.r.PropID, RuleID: m.r.RuleID, Tier: m.r.Tier}
	m2 := *m
	m2.r = scratch
	sig := fi.Obj.Type().(*types.Signature)
	p := c10Producer{fi: fi, recv: m.localName(sig.Recv().Type()), result: m.localName(sig.Results().At(0).Type())}
	ok := m2.checkProducer(p)
	for _, o := range scratch.Obls {
		if o.Status != core.Discharged {
			return false, o.Detail
		}
	}
	return ok, ""
}

func c10RecvAndParams(info *types.Info, fd *ast.FuncDecl) (recv types.Object, params []types.Object) {
	if fd.Recv != nil && len(fd.Recv.List) == 1 && len(fd.Recv.List[0].Names) == 1 {
		recv = info.Defs[fd.Recv.List[0].Names[0]]
	}
	for _, f := range fd.Type.Params.List {
		for _, nm := range f.Names {
			params = append(params, info.Defs[nm])
		}
	}
	return
}

// c10SortSite is the sort call an exported Sort method reaches (directly or through unexported helpers).
type c10SortSite struct {
	call    *ast.CallExpr
	in      *FuncInfo
	adapter types.Type   // sort.Sort / sort.Stable: the sort.Interface implementation
	less    *ast.FuncLit // sort.Slice / sort.SliceStable with a literal
	lessFn  *FuncInfo    // ... with a named function
	slice   types.Object // the variable the literal indexes (sort.Slice)
}

// sortMethods are the exported parameterless methods on a slice of packed ids, or of an interface offering
// a packed-id accessor, that reach a call of package sort: the "provided sorts" of the property.
func (m *c10Model) sortMethods() map[*FuncInfo]*c10SortSite {
	out := map[*FuncInfo]*c10SortSite{}
	for _, fi := range m.funcs {
		sig := fi.Obj.Type().(*types.Signature)
		if sig.Recv() == nil || !fi.Obj.Exported() || sig.Params().Len() != 0 || sig.Results().Len() != 0 {
			continue
		}
		sl, ok := sig.Recv().Type().Underlying().(*types.Slice)
		if !ok || !m.idElem(sl.Elem()) {
			continue
		}
		var site *c10SortSite
		inspectDeep(m.pk, fi, 3, func(ds deepSite, n ast.Node) bool {
			call, ok := n.(*ast.CallExpr)
			if !ok || site != nil {
				return true
			}
			fn := callee(m.info, call)
			switch {
			case (isPkgFunc(fn, "sort", "Sort") || isPkgFunc(fn, "sort", "Stable")) && len(call.Args) == 1:
				// the sort.Interface value may be a parameter of an extracted helper: follow it to the caller
				arg := call.Args[0]
				cur := ds.fi
				for k := len(ds.stack) - 1; k >= 0; k-- {
					if _, isIface := m.info.TypeOf(arg).Underlying().(*types.Interface); !isIface {
						break
					}
					o := objOf(m.info, arg)
					if o == nil {
						break
					}
					a := argForParam(m.info, cur, ds.stack[k], o)
					if a == nil {
						break
					}
					arg = a
					if k > 0 {
						if f := callee(m.info, ds.stack[k-1]); f != nil {
							cur = m.funcInfoOf(f)
						}
					} else {
						cur = fi
					}
					if cur == nil {
						break
					}
				}
				site = &c10SortSite{call: call, in: ds.fi, adapter: m.info.TypeOf(arg)}
			case (isPkgFunc(fn, "sort", "Slice") || isPkgFunc(fn, "sort", "SliceStable")) && len(call.Args) == 2:
				site = &c10SortSite{call: call, in: ds.fi}
				x := ast.Unparen(call.Args[0])
				if conv, isCall := x.(*ast.CallExpr); isCall && len(conv.Args) == 1 {
					if tv, ok := m.info.Types[conv.Fun]; ok && tv.IsType() {
						x = ast.Unparen(conv.Args[0])
					}
				}
				site.slice = objOf(m.info, x)
				switch l := ast.Unparen(call.Args[1]).(type) {
				case *ast.FuncLit:
					site.less = l
				case *ast.Ident:
					if f, ok := m.info.Uses[l].(*types.Func); ok {
						site.lessFn = m.funcInfoOf(f)
					} else if v, ok := m.info.Uses[l].(*types.Var); ok {
						// a local holding the less literal: `less := func(i, j int) bool {...}` (single definition)
						defs := 0
						ast.Inspect(ds.fi.Decl.Body, func(nd ast.Node) bool {
							as, ok := nd.(*ast.AssignStmt)
							if !ok || len(as.Lhs) != len(as.Rhs) {
								return true
							}
							for i, lh := range as.Lhs {
								if id, ok := lh.(*ast.Ident); ok && (m.info.Defs[id] == types.Object(v) || m.info.Uses[id] == types.Object(v)) {
									defs++
									site.less, _ = ast.Unparen(as.Rhs[i]).(*ast.FuncLit)
								}
							}
							return true
						})
						if defs != 1 {
							site.less = nil
						}
					}
				}
			}
			return true
		})
		if site != nil {
			out[fi] = site
		}
	}
	return out
}

// idElem: a packed id, or an interface with a parameterless method returning a packed id.
func (m *c10Model) idElem(t types.Type) bool {
	if m.isPacked(t) {
		return true
	}
	if _, ok := t.Underlying().(*types.Interface); !ok {
		return false
	}
	ms := types.NewMethodSet(t)
	for i := 0; i < ms.Len(); i++ {
		if f, ok := ms.At(i).Obj().(*types.Func); ok {
			sg := f.Type().(*types.Signature)
			if sg.Params().Len() == 0 && sg.Results().Len() == 1 && m.isPacked(sg.Results().At(0).Type()) {
				return true
			}
		}
	}
	return false
}

// abstractElems builds n abstract elements of a sorted list: opaque sort keys named e0, e1, ...
func (m *c10Model) abstractElems(elemT types.Type, n int) []c10Val {
	var out []c10Val
	for i := 0; i < n; i++ {
		v := m.ev.unknownOf(elemT, "abstract list element")
		v.Tag = fmt.Sprintf("e%d|", i)
		out = append(out, v)
	}
	return out
}

// checkComparators: every provided sort orders by strict ascending integer comparison of the packed ids.
// The less function is *evaluated* for two abstract elements under each of the three possible orders of
// their keys (and both argument orders), so its surface form does not matter.
func (m *c10Model) checkComparators() {
	r := m.r
	for _, n := range []string{"Elements.Sort", "ElementIDs.Sort", "FeatureIDs.Sort"} {
		if findFunc(m.pk, n) == nil {
			r.Anchor(n)
		}
	}
	sorts := m.sortMethods()
	var fis []*FuncInfo
	for fi := range sorts {
		fis = append(fis, fi)
	}
	sort.Slice(fis, func(i, j int) bool { return fis[i].Name() < fis[j].Name() })
	iw, is, _ := m.ev.intType(types.Typ[types.Int])
	idx := func(i int) c10Val { return c10IntVal(c10ConstVec(uint64(i), iw, is)) }
	for _, fi := range fis {
		site := sorts[fi]
		c := "comparator@" + fi.Name()
		elemT := fi.Obj.Type().(*types.Signature).Recv().Type().Underlying().(*types.Slice).Elem()
		r.OK("sort@"+fi.Name(), site.call.Pos(), "%s sorts with `%s`, i.e. ascending by the less function checked below", fi.Name(), c10Src(r, site.call))

		// the less / swap / len functions
		var lessRun func(elems []c10Val, i, j int) []c10Outcome
		var swapFi, lenFi *FuncInfo
		lessPos := site.call.Pos()
		switch {
		case site.adapter != nil:
			find := func(name string) *FuncInfo {
				obj, _, _ := types.LookupFieldOrMethod(site.adapter, true, m.pk.Types, name)
				f, _ := obj.(*types.Func)
				if f == nil {
					return nil
				}
				return m.funcInfoOf(f)
			}
			lf := find("Less")
			swapFi, lenFi = find("Swap"), find("Len")
			if lf == nil || swapFi == nil || lenFi == nil {
				r.Unknown(c+" less", site.call.Pos(), "the sort.Interface methods of %s have no body in the package", site.adapter)
				continue
			}
			lessPos = lf.Decl.Pos()
			lessRun = func(elems []c10Val, i, j int) []c10Outcome {
				return m.ev.call(lf.Decl, ptrVal(c10SliceVal(elems)), []c10Val{idx(i), idx(j)}, 1)
			}
		case site.less != nil && site.slice != nil:
			lessPos = site.less.Pos()
			lessRun = func(elems []c10Val, i, j int) []c10Outcome {
				return m.ev.callBody(site.less.Type, site.less.Body, c10Env{site.slice: c10SliceVal(elems)}, []c10Val{idx(i), idx(j)}, 1)
			}
		default:
			r.Unknown(c+" less", site.call.Pos(), "the less function of `%s` is neither a sort.Interface of the package nor a function literal over the sorted variable", c10Src(r, site.call))
			continue
		}
		m.checkLess(c, lessPos, elemT, lessRun)
		if site.adapter == nil {
			r.OKTrivial(c+" swap", site.call.Pos(), "sort.Slice exchanges the elements itself")
			r.OKTrivial(c+" len", site.call.Pos(), "sort.Slice takes the length of the slice itself")
			continue
		}
		// Swap(0,1) on [e0,e1,e2] must give [e1,e0,e2]
		{
			elems := m.abstractElems(elemT, 3)
			outs := m.ev.call(swapFi.Decl, ptrVal(c10SliceVal(elems)), []c10Val{idx(0), idx(1)}, 1)
			rv, _ := c10RecvAndParams(m.info, swapFi.Decl)
			ok, why := false, ""
			switch {
			case len(outs) != 1 || outs[0].Unsupported != "":
				why = "Swap is outside the interpreted statement forms"
				if len(outs) > 0 {
					why += ": " + outs[0].Unsupported
				}
			case outs[0].Panic:
				why = "Swap panics: " + outs[0].PanicWhy
			default:
				fin := outs[0].Final[rv]
				ok = fin.K == c10VSlice && len(fin.Args) == 3 && fin.Args[0].Tag == elems[1].Tag && fin.Args[1].Tag == elems[0].Tag && fin.Args[2].Tag == elems[2].Tag
			}
			switch {
			case ok:
				r.OK(c+" swap", swapFi.Decl.Pos(), "%s(0,1) turns [e0 e1 e2] into [e1 e0 e2]", swapFi.Name())
			case why != "":
				r.Unknown(c+" swap", swapFi.Decl.Pos(), "%s", why)
			default:
				r.Bad(c+" swap", swapFi.Decl.Pos(), "%s does not exchange elements i and j: sorting loses or duplicates ids", swapFi.Name())
			}
		}
		{
			ok := true
			why := ""
			for _, n := range []int{0, 2, 3} {
				got, w := c10Single(m.ev.call(lenFi.Decl, ptrVal(c10SliceVal(m.abstractElems(elemT, n))), nil, 1), lenFi.Name())
				if w != "" {
					why = w
					break
				}
				if x, isC := got.V.signedConst(); got.K != c10VInt || !isC || x != int64(n) {
					ok = false
				}
			}
			switch {
			case why != "":
				r.Unknown(c+" len", lenFi.Decl.Pos(), "%s", why)
			case ok:
				r.OK(c+" len", lenFi.Decl.Pos(), "%s returns the number of elements (evaluated for 0, 2, 3)", lenFi.Name())
			default:
				r.Bad(c+" len", lenFi.Decl.Pos(), "%s does not return the number of elements: part of the ids is never sorted", lenFi.Name())
			}
		}
	}
	r.Stat("id_sorts", len(fis))
}

// checkLess evaluates less(i,j) for abstract elements under every order of their keys.
func (m *c10Model) checkLess(c string, pos token.Pos, elemT types.Type, run func(elems []c10Val, i, j int) []c10Outcome) {
	r := m.r
	c += " less"
	elems := m.abstractElems(elemT, 2)
	m.ev.resetScenario()
	defer m.ev.resetScenario()
	keys := map[string]bool{}
	// table[rel+1][order]: rel = order of key(e0) vs key(e1); order 0 = less(0,1), 1 = less(1,0)
	var table [3][2]int
	for rel := -1; rel <= 1; rel++ {
		for ord := 0; ord < 2; ord++ {
			rr := rel
			m.ev.rel = func(a, b string) int {
				if a == "e0" && b == "e1" {
					return rr
				}
				if a == "e1" && b == "e0" {
					return -rr
				}
				return 2
			}
			outs := run(elems, ord, 1-ord)
			for k := range m.ev.keysUsed {
				keys[k] = true
			}
			got, why := c10Single(outs, "the less function")
			if why == "" && (got.K != c10VBool || got.Tri == -1) {
				why = "the result is not decided by the order of the two keys"
				if len(keys) > 1 {
					var ks []string
					for k := range keys {
						if k == "" {
							k = "the element itself"
						}
						ks = append(ks, k)
					}
					sort.Strings(ks)
					r.Bad(c, pos, "the less function compares different keys of the two elements (%s): the order is not the integer order of one packed id", strings.Join(ks, " vs "))
					return
				}
			}
			if why != "" {
				r.Unknown(c, pos, "less(%d,%d) with key(e0) %s key(e1): %s (accepted: any function whose result only depends on comparing the same packed-id key of both elements)", ord, 1-ord, map[int]string{-1: "<", 0: "==", 1: ">"}[rel], why)
				return
			}
			table[rel+1][ord] = got.Tri
		}
	}
	// required: less(0,1) true iff key0<key1; less(1,0) true iff key0>key1
	want := [3][2]int{{1, 0}, {0, 0}, {0, 1}}
	if table != want {
		switch {
		case table[1][0] == 1 || table[1][1] == 1:
			r.Bad(c, pos, "less is true for two elements with equal ids: it is not strict, which sort.Sort does not allow, and equal ids are not treated as equal")
		case table == [3][2]int{{0, 1}, {0, 0}, {1, 0}}:
			r.Bad(c, pos, "less orders descending: the Sort methods must order by type (node, way, relation), then id, then version ascending")
		default:
			r.Bad(c, pos, "less is not `key(i) < key(j)` (truth table over key order <,==,> and both argument orders: %v, required %v)", table, want)
		}
		return
	}
	var key string
	for k := range keys {
		key = k
	}
	if len(keys) != 1 {
		r.Unknown(c, pos, "less does not compare exactly one key of the elements (%d keys seen)", len(keys))
		return
	}
	if key == "" {
		if !m.isPacked(elemT) {
			r.Unknown(c, pos, "less compares the elements of type %s directly, not packed ids", elemT)
			return
		}
		r.OK(c, pos, "evaluated for key(e0) <, ==, > key(e1) and both argument orders: less(i,j) is exactly `id[i] < id[j]` on the %s values themselves", m.localName(elemT))
		return
	}
	// through an accessor: it must be the finest key the element offers, and every implementation a K2 constructor
	var fa *types.Func
	ms := types.NewMethodSet(elemT)
	for i := 0; i < ms.Len(); i++ {
		if f, ok := ms.At(i).Obj().(*types.Func); ok && f.FullName() == key {
			fa = f
		}
	}
	if fa == nil {
		r.Unknown(c, pos, "the compared key %s is not a method of %s", key, elemT)
		return
	}
	keyT := m.localName(fa.Type().(*types.Signature).Results().At(0).Type())
	if !m.isPacked(fa.Type().(*types.Signature).Results().At(0).Type()) {
		r.Unknown(c, pos, "less compares %s() values of type %s, not packed ids", fa.Name(), fa.Type().(*types.Signature).Results().At(0).Type())
		return
	}
	if keyT != "ElementID" {
		for i := 0; i < ms.Len(); i++ {
			if f, ok := ms.At(i).Obj().(*types.Func); ok {
				if rs := f.Type().(*types.Signature).Results(); rs.Len() == 1 && m.localName(rs.At(0).Type()) == "ElementID" && f.Type().(*types.Signature).Params().Len() == 0 {
					r.Bad(c, pos, "less orders %s values by %s(), a %s, which lacks the version; elements must be ordered by type, id and then version (%s())", elemT, fa.Name(), keyT, f.Name())
					return
				}
			}
		}
	}
	r.OK(c, pos, "evaluated for key(e0) <, ==, > key(e1) and both argument orders: less(i,j) is exactly `%s()[i] < %s()[j]`, strict ascending integer comparison of the %s of both elements", fa.Name(), fa.Name(), keyT)
	iface, _ := elemT.Underlying().(*types.Interface)
	base := strings.TrimSuffix(c, " less")
	if iface == nil {
		ok, why := m.quietProducerOK(m.funcInfoOf(fa))
		r.Check(ok, base+" key "+funcName(fa), pos, "the key accessor is a K2-verified constructor", "the key accessor does not produce the K2 id: "+why)
		return
	}
	seen := map[*types.Func]bool{}
	scope := m.pk.Types.Scope()
	names := scope.Names()
	sort.Strings(names)
	for _, nm := range names {
		tn, ok := scope.Lookup(nm).(*types.TypeName)
		if !ok || tn.IsAlias() {
			continue
		}
		if _, isIface := tn.Type().Underlying().(*types.Interface); isIface {
			continue
		}
		for _, t := range []types.Type{tn.Type(), types.NewPointer(tn.Type())} {
			if !types.Implements(t, iface) {
				continue
			}
			obj, _, _ := types.LookupFieldOrMethod(t, true, m.pk.Types, fa.Name())
			f, _ := obj.(*types.Func)
			if f == nil || seen[f] {
				continue
			}
			seen[f] = true
			impl := m.funcInfoOf(f)
			cc := base + " key " + funcName(f)
			if impl == nil {
				r.Unknown(cc, pos, "implementation of %s for %s has no body in the package", fa.Name(), t)
				continue
			}
			ok, why := m.quietProducerOK(impl)
			if ok {
				r.OK(cc, impl.Decl.Pos(), "%s implements the compared key and yields the K2 id kindMask | ref<<16 | ver of its fields", impl.Name())
			} else {
				r.Bad(cc, impl.Decl.Pos(), "%s is the key %s sorts by but does not yield the K2 id: %s", impl.Name(), strings.TrimPrefix(base, "comparator@"), why)
			}
		}
	}
	if len(seen) == 0 {
		r.Unknown(base+" key", pos, "no implementation of %s found in the package", elemT)
	}
}

func (m *c10Model) funcInfoOf(fn *types.Func) *FuncInfo {
	for _, fi := range m.funcs {
		if fi.Obj == fn {
			return fi
		}
	}
	return nil
}
