package rules

import (
	"fmt"
	"go/ast"
	"go/token"
	"go/types"
	"sort"
	"strings"

	"osmcheck/core"
)

// c10LayoutOrder decides, for the abstract ids of all kinds of one packed type, that unsigned=signed
// integer comparison of two ids is the lexicographic comparison of (kind lanes, ref, version).
func c10LayoutOrder(ids []c10Vec) (string, bool) {
	minKind, maxRef, minRef, maxVer := 64, -1, 64, -1
	for _, v := range ids {
		if v.hasTop() {
			return "an id has unknown lanes: " + v.String(), false
		}
		if v.L[63].K != c10Zero {
			return "bit 63 is not constant 0 in " + v.String() + ": ids can be negative", false
		}
		last := map[uint8]int{c10SrcRef: -1, c10SrcVer: -1}
		lastBit := map[uint8]int{c10SrcRef: -1, c10SrcVer: -1}
		for i := 0; i < 64; i++ {
			l := v.L[i]
			switch l.K {
			case c10One:
				if i < minKind {
					minKind = i
				}
			case c10Sym:
				if int(l.Bit) <= lastBit[l.Src] {
					return fmt.Sprintf("input bits of %s are not laid out in ascending significance at bit %d of %s", c10SrcName[l.Src], i, v), false
				}
				last[l.Src], lastBit[l.Src] = i, int(l.Bit)
				if l.Src == c10SrcRef {
					if i > maxRef {
						maxRef = i
					}
					if i < minRef {
						minRef = i
					}
				} else if i > maxVer {
					maxVer = i
				}
			}
		}
	}
	if maxRef >= minKind {
		return fmt.Sprintf("reference lanes reach bit %d, kind lanes start at bit %d: a large reference outranks the kind", maxRef, minKind), false
	}
	if maxVer >= minRef && maxRef >= 0 {
		return fmt.Sprintf("version lanes reach bit %d, reference lanes start at bit %d: a large version outranks the reference", maxVer, minRef), false
	}
	if maxVer >= minKind {
		return fmt.Sprintf("version lanes reach bit %d, kind lanes start at bit %d", maxVer, minKind), false
	}
	ver := "no version lanes"
	if maxVer >= 0 {
		ver = fmt.Sprintf("version lanes <= %d", maxVer)
	}
	return fmt.Sprintf("bit 63 = 0; kind lanes >= bit %d > reference lanes %d..%d > %s, each field in ascending bit significance", minKind, maxRef, minRef, ver), true
}

// canonical constructor of a kind for a packed type.
func (m *c10Model) canonical(packed string, k *c10Kind) *FuncInfo {
	if k.IDType == "" {
		if packed != "ObjectID" {
			return nil
		}
		return m.method(k.Struct, "ObjectID")
	}
	return m.method(k.IDType, packed)
}

func (m *c10Model) evalCanonical(packed string, k *c10Kind) (c10Val, string) {
	fi := m.canonical(packed, k)
	if fi == nil {
		return c10Val{}, "constructor of " + packed + " for kind " + k.Name + " not found"
	}
	args, _, err := m.versionArgs(fi)
	if err != "" {
		return c10Val{}, err
	}
	recvT := fi.Obj.Type().(*types.Signature).Recv().Type()
	recv := c10Val{K: c10VNil}
	if k.IDType != "" {
		recv = m.refInput(recvT)
	}
	return m.single(fi, recv, args)
}

func c10K4(r *core.R) {
	m := c10Load(r)
	if m == nil {
		return
	}
	// layout per packed type, from the evaluated constructors
	kindConst := map[string]uint64{}
	for _, packed := range []string{"ObjectID", "ElementID", "FeatureID"} {
		c := "layout@" + packed
		var ids []c10Vec
		bad := ""
		for _, k := range m.kindsOf(packed) {
			v, why := m.evalCanonical(packed, k)
			if why != "" || v.K != c10VInt {
				bad = "constructor for kind " + k.Name + " could not be evaluated: " + why
				break
			}
			ids = append(ids, v.V)
			if u, ok := v.V.constPart(); ok && packed == "FeatureID" {
				kindConst[k.Name] = u
			}
		}
		if bad != "" {
			r.Unknown(c, m.packed[packed].Obj().Pos(), "%s", bad)
			continue
		}
		if why, ok := c10LayoutOrder(ids); ok {
			r.OK(c, m.packed[packed].Obj().Pos(), "%d kinds: %s; hence a < b as integers iff (kind, ref, version) of a precedes that of b", len(ids), why)
		} else {
			r.Bad(c, m.packed[packed].Obj().Pos(), "integer order of %s values is not (kind, ref, version) order: %s", packed, why)
		}
	}
	n, w, rl := kindConst["node"], kindConst["way"], kindConst["relation"]
	if len(kindConst) == 3 && n < w && w < rl {
		r.OK("kind-order", token.NoPos, "kind bits written by NodeID.FeatureID %#x < WayID.FeatureID %#x < RelationID.FeatureID %#x: nodes sort before ways before relations", n, w, rl)
	} else {
		r.Bad("kind-order", token.NoPos, "kind bits written by the node/way/relation constructors (%#x, %#x, %#x) are not ascending: sorted ids are not ordered node < way < relation", n, w, rl)
	}
	m.checkComparators()
	r.Stat("inlined_calls", m.ev.Inlined)
}

// quietProducerOK runs the K2 check of one id method without emitting obligations.
func (m *c10Model) quietProducerOK(fi *FuncInfo) (bool, string) {
	scratch := &core.R{P: m.r.P, PropID: m.r.PropID, RuleID: m.r.RuleID, Tier: m.r.Tier}
	m2 := *m
	m2.r = scratch
	sig := fi.Obj.Type().(*types.Signature)
	p := c10Producer{fi: fi, recv: m.localName(sig.Recv().Type()), result: m.localName(sig.Results().At(0).Type())}
	ok := m2.checkProducer(p)
	for _, o := range scratch.Obls {
		if o.Status != core.Discharged {
			return false, o.Detail
		}
	}
	return ok, ""
}

// idSide recognises recv[x] or recv[x].M() and returns which parameter indexes it and the accessor.
func (m *c10Model) idSide(e ast.Expr, recv, pi, pj types.Object) (side string, acc *types.Func, ok bool) {
	e = ast.Unparen(e)
	if call, isCall := e.(*ast.CallExpr); isCall {
		sel, isSel := ast.Unparen(call.Fun).(*ast.SelectorExpr)
		if !isSel || len(call.Args) != 0 {
			return "", nil, false
		}
		acc = callee(m.info, call)
		if acc == nil {
			return "", nil, false
		}
		e = ast.Unparen(sel.X)
	}
	ix, isIdx := e.(*ast.IndexExpr)
	if !isIdx || objOf(m.info, ix.X) != recv {
		return "", nil, false
	}
	switch objOf(m.info, ix.Index) {
	case pi:
		return "i", acc, true
	case pj:
		return "j", acc, true
	}
	return "", nil, false
}

func c10RecvAndParams(info *types.Info, fd *ast.FuncDecl) (recv types.Object, params []types.Object) {
	if fd.Recv != nil && len(fd.Recv.List) == 1 && len(fd.Recv.List[0].Names) == 1 {
		recv = info.Defs[fd.Recv.List[0].Names[0]]
	}
	for _, f := range fd.Type.Params.List {
		for _, nm := range f.Names {
			params = append(params, info.Defs[nm])
		}
	}
	return
}

// checkComparators: every Less method comparing packed ids is `a[i] < a[j]` (or through the same id accessor).
func (m *c10Model) checkComparators() {
	r := m.r
	found := 0
	for _, fi := range m.funcs {
		sig := fi.Obj.Type().(*types.Signature)
		if fi.Obj.Name() != "Less" || sig.Recv() == nil || sig.Params().Len() != 2 {
			continue
		}
		comparesIDs := false
		ast.Inspect(fi.Decl.Body, func(n ast.Node) bool {
			if be, ok := n.(*ast.BinaryExpr); ok {
				switch be.Op {
				case token.LSS, token.GTR, token.LEQ, token.GEQ, token.EQL, token.NEQ:
					if m.isPacked(m.info.TypeOf(be.X)) || m.isPacked(m.info.TypeOf(be.Y)) {
						comparesIDs = true
					}
				}
			}
			return true
		})
		if !comparesIDs {
			continue
		}
		found++
		adapter := m.localName(sig.Recv().Type())
		c := "comparator@" + adapter
		recv, params := c10RecvAndParams(m.info, fi.Decl)
		m.checkLess(fi, c+".Less", recv, params)
		// Swap / Len
		if sw := m.method(adapter, "Swap"); sw == nil {
			r.Anchor(adapter + ".Swap")
		} else {
			rv, ps := c10RecvAndParams(m.info, sw.Decl)
			ok := false
			if len(sw.Decl.Body.List) == 1 && len(ps) == 2 {
				if as, isAs := sw.Decl.Body.List[0].(*ast.AssignStmt); isAs && as.Tok == token.ASSIGN && len(as.Lhs) == 2 && len(as.Rhs) == 2 {
					s := func(e ast.Expr) string { sd, acc, ok := m.idSide(e, rv, ps[0], ps[1]); _ = ok; _ = acc; return sd }
					l0, l1, r0, r1 := s(as.Lhs[0]), s(as.Lhs[1]), s(as.Rhs[0]), s(as.Rhs[1])
					ok = l0 != "" && l1 != "" && l0 != l1 && r0 == l1 && r1 == l0
				}
			}
			r.Check(ok, c+".Swap", sw.Decl.Pos(), "exchanges elements i and j", "Swap does not exchange elements i and j: sorting loses or duplicates ids")
		}
		if ln := m.method(adapter, "Len"); ln == nil {
			r.Anchor(adapter + ".Len")
		} else {
			rv, _ := c10RecvAndParams(m.info, ln.Decl)
			ok := false
			if len(ln.Decl.Body.List) == 1 {
				if ret, isRet := ln.Decl.Body.List[0].(*ast.ReturnStmt); isRet && len(ret.Results) == 1 {
					if call, isCall := ast.Unparen(ret.Results[0]).(*ast.CallExpr); isCall && builtinName(m.info, call) == "len" && len(call.Args) == 1 && objOf(m.info, call.Args[0]) == rv {
						ok = true
					}
				}
			}
			r.Check(ok, c+".Len", ln.Decl.Pos(), "returns len(receiver)", "Len does not return len(receiver): part of the ids is never sorted")
		}
		// who sorts with it
		var users []string
		var upos token.Pos
		for _, g := range m.funcs {
			ast.Inspect(g.Decl.Body, func(n ast.Node) bool {
				call, ok := n.(*ast.CallExpr)
				if !ok || len(call.Args) != 1 {
					return true
				}
				fn := callee(m.info, call)
				if (isPkgFunc(fn, "sort", "Sort") || isPkgFunc(fn, "sort", "Stable")) && m.localName(m.info.TypeOf(call.Args[0])) == adapter {
					users = append(users, g.Name())
					upos = call.Pos()
				}
				return true
			})
		}
		if len(users) == 0 {
			r.Unknown("sort@"+adapter, fi.Decl.Pos(), "no sort.Sort(%s(x)) found: the id comparator is not used by a Sort method", adapter)
		} else {
			sort.Strings(users)
			r.OK("sort@"+adapter, upos, "%s sorts with sort.Sort(%s(...)), i.e. ascending by the integer id", strings.Join(users, ", "), adapter)
		}
	}
	if found < 3 {
		for _, n := range []string{"Elements.Sort", "ElementIDs.Sort", "FeatureIDs.Sort"} {
			if findFunc(m.pk, n) == nil {
				r.Anchor(n)
			}
		}
	}
	r.Stat("id_comparators", found)
}

func (m *c10Model) checkLess(fi *FuncInfo, c string, recv types.Object, params []types.Object) {
	r := m.r
	pos := fi.Decl.Pos()
	if recv == nil || len(params) != 2 || len(fi.Decl.Body.List) != 1 {
		r.Unknown(c, pos, "comparator over packed ids is not a single `return a[i] < a[j]` (accepted: that form, possibly through one id accessor on both sides)")
		return
	}
	ret, ok := fi.Decl.Body.List[0].(*ast.ReturnStmt)
	if !ok || len(ret.Results) != 1 {
		r.Unknown(c, pos, "comparator body is not a single return")
		return
	}
	be, ok := ast.Unparen(ret.Results[0]).(*ast.BinaryExpr)
	if !ok {
		r.Unknown(c, pos, "comparator does not return a comparison: %s", c10Src(r, ret))
		return
	}
	sa, fa, oka := m.idSide(be.X, recv, params[0], params[1])
	sb, fb, okb := m.idSide(be.Y, recv, params[0], params[1])
	if !oka || !okb {
		r.Unknown(c, pos, "operands of %s are not a[i] / a[j] (optionally through an id accessor)", c10Src(r, be))
		return
	}
	text := c10Src(r, be)
	switch {
	case sa == sb:
		r.Bad(c, be.Pos(), "`%s` compares element %s with itself", text, sa)
		return
	case fa != fb:
		r.Bad(c, be.Pos(), "`%s` compares different keys on the two sides", text)
		return
	case be.Op == token.LEQ || be.Op == token.GEQ:
		r.Bad(c, be.Pos(), "`%s` is not strict: Less(i,i) is true, which sort.Sort does not allow, and equal ids are not treated as equal", text)
		return
	case be.Op == token.LSS && sa == "i", be.Op == token.GTR && sa == "j":
	case be.Op == token.LSS || be.Op == token.GTR:
		r.Bad(c, be.Pos(), "`%s` orders descending: the Sort methods must order by type (node, way, relation), then id, then version ascending", text)
		return
	default:
		r.Bad(c, be.Pos(), "`%s` is not an order comparison", text)
		return
	}
	keyT := m.localName(m.info.TypeOf(be.X))
	if !m.isPacked(m.info.TypeOf(be.X)) {
		r.Unknown(c, be.Pos(), "`%s` compares values of type %s, not packed ids", text, m.info.TypeOf(be.X))
		return
	}
	if fa == nil {
		r.OK(c, be.Pos(), "`%s`: strict ascending integer comparison of the %s values themselves", text, keyT)
		return
	}
	// through an accessor: the element type must not offer a finer key, and every implementation must be a K2 constructor
	elemT := m.info.TypeOf(ast.Unparen(ast.Unparen(be.X).(*ast.CallExpr).Fun).(*ast.SelectorExpr).X)
	if keyT != "ElementID" {
		ms := types.NewMethodSet(elemT)
		for i := 0; i < ms.Len(); i++ {
			if f, ok := ms.At(i).Obj().(*types.Func); ok {
				if rs := f.Type().(*types.Signature).Results(); rs.Len() == 1 && m.localName(rs.At(0).Type()) == "ElementID" && f.Type().(*types.Signature).Params().Len() == 0 {
					r.Bad(c, be.Pos(), "`%s` orders %s values by %s, which lacks the version; elements must be ordered by type, id and then version (%s())", text, elemT, keyT, f.Name())
					return
				}
			}
		}
	}
	r.OK(c, be.Pos(), "`%s`: strict ascending integer comparison of the %s of both elements", text, keyT)
	iface, _ := elemT.Underlying().(*types.Interface)
	if iface == nil {
		ok, why := m.quietProducerOK(m.funcInfoOf(fa))
		r.Check(ok, c+" key "+funcName(fa), pos, "the key accessor is a K2-verified constructor", "the key accessor does not produce the K2 id: "+why)
		return
	}
	seen := map[*types.Func]bool{}
	scope := m.pk.Types.Scope()
	names := scope.Names()
	sort.Strings(names)
	for _, nm := range names {
		tn, ok := scope.Lookup(nm).(*types.TypeName)
		if !ok || tn.IsAlias() {
			continue
		}
		if _, isIface := tn.Type().Underlying().(*types.Interface); isIface {
			continue
		}
		for _, t := range []types.Type{tn.Type(), types.NewPointer(tn.Type())} {
			if !types.Implements(t, iface) {
				continue
			}
			obj, _, _ := types.LookupFieldOrMethod(t, true, m.pk.Types, fa.Name())
			f, _ := obj.(*types.Func)
			if f == nil || seen[f] {
				continue
			}
			seen[f] = true
			impl := m.funcInfoOf(f)
			cc := c + " key " + funcName(f)
			if impl == nil {
				r.Unknown(cc, pos, "implementation of %s for %s has no body in the package", fa.Name(), t)
				continue
			}
			ok, why := m.quietProducerOK(impl)
			if ok {
				r.OK(cc, impl.Decl.Pos(), "%s implements the compared key and yields the K2 id kindMask | ref<<16 | ver of its fields", impl.Name())
			} else {
				r.Bad(cc, impl.Decl.Pos(), "%s is the key %s sorts by but does not yield the K2 id: %s", impl.Name(), strings.TrimPrefix(c, "comparator@"), why)
			}
		}
	}
	if len(seen) == 0 {
		r.Unknown(c+" key", pos, "no implementation of %s found in the package", elemT)
	}
}

func (m *c10Model) funcInfoOf(fn *types.Func) *FuncInfo {
	for _, fi := range m.funcs {
		if fi.Obj == fn {
			return fi
		}
	}
	return nil
}
