package rules

import (
	"fmt"
	"go/ast"
	"go/token"
	"go/types"
	"strings"

	"osmcheck/core"
)

// c07CloseRoleUnits returns the units that Scanner.Close reaches: code that can run in any state of the scanner -
// before the pipeline was started, after a start that failed early, during and after a scan.
func c07CloseRoleUnits(m *pbfModel) map[*unit]bool {
	out := map[*unit]bool{}
	fi := findFunc(m.pk, "(*Scanner).Close")
	if fi == nil {
		return out
	}
	m.unitReaches(m.byDecl[fi.Obj], func(u *unit) bool {
		if u.goSite == nil {
			out[u] = true
		}
		return false
	})
	// the per-call-site copies of shared helpers called from those units
	m.chanOps()
	for k, c := range m.ctxUnits {
		if out[k[1]] {
			out[c] = true
		}
	}
	return out
}

// c07CloseRoleOps: a bare receive / range (no select) on a pipeline channel in code reached from Scanner.Close only
// returns if the channel gets closed, and the only closer is a pipeline goroutine. Close can run before the spawner or
// after the spawner returned early, so the receive must be controlled by a guard that implies "the closing goroutine
// was started": `ch != nil` or a boolean flag, where every assignment that makes the guard true lies in the spawner
// and, on every path of the spawner, is followed by the go statement of the closing goroutine before the spawner
// returns (channel allocated / flag set => closer started, also on the early error returns).
func c07CloseRoleOps(r *core.R, m *pbfModel, closeRole map[*unit]bool, closedByDefer func(string) (bool, string)) {
	info := m.info
	closeFi := findFunc(m.pk, "(*Scanner).Close")
	if closeFi == nil {
		return
	}
	for _, op := range m.chanOps() {
		if (op.kind != "recv" && op.kind != "range") || op.sel != nil || !closeRole[op.u] || strings.HasPrefix(op.class, "?") {
			continue
		}
		c := fmt.Sprintf("close-role %s %s", op.kind, op.class)
		if ok, why := closedByDefer(op.class); !ok {
			r.Bad(c, op.pos, "bare %s on %s in the Close path can block forever: %s", op.kind, op.class, why)
			continue
		}
		// the goroutine(s) that close the channel
		var closers []*goSite
		for _, o2 := range m.chanOps() {
			if o2.kind == "close" && o2.class == op.class {
				for _, g := range m.gos {
					if o2.u.roles[g.role] {
						closers = append(closers, g)
					}
				}
			}
		}
		// guards that control the operation, along the call chain from Scanner.Close
		var guards []guardFact
		found := false
		m.deepWalk(m.byDecl[closeFi.Obj], func(s *pbfSite, n ast.Node) bool {
			if n != op.node || found {
				return true
			}
			found = true
			for i, fr := range s.frames {
				at := fr.link
				if i == len(s.frames)-1 {
					at = n
				}
				pos := at.Pos()
				if i == len(s.frames)-1 {
					pos = op.expr.Pos() // (a range statement is not a CFG node itself; its channel operand is)
				}
				guards = append(guards, m.view.factsAt(fr.u.fi, fr.body, pos)...)
			}
			return true
		})
		chanF := m.chanField(op.class)
		verdict, why := false, "the receive is not controlled by a test that the channel is non-nil or that the pipeline was started"
		for _, g := range guards {
			var gf *types.Var // the field whose value the guard tests
			isNil := false
			if l, opx, rr, ok := cmpNorm(g.expr); ok && (opx == token.NEQ || opx == token.EQL) {
				var x ast.Expr
				switch {
				case isNilIdent(rr):
					x = l
				case isNilIdent(l):
					x = rr
				}
				if x != nil && fieldOf(info, x) == chanF && chanF != nil && ((opx == token.NEQ) == g.val) {
					gf, isNil = chanF, true
				}
			} else if f := fieldOf(info, g.expr); f != nil && g.val {
				if b, ok := f.Type().Underlying().(*types.Basic); ok && b.Kind() == types.Bool {
					gf = f
				}
			}
			if gf == nil {
				continue
			}
			if bad := c07GuardImpliesStarted(m, gf, isNil, closers); bad == "" {
				verdict = true
				r.OK(c, op.pos, "the %s in the Close path is controlled by `%s`; every assignment that makes it true lies in the spawner and is followed, on every path (early returns included), by the go statement of the goroutine that closes %s", op.kind, src(r.P.Fset, g.expr), op.class)
				break
			} else {
				why = fmt.Sprintf("the guard `%s` does not imply that the goroutine closing %s was started: %s", src(r.P.Fset, g.expr), op.class, bad)
			}
		}
		if !verdict {
			r.Bad(c, op.pos, "bare %s on %s in the Close path can block forever: Close may run when the goroutine that closes %s was never started (before the first Scan, or after the spawner returned early with an error); %s", op.kind, op.class, op.class, why)
		}
	}
}

// c07GuardImpliesStarted checks the spawner invariant behind a guard on field gf (non-nil channel / true flag): every
// assignment of a non-nil / true value to gf is in the spawner's own code, and no path of the spawner returns after
// such an assignment without having executed the go statement of a closing goroutine. It returns "" when it holds.
func c07GuardImpliesStarted(m *pbfModel, gf *types.Var, isNil bool, closers []*goSite) string {
	info := m.info
	if len(closers) == 0 {
		return "no goroutine closes the channel"
	}
	establishes := func(as *ast.AssignStmt) bool {
		if len(as.Lhs) != len(as.Rhs) {
			for _, l := range as.Lhs {
				if fieldOf(info, l) == gf {
					return true
				}
			}
			return false
		}
		for i, l := range as.Lhs {
			if fieldOf(info, l) != gf {
				continue
			}
			if isNil && isNilIdent(as.Rhs[i]) {
				continue
			}
			if !isNil {
				if tv, ok := info.Types[as.Rhs[i]]; ok && tv.Value != nil && tv.Value.String() == "false" {
					continue
				}
			}
			return true
		}
		return false
	}
	// every establishing assignment lies in the spawner (deep, not in a goroutine)
	inSpawner := map[ast.Node]bool{}
	m.deepWalk(m.byDecl[m.start.Obj], func(_ *pbfSite, n ast.Node) bool {
		if as, ok := n.(*ast.AssignStmt); ok && establishes(as) {
			inSpawner[as] = true
		}
		return true
	})
	nEst := 0
	bad := ""
	for _, u := range m.sortedUnits() {
		m.walkUnit(u, func(n ast.Node) bool {
			switch x := n.(type) {
			case *ast.AssignStmt:
				if establishes(x) {
					nEst++
					if !inSpawner[x] {
						bad = "it is set at " + m.p.Rel(x.Pos()) + ", outside the spawner"
					}
				}
			case *ast.KeyValueExpr:
				if id, ok := x.Key.(*ast.Ident); ok && info.Uses[id] == gf {
					bad = "it is set in a composite literal at " + m.p.Rel(x.Pos())
				}
			}
			return true
		})
	}
	if bad != "" {
		return bad
	}
	if nEst == 0 {
		return "it is never set"
	}
	const (
		est = 1 << iota
		started
	)
	t := m.newTracer()
	t.inlineOnly(m, func(u *unit) bool {
		hit := false
		m.walkUnit(u, func(n ast.Node) bool {
			switch x := n.(type) {
			case *ast.AssignStmt:
				if establishes(x) {
					hit = true
				}
			case *ast.GoStmt:
				hit = true
			}
			return !hit
		})
		return hit
	})
	t.Event = func(st int, ev *pbfEvent) int {
		switch ev.kind {
		case "node":
			switch x := ev.n.(type) {
			case *ast.AssignStmt:
				if establishes(x) {
					st |= est
				}
			case *ast.GoStmt:
				for _, g := range closers {
					if g.stmt == x {
						st |= started
					}
				}
			}
		case "return":
			if ev.depth == 0 && st&est != 0 && st&started == 0 && bad == "" {
				pos := m.start.Decl.Pos()
				if ev.n != nil {
					pos = ev.n.Pos()
				}
				bad = fmt.Sprintf("%s can return at %s after `%s` was set and before the closing goroutine is started", m.start.Name(), m.p.Rel(pos), gf.Name())
			}
		}
		return st
	}
	t.Run(m.start, m.start.Decl.Body, 0)
	if bad == "" && len(t.incomplete) > 0 {
		bad = "the spawner could not be followed on every path: " + strings.Join(t.incomplete, "; ")
	}
	return bad
}
