package rules

import (
	"go/ast"
	"go/token"
	"go/types"

	"golang.org/x/tools/go/cfg"
)

// Witness tag lists (round 8): code that walks the tags itself (one pass over the tags with the rules looked up
// by key, or the bodies of Tags methods other than Find) is executed on a concrete witness list derived from the
// abstract input: the tags the input speaks about (`area`, the tag under the abstract entry's key), in the
// padded world surrounded by unrelated tags and with absent values spelled as present-but-empty tags (which
// Tags.Find cannot tell from absent), in the minimal world (s.empty) only the tags with a value.

// tagRec builds a witness tag.
func c18TagRec(key, val c18Val) c18Val { return c18Val{k: c18KTagRec, elems: []c18Val{key, val}} }

func c18OtherKey(name string) c18Val { return c18Val{k: c18KStr, s: name, org: c18OOtherKey} }

// tagList is the witness list behind the receiver's tags.
func (x *c18Exec) tagList(v c18Val) []c18Val {
	if v.b { // a sub-slice
		return v.elems
	}
	s := x.s
	var out []c18Val
	yes := c18Val{k: c18KStr, s: "yes", org: c18OTag}
	if !s.empty {
		out = append(out, c18TagRec(c18OtherKey("«unrelated key 1»"), yes))
	}
	var keys []string
	for k := range s.tags {
		keys = append(keys, k)
	}
	for i := 0; i < len(keys); i++ { // deterministic order
		for j := i + 1; j < len(keys); j++ {
			if keys[j] < keys[i] {
				keys[i], keys[j] = keys[j], keys[i]
			}
		}
	}
	entry := func() {
		if s.inBody && (s.v != "" || !s.empty) {
			ek := c18Val{k: c18KStr, s: "«entry key»", org: c18OEntryKey}
			out = append(out, c18TagRec(ek, c18Val{k: c18KStr, s: s.v, org: c18OEntryTag}))
			if s.dup {
				out = append(out, c18TagRec(ek, c18Val{k: c18KStr, s: "yes", org: c18OEntryTag}))
			}
		}
	}
	if s.entryFirst {
		entry()
	}
	for _, k := range keys {
		if val := s.tags[k]; val != "" || !s.empty {
			out = append(out, c18TagRec(c18Val{k: c18KStr, s: k, org: c18OConst}, c18Val{k: c18KStr, s: val, org: c18OTag}))
		}
	}
	if !s.entryFirst {
		entry()
	}
	if !s.empty {
		out = append(out, c18TagRec(c18OtherKey("«unrelated key 2»"), yes))
	}
	return out
}

// keyIndex describes a package-level map from rule key to the rule (its index, or the entry itself) that is
// filled once, completely, by a loop over the table during initialisation and never written otherwise.
type c18KeyIndex struct {
	entry bool // the values are entries (struct copies or pointers); otherwise indexes into the table
}

// keyIndexOf recognises such a map: every store is `m[E.key] = <loop index | E | &E>` in a loop over the table
// whose every iteration reaches the store (or panics), other writes are `m = make(...)`.
func (x *c18Exec) keyIndexOf(o types.Object) *c18KeyIndex {
	if ki, ok := x.keyIdx[o]; ok {
		return ki
	}
	x.keyIdx[o] = nil
	pv, ok := o.(*types.Var)
	if !ok || x.ctx == nil || pv.IsField() || pv.Parent() != x.pk.Types.Scope() {
		return nil
	}
	mt, ok := pv.Type().Underlying().(*types.Map)
	if !ok {
		return nil
	}
	if b, ok := mt.Key().Underlying().(*types.Basic); !ok || b.Kind() != types.String {
		return nil
	}
	c := x.ctx
	env := c18NewFlowEnv(x.r, c, &c18Lit{}, map[ast.Node]bool{})
	res := &c18KeyIndex{}
	stores, good := 0, true
	for _, fd := range c18FuncDecls(x.pk) {
		fd := fd
		var g *cfg.CFG
		var loops []*c18Loop
		ast.Inspect(fd.Body, func(n ast.Node) bool {
			switch s := n.(type) {
			case *ast.AssignStmt:
				for i, l := range s.Lhs {
					if rootObj(x.info, l) != o {
						continue
					}
					if _, isID := ast.Unparen(l).(*ast.Ident); isID {
						if len(s.Rhs) == len(s.Lhs) {
							if call, ok := ast.Unparen(s.Rhs[i]).(*ast.CallExpr); ok && builtinName(x.info, call) == "make" {
								continue // m = make(map[...]..., n)
							}
						}
						good = false
						continue
					}
					ix, isIx := ast.Unparen(l).(*ast.IndexExpr)
					if !isIx || len(s.Rhs) != len(s.Lhs) {
						good = false
						continue
					}
					if g == nil {
						g = newCFG(x.info, fd.Body)
						loops = env.loopsOf(fd, g)
					}
					sel, isSel := ast.Unparen(ix.Index).(*ast.SelectorExpr)
					if !isSel || fieldOf(x.info, sel) != c.keyF || !env.isEntry(fd, loops, sel.X, 3) {
						good = false
						continue
					}
					rhs := ast.Unparen(s.Rhs[i])
					var in *c18Loop
					for _, lp := range loops {
						if lp.stmt.Pos() <= s.Pos() && s.End() <= lp.stmt.End() && lp.over == c.table {
							in = lp
						}
					}
					switch {
					case in == nil:
						good = false
					case in.key != nil && objOf(x.info, rhs) == in.key:
					case env.isEntry(fd, loops, rhs, 3):
						res.entry = true
					default:
						good = false
					}
					if in != nil { // every iteration stores (or panics) before the next entry
						sb, _ := blockOf(g, s.Pos())
						reach := reachableFrom([]*cfg.Block{in.body}, func(b *cfg.Block) bool { return b == sb })
						if sb == nil || (sb != in.body && (reach[in.head] || reach[in.done])) {
							good = false
						}
					}
					stores++
				}
			case *ast.UnaryExpr:
				if s.Op == token.AND && rootObj(x.info, s.X) == o {
					good = false
				}
			case *ast.CallExpr:
				if bn := builtinName(x.info, s); (bn == "delete" || bn == "clear") && len(s.Args) > 0 && rootObj(x.info, s.Args[0]) == o {
					good = false
				}
			}
			return true
		})
	}
	if !good || stores != 1 {
		return nil
	}
	x.keyIdx[o] = res
	return res
}

// keyLookup evaluates m[k] on a rule-key index: the abstract entry for the abstract entry's key, nothing for the
// keys of unrelated tags and of tags the code handles itself.
func (x *c18Exec) keyLookup(ki *c18KeyIndex, key c18Val, at ast.Node, elem types.Type) (c18Val, c18Val) {
	switch {
	case key.k == c18KUnknown:
		return key, key
	case key.k == c18KStr && key.org == c18OEntryKey && x.s.inBody:
		if ki.entry {
			return c18Val{k: c18KEntry}, c18Val{k: c18KBool, b: true}
		}
		return c18Val{k: c18KCurIdx, b: true}, c18Val{k: c18KBool, b: true}
	case key.k == c18KStr && (key.org == c18OOtherKey || (key.org == c18OConst && hasKey(x.s.tags, key.s))):
		return x.zero(elem), c18Val{k: c18KBool}
	}
	u := c18Unk("`%s` looks a key up in the rule index that is neither a tag's key nor the entry's", x.src(at))
	return u, u
}

func hasKey(m map[string]string, k string) bool { _, ok := m[k]; return ok }
