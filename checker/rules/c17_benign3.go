package rules

import "osmcheck/core"

// c17Benign3: behaviour-preserving variants, round 5: spellings of the ring-closing helper (G7), the option booleans in a
// struct held by the context (G3), the per-case meta values in a struct (G4). Texts are Go raw strings.
var c17Benign3 = []core.Mutant{
	// the two guarded returns merged into one condition
	{Name: "b-g7-closer-merged-guards", File: "osmgeojson/convert.go", Nth: 0,
		Find: `func toRing(ls orb.LineString) orb.Ring {
	if len(ls) < 2 {
		return orb.Ring(ls)
	}

	// duplicate last point
	if ls[0] != ls[len(ls)-1] {
		return orb.Ring(append(ls, ls[0]))
	}

	return orb.Ring(ls)
}
`,
		Replace: `func toRing(ls orb.LineString) orb.Ring {
	if len(ls) < 2 || ls[0] == ls[len(ls)-1] {
		return orb.Ring(ls)
	}

	// duplicate first point
	return orb.Ring(append(ls, ls[0]))
}
`},
	// tagless switch, index of the last point in a local, single return
	{Name: "b-g7-closer-switch-last-index", File: "osmgeojson/convert.go", Nth: 0,
		Find: `func toRing(ls orb.LineString) orb.Ring {
	if len(ls) < 2 {
		return orb.Ring(ls)
	}

	// duplicate last point
	if ls[0] != ls[len(ls)-1] {
		return orb.Ring(append(ls, ls[0]))
	}

	return orb.Ring(ls)
}
`,
		Replace: `func toRing(ls orb.LineString) orb.Ring {
	last := len(ls) - 1
	switch {
	case last < 1:
		// nothing to close
	case ls[0] != ls[last]:
		ls = append(ls, ls[0])
	}

	return orb.Ring(ls)
}
`},
	// append-built -> presized and indexed
	{Name: "b-g7-closer-presized-indexed", File: "osmgeojson/convert.go", Nth: 0,
		Find: `func toRing(ls orb.LineString) orb.Ring {
	if len(ls) < 2 {
		return orb.Ring(ls)
	}

	// duplicate last point
	if ls[0] != ls[len(ls)-1] {
		return orb.Ring(append(ls, ls[0]))
	}

	return orb.Ring(ls)
}
`,
		Replace: `func toRing(ls orb.LineString) orb.Ring {
	n := len(ls)
	if n < 2 || ls[0] == ls[n-1] {
		return orb.Ring(ls)
	}

	ring := make(orb.Ring, n+1)
	copy(ring, ls)
	ring[n] = ls[0]

	return ring
}
`},
	// length guard dropped from the closer: its only caller has already rejected lines of fewer than two points
	{Name: "b-g7-closer-needs-caller-guard", File: "osmgeojson/convert.go", Nth: 0,
		Find: `func toRing(ls orb.LineString) orb.Ring {
	if len(ls) < 2 {
		return orb.Ring(ls)
	}

	// duplicate last point
	if ls[0] != ls[len(ls)-1] {
		return orb.Ring(append(ls, ls[0]))
	}

	return orb.Ring(ls)
}
`,
		Replace: `// toRing closes the line, it must have at least one point.
func toRing(ls orb.LineString) orb.Ring {
	if first := ls[0]; first != ls[len(ls)-1] {
		return orb.Ring(append(ls, first))
	}

	return orb.Ring(ls)
}
`},
	// option booleans moved into an embedded struct (promoted fields)
	{Name: "b-g3-options-embedded-struct", File: "osmgeojson/convert.go", Nth: 0,
		Find: `type context struct {
	noID                   bool
	noMeta                 bool
	noRelationMembership   bool
	includeInvalidPolygons bool

	osm       *osm.OSM
`,
		Replace: `// config holds the settings that can be changed using options.
type config struct {
	noID                   bool
	noMeta                 bool
	noRelationMembership   bool
	includeInvalidPolygons bool
}

type context struct {
	config

	osm       *osm.OSM
`},
	// option booleans behind an embedded pointer, allocated (zero) in Convert
	{Name: "b-g3-options-embedded-pointer", File: "osmgeojson/convert.go", Nth: 0,
		Find:    "type context struct {\n\tnoID                   bool\n\tnoMeta                 bool\n\tnoRelationMembership   bool\n\tincludeInvalidPolygons bool\n\n\tosm       *osm.OSM\n\tskippable map[osm.WayID]struct{}\n\n\trelationMember map[osm.FeatureID][]*relationSummary\n\twayMember      map[osm.NodeID]struct{}\n\tnodeMap        map[osm.NodeID]*osm.Node\n\twayMap         map[osm.WayID]*osm.Way\n}\n\ntype relationSummary struct {\n\tID   osm.RelationID    `json:\"id\"`\n\tRole string            `json:\"role\"`\n\tTags map[string]string `json:\"tags\"`\n}\n\n// Convert takes a set of osm elements and converts them\n// to a geojson feature collection.\nfunc Convert(o *osm.OSM, opts ...Option) (*geojson.FeatureCollection, error) {\n\tctx := &context{\n\t\tosm:       o,\n\t\tskippable: make(map[osm.WayID]struct{}),\n\t}\n",
		Replace: "// settings holds what the options can change.\ntype settings struct {\n\tnoID                   bool\n\tnoMeta                 bool\n\tnoRelationMembership   bool\n\tincludeInvalidPolygons bool\n}\n\ntype context struct {\n\t*settings\n\n\tosm       *osm.OSM\n\tskippable map[osm.WayID]struct{}\n\n\trelationMember map[osm.FeatureID][]*relationSummary\n\twayMember      map[osm.NodeID]struct{}\n\tnodeMap        map[osm.NodeID]*osm.Node\n\twayMap         map[osm.WayID]*osm.Way\n}\n\ntype relationSummary struct {\n\tID   osm.RelationID    `json:\"id\"`\n\tRole string            `json:\"role\"`\n\tTags map[string]string `json:\"tags\"`\n}\n\n// Convert takes a set of osm elements and converts them\n// to a geojson feature collection.\nfunc Convert(o *osm.OSM, opts ...Option) (*geojson.FeatureCollection, error) {\n\tctx := &context{\n\t\tosm:       o,\n\t\tsettings:  &settings{},\n\t\tskippable: make(map[osm.WayID]struct{}),\n\t}\n"},
	// the three cases build a struct of values (keyed literal) returned with an ok flag; the map is filled in one place
	{Name: "b-g4-meta-values-in-struct", File: "osmgeojson/convert.go", Nth: 0,
		Find: `	meta := make(map[string]interface{}, 5)
	switch e := e.(type) {
	case *osm.Node:
		if !e.Timestamp.IsZero() {
			meta["timestamp"] = e.Timestamp
		}

		if e.Version != 0 {
			meta["version"] = e.Version
		}

		if e.ChangesetID != 0 {
			meta["changeset"] = e.ChangesetID
		}

		if e.User != "" {
			meta["user"] = e.User
		}

		if e.UserID != 0 {
			meta["uid"] = e.UserID
		}

	case *osm.Way:
		if !e.Timestamp.IsZero() {
			meta["timestamp"] = e.Timestamp
		}

		if e.Version != 0 {
			meta["version"] = e.Version
		}

		if e.ChangesetID != 0 {
			meta["changeset"] = e.ChangesetID
		}

		if e.User != "" {
			meta["user"] = e.User
		}

		if e.UserID != 0 {
			meta["uid"] = e.UserID
		}

	case *osm.Relation:
		if !e.Timestamp.IsZero() {
			meta["timestamp"] = e.Timestamp
		}

		if e.Version != 0 {
			meta["version"] = e.Version
		}

		if e.ChangesetID != 0 {
			meta["changeset"] = e.ChangesetID
		}

		if e.User != "" {
			meta["user"] = e.User
		}

		if e.UserID != 0 {
			meta["uid"] = e.UserID
		}

	default:
		panic("unsupported type")
	}

	props["meta"] = meta
}
`,
		Replace: `	em, ok := metaOf(e)
	if !ok {
		panic("unsupported type")
	}

	props["meta"] = em.properties()
}

// elementMeta is the meta information nodes, ways and relations have in common.
type elementMeta struct {
	hasTime   bool
	timestamp interface{} // a time.Time (package time is not imported by this file)
	version   int
	changeset osm.ChangesetID
	user      string
	uid       osm.UserID
}

func metaOf(e osm.Element) (elementMeta, bool) {
	switch e := e.(type) {
	case *osm.Node:
		return elementMeta{hasTime: !e.Timestamp.IsZero(), timestamp: e.Timestamp, version: e.Version, changeset: e.ChangesetID, user: e.User, uid: e.UserID}, true
	case *osm.Way:
		return elementMeta{hasTime: !e.Timestamp.IsZero(), timestamp: e.Timestamp, version: e.Version, changeset: e.ChangesetID, user: e.User, uid: e.UserID}, true
	case *osm.Relation:
		return elementMeta{hasTime: !e.Timestamp.IsZero(), timestamp: e.Timestamp, version: e.Version, changeset: e.ChangesetID, user: e.User, uid: e.UserID}, true
	}

	return elementMeta{}, false
}

func (em elementMeta) properties() map[string]interface{} {
	meta := make(map[string]interface{}, 5)
	if em.hasTime {
		meta["timestamp"] = em.timestamp
	}

	if em.version != 0 {
		meta["version"] = em.version
	}

	if em.changeset != 0 {
		meta["changeset"] = em.changeset
	}

	if em.user != "" {
		meta["user"] = em.user
	}

	if em.uid != 0 {
		meta["uid"] = em.uid
	}

	return meta
}
`},
}

// c17Mutants3: the seeded defect C17-e and other spellings of it, and defects seeded into the shapes above.
var c17Mutants3 = []core.Mutant{
	// seed C17-e: lines of 2 or 3 points are left open
	{Name: "g7-closer-needs-four-points", File: "osmgeojson/convert.go", Nth: 0, ExpectRule: "G7", ExpectConstruct: "ring@",
		Find: `func toRing(ls orb.LineString) orb.Ring {
	if len(ls) < 2 {`,
		Replace: `func toRing(ls orb.LineString) orb.Ring {
	if len(ls) < 4 {`},
	// closes by repeating the last point
	{Name: "g7-closer-appends-last-point", File: "osmgeojson/convert.go", Nth: 0, ExpectRule: "G7", ExpectConstruct: "ring@",
		Find:    `		return orb.Ring(append(ls, ls[0]))`,
		Replace: `		return orb.Ring(append(ls, ls[len(ls)-1]))`},
	// appends the first point even when the line is already closed
	{Name: "g7-closer-appends-when-closed", File: "osmgeojson/convert.go", Nth: 0, ExpectRule: "G7", ExpectConstruct: "ring@",
		Find: `	if ls[0] != ls[len(ls)-1] {
		return orb.Ring(append(ls, ls[0]))
	}

	return orb.Ring(ls)`,
		Replace: `	return orb.Ring(append(ls, ls[0]))`},
	// merged guard with the comparison inverted: open lines returned as they are, closed ones get a point
	{Name: "r-g7-merged-guards-inverted", File: "osmgeojson/convert.go", Nth: 0, ExpectRule: "G7", ExpectConstruct: "ring@",
		Find: `func toRing(ls orb.LineString) orb.Ring {
	if len(ls) < 2 {
		return orb.Ring(ls)
	}

	// duplicate last point
	if ls[0] != ls[len(ls)-1] {
		return orb.Ring(append(ls, ls[0]))
	}

	return orb.Ring(ls)
}
`,
		Replace: `func toRing(ls orb.LineString) orb.Ring {
	if len(ls) < 2 || ls[0] != ls[len(ls)-1] {
		return orb.Ring(ls)
	}

	// duplicate first point
	return orb.Ring(append(ls, ls[0]))
}
`},
	// presized ring closed with the second point
	{Name: "r-g7-presized-off-by-one", File: "osmgeojson/convert.go", Nth: 0, ExpectRule: "G7", ExpectConstruct: "ring@",
		Find: `func toRing(ls orb.LineString) orb.Ring {
	if len(ls) < 2 {
		return orb.Ring(ls)
	}

	// duplicate last point
	if ls[0] != ls[len(ls)-1] {
		return orb.Ring(append(ls, ls[0]))
	}

	return orb.Ring(ls)
}
`,
		Replace: `func toRing(ls orb.LineString) orb.Ring {
	n := len(ls)
	if n < 2 || ls[0] == ls[n-1] {
		return orb.Ring(ls)
	}

	ring := make(orb.Ring, n+1)
	copy(ring, ls)
	ring[n] = ls[1]

	return ring
}
`},
	// a second, unguarded way-polygon site reaches the closer with an empty line: index out of range
	{Name: "r-g7-unguarded-closer-indexes-empty", File: "osmgeojson/convert.go", Nth: 0, ExpectRule: "G7", ExpectConstruct: "ring@",
		Find: `func toRing(ls orb.LineString) orb.Ring {
	if len(ls) < 2 {
		return orb.Ring(ls)
	}

	// duplicate last point
	if ls[0] != ls[len(ls)-1] {
		return orb.Ring(append(ls, ls[0]))
	}

	return orb.Ring(ls)
}
`,
		Replace: `// toRing closes the line, it must have at least one point.
func polygonOf(ls orb.LineString) orb.Polygon { return orb.Polygon{toRing(ls)} }

func toRing(ls orb.LineString) orb.Ring {
	if first := ls[0]; first != ls[len(ls)-1] {
		return orb.Ring(append(ls, first))
	}

	return orb.Ring(ls)
}
`},
	// the literal of the held struct presets an option
	{Name: "r-g3-embedded-literal-presets-option", File: "osmgeojson/convert.go", Nth: 0, ExpectRule: "G3", ExpectConstruct: "write@noMeta",
		Find:    "type context struct {\n\tnoID                   bool\n\tnoMeta                 bool\n\tnoRelationMembership   bool\n\tincludeInvalidPolygons bool\n\n\tosm       *osm.OSM\n\tskippable map[osm.WayID]struct{}\n\n\trelationMember map[osm.FeatureID][]*relationSummary\n\twayMember      map[osm.NodeID]struct{}\n\tnodeMap        map[osm.NodeID]*osm.Node\n\twayMap         map[osm.WayID]*osm.Way\n}\n\ntype relationSummary struct {\n\tID   osm.RelationID    `json:\"id\"`\n\tRole string            `json:\"role\"`\n\tTags map[string]string `json:\"tags\"`\n}\n\n// Convert takes a set of osm elements and converts them\n// to a geojson feature collection.\nfunc Convert(o *osm.OSM, opts ...Option) (*geojson.FeatureCollection, error) {\n\tctx := &context{\n\t\tosm:       o,\n\t\tskippable: make(map[osm.WayID]struct{}),\n\t}\n",
		Replace: "// settings holds what the options can change.\ntype settings struct {\n\tnoID                   bool\n\tnoMeta                 bool\n\tnoRelationMembership   bool\n\tincludeInvalidPolygons bool\n}\n\ntype context struct {\n\t*settings\n\n\tosm       *osm.OSM\n\tskippable map[osm.WayID]struct{}\n\n\trelationMember map[osm.FeatureID][]*relationSummary\n\twayMember      map[osm.NodeID]struct{}\n\tnodeMap        map[osm.NodeID]*osm.Node\n\twayMap         map[osm.WayID]*osm.Way\n}\n\ntype relationSummary struct {\n\tID   osm.RelationID    `json:\"id\"`\n\tRole string            `json:\"role\"`\n\tTags map[string]string `json:\"tags\"`\n}\n\n// Convert takes a set of osm elements and converts them\n// to a geojson feature collection.\nfunc Convert(o *osm.OSM, opts ...Option) (*geojson.FeatureCollection, error) {\n\tctx := &context{\n\t\tosm:       o,\n\t\tsettings:  &settings{noMeta: true},\n\t\tskippable: make(map[osm.WayID]struct{}),\n\t}\n"},
	// the struct holding the options is replaced as a whole after the options ran
	{Name: "r-g3-embedded-struct-reset-after-options", File: "osmgeojson/convert.go", Nth: 0, ExpectRule: "G3", ExpectConstruct: "write@noID",
		Find:    "type context struct {\n\tnoID                   bool\n\tnoMeta                 bool\n\tnoRelationMembership   bool\n\tincludeInvalidPolygons bool\n\n\tosm       *osm.OSM\n\tskippable map[osm.WayID]struct{}\n\n\trelationMember map[osm.FeatureID][]*relationSummary\n\twayMember      map[osm.NodeID]struct{}\n\tnodeMap        map[osm.NodeID]*osm.Node\n\twayMap         map[osm.WayID]*osm.Way\n}\n\ntype relationSummary struct {\n\tID   osm.RelationID    `json:\"id\"`\n\tRole string            `json:\"role\"`\n\tTags map[string]string `json:\"tags\"`\n}\n\n// Convert takes a set of osm elements and converts them\n// to a geojson feature collection.\nfunc Convert(o *osm.OSM, opts ...Option) (*geojson.FeatureCollection, error) {\n\tctx := &context{\n\t\tosm:       o,\n\t\tskippable: make(map[osm.WayID]struct{}),\n\t}\n\n\tfor _, opt := range opts {\n\t\tif err := opt(ctx); err != nil {\n\t\t\treturn nil, err\n\t\t}\n\t}\n",
		Replace: "type config struct {\n\tnoID                   bool\n\tnoMeta                 bool\n\tnoRelationMembership   bool\n\tincludeInvalidPolygons bool\n}\n\ntype context struct {\n\tconfig\n\n\tosm       *osm.OSM\n\tskippable map[osm.WayID]struct{}\n\n\trelationMember map[osm.FeatureID][]*relationSummary\n\twayMember      map[osm.NodeID]struct{}\n\tnodeMap        map[osm.NodeID]*osm.Node\n\twayMap         map[osm.WayID]*osm.Way\n}\n\ntype relationSummary struct {\n\tID   osm.RelationID    `json:\"id\"`\n\tRole string            `json:\"role\"`\n\tTags map[string]string `json:\"tags\"`\n}\n\n// Convert takes a set of osm elements and converts them\n// to a geojson feature collection.\nfunc Convert(o *osm.OSM, opts ...Option) (*geojson.FeatureCollection, error) {\n\tctx := &context{\n\t\tosm:       o,\n\t\tskippable: make(map[osm.WayID]struct{}),\n\t}\n\n\tfor _, opt := range opts {\n\t\tif err := opt(ctx); err != nil {\n\t\t\treturn nil, err\n\t\t}\n\t}\n\tif len(o.Nodes) == 0 {\n\t\tctx.config = config{}\n\t}\n"},
	// keyed struct literal of one case leaves a field out
	{Name: "r-g4-struct-way-case-omits-user", File: "osmgeojson/convert.go", Nth: 0, ExpectRule: "G4", ExpectConstruct: "*osm.Way",
		Find: `	meta := make(map[string]interface{}, 5)
	switch e := e.(type) {
	case *osm.Node:
		if !e.Timestamp.IsZero() {
			meta["timestamp"] = e.Timestamp
		}

		if e.Version != 0 {
			meta["version"] = e.Version
		}

		if e.ChangesetID != 0 {
			meta["changeset"] = e.ChangesetID
		}

		if e.User != "" {
			meta["user"] = e.User
		}

		if e.UserID != 0 {
			meta["uid"] = e.UserID
		}

	case *osm.Way:
		if !e.Timestamp.IsZero() {
			meta["timestamp"] = e.Timestamp
		}

		if e.Version != 0 {
			meta["version"] = e.Version
		}

		if e.ChangesetID != 0 {
			meta["changeset"] = e.ChangesetID
		}

		if e.User != "" {
			meta["user"] = e.User
		}

		if e.UserID != 0 {
			meta["uid"] = e.UserID
		}

	case *osm.Relation:
		if !e.Timestamp.IsZero() {
			meta["timestamp"] = e.Timestamp
		}

		if e.Version != 0 {
			meta["version"] = e.Version
		}

		if e.ChangesetID != 0 {
			meta["changeset"] = e.ChangesetID
		}

		if e.User != "" {
			meta["user"] = e.User
		}

		if e.UserID != 0 {
			meta["uid"] = e.UserID
		}

	default:
		panic("unsupported type")
	}

	props["meta"] = meta
}
`,
		Replace: `	em, ok := metaOf(e)
	if !ok {
		panic("unsupported type")
	}

	props["meta"] = em.properties()
}

// elementMeta is the meta information nodes, ways and relations have in common.
type elementMeta struct {
	hasTime   bool
	timestamp interface{} // a time.Time (package time is not imported by this file)
	version   int
	changeset osm.ChangesetID
	user      string
	uid       osm.UserID
}

func metaOf(e osm.Element) (elementMeta, bool) {
	switch e := e.(type) {
	case *osm.Node:
		return elementMeta{hasTime: !e.Timestamp.IsZero(), timestamp: e.Timestamp, version: e.Version, changeset: e.ChangesetID, user: e.User, uid: e.UserID}, true
	case *osm.Way:
		return elementMeta{hasTime: !e.Timestamp.IsZero(), timestamp: e.Timestamp, version: e.Version, changeset: e.ChangesetID, uid: e.UserID}, true
	case *osm.Relation:
		return elementMeta{hasTime: !e.Timestamp.IsZero(), timestamp: e.Timestamp, version: e.Version, changeset: e.ChangesetID, user: e.User, uid: e.UserID}, true
	}

	return elementMeta{}, false
}

func (em elementMeta) properties() map[string]interface{} {
	meta := make(map[string]interface{}, 5)
	if em.hasTime {
		meta["timestamp"] = em.timestamp
	}

	if em.version != 0 {
		meta["version"] = em.version
	}

	if em.changeset != 0 {
		meta["changeset"] = em.changeset
	}

	if em.user != "" {
		meta["user"] = em.user
	}

	if em.uid != 0 {
		meta["uid"] = em.uid
	}

	return meta
}
`},
	// one case fills a struct field from another element field
	{Name: "r-g4-struct-relation-version-from-changeset", File: "osmgeojson/convert.go", Nth: 0, ExpectRule: "G4", ExpectConstruct: "*osm.Relation",
		Find: `	meta := make(map[string]interface{}, 5)
	switch e := e.(type) {
	case *osm.Node:
		if !e.Timestamp.IsZero() {
			meta["timestamp"] = e.Timestamp
		}

		if e.Version != 0 {
			meta["version"] = e.Version
		}

		if e.ChangesetID != 0 {
			meta["changeset"] = e.ChangesetID
		}

		if e.User != "" {
			meta["user"] = e.User
		}

		if e.UserID != 0 {
			meta["uid"] = e.UserID
		}

	case *osm.Way:
		if !e.Timestamp.IsZero() {
			meta["timestamp"] = e.Timestamp
		}

		if e.Version != 0 {
			meta["version"] = e.Version
		}

		if e.ChangesetID != 0 {
			meta["changeset"] = e.ChangesetID
		}

		if e.User != "" {
			meta["user"] = e.User
		}

		if e.UserID != 0 {
			meta["uid"] = e.UserID
		}

	case *osm.Relation:
		if !e.Timestamp.IsZero() {
			meta["timestamp"] = e.Timestamp
		}

		if e.Version != 0 {
			meta["version"] = e.Version
		}

		if e.ChangesetID != 0 {
			meta["changeset"] = e.ChangesetID
		}

		if e.User != "" {
			meta["user"] = e.User
		}

		if e.UserID != 0 {
			meta["uid"] = e.UserID
		}

	default:
		panic("unsupported type")
	}

	props["meta"] = meta
}
`,
		Replace: `	em, ok := metaOf(e)
	if !ok {
		panic("unsupported type")
	}

	props["meta"] = em.properties()
}

// elementMeta is the meta information nodes, ways and relations have in common.
type elementMeta struct {
	hasTime   bool
	timestamp interface{} // a time.Time (package time is not imported by this file)
	version   int
	changeset osm.ChangesetID
	user      string
	uid       osm.UserID
}

func metaOf(e osm.Element) (elementMeta, bool) {
	switch e := e.(type) {
	case *osm.Node:
		return elementMeta{hasTime: !e.Timestamp.IsZero(), timestamp: e.Timestamp, version: e.Version, changeset: e.ChangesetID, user: e.User, uid: e.UserID}, true
	case *osm.Way:
		return elementMeta{hasTime: !e.Timestamp.IsZero(), timestamp: e.Timestamp, version: e.Version, changeset: e.ChangesetID, user: e.User, uid: e.UserID}, true
	case *osm.Relation:
		return elementMeta{hasTime: !e.Timestamp.IsZero(), timestamp: e.Timestamp, version: int(e.ChangesetID), changeset: e.ChangesetID, user: e.User, uid: e.UserID}, true
	}

	return elementMeta{}, false
}

func (em elementMeta) properties() map[string]interface{} {
	meta := make(map[string]interface{}, 5)
	if em.hasTime {
		meta["timestamp"] = em.timestamp
	}

	if em.version != 0 {
		meta["version"] = em.version
	}

	if em.changeset != 0 {
		meta["changeset"] = em.changeset
	}

	if em.user != "" {
		meta["user"] = em.user
	}

	if em.uid != 0 {
		meta["uid"] = em.uid
	}

	return meta
}
`},
}
