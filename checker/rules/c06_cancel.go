package rules

import (
	"go/ast"
	"go/types"
	"sort"
	"strings"

	"osmcheck/core"
)

// C06.E13 — the stages upstream of the serializer never cancel the pipeline.
//
// Every stage of the pipeline gives up what it holds when the pipeline's context is done (its sends and receives sit
// in selects with a Done case). The blocks that precede a damaged block are, at the moment the damage is noticed by
// the reader or by a worker, still in flight in front of the error: in the workers' output buffers, in the
// serializer's hand, in the serializer queue. Cancelling at that moment makes the serializer return at its next select
// and drop them, so the stream no longer ends "in the error after the correct prefix" but in a context error after a
// shortened prefix. Only the last stage (the serializer, on its way out after it has forwarded the error) and the
// consumer side (Close) may cancel. The cancel function is found by provenance (second result of
// context.WithCancel / WithTimeout / WithDeadline, followed into locals and struct fields), the stages by role.
func c06E13(r *core.R) {
	m := c01PBFModel(r)
	if m == nil {
		return
	}
	info := m.info
	cancels := map[types.Object]bool{}
	isWith := func(e ast.Expr) bool {
		call, ok := ast.Unparen(e).(*ast.CallExpr)
		if !ok {
			return false
		}
		fn := callee(info, call)
		return fn != nil && fn.Pkg() != nil && fn.Pkg().Path() == "context" && strings.HasPrefix(fn.Name(), "With") && fn.Type().(*types.Signature).Results().Len() == 2
	}
	objOfL := func(e ast.Expr) types.Object {
		if sel, ok := ast.Unparen(e).(*ast.SelectorExpr); ok {
			if f := fieldOf(info, sel); f != nil {
				return f
			}
		}
		return objOf(info, e)
	}
	for changed, round := true, 0; changed && round < 4; round++ {
		changed = false
		add := func(o types.Object) {
			if o != nil && !cancels[o] {
				cancels[o] = true
				changed = true
			}
		}
		for _, fi := range allFuncs(m.pk) {
			ast.Inspect(fi.Decl.Body, func(n ast.Node) bool {
				switch s := n.(type) {
				case *ast.AssignStmt:
					if len(s.Rhs) == 1 && len(s.Lhs) == 2 && isWith(s.Rhs[0]) {
						add(objOfL(s.Lhs[1]))
					}
					if len(s.Rhs) == len(s.Lhs) {
						for i, rh := range s.Rhs {
							if o := objOfL(rh); o != nil && cancels[o] {
								add(objOfL(s.Lhs[i]))
							}
						}
					}
				case *ast.KeyValueExpr:
					if id, ok := s.Key.(*ast.Ident); ok {
						if f, isF := info.Uses[id].(*types.Var); isF && f.IsField() {
							if o := objOfL(s.Value); o != nil && cancels[o] {
								add(f)
							}
						}
					}
				}
				return true
			})
		}
	}
	if len(cancels) == 0 {
		r.Anchor("cancel function of the pipeline's context (second result of context.WithCancel)")
		return
	}
	for _, u := range m.sortedUnits() {
		if fd, ok := u.node.(*ast.FuncDecl); ok && isGenerated(m.p, fd.Pos()) {
			continue
		}
		if u.body == nil {
			continue
		}
		var sites []*ast.CallExpr
		m.walkUnit(u, func(n ast.Node) bool {
			if call, ok := n.(*ast.CallExpr); ok {
				if o := objOfL(call.Fun); o != nil && cancels[o] {
					sites = append(sites, call)
				}
			}
			return true
		})
		if len(sites) == 0 {
			continue
		}
		name := u.name
		if name == "" && u.fi != nil {
			name = u.fi.Name()
		}
		var roles []string
		for ro := range u.roles {
			roles = append(roles, ro)
		}
		sort.Strings(roles)
		c := "cancel@" + name
		if u.roles["worker"] || u.roles["reader"] {
			r.Bad(c, sites[0].Pos(), "`%s` cancels the pipeline from a stage upstream of the serializer (roles %v): the other stages give up what they hold as soon as the context is done, so the intact blocks still in flight in front of the error, and the error itself, are dropped; the stream ends in a context error after a shortened prefix instead of in the error after the correct prefix. Only the serializer (after forwarding the error) and the consumer side may cancel", src(r.P.Fset, sites[0]), roles)
		} else {
			r.OK(c, sites[0].Pos(), "the pipeline is cancelled here by %v only: the last stage / the consumer side, never by the reader or a worker while results are still in flight", roles)
		}
	}
}
