package rules

import (
	"fmt"
	"go/ast"
	"go/types"
)

// Lists that leave a function through a pointer instead of a return value.
//
// When the list that a map range fills is a field of a struct the function holds by pointer (a method with a pointer
// receiver, a helper that is handed the state struct) or a slice parameter whose elements it grows, nothing is
// returned: the caller sees the list through its own variable. The obligation "sorted before it escapes" then moves
// to the callers, for the place the argument denotes there, from the call on — unless the function sorts the list
// itself before each of its exits.

// escapeThroughParam handles the case where root is not returned by f. ok=false means it does not apply.
func (s *c12Sorter) escapeThroughParam(f *c12Fn, root types.Object, elem bool, after c12Done, depth int) (int, string, bool) {
	info := f.info()
	rr, path := c12PlaceParts(root)
	if c12ParamPos(info, f.fi.Decl, rr) < 0 {
		return 0, "", false
	}
	if len(path) == 0 && !elem {
		return 0, "", false // growing a slice parameter itself is invisible to the caller
	}
	if len(path) > 0 && !c12SharesWithCaller(rr, path) {
		return 0, "", false
	}
	// sorted here, after the loop, before every exit
	for _, d := range s.sortsOf(f, root, elem, depth) {
		if f.follows(d, after) && f.beforeEveryExit(d) {
			return c12OK, fmt.Sprintf("%s sorts %s (%s) before each of its exits", f.fi.Name(), root.Name(), d.desc), true
		}
	}
	if depth <= 0 {
		return c12Unk, root.Name() + " leaves " + f.fi.Name() + " through its parameter " + rr.Name() + "; the callers are too far up to follow", true
	}
	sites := s.callSites(f)
	if len(sites) == 0 {
		return c12Unk, root.Name() + " leaves " + f.fi.Name() + " through its parameter " + rr.Name() + ", and no caller was found in the annotate tree", true
	}
	for _, cs := range sites {
		g := s.fn(cs.in.Obj)
		if g == nil {
			return c12Unk, "caller " + cs.in.Name() + " could not be analysed", true
		}
		arg := argForParam(info, f.fi, cs.call, rr)
		if arg == nil {
			return c12Unk, "argument for " + rr.Name() + " not found at the call in " + cs.in.Name(), true
		}
		if ue, ok := ast.Unparen(arg).(*ast.UnaryExpr); ok {
			arg = ue.X // &state
		}
		base := c12Resolve(g.info(), g.fi.Decl.Body, stripDerefParen(c12StripConv(g.info(), arg)))
		if base == nil {
			return c12Unk, "`" + src(g.pk.Fset, arg) + "` handed to " + f.fi.Name() + " in " + cs.in.Name() + " is not a variable or field", true
		}
		at, ok := g.at(cs.call.Pos(), "call of "+f.fi.Name())
		if !ok {
			return c12Unk, "call of " + f.fi.Name() + " in " + cs.in.Name() + " is unreachable", true
		}
		cst, cwhy := s.escapeSorted(g, c12OnBase(base, path), elem, at, depth-1)
		if cst != c12OK {
			return cst, f.fi.Name() + " fills " + root.Name() + " and its caller " + cs.in.Name() + " does not sort it: " + cwhy, true
		}
	}
	return c12OK, fmt.Sprintf("%s fills %s for its %d caller(s), each of which sorts it before it returns it", f.fi.Name(), root.Name(), len(sites)), true
}

// getterPlace: e is a call of a function whose body is a single `return <field path of a parameter>`; it returns
// the place that expression denotes in the calling function f.
func (s *c12Sorter) getterPlace(f *c12Fn, e ast.Expr) types.Object {
	call, ok := ast.Unparen(e).(*ast.CallExpr)
	if !ok {
		return nil
	}
	h := s.fn(callee(f.info(), call))
	if h == nil || len(h.fi.Decl.Body.List) != 1 {
		return nil
	}
	ret, ok := h.fi.Decl.Body.List[0].(*ast.ReturnStmt)
	if !ok || len(ret.Results) != 1 {
		return nil
	}
	p := c12Resolve(h.info(), h.fi.Decl.Body, stripDerefParen(c12StripConv(h.info(), ret.Results[0])))
	pr, path := c12PlaceParts(p)
	if p == nil || c12ParamPos(h.info(), h.fi.Decl, pr) < 0 {
		return nil
	}
	arg := argForParam(h.info(), h.fi, call, pr)
	if arg == nil {
		return nil
	}
	base := c12Resolve(f.info(), f.fi.Decl.Body, stripDerefParen(c12StripConv(f.info(), arg)))
	if base == nil {
		return nil
	}
	return c12OnBase(base, path)
}
