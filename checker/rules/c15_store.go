package rules

import (
	"go/ast"
	"go/token"
	"go/types"

	"golang.org/x/tools/go/cfg"
)

// Storing the pending list back (part of C15.U2).

// storeDiscipline decides, from the point where the scan has completed (block b, node index i: the normal exit of the
// loop, or the call of the helper that contains it), that the store of the pending list happens exactly on the
// success paths:
//
//   - when the function returns an error variable E after that point (single-exit style `return err`, or the list
//     came with an error from a helper: errGuard), the paths are evaluated for E == nil and E != nil: with E == nil
//     every path to a return executes the store; with E != nil none does;
//   - otherwise every path to a return that may succeed executes the store, and no error return follows the store.
func (w *c15World) storeDiscipline(env *c15Env, store *ast.AssignStmt, errGuard types.Object, b *cfg.Block, i int) (string, string) {
	P := w.r.P
	f := env.fn
	ssrc := "`" + src(P.Fset, store) + "` (" + P.Rel(store.Pos()) + ")"
	isStore := func(n ast.Node) bool { return n == ast.Node(store) }
	E := errGuard
	if E == nil {
		// the function-level error variable (single-exit style; not one scoped to a loop iteration) returned after
		// the scan, if there is exactly one
		errT := types.Universe.Lookup("error").Type()
		var cands []types.Object
		for _, ret := range w.walk(b, i, c15WalkOpt{env: env}).returns {
			if len(ret.Results) == 0 || !c15ReturnsError(f) {
				continue
			}
			if ob := objOf(w.info, ast.Unparen(ret.Results[len(ret.Results)-1])); ob != nil && !isNilIdent(ret.Results[len(ret.Results)-1]) && types.Identical(ob.Type(), errT) && !c15DeclaredInLoop(f, ob) {
				dup := false
				for _, c := range cands {
					dup = dup || c == ob
				}
				if !dup {
					cands = append(cands, ob)
				}
			}
		}
		if len(cands) == 1 {
			E = cands[0]
		} else if len(cands) > 1 {
			return "", "several error variables are returned after the scan; cannot decide on which paths " + ssrc + " has to happen"
		}
	}
	if E != nil {
		wk := w.walk(b, i, c15WalkOpt{env: env, oracle: &c15Oracle{w: w, errObj: E, errVal: -1}, barrier: isStore})
		for _, ret := range wk.returns {
			if w.retKind(f, ret) != c15RetFailure || usesObj(w.info, ret, E) {
				return "", "with a nil " + E.Name() + " the return at " + P.Rel(ret.Pos()) + " is reached without " + ssrc
			}
		}
		if wk.implicit {
			return "", "with a nil " + E.Name() + " the end of " + f.name() + " is reached without " + ssrc
		}
		wk = w.walk(b, i, c15WalkOpt{env: env, oracle: &c15Oracle{w: w, errObj: E, errVal: +1}})
		if wk.visited[store] {
			return "", ssrc + " is executed also when " + E.Name() + " is non-nil: the pending updates are replaced although an error is returned"
		}
		return ssrc + " is on every path with a nil " + E.Name() + " and on none with a non-nil one", ""
	}
	wk := w.walk(b, i, c15WalkOpt{env: env, barrier: isStore})
	for _, ret := range wk.returns {
		if w.retKind(f, ret) != c15RetFailure {
			return "", "the success return at " + P.Rel(ret.Pos()) + " is not preceded by " + ssrc
		}
	}
	if wk.implicit {
		return "", "the end of " + f.name() + " is reached without " + ssrc
	}
	if _, sb, si := f.nodeAt(store.Pos()); sb != nil {
		for _, ret := range w.walk(sb, si+1, c15WalkOpt{env: env}).returns {
			if w.retKind(f, ret) == c15RetFailure {
				return "", ssrc + " can be followed by the error return `" + src(P.Fset, ret) + "` (" + P.Rel(ret.Pos()) + "): the pending updates are replaced although the call fails"
			}
		}
	}
	return ssrc + " precedes every success return after the scan and no error return follows it", ""
}

// storedBack: after the loop (position `after` dominates) the list held by local Q of env.fn is written to the
// place the scanned updates were read from (path target, rooted in the API function), and every success return of
// env.fn comes after that store. If env.fn is a helper, Q may instead be returned to the caller, which must store it.
func (w *c15World) storedBack(env *c15Env, Q types.Object, target *c15Path, after func(pos token.Pos) bool, errGuard types.Object, startB *cfg.Block, startI int, depth int) (string, string) {
	f := env.fn
	P := w.r.P
	var store *ast.AssignStmt
	inspectNoLit(f.fi.Decl.Body, func(n ast.Node) bool {
		as, ok := n.(*ast.AssignStmt)
		if !ok || as.Tok != token.ASSIGN || len(as.Lhs) != len(as.Rhs) {
			return true
		}
		for i, l := range as.Lhs {
			lp := w.pathOf(env, l, true)
			rp := w.pathOf(env, as.Rhs[i], true)
			if lp != nil && lp.eq(target) && rp != nil && rp.root == Q && len(rp.steps) == 0 && after(as.Pos()) {
				store = as
			}
		}
		return true
	})
	if store != nil {
		return w.storeDiscipline(env, store, errGuard, startB, startI)
	}
	// returned to the caller?
	if env.parent == nil || depth > 2 {
		return "", "the list is never stored back into " + target.String() + " after the loop"
	}
	k := -1
	bad := ""
	inspectNoLit(f.fi.Decl.Body, func(n ast.Node) bool {
		ret, ok := n.(*ast.ReturnStmt)
		if !ok || w.retKind(f, ret) == c15RetFailure {
			return true
		}
		if len(ret.Results) == 0 {
			// named results
			sig := f.fi.Obj.Type().(*types.Signature)
			for i := 0; i < sig.Results().Len(); i++ {
				if sig.Results().At(i) == Q {
					if k >= 0 && k != i {
						bad = "inconsistent result position"
					}
					k = i
					return true
				}
			}
			bad = "`" + src(P.Fset, ret) + "` does not return the list"
			return true
		}
		found := false
		for i, e := range ret.Results {
			if p := w.pathOf(env, e, true); p != nil && p.root == Q && len(p.steps) == 0 {
				if k >= 0 && k != i {
					bad = "inconsistent result position"
				}
				k, found = i, true
			}
		}
		if !found {
			bad = "`" + src(P.Fset, ret) + "` (" + P.Rel(ret.Pos()) + ") does not return the list"
		} else if !after(ret.Pos()) {
			bad = "`" + src(P.Fset, ret) + "` (" + P.Rel(ret.Pos()) + ") returns before the loop has completed"
		}
		return true
	})
	if bad != "" || k < 0 {
		if bad == "" {
			bad = "the list is neither stored nor returned"
		}
		return "", bad
	}
	// the call in the parent: `…, q, … := call` or `…, recv.Updates, … = call`
	pf := env.parent.fn
	as, ok := pf.par[env.call].(*ast.AssignStmt)
	if !ok || len(as.Rhs) != 1 || ast.Unparen(as.Rhs[0]) != ast.Expr(env.call) || k >= len(as.Lhs) {
		return "", "the result of " + f.name() + " that carries the list is not assigned by the caller " + pf.name()
	}
	// the error that comes with the list
	var callErr types.Object
	if last := as.Lhs[len(as.Lhs)-1]; len(as.Lhs) > 1 {
		if o := objOf(w.info, last); o != nil && types.Identical(o.Type(), types.Universe.Lookup("error").Type()) {
			callErr = o
		}
	}
	lp := w.pathOf(env.parent, as.Lhs[k], true)
	if lp != nil && lp.eq(target) {
		if callErr != nil || c15ReturnsError(f) {
			return "", "`" + src(P.Fset, as) + "` (" + P.Rel(as.Pos()) + ") stores the list before the error of " + f.name() + " is tested: the list that comes with a non-nil error replaces the pending updates"
		}
		miss := ""
		inspectNoLit(pf.fi.Decl.Body, func(n ast.Node) bool {
			ret, ok := n.(*ast.ReturnStmt)
			if !ok || w.retKind(pf, ret) == c15RetFailure {
				return true
			}
			if !posDominates(pf.g, pf.dom, as.Pos(), ret.Pos()) && !w.vacuousAt(env.parent, ret.Pos(), []*c15Path{target}) {
				miss = P.Rel(ret.Pos())
			}
			return true
		})
		if miss != "" {
			return "", "the success return at " + miss + " is not preceded by `" + src(P.Fset, as) + "`"
		}
		return "returned by " + f.name() + " and assigned by `" + src(P.Fset, as) + "` (" + P.Rel(as.Pos()) + ")", ""
	}
	q := objOf(w.info, as.Lhs[k])
	if q == nil {
		return "", "the result of " + f.name() + " that carries the list is dropped by `" + src(P.Fset, as) + "`"
	}
	if n := len(pf.defs[q]); n != 1 {
		return "", "the caller's variable " + q.Name() + " holding the list is assigned more than once"
	}
	callPos := as.Pos()
	if callErr == nil && c15ReturnsError(f) {
		return "", "the error of " + f.name() + " is dropped by `" + src(P.Fset, as) + "`"
	}
	_, cb, ci := pf.nodeAt(callPos)
	if cb == nil {
		return "", "the call of " + f.name() + " is not in the control-flow graph of " + pf.name()
	}
	proof, why := w.storedBack(env.parent, q, target, func(pos token.Pos) bool { return pos > callPos && posDominates(pf.g, pf.dom, callPos, pos) }, callErr, cb, ci+1, depth+1)
	if why != "" {
		return "", why
	}
	return "returned by " + f.name() + "; " + proof, ""
}

// c15DeclaredInLoop: ob is declared inside the body (or header) of a loop of f, i.e. it is scoped to one iteration.
func c15DeclaredInLoop(f *c15Fn, ob types.Object) bool {
	in := false
	ast.Inspect(f.fi.Decl.Body, func(n ast.Node) bool {
		switch n.(type) {
		case *ast.ForStmt, *ast.RangeStmt:
			if n.Pos() <= ob.Pos() && ob.Pos() < n.End() {
				in = true
			}
		}
		return !in
	})
	return in
}
