package rules

import (
	"go/ast"
	"go/types"
)

// Function literals. A literal evaluates to a closure value; calling it (directly, through a local, or through the
// parameter of an inlined helper it was passed to) executes its body in place. The executor keeps one environment
// per path keyed by variable object, so the free variables of the body denote the captured variables themselves:
// reads see their current values and assignments are visible to the enclosing function, as in Go. This is sound
// only while the executor sees every call of the closure, so a closure that escapes (passed to a function that is
// not inlined, started with go) makes the path undecided.

// callValue evaluates a call whose callee is not a declared function or method: a closure or an unknown function value.
func (x *c20SX) callValue(call *ast.CallExpr, st *c20St) []c20EV {
	var out []c20EV
	for _, f := range x.ev(call.Fun, st) {
		if f.st.ctl != c20cRun {
			out = append(out, c20EV{f.st, c20V{}})
			continue
		}
		for _, it := range x.evList(call.Args, f.st) {
			switch {
			case it.st.ctl != c20cRun:
				out = append(out, c20EV{it.st, c20V{}})
			case f.v.k == c20kFunc && f.v.lit == nil:
				// a declared function or a method value: the ordinary call of that function
				fn, _ := f.v.obj.(*types.Func)
				out = append(out, x.apply(fn, call, f.v.base, it.vs, it.st)...)
			case f.v.k == c20kFunc:
				out = append(out, x.callClosure(f.v, call, it.vs, it.st)...)
			case f.v.k == c20kNil:
				it.st.ctl = c20cPanic // call of a nil function
				out = append(out, c20EV{it.st, c20V{}})
			default:
				out = append(out, x.apply(nil, call, nil, it.vs, it.st)...)
			}
		}
	}
	return out
}

func (x *c20SX) callClosure(f c20V, call *ast.CallExpr, args []c20V, st *c20St) []c20EV {
	lit := f.lit
	for _, l := range x.lits {
		if l == lit {
			return c20One(st, c20Unknown("recursive call of a function literal"))
		}
	}
	if len(x.frames) > 10 {
		return c20One(st, c20Unknown("call chain too deep at a function literal"))
	}
	sig, ok := x.info.TypeOf(lit).(*types.Signature)
	if !ok {
		return c20One(st, c20Unknown("function literal without signature"))
	}
	i := 0
	np := sig.Params().Len()
	for _, fl := range lit.Type.Params.List {
		for _, nm := range fl.Names {
			p := x.info.Defs[nm]
			var v c20V
			switch {
			case sig.Variadic() && i == np-1 && !(call.Ellipsis.IsValid() && i < len(args)):
				v = c20Unknown("missing arguments of a function literal")
				if len(args) >= np-1 && p != nil {
					v = x.variadicArg(p.Type(), args[np-1:])
				}
			case i < len(args):
				v = args[i]
			default:
				v = c20Unknown("missing argument")
			}
			if p != nil {
				x.born(p)
				st.env[p] = v
			}
			i++
		}
	}
	x.lits = append(x.lits, lit)
	x.frames = append(x.frames, c20Frame{sig: sig, lo: lit.Pos(), hi: lit.End()})
	x.enter(st)
	outs := x.block(lit.Body.List, []*c20St{st})
	x.frames = x.frames[:len(x.frames)-1]
	x.lits = x.lits[:len(x.lits)-1]
	return x.finishCall(outs, sig, call, "the function literal")
}

// finishCall turns the final states of an inlined body into running states with the call's value.
func (x *c20SX) finishCall(outs []*c20St, sig *types.Signature, call *ast.CallExpr, name string) []c20EV {
	var res []c20EV
	for _, o := range outs {
		switch o.ctl {
		case c20cRet:
			o.ctl = c20cRun
			v := c20V{k: c20kTuple, vs: o.ret}
			if len(o.ret) == 1 {
				v = o.ret[0]
			}
			o.ret, o.retAt = nil, nil
			res = append(res, c20EV{o, v})
		case c20cRun:
			if sig.Results().Len() == 0 {
				res = append(res, c20EV{o, c20V{k: c20kTuple}})
			} else {
				res = append(res, c20EV{o.abort(call, "a path reaches the end of %s without a return", name), c20V{}})
			}
		case c20cCont, c20cBrk:
			res = append(res, c20EV{o.abort(call, "break/continue outside a recognised loop in %s", name), c20V{}})
		default: // abort, panic
			res = append(res, c20EV{o, c20V{}})
		}
	}
	return res
}

// escapes: a closure among the values handed to code the executor does not follow.
func c20HasClosure(vs []c20V) bool {
	for _, v := range vs {
		switch v.k {
		case c20kFunc:
			return true
		case c20kTuple, c20kAgg:
			if c20HasClosure(v.vs) {
				return true
			}
		case c20kObj:
			for _, f := range v.fields {
				if c20HasClosure([]c20V{f}) {
					return true
				}
			}
		}
	}
	return false
}
