package rules

import (
	"encoding/json"
	"fmt"
	"go/token"
	"go/types"
	"strings"

	"osmcheck/core"
)

// c05Flat is one Go type the writer can put into the elements array.
type c05Flat struct {
	T     types.Type // static type of the element value (e.g. *osm.Node)
	Pos   token.Pos
	Src   string
	Field *types.Var // the OSM field the element comes from
}

// c05FlatPath is what one path of OSM.MarshalJSON hands to the codec.
type c05FlatPath struct {
	path     *c03Path
	carried  map[*types.Var]string // OSM field -> how it is carried (top-level key / elements)
	nilField *types.Var            // the pointer field that is nil in this path's scenario (nil: every field set)
}

// c05Flattening is the observed behaviour of OSM.MarshalJSON with every field set.
type c05Flattening struct {
	cx      *c05Codec
	ma      *FuncInfo
	recv    *types.Var
	shimT   types.Type
	elemKey *c03JSONField
	top     map[*types.Var]*types.Var // field of the marshalled struct -> OSM field it is written from
	topVal  map[*types.Var]*c03V
	types   []c05Flat // deduplicated
	paths   []*c05FlatPath
	unknown string
	broken  string // a defect seen while enumerating the list
	pos     token.Pos
}

// c05FindFlattening observes what OSM.MarshalJSON marshals: a struct with top-level keys and a key `elements` holding
// a list built from the receiver's fields.
func c05FindFlattening(r *core.R) *c05Flattening {
	pk := c03OsmPkg(r.P)
	osmNT, _ := structType(pk, "OSM")
	var ma *FuncInfo
	if osmNT != nil {
		ma = c03FuncInfoOf(r.P, c03Method(osmNT, "MarshalJSON"))
	}
	if ma == nil {
		r.Anchor("osm.OSM.MarshalJSON")
		return nil
	}
	cx := c05NewCodec(r.P)
	fl := &c05Flattening{cx: cx, ma: ma, recv: c03Receiver(ma), top: map[*types.Var]*types.Var{}, topVal: map[*types.Var]*c03V{}, pos: ma.Decl.Pos()}
	// scenarios: every field set; and, for each pointer-typed field, that field nil (the list is then built without
	// it, which shifts every index-based treatment of the list)
	nilFields := []*types.Var{nil}
	if st, ok := osmNT.Underlying().(*types.Struct); ok {
		for i := 0; i < st.NumFields(); i++ {
			if f := st.Field(i); f.Exported() && c03IsPointer(f.Type()) {
				nilFields = append(nilFields, f)
			}
		}
	}
	seen := map[string]bool{}
	for _, nilField := range nilFields {
		nilField := nilField
		sc := c05Scen{Tag: "all set"}
		if nilField != nil {
			sc = c05Scen{Tag: nilField.Name() + " nil", Recv: func(path []*types.Var) tri {
				if len(path) == 1 && path[0] == nilField {
					return triT
				}
				return triF
			}}
		}
		fl.observe(r, sc, nilField, seen)
	}
	if fl.shimT == nil {
		r.Anchor("the struct OSM.MarshalJSON hands to the JSON codec")
		return nil
	}
	if fl.elemKey == nil {
		r.Anchor("field with JSON key `elements` in the struct OSM.MarshalJSON marshals")
		return nil
	}
	return fl
}

// observe runs OSM.MarshalJSON under one scenario and records what each path hands to the codec.
func (fl *c05Flattening) observe(r *core.R, sc c05Scen, nilField *types.Var, seen map[string]bool) {
	cx, ma := fl.cx, fl.ma
	x, paths := cx.run(ma, sc)
	if x.Aborted != "" {
		fl.unknown = x.Aborted
	}
	for _, pa := range paths {
		if pa.End != "return" {
			fl.unknown = "a path of OSM.MarshalJSON ends with " + pa.End + " " + pa.Why
			continue
		}
		var shim *c03V
		n := 0
		for _, op := range cx.ops(pa) {
			if op.dir == "marshal" {
				n++
				shim = op.operand
				fl.pos = op.ev.Node.Pos()
			}
		}
		if n != 1 || shim == nil || shim.K != c03KStruct {
			if fl.shimT == nil {
				continue
			}
			fl.unknown = fmt.Sprintf("a path of OSM.MarshalJSON performs %d marshal operation(s) / not on a struct value", n)
			continue
		}
		if fl.shimT == nil {
			fl.shimT = shim.T
			fl.elemKey = c03JSONKey(shim.T, "elements")
		}
		if fl.elemKey == nil {
			continue
		}
		fp := &c05FlatPath{path: pa, carried: map[*types.Var]string{}, nilField: nilField}
		for _, jf := range c03JSONFields(shim.T) {
			v := x.field(pa.St, shim, jf.Var, ma.Decl, nil)
			if jf.Var == fl.elemKey.Var {
				fl.elements(r, x, pa, v, fp, seen)
				continue
			}
			fl.topVal[jf.Var] = v
			if v.IsInit("param") && v.Root.Obj == fl.recv && len(v.Path) == 1 {
				fl.top[jf.Var] = v.Path[0]
				fp.carried[v.Path[0]] = "top-level key " + jf.Key
			}
		}
		fl.paths = append(fl.paths, fp)
	}
}

// elements classifies the members of the list marshalled under `elements` on one path.
func (fl *c05Flattening) elements(r *core.R, x *c03Interp, pa *c03Path, list *c03V, fp *c05FlatPath, seen map[string]bool) {
	if made, known, exact, slots := c03MadeExact(list); list.K == c03KList && made && known {
		// a presized list filled by index: as many slots as stores, or the document gets null elements / the fill panics
		if !exact {
			fl.broken = fmt.Sprintf("the list marshalled under `elements` is made with %d slot(s) (one per counted list, as the loops run once per list here) but %d of them are assigned before it is marshalled: the counting expression and the filling pass disagree, the document carries null elements or the fill runs past the end", slots, len(list.Elems))
			fl.pos = pa.Pos
			return
		}
	} else if list.K != c03KList || (list.Base != nil && pa.St.Zero(list.Base) != triT) {
		fl.unknown = "the value marshalled under `elements` is " + list.String() + ", not a list built from the receiver's fields"
		return
	}
	for _, e := range list.Elems {
		var f *types.Var
		switch {
		case e.IsInit("param") && e.Root.Obj == fl.recv && len(e.Path) == 1:
			f = e.Path[0]
		case e.IsInit("elem") && len(e.Path) == 0 && e.Root.Of.IsInit("param") && e.Root.Of.Root.Obj == fl.recv && len(e.Root.Of.Path) == 1:
			f = e.Root.Of.Path[0]
		default:
			fl.unknown = "`" + e.String() + "` in the elements list is neither a field of the receiver nor an element of one"
			continue
		}
		fp.carried[f] = "the elements array"
		k := types.TypeString(e.T, nil)
		if !seen[k] {
			seen[k] = true
			fl.types = append(fl.types, c05Flat{T: e.T, Pos: fl.pos, Src: e.PathString(), Field: f})
		}
	}
}

// c05TypeLiteral returns the string L such that every path of t's MarshalJSON returns the JSON string "L" and nil.
func c05TypeLiteral(p *core.Program, t types.Type) (string, token.Pos, string) {
	if c03Implements(p, t, "encoding/json", "Marshaler") == "" {
		return "", token.NoPos, c03Short(t) + " has no MarshalJSON method: the key's value is run-time data, not a fixed type name"
	}
	fi := c03FuncInfoOf(p, c03Method(t, "MarshalJSON"))
	if fi == nil {
		return "", token.NoPos, "MarshalJSON of " + c03Short(t) + " is declared outside the repository"
	}
	cx := c05NewCodec(p)
	x, paths := cx.run(fi, c05Scen{Tag: "type literal"})
	raw, have := "", false
	for _, pa := range paths {
		if x.Aborted != "" || pa.End != "return" || len(pa.Ret) != 2 {
			return "", fi.Decl.Pos(), fi.Name() + " has a path that does not return (bytes, error)"
		}
		text, isConst := c03BytesConst(pa.Ret[0])
		if !isConst || pa.St.Zero(pa.Ret[1]) != triT || len(cx.ops(pa)) > 0 {
			return "", pa.Pos, fi.Name() + " does not return a constant byte string and a nil error on every path (it returns " + pa.Ret[0].String() + ")"
		}
		if have && text != raw {
			return "", pa.Pos, fmt.Sprintf("%s returns different constants on different paths (%s, %s)", fi.Name(), raw, text)
		}
		raw, have = text, true
	}
	if !have {
		return "", fi.Decl.Pos(), fi.Name() + " has no returning path"
	}
	var s string
	if err := json.Unmarshal([]byte(raw), &s); err != nil {
		return "", fi.Decl.Pos(), fmt.Sprintf("%s returns %s, which is not a JSON string", fi.Name(), raw)
	}
	return s, fi.Decl.Pos(), ""
}

// c05TypeKeyOf returns the JSON `type` field of struct T and its literal.
func c05TypeKeyOf(p *core.Program, t types.Type) (*c03JSONField, string, token.Pos, string) {
	jf := c03JSONKey(t, "type")
	if jf == nil {
		return nil, "", token.NoPos, ""
	}
	lit, pos, why := c05TypeLiteral(p, jf.Var.Type())
	return jf, lit, pos, why
}

func c05PosOr(a, b token.Pos) token.Pos {
	if a.IsValid() {
		return a
	}
	return b
}

// c05ForkText describes the unknown conditions a path took.
func c05ForkText(r *core.R, pa *c03Path) string {
	var s []string
	seen := map[string]bool{}
	for _, e := range pa.St.Trace {
		if e.Kind == "fork" && e.Cond != nil {
			t := fmt.Sprintf("`%s` is %v", src(r.P.Fset, e.Cond), e.Taken)
			if !seen[t] && len(s) < 6 {
				seen[t] = true
				s = append(s, t)
			}
		}
	}
	if len(s) == 0 {
		return "on the only path"
	}
	return "when " + strings.Join(s, " and ")
}

// ---- J1 --------------------------------------------------------------------------------------

func c05J1(r *core.R) {
	c03Init(r)
	fl := c05FindFlattening(r)
	if fl == nil {
		return
	}
	if fl.broken != "" {
		r.Bad("flatten@OSM.MarshalJSON", fl.pos, "%s", fl.broken)
	} else if fl.unknown != "" {
		r.Unknown("flatten@OSM.MarshalJSON", fl.pos, "cannot enumerate what OSM.MarshalJSON puts into the elements array: %s", fl.unknown)
	} else {
		var names []string
		for _, t := range fl.types {
			names = append(names, c03Short(t.T))
		}
		r.OK("flatten@OSM.MarshalJSON", fl.pos, "key `elements` is fed from the receiver's fields and can hold %d type(s): %s", len(fl.types), strings.Join(names, ", "))
	}
	// every field of osm.OSM is carried into the document on every path: by a top-level key or through the elements array
	if osmNT, st := structType(c03OsmPkg(r.P), "OSM"); osmNT != nil && fl.unknown == "" {
		for i := 0; i < st.NumFields(); i++ {
			f := st.Field(i)
			if !f.Exported() {
				continue
			}
			c := "carried@OSM." + f.Name()
			how, bad := "", false
			for _, fp := range fl.paths {
				h, ok := fp.carried[f]
				if fp.nilField == f {
					continue // nil in this scenario: nothing to carry
				}
				if !ok && !bad {
					bad = true
					scen := "with every field set"
					if fp.nilField != nil {
						scen = "with OSM." + fp.nilField.Name() + " nil and every other field set"
					}
					r.Bad(c, f.Pos(), "%s, OSM.%s (%s) is written neither under a top-level key nor into the elements array by OSM.MarshalJSON (%s): it is silently lost over a JSON round trip", scen, f.Name(), c03Short(f.Type()), c05ForkText(r, fp.path))
				}
				how = h
			}
			if !bad {
				r.OK(c, f.Pos(), "written through %s on every path", how)
			}
		}
	}
	for _, t := range fl.types {
		T := c03Deref(t.T)
		c := "type@" + c03TypeName(T)
		if _, isStruct := T.Underlying().(*types.Struct); !isStruct {
			r.Unknown(c, t.Pos, "`%s` appends a %s, not a (pointer to a) struct", t.Src, c03Short(t.T))
			continue
		}
		jf, lit, pos, why := c05TypeKeyOf(r.P, T)
		switch {
		case jf == nil:
			r.Bad(c, t.Pos, "`%s` puts a %s into the elements array but %s has no field with JSON key `type`: the element is written without its type (osmjson requires one per element) and OSM.UnmarshalJSON rejects the document (\"could not find type\")", t.Src, c03Short(t.T), c03Short(T))
		case why != "":
			r.Bad(c, c05PosOr(pos, jf.Var.Pos()), "the `type` key of %s is carried by field %s, but %s", c03Short(T), jf.Var.Name(), why)
		case c03Implements(r.P, jf.Var.Type(), "encoding/json", "Marshaler") == "pointer":
			r.Bad(c, jf.Var.Pos(), "MarshalJSON of %s has a pointer receiver: it is not used for the non-addressable field value, the key is written as the raw struct", c03Short(jf.Var.Type()))
		default:
			r.OK(c, pos, "%s.%s carries JSON key `type`; every path of %s.MarshalJSON returns the literal %q", c03Short(T), jf.Var.Name(), c03Short(jf.Var.Type()), lit)
		}
	}
}
