package rules

import (
	"strings"

	"osmcheck/core"
)

// c18Seed builds a mutant that first rewrites a region into one of the refactored shapes above and then
// seeds a defect (old -> new) into that shape: the generalised rules must stay sensitive in the shapes they accept.
func c18Seed(name, find, shape, old, new, rule, construct string) core.Mutant {
	rep := strings.Replace(shape, old, new, 1)
	if rep == shape {
		panic("c18 shape mutant " + name + ": anchor absent in the shape")
	}
	return core.Mutant{Name: name, File: "polygon.go", Find: find, Replace: rep, ExpectRule: rule, ExpectConstruct: construct}
}

// c18ShapeMutants: defects seeded into refactored shapes (helpers, flag+break, index loops, pointer aliases).
func c18ShapeMutants() []core.Mutant {
	whole := c18SrcPrefix + "\n" + c18SrcLoop
	return []core.Mutant{
		c18Seed("helpers-blacklist-not-negated", whole, c18ShapeHelpers, "return !inSorted(pc.Values, val)", "return inSorted(pc.Values, val)", "L3", "branch blacklist"),
		c18Seed("helpers-no-bound", whole, c18ShapeHelpers, "return at < len(list) && list[at] == s", "return list[at] == s", "L3", "branch whitelist"),
		c18Seed("helpers-wrong-needle", whole, c18ShapeHelpers, "return inSorted(pc.Values, val)", "return inSorted(pc.Values, pc.Key)", "L2", "search@"),
		c18Seed("helpers-skip-no-dropped", whole, c18ShapeHelpers, `if val == "" || val == "no" {`, `if val == "" {`, "L3", "skip"),
		c18Seed("helpers-ring-uses-visible", whole, c18ShapeHelpers, "if len(w.Nodes) <= 3 {", "if len(w.Nodes) <= 3 || !w.Visible {", "L3", "tags"),
		c18Seed("helpers-ring-compares-second", whole, c18ShapeHelpers, "return w.Nodes[0].ID == w.Nodes[len(w.Nodes)-1].ID", "return w.Nodes[1].ID == w.Nodes[len(w.Nodes)-1].ID", "L3", "closed"),
		c18Seed("helpers-area-by-presence", whole, c18ShapeHelpers, "\tswitch w.Tags.Find(\"area\") {\n\tcase \"no\":\n\t\treturn false\n\tcase \"\":\n\tdefault:\n\t\treturn true\n\t}\n",
			"\tif t := w.Tags.FindTag(\"area\"); t != nil {\n\t\treturn t.Value != \"no\"\n\t}\n", "L3", "area"),
		c18Seed("helpers-return-on-blacklisted", whole, c18ShapeHelpers, "\t\tif rule.accepts(w.Tags.Find(rule.Key)) {\n",
			"\t\tif rule.Condition == conditionBlacklist && w.Tags.Find(rule.Key) != \"\" {\n\t\t\treturn rule.accepts(w.Tags.Find(rule.Key))\n\t\t}\n\t\tif rule.accepts(w.Tags.Find(rule.Key)) {\n", "L3", "branch blacklist"),
		c18Seed("helpers-extra-key-shortcut", whole, c18ShapeHelpers, "\treturn w.matchesPolygonFeature()\n", "\tif w.Tags.Find(\"highway\") != \"\" {\n\t\treturn false\n\t}\n\treturn w.matchesPolygonFeature()\n", "L3", "area absent"),
		c18Seed("flag-loop-carried-state", c18SrcLoop, c18ShapeFlag, "\t\tif v == \"\" || v == \"no\" {\n", "\t\tif v == \"no\" {\n\t\t\tisArea = true\n\t\t}\n\t\tif v == \"\" || v == \"no\" {\n", "L3", "skip"),
		c18Seed("flag-break-without-match", c18SrcLoop, c18ShapeFlag, "\t\tif matched {\n\t\t\tisArea = true\n\t\t\tbreak\n\t\t}\n", "\t\tif matched {\n\t\t\tisArea = true\n\t\t}\n\t\tbreak\n", "L3", "branch"),
		c18Seed("index-loop-from-1", c18SrcLoop, c18ShapeIndexLoop, "for i := 0; i < len(polyConditions); i++ {", "for i := 1; i < len(polyConditions); i++ {", "L3", "area absent"),
		c18Seed("index-loop-step-2", c18SrcLoop, c18ShapeIndexLoop, "for i := 0; i < len(polyConditions); i++ {", "for i := 0; i < len(polyConditions); i += 2 {", "L3", "area absent"),
		c18Seed("index-loop-other-entry", c18SrcLoop, c18ShapeIndexLoop, "c := polyConditions[i]", "c := polyConditions[len(polyConditions)-1-i]", "L3", "skip"),
		c18Seed("closure-blacklist-and-listed", c18SrcLoop, c18ShapeIndexLoop, "c.Condition == conditionBlacklist && !listed()", "c.Condition == conditionBlacklist && listed()", "L3", "branch blacklist"),
		c18Seed("tuple-helper-area-empty-true", c18SrcWayPolygon, c18ShapeNamedResultTuples, "\t\treturn false, false\n", "\t\treturn true, false\n", "L3", "branch all"),
		c18Seed("table-method-loop-depends-on-node-count", c18SrcPolygonToTable, c18ShapeTableTypeMethods, "\treturn polyConditions.match(w.Tags)\n", "\tif n := len(w.Nodes); n > 3 {\n\t\tfor _, c := range polyConditions {\n\t\t\tif n == 4 && w.Tags.Find(c.Key) != \"\" {\n\t\t\t\treturn true\n\t\t\t}\n\t\t}\n\t}\n\treturn false\n", "L3", "skip"),
		c18Seed("table-method-sorts-copy-of-table", c18SrcPolygonToTable, c18ShapeTableTypeMethods, "\tfor i := range l {\n\t\tsort.Strings(l[i].Values)\n\t}\n", "\tl = append(polyConditionList(nil), l...)\n\tfor i := range l {\n\t\tl[i].Values = append([]string(nil), l[i].Values...)\n\t\tsort.Strings(l[i].Values)\n\t}\n", "L2", "sorted@"),
		c18Seed("alias-entry-written", whole, c18ShapeAlias, "\t\tvals := c.Values\n", "\t\tvals := c.Values\n\t\tc.Values = vals[:len(vals):len(vals)]\n\t\tc.Condition = conditionAll\n", "L2", "immutable@"),
		c18Seed("alias-compares-whole-nodes", whole, c18ShapeAlias, "if first.ID != last.ID {", "if first != last {", "L3", "closed"),
		c18Seed("init-helper-sorts-copy", c18SrcInit, c18ShapeInitHelpers, "func sortStrings(list []string) { sort.Strings(list) }", "func sortStrings(list []string) {\n\tlist = append([]string(nil), list...)\n\tsort.Strings(list)\n}", "L2", "sorted@"),
		c18Seed("init-index-loop-from-1", c18SrcInit, c18ShapeInitHelpers, "for i := 0; i < len(polyConditions); i++ {", "for i := 1; i < len(polyConditions); i++ {", "L2", "sorted@"),
		c18Seed("init-helper-early-return", c18SrcInit, c18ShapeInitHelpers, "func sortConditionValues() {\n", "func sortConditionValues() {\n\tif len(polyConditions) > 16 {\n\t\treturn\n\t}\n", "L2", "sorted@"),
		c18Seed("init-sort-before-decode", c18SrcInit, c18ShapeInitHelpers, "\tmustDecode(polygonJSON, &polyConditions)\n\tsortConditionValues()\n", "\tsortConditionValues()\n\tmustDecode(polygonJSON, &polyConditions)\n", "L2", "sorted@"),
		c18Seed("init-method-sorts-some", c18SrcInit, c18ShapeInitMethod, "\tif len(vals) < 2 {\n\t\tsort.Strings(vals)\n\t\treturn\n\t}\n", "\tif len(vals) < 5 {\n\t\treturn\n\t}\n", "L2", "sorted@"),
		c18Seed("init-loop-break", c18SrcInit, c18ShapeInitMethod, "\t\tpc.sortValues()\n", "\t\tpc.sortValues()\n\t\tif pc.Key == \"golf\" {\n\t\t\tbreak\n\t\t}\n", "L2", "sorted@"),
	}
}
