package rules

import "osmcheck/core"

// More behaviour-preserving variants for C01 (see c01_benign.go).
var c01Benign2 = []core.Mutant{
	// renamed local + value read into a local once
	{Name: "lat-through-local", File: c01DD,
		Find:    "\t\tlat += v8\n\t\tn.Lat = 1e-9 * float64(latOffset+(granularity*lat))\n",
		Replace: "\t\tlat += v8\n\t\tscaledLat := latOffset + (granularity * lat)\n\t\tn.Lat = 1e-9 * float64(scaledLat)\n"},
	// named constant instead of a literal
	{Name: "lon-named-constant", File: c01DD,
		Find:    "\t\tn.Lon = 1e-9 * float64(lonOffset+(granularity*lon))\n",
		Replace: "\t\tconst degreesPerUnit = 1e-9\n\t\tn.Lon = degreesPerUnit * float64(lonOffset+(granularity*lon))\n"},
	// `x := f(); if x != nil` -> `if x := f(); x != nil`
	{Name: "stringtable-unmarshal-if-init", File: c01DD,
		Find:    "\t\t\terr = proto.Unmarshal(d, dec.primitiveBlock.Stringtable)\n\t\t\tif err != nil {\n\t\t\t\treturn err\n\t\t\t}\n",
		Replace: "\t\t\tif err := proto.Unmarshal(d, dec.primitiveBlock.Stringtable); err != nil {\n\t\t\t\treturn err\n\t\t\t}\n"},
	// reordered independent statements
	{Name: "found-flag-before-iterator", File: c01DD,
		Find:    "\t\t\tdec.lats, err = msg.Iterator(dec.lats)\n\t\t\tfoundLats = true\n",
		Replace: "\t\t\tfoundLats = true\n\t\t\tdec.lats, err = msg.Iterator(dec.lats)\n"},
	// split guard
	{Name: "way-tags-guard-split", File: c01DD,
		Find:    "\tif foundKeys && foundVals {\n\t\tvar err error\n\t\tway.Tags, err = scanTags(st, dec.keys, dec.vals)\n\t\tif err != nil {\n\t\t\treturn nil, err\n\t\t}\n\t}\n",
		Replace: "\tif foundKeys {\n\t\tif foundVals {\n\t\t\ttags, err := scanTags(st, dec.keys, dec.vals)\n\t\t\tif err != nil {\n\t\t\t\treturn nil, err\n\t\t\t}\n\t\t\tway.Tags = tags\n\t\t}\n\t}\n"},
	// extract helper: the reset of the dense info iterators moves into a method, the guard is inverted with an early path
	{Name: "extract-clear-info", File: c01DD,
		Find:    "\tif !foundInfo {\n\t\tdec.versions = nil\n\t\tdec.timestamps = nil\n\t\tdec.changesets = nil\n\t\tdec.uids = nil\n\t\tdec.usids = nil\n\t\tdec.visibles = nil\n\t}\n\n\treturn dec.extractDenseNodes()\n}\n",
		Replace: "\tif foundInfo {\n\t\treturn dec.extractDenseNodes()\n\t}\n\n\tdec.forgetInfoColumns()\n\treturn dec.extractDenseNodes()\n}\n\nfunc (dec *dataDecoder) forgetInfoColumns() {\n\tdec.versions, dec.timestamps, dec.changesets = nil, nil, nil\n\tdec.uids, dec.usids = nil, nil\n\tdec.visibles = nil\n}\n"},
	// moved function (order of two declarations swapped) + named constant
	{Name: "moved-stringat", File: c01DD,
		Find:    "// stringAt looks up an index read from the file in the block's string table.\nfunc stringAt(st []string, i int64) (string, error) {\n\tif i < 0 || i >= int64(len(st)) {\n\t\treturn \"\", errStringTableIndex\n\t}\n\treturn st[i], nil\n}\n\nfunc (dec *dataDecoder) Decode(blob *osmpbf.Blob) ([]osm.Object, error) {\n\tdec.q = make([]osm.Object, 0, 8000) // typical PrimitiveBlock contains 8k OSM entities\n\n\tvar err error\n\tdec.data, err = getData(blob, dec.data)\n\tif err != nil {\n\t\treturn nil, err\n\t}\n\n\terr = dec.scanPrimitiveBlock(dec.data)\n\tif err != nil {\n\t\treturn nil, err\n\t}\n\treturn dec.q, nil\n}\n",
		Replace: "const typicalBlock = 8000\n\nfunc (dec *dataDecoder) Decode(blob *osmpbf.Blob) ([]osm.Object, error) {\n\tdec.q = make([]osm.Object, 0, typicalBlock)\n\n\tdata, err := getData(blob, dec.data)\n\tdec.data = data\n\tif err != nil {\n\t\treturn nil, err\n\t}\n\n\tif err := dec.scanPrimitiveBlock(data); err != nil {\n\t\treturn nil, err\n\t}\n\treturn dec.q, nil\n}\n\n// stringAt looks up an index read from the file in the block's string table.\nfunc stringAt(st []string, i int64) (string, error) {\n\tif i < 0 || i >= int64(len(st)) {\n\t\treturn \"\", errStringTableIndex\n\t}\n\treturn st[i], nil\n}\n"},
	// member type decided by an if chain instead of a switch
	{Name: "member-type-if-chain", File: c01DD,
		Find:    "\t\tswitch osmpbf.Relation_MemberType(t) {\n\t\tcase osmpbf.Relation_NODE:\n\t\t\tmembers[index].Type = osm.TypeNode\n\t\tcase osmpbf.Relation_WAY:\n\t\t\tmembers[index].Type = osm.TypeWay\n\t\tcase osmpbf.Relation_RELATION:\n\t\t\tmembers[index].Type = osm.TypeRelation\n\t\t}\n",
		Replace: "\t\tif mt := osmpbf.Relation_MemberType(t); mt == osmpbf.Relation_NODE {\n\t\t\tmembers[index].Type = osm.TypeNode\n\t\t} else if mt == osmpbf.Relation_WAY {\n\t\t\tmembers[index].Type = osm.TypeWay\n\t\t} else if mt == osmpbf.Relation_RELATION {\n\t\t\tmembers[index].Type = osm.TypeRelation\n\t\t}\n"},
	// the string table is replaced by a fresh one instead of being truncated (same observable decoding)
	{Name: "fresh-stringtable", File: c01DD,
		Find:    "\t\tdec.primitiveBlock.Stringtable.S = dec.primitiveBlock.Stringtable.S[:0]\n",
		Replace: "\t\tdec.primitiveBlock.Stringtable = &osmpbf.StringTable{}\n"},
	// header: getter read into a local once and reused; bounds through a named constant
	{Name: "header-required-features-local", File: "osmpbf/decode.go",
		Find:    "\t\tRequiredFeatures:   headerBlock.GetRequiredFeatures(),\n",
		Replace: "\t\tRequiredFeatures:   requiredFeatures,\n"},
}
