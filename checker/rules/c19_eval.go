package rules

// c19_eval.go — C19.M3 (planet layout), M4 (changeset off-by-one), M5 (the four lookups serve their
// own kind), decided by evaluating the functions concerned (c19_interp.go) over their finite
// abstract input domain and comparing what they compute with tables/replication.json:
//
//	kind ∈ {Minute, Hour, Day, Changeset}SeqNum × sequence number ∈ {0 (current), a few numbers
//	with distinct digit groups} × HTTP status ∈ {200, 404, other} × error ∈ {nil, status error with
//	code c, another error}.
//
// Every obligation is keyed on an exported function of package replication or on a table entry, so
// that moving code between helpers neither changes the keys nor the number of obligations.

import (
	"fmt"
	"go/ast"
	"go/token"
	"go/types"
	"sort"
	"strings"
	"time"

	"osmcheck/core"
)

// c19Samples are the sequence numbers the URL builders are evaluated on: small ones (zero padding),
// group boundaries, and numbers whose three digit groups are pairwise different (a wrong divisor or
// modulus shows), and two numbers of 10^9 and more: the layout table puts everything above the two low groups
// into the top level ({n/10^6:03d}, at least three digits), it does not wrap.
var c19Samples = []uint64{1, 12, 999, 1000, 54321, 999999, 1000000, 2010580, 123456789, 987654321, 1000000000, 4294967295}

// c19Base is the base URL of the abstract datasource a method is evaluated on, c19DefaultBase that of the
// package-level default datasource: a lookup that reads through the wrong one shows in the URL.
const (
	c19Base        = "{base}"
	c19DefaultBase = "{default}"
)

func (t *c19Table) numberedURL(base, dir string, n uint64, suffix string) string {
	args := []interface{}{base, dir}
	mod := uint64(c19Pow10(t.SeqPath.Digits))
	for k := 0; k < t.SeqPath.Levels; k++ {
		d := uint64(c19Pow10(t.SeqPath.Digits * (t.SeqPath.Levels - 1 - k)))
		if k == 0 {
			args = append(args, n/d) // the top level takes all the remaining digits
		} else {
			args = append(args, (n/d)%mod)
		}
	}
	return fmt.Sprintf(t.SeqPath.Format, args...) + suffix
}

func (t *c19Table) currentURL(base, dir, family string) string {
	f := strings.Replace(t.CurrentStateFormat, "{name}", t.Families[family].CurrentState, 1)
	return fmt.Sprintf(f, base, dir)
}

func c19Pow10(n int) int64 {
	v := int64(1)
	for i := 0; i < n; i++ {
		v *= 10
	}
	return v
}

// ---------------------------------------------------------------- abstract inputs

// newDS builds the abstract datasource: base URL "{base}", every pointer field set to some non-nil value.
func (m *c19Model) newDS(in *c19Interp, base string) c19Ptr {
	obj := &c19Obj{typ: m.dsT, fields: map[*types.Var]c19Value{}, tag: "datasource "}
	st := m.dsT.Underlying().(*types.Struct)
	for i := 0; i < st.NumFields(); i++ {
		f := st.Field(i)
		switch u := f.Type().Underlying().(type) {
		case *types.Basic:
			if u.Info()&types.IsString != 0 {
				obj.fields[f] = c19Const{v: c19Str(base).v, typ: f.Type()}
			}
		case *types.Pointer, *types.Interface:
			o := in.opaque(f.Type(), "datasource."+f.Name())
			o.nonNil = true
			obj.fields[f] = o
		}
	}
	return c19Ptr{obj: obj}
}

// dsGlobals makes every package-level *Datasource variable (DefaultDatasource) the abstract datasource.
func (m *c19Model) dsGlobals(in *c19Interp) {
	if in.hooks.globals == nil {
		in.hooks.globals = map[types.Object]c19Value{}
	}
	sc := m.pk.Types.Scope()
	for _, n := range sc.Names() {
		if v, ok := sc.Lookup(n).(*types.Var); ok && namedPath(v.Type()) == namedPath(m.dsT) {
			if _, isPtr := v.Type().(*types.Pointer); isPtr {
				in.hooks.globals[v] = m.newDS(in, c19DefaultBase)
			} else {
				in.hooks.globals[v] = m.newDS(in, c19DefaultBase).obj
			}
		}
	}
}

func c19IsRequestCall(name string) bool {
	switch name {
	case "net/http.NewRequest", "net/http.NewRequestWithContext", "net/http.Get", "(*net/http.Client).Get", "net/http.Head", "(*net/http.Client).Head":
		return true
	}
	return false
}

// requestArgs extracts (url, method) from the arguments of a request-building call.
func c19RequestArgs(name string, args []c19Value) (c19Value, c19Value) {
	switch name {
	case "net/http.NewRequest", "net/http.NewRequestWithContext":
		if len(args) >= 3 {
			return args[len(args)-2], args[len(args)-3]
		}
	default:
		if len(args) >= 1 {
			return args[0], c19Str("GET")
		}
	}
	return nil, nil
}

// stopAtRequest ends a path at the first HTTP request it builds, recording its URL.
func c19StopAtRequest(in *c19Interp, fn *types.Func, recv c19Value, args []c19Value, call *ast.CallExpr) (c19Value, bool) {
	if name := c19FullName(fn); c19IsRequestCall(name) {
		u, meth := c19RequestArgs(name, args)
		pos := token.NoPos
		if call != nil {
			pos = call.Pos()
		}
		in.event("request", pos, u, meth)
		panic(c19Abort{done: true})
	}
	return nil, false
}

// requestedURLs evaluates run and returns the set of URLs of the first request of every path, plus
// what went wrong on paths that made none.
func (m *c19Model) requestedURLs(run func(in *c19Interp) c19Value) (urls []string, problems []string) {
	paths, complete := c19Explore(m, c19Hooks{onCall: c19StopAtRequest}, func(in *c19Interp) c19Value {
		m.dsGlobals(in)
		return run(in)
	})
	if !complete {
		problems = append(problems, "more paths than the evaluation explores")
	}
	seen := map[string]bool{}
	for _, p := range paths {
		var req *c19Event
		for i := range p.events {
			if p.events[i].kind == "request" {
				req = &p.events[i]
			}
		}
		switch {
		case req != nil:
			u, ok := c19AsString(req.args[0])
			if !ok {
				problems = append(problems, fmt.Sprintf("the URL requested at %s is %s, which is not built from constants, the base URL, Dir() and the sequence number alone", m.rel(req.pos), c19Show(req.args[0])))
				continue
			}
			if !seen[u] {
				seen[u] = true
				urls = append(urls, u)
			}
		case p.aborted != "":
			problems = append(problems, "not evaluated: "+p.aborted)
		case p.panics:
			problems = append(problems, "panics before any request")
		default:
			problems = append(problems, "returns "+c19Show(p.ret)+" without making a request")
		}
	}
	sort.Strings(urls)
	return
}

func (m *c19Model) kindValue(k *types.Named, n uint64) c19Const { return c19Uint(n, k) }

// callMethod evaluates an exported Datasource method on the abstract datasource.
func (m *c19Model) callMethod(in *c19Interp, dm *c19DSMethod, ds c19Ptr, n uint64) c19Value {
	ctx := in.opaque(dm.fi.Obj.Type().(*types.Signature).Params().At(0).Type(), "ctx")
	args := []c19Value{ctx}
	if dm.role == "state" || dm.role == "data" {
		args = append(args, m.kindValue(dm.kind, n))
	}
	return in.callFunc(dm.fi, ds, args)
}

// ---------------------------------------------------------------- M3

func c19M3(r *core.R) {
	m := c19BuildModel(r)
	t := c19LoadTable(r)
	if m == nil || t == nil {
		return
	}
	// (a) URL requested by every exported fetcher
	for _, dm := range m.methods {
		if dm.role != "current" && dm.role != "state" && dm.role != "data" {
			continue
		}
		c := fmt.Sprintf("url@%s [%s]", dm.fi.Name(), dm.role)
		k, ok := t.Kinds[dm.kind.Obj().Name()]
		if !ok {
			r.Unknown(c, dm.fi.Decl.Pos(), "sequence-number type %s is not in tables/replication.json", dm.kind.Obj().Name())
			continue
		}
		fam := t.Families[k.Family]
		type want struct {
			n   uint64
			url string
		}
		var wants []want
		switch dm.role {
		case "current":
			wants = []want{{0, t.currentURL(c19Base, k.Dir, k.Family)}}
		case "state":
			for _, n := range c19Samples {
				wants = append(wants, want{n, t.numberedURL(c19Base, k.Dir, n, fam.StateSuffix)})
			}
		case "data":
			for _, n := range c19Samples {
				wants = append(wants, want{n, t.numberedURL(c19Base, k.Dir, n, fam.DataSuffix)})
			}
		}
		bad, unknown := "", ""
		for _, w := range wants {
			dm, w := dm, w
			urls, problems := m.requestedURLs(func(in *c19Interp) c19Value { return m.callMethod(in, dm, m.newDS(in, c19Base), w.n) })
			arg := ""
			if dm.role != "current" {
				arg = fmt.Sprintf("ctx, %d", w.n)
			} else {
				arg = "ctx"
			}
			switch {
			case len(problems) > 0:
				if unknown == "" {
					unknown = fmt.Sprintf("%s(%s): %s", dm.fi.Obj.Name(), arg, strings.Join(problems, "; "))
				}
			case len(urls) != 1 || urls[0] != w.url:
				if bad == "" {
					bad = fmt.Sprintf("%s(%s) on a datasource with base URL %s requests %s; the planet server serves the %s %s file at %s", dm.fi.Obj.Name(), arg, c19Base, strings.Join(urls, " / "), k.Family, dm.role, w.url)
				}
			}
		}
		switch {
		case bad != "":
			r.Bad(c, dm.fi.Decl.Pos(), "%s (tables/replication.json: format %q with the decimal digit groups of the sequence number, suffix per file kind, current-state file %q for sequence number 0)", bad, t.SeqPath.Format, fam.CurrentState)
		case unknown != "":
			r.Unknown(c, dm.fi.Decl.Pos(), "%s", unknown)
		case dm.role == "current":
			r.OK(c, dm.fi.Decl.Pos(), "evaluated on the abstract datasource: the first request goes to %s, the current-state file of family %s", wants[0].url, k.Family)
		default:
			r.OK(c, dm.fi.Decl.Pos(), "evaluated for %d sequence numbers (zero padding, group boundaries, distinct digit groups): the first request goes to the table's URL, e.g. %s", len(wants), wants[7].url)
		}
	}

	// (b) Dir() values
	var kn []string
	for k := range t.Kinds {
		kn = append(kn, k)
	}
	sort.Strings(kn)
	for _, name := range kn {
		c := "dir@" + name
		nt := m.kinds[name]
		if nt == nil {
			r.Anchor(c19Pkg + "." + name + ".Dir")
			continue
		}
		obj, _, _ := types.LookupFieldOrMethod(nt, true, m.pk.Types, "Dir")
		fn, _ := obj.(*types.Func)
		fi := m.funcs[fn]
		if fn == nil || fi == nil {
			r.Anchor(c19Pkg + "." + name + ".Dir")
			continue
		}
		vals := map[string]bool{}
		trouble := ""
		for _, n := range []uint64{0, 1, 2010580} {
			n := n
			paths, _ := c19Explore(m, c19Hooks{}, func(in *c19Interp) c19Value { return in.callFunc(fi, m.kindValue(nt, n), nil) })
			for _, p := range paths {
				if s, ok := c19AsString(p.ret); ok {
					vals[s] = true
				} else {
					trouble = "Dir() returns " + c19Show(p.ret) + " " + p.aborted
				}
			}
		}
		var vs []string
		for v := range vals {
			vs = append(vs, v)
		}
		sort.Strings(vs)
		switch {
		case trouble != "":
			r.Unknown(c, fi.Decl.Pos(), "%s: not a constant string", trouble)
		case len(vs) != 1 || vs[0] != t.Kinds[name].Dir:
			r.Bad(c, fi.Decl.Pos(), "%s.Dir() returns %q; the planet directory is %q", name, strings.Join(vs, " / "), t.Kinds[name].Dir)
		default:
			r.OKTrivial(c, fi.Decl.Pos(), "%s.Dir() = %q", name, vs[0])
		}
	}

	c19M3Time(r, m, t)
	c19M3NotFound(r, m, t)
	c19M3Status(r, m, t)
}

// c19M3Time: the function the state decoders use to read a timestamp, evaluated on the planet's
// timestamp forms (table), must return the instant the text denotes.
func c19M3Time(r *core.R, m *c19Model, t *c19Table) {
	info := m.info
	stateReach := map[*types.Func]*FuncInfo{}
	for _, dm := range m.methods {
		if dm.role == "state" {
			for f, fi := range c19Reach(m.pk, m.funcs, dm.fi.Obj) {
				stateReach[f] = fi
			}
		}
	}
	callsParse := func(fi *FuncInfo) bool {
		found := false
		for _, g := range c19Reach(m.pk, m.funcs, fi.Obj) {
			ast.Inspect(g.Decl.Body, func(n ast.Node) bool {
				if call, ok := n.(*ast.CallExpr); ok && isPkgFunc(callee(info, call), "time", "Parse") {
					found = true
				}
				return !found
			})
		}
		return found
	}
	var cands []*FuncInfo
	for _, fi := range c19SortedFuncs(stateReach) {
		sig := fi.Obj.Type().(*types.Signature)
		if sig.Recv() == nil && sig.Params().Len() == 1 && sig.Results().Len() == 2 && c19IsStringT(sig.Params().At(0).Type()) &&
			namedPath(sig.Results().At(0).Type()) == "time.Time" && c19IsError(sig.Results().At(1).Type()) && callsParse(fi) {
			cands = append(cands, fi)
		}
	}
	// keep the outermost ones (a candidate called by another candidate is its helper)
	var top []*FuncInfo
	for _, c := range cands {
		inner := false
		for _, d := range cands {
			if d != c && c19Reach(m.pk, m.funcs, d.Obj)[c.Obj] != nil {
				inner = true
			}
		}
		if !inner {
			top = append(top, c)
		}
	}
	if len(top) != 1 {
		r.Anchor(fmt.Sprintf("the function func(string) (time.Time, error) through which the state decoders call time.Parse (found %d)", len(top)))
		return
	}
	fi := top[0]
	r.Stat("time_decoder", 1)
	for _, ex := range t.Timestamps {
		ex := ex
		c := "time " + ex.Family + " " + ex.Text
		want, err := time.Parse(time.RFC3339Nano, ex.Instant)
		if err != nil {
			r.Anchor("table timestamps instant " + ex.Instant)
			continue
		}
		paths, _ := c19Explore(m, c19Hooks{}, func(in *c19Interp) c19Value { return in.callFunc(fi, nil, []c19Value{c19Str(ex.Text)}) })
		bad, unknown := "", ""
		for _, p := range paths {
			tup, _ := p.ret.(c19Tuple)
			switch {
			case p.aborted != "" || p.panics || len(tup) != 2:
				unknown = fmt.Sprintf("%s(%q) could not be evaluated: %s %s", fi.Name(), ex.Text, p.aborted, strings.Join(p.notes, "; "))
			case p.forks > 0:
				unknown = fmt.Sprintf("%s(%q) branches on something other than its argument and constant layouts", fi.Name(), ex.Text)
			default:
				tv, isTime := tup[0].(c19Time)
				_, nilErr := tup[1].(c19Nil)
				switch {
				case !nilErr:
					bad = fmt.Sprintf("%s(%q) returns the error %s: no layout accepts the planet's %s state timestamp (escaped colons / fractional seconds), every such state file fails to decode and the lookup aborts", fi.Name(), ex.Text, c19Show(tup[1]), ex.Family)
				case !isTime:
					unknown = fmt.Sprintf("%s(%q) returns %s, not the result of time.Parse", fi.Name(), ex.Text, c19Show(tup[0]))
				case !tv.t.Equal(want):
					bad = fmt.Sprintf("%s(%q) returns %s instead of %s", fi.Name(), ex.Text, c19Show(tv), want.UTC().Format(time.RFC3339Nano))
				}
			}
		}
		switch {
		case bad != "":
			r.Bad(c, fi.Decl.Pos(), "%s", bad)
		case unknown != "" || len(paths) == 0:
			r.Unknown(c, fi.Decl.Pos(), "%s", unknown)
		default:
			r.OK(c, fi.Decl.Pos(), "%s(%q), evaluated with the library's constant layouts, returns %s without error", fi.Name(), ex.Text, want.UTC().Format(time.RFC3339Nano))
		}
	}
}

func c19IsStringT(t types.Type) bool {
	b, ok := t.Underlying().(*types.Basic)
	return ok && b.Info()&types.IsString != 0
}

// errValue builds an abstract error: kind "nil", "status" (an *UnexpectedStatusCodeError with Code c), "other".
func (m *c19Model) errValue(kind string, code int64) c19Value {
	switch kind {
	case "nil":
		return c19Nil{}
	case "status":
		obj := &c19Obj{typ: m.errT, fields: map[*types.Var]c19Value{}, tag: fmt.Sprintf("status %d ", code)}
		obj.fields[m.codeFld] = c19Const{v: c19Uint(uint64(code), nil).v, typ: m.codeFld.Type()}
		return c19Ptr{obj: obj}
	}
	other := types.NewNamed(types.NewTypeName(token.NoPos, m.pk.Types, "someOtherError", nil), types.NewStruct(nil, nil), nil)
	return c19Ptr{obj: &c19Obj{typ: other, fields: map[*types.Var]c19Value{}, tag: "other error "}}
}

// notFoundOf evaluates NotFound(err): the set of answers over all paths ("true", "false", or a description).
func (m *c19Model) notFoundOf(errv c19Value) (answers []string, decided bool) {
	paths, complete := c19Explore(m, c19Hooks{}, func(in *c19Interp) c19Value { return in.callFunc(m.notFound, nil, []c19Value{errv}) })
	decided = complete
	seen := map[string]bool{}
	for _, p := range paths {
		a := ""
		switch {
		case p.panics:
			a = "panic"
		case p.aborted != "":
			a, decided = "?("+p.aborted+")", false
		default:
			c, ok := p.ret.(c19Const)
			if !ok {
				a, decided = "?("+c19Show(p.ret)+")", false
			} else {
				a = c.v.String()
			}
		}
		if p.forks > 0 {
			decided = false
		}
		if !seen[a] {
			seen[a] = true
			answers = append(answers, a)
		}
	}
	sort.Strings(answers)
	return
}

// c19M3NotFound: NotFound(err) is true exactly for a status error with the table's not-found code.
func c19M3NotFound(r *core.R, m *c19Model, t *c19Table) {
	if m.notFound == nil || m.errT == nil || m.codeFld == nil {
		r.Anchor(c19Pkg + ".NotFound / UnexpectedStatusCodeError.Code")
		return
	}
	c := "notfound decision"
	type in struct {
		name string
		v    c19Value
		want string
	}
	inputs := []in{{"nil", m.errValue("nil", 0), "false"}, {"an error of another type", m.errValue("other", 0), "false"},
		{fmt.Sprintf("a status error with code %d", t.NotFoundStatus), m.errValue("status", t.NotFoundStatus), "true"}}
	for _, code := range []int64{0, t.OKStatus, 301, 403, 410, 500, 503} {
		if code != t.NotFoundStatus {
			inputs = append(inputs, in{fmt.Sprintf("a status error with code %d", code), m.errValue("status", code), "false"})
		}
	}
	bad, unknown := "", ""
	for _, x := range inputs {
		ans, decided := m.notFoundOf(x.v)
		got := strings.Join(ans, " / ")
		switch {
		case got == x.want && decided:
		case !decided:
			if unknown == "" {
				unknown = fmt.Sprintf("NotFound(%s) could not be decided (answers %s): it depends on something other than the error's type and status code", x.name, got)
			}
		case bad == "":
			if x.want == "true" {
				bad = fmt.Sprintf("NotFound(%s) answers %s: a missing state file aborts the search instead of being stepped over", x.name, got)
			} else {
				bad = fmt.Sprintf("NotFound(%s) answers %s: only status %d means the state file does not exist; this error is then treated as a missing file and stepped over instead of aborting the search", x.name, got, t.NotFoundStatus)
			}
		}
	}
	switch {
	case bad != "":
		r.Bad(c, m.notFound.Decl.Pos(), "%s", bad)
	case unknown != "":
		r.Unknown(c, m.notFound.Decl.Pos(), "%s", unknown)
	default:
		r.OK(c, m.notFound.Decl.Pos(), "evaluated on %d abstract errors (nil, another error type, status errors with %d and %d other codes): true exactly for status %d", len(inputs), t.NotFoundStatus, len(inputs)-3, t.NotFoundStatus)
	}
}

// doHook answers the HTTP exchange: the transport either fails (an opaque error) or delivers a
// response with the given status.
func (m *c19Model) doHook(status int64) func(in *c19Interp, fn *types.Func, recv c19Value, args []c19Value, call *ast.CallExpr) (c19Value, bool) {
	return func(in *c19Interp, fn *types.Func, recv c19Value, args []c19Value, call *ast.CallExpr) (c19Value, bool) {
		name := c19FullName(fn)
		switch name {
		case "(*net/http.Client).Do", "net/http.Get", "(*net/http.Client).Get":
		default:
			return nil, false
		}
		sig := fn.Type().(*types.Signature)
		if sig.Results().Len() != 2 {
			return nil, false
		}
		if !in.decide() {
			e := in.opaque(sig.Results().At(1).Type(), "transport error")
			e.nonNil = true
			return c19Tuple{c19Nil{}, e}, true
		}
		in.event("response", token.NoPos)
		rt := sig.Results().At(0).Type()
		if p, ok := rt.(*types.Pointer); ok {
			rt = p.Elem()
		}
		obj := &c19Obj{typ: rt, fields: map[*types.Var]c19Value{}, tag: fmt.Sprintf("response %d ", status)}
		if st, ok := rt.Underlying().(*types.Struct); ok {
			for i := 0; i < st.NumFields(); i++ {
				f := st.Field(i)
				switch f.Name() {
				case "StatusCode":
					obj.fields[f] = c19Const{v: c19Uint(uint64(status), nil).v, typ: f.Type()}
				case "Body":
					b := in.opaque(f.Type(), "response body")
					b.nonNil = true
					obj.fields[f] = b
				}
			}
		}
		return c19Tuple{c19Ptr{obj: obj}, c19Nil{}}, true
	}
}

func c19HasEvent(p c19Path, kind string) bool {
	for _, e := range p.events {
		if e.kind == kind {
			return true
		}
	}
	return false
}

func c19LastOf(v c19Value) c19Value {
	if t, ok := v.(c19Tuple); ok && len(t) > 0 {
		return t[len(t)-1]
	}
	return v
}

// c19M3Status: when the server answers 404 the fetcher's error satisfies NotFound; for another
// non-OK status it returns an error that does not; with the OK status no status error is returned.
func c19M3Status(r *core.R, m *c19Model, t *c19Table) {
	if m.notFound == nil || m.errT == nil {
		return
	}
	n := c19Samples[7]
	for _, dm := range m.methods {
		if dm.role != "state" && dm.role != "data" {
			continue
		}
		dm := dm
		c := "status@" + dm.fi.Name()
		bad, unknown := "", ""
		for _, status := range []int64{t.NotFoundStatus, 500, 403, t.OKStatus} {
			paths, complete := c19Explore(m, c19Hooks{onCall: m.doHook(status)}, func(in *c19Interp) c19Value {
				m.dsGlobals(in)
				return m.callMethod(in, dm, m.newDS(in, c19Base), n)
			})
			if !complete && unknown == "" {
				unknown = "more paths than the evaluation explores"
			}
			answered := 0
			for _, p := range paths {
				if !c19HasEvent(p, "response") {
					continue
				}
				answered++
				if p.aborted != "" || p.panics {
					if unknown == "" {
						unknown = fmt.Sprintf("with status %d: not evaluated (%s)", status, p.aborted)
					}
					continue
				}
				errv := c19LastOf(p.ret)
				isStatusErr := false
				if pp, ok := errv.(c19Ptr); ok && types.Identical(pp.obj.typ, m.errT) {
					isStatusErr = true
				}
				if status == t.OKStatus {
					if isStatusErr && bad == "" {
						bad = fmt.Sprintf("with status %d %s still returns the status error %s", status, dm.fi.Obj.Name(), c19Show(errv))
					}
					continue
				}
				if _, isNil := errv.(c19Nil); isNil {
					if bad == "" {
						bad = fmt.Sprintf("with status %d %s returns %s without an error: the search takes the result for a state", status, dm.fi.Obj.Name(), c19Show(p.ret))
					}
					continue
				}
				ans, decided := m.notFoundOf(errv)
				got := strings.Join(ans, " / ")
				want := "false"
				if status == t.NotFoundStatus {
					want = "true"
				}
				switch {
				case got == want && decided:
				case !decided && !isStatusErr:
					if unknown == "" {
						unknown = fmt.Sprintf("with status %d %s returns the error %s, for which NotFound is not decided", status, dm.fi.Obj.Name(), c19Show(errv))
					}
				case bad == "":
					if status == t.NotFoundStatus {
						bad = fmt.Sprintf("with status %d (file missing) %s returns the error %s, for which NotFound answers %s: the status of the response does not reach the error, a missing state file aborts the search", status, dm.fi.Obj.Name(), c19Show(errv), got)
					} else {
						bad = fmt.Sprintf("with status %d %s returns the error %s, for which NotFound answers %s: a server failure is taken for a missing file and stepped over", status, dm.fi.Obj.Name(), c19Show(errv), got)
					}
				}
			}
			if answered == 0 && unknown == "" {
				unknown = fmt.Sprintf("%s never reaches an HTTP exchange ((*http.Client).Do / Get) in the evaluation", dm.fi.Obj.Name())
			}
		}
		switch {
		case bad != "":
			r.Bad(c, dm.fi.Decl.Pos(), "%s", bad)
		case unknown != "":
			r.Unknown(c, dm.fi.Decl.Pos(), "%s", unknown)
		default:
			r.OK(c, dm.fi.Decl.Pos(), "evaluated with responses %d / 500 / 403 / %d: the error returned for %d satisfies NotFound, the errors for 500 and 403 do not, no status error for %d", t.NotFoundStatus, t.OKStatus, t.NotFoundStatus, t.OKStatus)
		}
	}
}

// ---------------------------------------------------------------- M4

// successPaths returns the paths that got a response and returned a nil error.
func c19SuccessPaths(paths []c19Path) (out []c19Path, trouble string) {
	for _, p := range paths {
		if !c19HasEvent(p, "response") {
			continue
		}
		if p.aborted != "" {
			trouble = p.aborted
			continue
		}
		if _, ok := c19LastOf(p.ret).(c19Nil); ok && !p.panics {
			out = append(out, p)
		}
	}
	return
}

func c19StateOf(ret c19Value) (c19Value, bool) {
	t, ok := ret.(c19Tuple)
	if !ok {
		return nil, false
	}
	for _, v := range t {
		if p, ok := v.(c19Ptr); ok {
			return p, true
		}
	}
	return nil, false
}

func c19M4(r *core.R) {
	m := c19BuildModel(r)
	t := c19LoadTable(r)
	if m == nil || t == nil {
		return
	}
	c19M4Width(r, m)
	nfam := 0
	for _, dm := range m.methods {
		if dm.role != "state" && dm.role != "current" {
			continue
		}
		k, ok := t.Kinds[dm.kind.Obj().Name()]
		if !ok {
			continue
		}
		off := t.Families[k.Family].SeqOffset
		if off == 0 {
			continue
		}
		nfam++
		inc := -off
		dm := dm
		if dm.role == "current" {
			c := fmt.Sprintf("offbyone@%s [current]", dm.fi.Name())
			paths, _ := c19Explore(m, c19Hooks{onCall: m.doHook(t.OKStatus)}, func(in *c19Interp) c19Value {
				m.dsGlobals(in)
				return m.callMethod(in, dm, m.newDS(in, c19Base), 0)
			})
			succ, trouble := c19SuccessPaths(paths)
			doc := fmt.Sprintf("the `sequence:` value of %s is %d less than the number of the file it describes, so the current state must report the parsed value %+d", t.Families[k.Family].CurrentState, inc, inc)
			bad, unknown := "", trouble
			for _, p := range succ {
				st, ok := c19StateOf(p.ret)
				if !ok {
					unknown = "the success return " + c19Show(p.ret) + " carries no state"
					continue
				}
				seq := (&c19Interp{m: m, info: m.info}).field(st, m.seqField, "SeqNum")
				o, isOp := seq.(*c19Opaque)
				switch {
				case isOp && strings.HasPrefix(o.origin, "number parsed by strconv") && o.off == inc:
					// and the sequence number returned next to the state is the same number
					if tup, ok := p.ret.(c19Tuple); ok && len(tup) == 3 {
						if f, ok := tup[0].(*c19Opaque); !ok || f.id != o.id || f.off != o.off {
							bad = fmt.Sprintf("%s returns the sequence number %s next to a state whose SeqNum is %s", dm.fi.Obj.Name(), c19Show(tup[0]), c19Show(seq))
						}
					}
				case isOp && strings.HasPrefix(o.origin, "number parsed by strconv"):
					bad = fmt.Sprintf("the state returned by %s has SeqNum = %s (parsed `sequence:` value %+d); %s", dm.fi.Obj.Name(), c19Show(seq), o.off, doc)
				case isOp:
					// a number the evaluation cannot trace to the strconv parse of the state file (decoder outside the evaluated subset, another parser)
					unknown = "SeqNum is " + c19Show(seq) + ", which the evaluation cannot relate to the parsed `sequence:` value"
				default:
					bad = fmt.Sprintf("the state returned by %s has SeqNum = %s, which is not the parsed `sequence:` value %+d; %s", dm.fi.Obj.Name(), c19Show(seq), inc, doc)
				}
			}
			switch {
			case bad != "":
				r.Bad(c, dm.fi.Decl.Pos(), "%s", bad)
			case unknown != "" || len(succ) == 0:
				r.Unknown(c, dm.fi.Decl.Pos(), "%s could not be evaluated to a successful return (%s)", dm.fi.Obj.Name(), unknown)
			default:
				r.OK(c, dm.fi.Decl.Pos(), "evaluated with status %d: on the %d successful path(s) the state's SeqNum is the number parsed by strconv %+d, and that number is returned next to it (table: state_sequence_offset %d)", t.OKStatus, len(succ), inc, off)
			}
			continue
		}
		c := fmt.Sprintf("offbyone@%s [numbered]", dm.fi.Name())
		bad, unknown := "", ""
		nsucc := 0
		for _, n := range []uint64{1, 2007990, 2010580} {
			n := n
			paths, _ := c19Explore(m, c19Hooks{onCall: m.doHook(t.OKStatus)}, func(in *c19Interp) c19Value {
				m.dsGlobals(in)
				return m.callMethod(in, dm, m.newDS(in, c19Base), n)
			})
			succ, trouble := c19SuccessPaths(paths)
			if trouble != "" {
				unknown = trouble
			}
			for _, p := range succ {
				nsucc++
				st, ok := p.ret.(c19Tuple)
				if !ok || len(st) == 0 {
					unknown = "the success return " + c19Show(p.ret) + " carries no state"
					continue
				}
				seq := (&c19Interp{m: m, info: m.info}).field(st[0], m.seqField, "SeqNum")
				if v, ok := c19AsUint(seq); !ok || v != n {
					if o, isOp := seq.(*c19Opaque); isOp && strings.Contains(o.origin, "not evaluated") {
						unknown = "SeqNum is " + c19Show(seq)
					} else if bad == "" {
						bad = fmt.Sprintf("%s(ctx, %d) returns a state with SeqNum = %s: the state of a numbered file must report the number it was requested under, not the (off by %d) value stored inside it", dm.fi.Obj.Name(), n, c19Show(seq), inc)
					}
				}
			}
		}
		switch {
		case bad != "":
			r.Bad(c, dm.fi.Decl.Pos(), "%s", bad)
		case unknown != "" || nsucc == 0:
			r.Unknown(c, dm.fi.Decl.Pos(), "%s could not be evaluated to a successful return (%s)", dm.fi.Obj.Name(), unknown)
		default:
			r.OK(c, dm.fi.Decl.Pos(), "evaluated with status %d for 3 sequence numbers: on every successful path the state carries the number requested", t.OKStatus)
		}
	}
	if nfam == 0 {
		r.Anchor("state fetchers of a family with a non-zero state_sequence_offset (changesets)")
	}
}

// ---------------------------------------------------------------- M5

// searchHook answers a call of the search function: the search fails (error) or finds some state.
func (m *c19Model) searchHook() func(in *c19Interp, fn *types.Func, recv c19Value, args []c19Value, call *ast.CallExpr) (c19Value, bool) {
	return func(in *c19Interp, fn *types.Func, recv c19Value, args []c19Value, call *ast.CallExpr) (c19Value, bool) {
		if !m.searchFns[fn] {
			return c19StopAtRequest(in, fn, recv, args, call)
		}
		in.event("search", token.NoPos, args...)
		sig := fn.Type().(*types.Signature)
		if sig.Results().Len() != 2 {
			return nil, false
		}
		if !in.decide() {
			e := in.opaque(sig.Results().At(1).Type(), "search error")
			e.nonNil = true
			return c19Tuple{c19Nil{}, e}, true
		}
		st := &c19Obj{typ: m.stateT, fields: map[*types.Var]c19Value{}, tag: "state found "}
		st.fields[m.seqField] = in.opaque(m.seqField.Type(), "sequence number of the state found")
		return c19Tuple{c19Ptr{obj: st}, c19Nil{}}, true
	}
}

func c19M5(r *core.R) {
	m := c19BuildModel(r)
	t := c19LoadTable(r)
	if m == nil || t == nil {
		return
	}
	type subject struct {
		e        *c19DSMethod
		fi       *FuncInfo
		delegate bool
	}
	var subjects []subject
	for _, e := range m.entries {
		subjects = append(subjects, subject{e: e, fi: e.fi})
		if o, ok := m.pk.Types.Scope().Lookup(e.fi.Obj.Name()).(*types.Func); ok && m.funcs[o] != nil {
			subjects = append(subjects, subject{e: e, fi: m.funcs[o], delegate: true})
		} else {
			r.Anchor("package-level " + c19Pkg + "." + e.fi.Obj.Name())
		}
	}
	for _, s := range subjects {
		s := s
		name := s.fi.Name()
		k, ok := t.Kinds[s.e.kind.Obj().Name()]
		if !ok {
			r.Unknown("kind@"+name, s.fi.Decl.Pos(), "sequence-number type %s is not in tables/replication.json", s.e.kind.Obj().Name())
			continue
		}
		fam := t.Families[k.Family]
		base := c19Base
		if s.delegate {
			base = c19DefaultBase
		}
		const ctxOrigin, tsOrigin = "the caller's ctx", "the caller's timestamp"
		paths, complete := c19Explore(m, c19Hooks{onCall: m.searchHook()}, func(in *c19Interp) c19Value {
			m.dsGlobals(in)
			sig := s.fi.Obj.Type().(*types.Signature)
			ctxIn := in.opaque(sig.Params().At(0).Type(), ctxOrigin)
			tsIn := in.opaque(sig.Params().At(1).Type(), tsOrigin)
			var recv c19Value
			if !s.delegate {
				recv = m.newDS(in, c19Base)
			}
			return in.callFunc(s.fi, recv, []c19Value{ctxIn, tsIn})
		})
		// lookup: one search with the caller's ctx and timestamp; its state is returned with its own number
		lookupBad, lookupUnknown := "", ""
		kindBad, kindUnknown := "", ""
		minBad, minUnknown := "", ""
		first, firstWhy := t.firstSeq()
		var minVal int64
		nsearch := 0
		if !complete {
			lookupUnknown = "more paths than the evaluation explores"
		}
		for _, p := range paths {
			if p.aborted != "" || p.panics || p.done {
				lookupUnknown = fmt.Sprintf("%s could not be evaluated (%s)", name, p.aborted)
				if p.done {
					lookupUnknown = name + " makes an HTTP request outside the search"
				}
				continue
			}
			var searches []c19Event
			for _, e := range p.events {
				if e.kind == "search" {
					searches = append(searches, e)
				}
			}
			tup, _ := p.ret.(c19Tuple)
			if len(searches) != 1 || len(tup) != 3 {
				if len(searches) == 0 {
					if _, isNil := c19LastOf(p.ret).(c19Nil); !isNil {
						continue // an error return before the search
					}
				}
				lookupBad = fmt.Sprintf("%s calls the search %d time(s) on a path that returns %s", name, len(searches), c19Show(p.ret))
				continue
			}
			nsearch++
			ev := searches[0]
			var desc c19Value
			ctxOK, tsOK := false, false
			for _, a := range ev.args {
				if o, ok := a.(*c19Opaque); ok {
					ctxOK = ctxOK || o.origin == ctxOrigin
					tsOK = tsOK || o.origin == tsOrigin
				}
				switch x := a.(type) {
				case c19Ptr:
					if types.Identical(x.obj.typ, m.stater) {
						desc = x
					}
				case *c19Obj:
					if types.Identical(x.typ, m.stater) {
						desc = x
					}
				}
			}
			switch {
			case !tsOK:
				lookupBad = fmt.Sprintf("%s does not pass its own timestamp to the search (arguments %s): the lookup answers for another time", name, c19Show(c19Tuple(ev.args)))
			case !ctxOK:
				lookupBad = fmt.Sprintf("%s does not pass its own context to the search (arguments %s)", name, c19Show(c19Tuple(ev.args)))
			case desc == nil:
				lookupUnknown = fmt.Sprintf("%s calls the search without a %s value", name, m.stater.Obj().Name())
			}
			// result of the path
			_, errNil := tup[2].(c19Nil)
			if st, ok := tup[1].(c19Ptr); ok && errNil {
				seq := (&c19Interp{m: m, info: m.info}).field(st, m.seqField, "SeqNum")
				so, _ := seq.(*c19Opaque)
				fo, _ := tup[0].(*c19Opaque)
				switch {
				case so == nil || so.origin != "sequence number of the state found":
					lookupBad = fmt.Sprintf("%s returns the state %s, not the state the search found", name, c19Show(tup[1]))
				case fo == nil || fo.id != so.id || fo.off != so.off:
					lookupBad = fmt.Sprintf("%s returns the sequence number %s next to the state found, whose SeqNum is %s", name, c19Show(tup[0]), c19Show(seq))
				case !types.Identical(fo.typ, s.e.kind):
					lookupBad = fmt.Sprintf("%s returns a %s", name, c19TypeName(fo.typ))
				}
			} else if errNil {
				lookupBad = fmt.Sprintf("%s returns %s without an error", name, c19Show(p.ret))
			} // else: the search failed and the error is returned
			if desc == nil {
				continue
			}
			hi := &c19Interp{m: m, info: m.info}
			// Min
			mv, isConst := c19AsInt(hi.field(desc, m.minFld, "Min"))
			switch {
			case !isConst:
				minUnknown = fmt.Sprintf("%s is %s, not a constant", m.minFld.Name(), c19Show(hi.field(desc, m.minFld, "Min")))
			case mv < first:
				minBad = fmt.Sprintf("%s: %d: below the first sequence number %d; sequence number 0 selects the current-state file, so the lower bound of the search would be the newest state and every lookup returns it", m.minFld.Name(), mv, first)
			case mv > first:
				minBad = fmt.Sprintf("%s: %d, but the least sequence number a replication directory can hold is %d (%s). The search treats the state of sequence number %s as the lowest state of the directory: when it exists and is at or after the query time it is returned as the answer (M6 order@… answer) and nothing below it is ever probed. That is right for every directory only when %s is the least possible number: a mirror or archive that keeps states %d..%d answers every query at or before the time of state %d with state %d instead of the first state at or after it", m.minFld.Name(), mv, first, firstWhy, m.minFld.Name(), m.minFld.Name(), first, mv-1, mv, mv)
			default:
				minVal = mv
			}
			// the descriptor's functions request the files of the lookup's own kind on the lookup's own datasource
			fetch := hi.field(desc, m.fetchFld, "fetch")
			cur := hi.field(desc, m.curFld, "current")
			fsig, _ := m.fetchFld.Type().Underlying().(*types.Signature)
			csig, _ := m.curFld.Type().Underlying().(*types.Signature)
			check := func(what string, fv c19Value, sig *types.Signature, n uint64, want string) {
				urls, problems := m.requestedURLs(func(in *c19Interp) c19Value {
					var args []c19Value
					for i := 0; i < sig.Params().Len(); i++ {
						if i == m.fetchArg && what == "numbered" {
							args = append(args, c19Uint(n, sig.Params().At(i).Type()))
						} else {
							args = append(args, in.opaque(sig.Params().At(i).Type(), "ctx"))
						}
					}
					return in.callValue(fv, args, sig, nil)
				})
				switch {
				case len(problems) > 0:
					if kindUnknown == "" {
						kindUnknown = fmt.Sprintf("%s.%s of %s: %s", m.stater.Obj().Name(), what, name, strings.Join(problems, "; "))
					}
				case len(urls) != 1 || urls[0] != want:
					if kindBad == "" {
						if what == "numbered" {
							kindBad = fmt.Sprintf("asked for state %d the search of %s requests %s; the %s state file of that number on the lookup's own datasource is %s: the search reads another replication directory, another datasource or another number than it asks for", n, name, strings.Join(urls, " / "), s.e.kind.Obj().Name(), want)
						} else {
							kindBad = fmt.Sprintf("asked for the current state the search of %s requests %s; the current %s state on the lookup's own datasource is %s", name, strings.Join(urls, " / "), s.e.kind.Obj().Name(), want)
						}
					}
				}
			}
			if fsig == nil || csig == nil {
				kindUnknown = "descriptor fields are not functions"
				continue
			}
			for _, n := range []uint64{1, 2010580, 123456789} {
				check("numbered", fetch, fsig, n, t.numberedURL(base, k.Dir, n, fam.StateSuffix))
			}
			check("current", cur, csig, 0, t.currentURL(base, k.Dir, k.Family))
		}
		if nsearch == 0 && lookupBad == "" && lookupUnknown == "" {
			lookupBad = name + " never calls the search"
		}
		emit := func(c string, bad, unknown, ok string, trivial bool) {
			switch {
			case bad != "":
				r.Bad(c, s.fi.Decl.Pos(), "%s", bad)
			case unknown != "":
				r.Unknown(c, s.fi.Decl.Pos(), "%s", unknown)
			case trivial:
				r.OKTrivial(c, s.fi.Decl.Pos(), "%s", ok)
			default:
				r.OK(c, s.fi.Decl.Pos(), "%s", ok)
			}
		}
		if s.delegate {
			first := func(xs ...string) string {
				for _, x := range xs {
					if x != "" {
						return x
					}
				}
				return ""
			}
			emit("delegate@"+name, first(lookupBad, kindBad, minBad), first(lookupUnknown, kindUnknown, minUnknown),
				fmt.Sprintf("evaluated on the default datasource: one search with the caller's ctx and timestamp over the %s state files (minimum %d), the state found is returned with its own number as %s", s.e.kind.Obj().Name(), minVal, s.e.kind.Obj().Name()), false)
			continue
		}
		emit("lookup@"+name, lookupBad, lookupUnknown, fmt.Sprintf("evaluated: exactly one search, with the caller's ctx and timestamp; on success the state found is returned with %s(state.SeqNum), on failure the error", s.e.kind.Obj().Name()), false)
		if lookupBad == "" && lookupUnknown == "" || kindBad != "" || kindUnknown != "" {
			emit("kind@"+name, kindBad, kindUnknown, fmt.Sprintf("the descriptor's functions, evaluated for 3 sequence numbers and for the current state, request the %s files of the receiver's base URL (%s …)", s.e.kind.Obj().Name(), t.currentURL(c19Base, k.Dir, k.Family)), false)
		} else {
			emit("kind@"+name, "", "not evaluated: see lookup@"+name, "", false)
		}
		if lookupBad == "" && lookupUnknown == "" || minBad != "" || minUnknown != "" {
			emit("min@"+name, minBad, minUnknown, fmt.Sprintf("%s = %d, the least sequence number a replication directory can hold (%s): the state the search takes for the lowest of the directory is the lowest possible one", m.minFld.Name(), minVal, firstWhy), true)
		} else {
			emit("min@"+name, "", "not evaluated: see lookup@"+name, "", false)
		}
	}
}
