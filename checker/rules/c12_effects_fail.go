package rules

import (
	"go/ast"
	"go/types"
	"strings"
)

// "Repeated runs either all succeed or all fail": a return written under the map range ends the computation early.
// Which of several failing iterations comes first may differ between runs, but WHETHER one fails must not; a
// necessary condition is that no condition guarding such a return reads state that the iterations themselves write
// (a running count, a list filled so far, a flag set by an earlier iteration).

func (ef *c12Effects) judgeFailure(f *c12Fn, rs *ast.RangeStmt) {
	r := ef.r
	info := f.info()
	body := f.fi.Decl.Body
	written := map[string]*c12Effect{}
	for _, e := range ef.all {
		if e.inLoop != nil {
			written[e.key] = e
		}
	}
	c := "failure@" + f.fi.Name()
	nret, bad := 0, ""
	var badAt ast.Node
	ast.Inspect(rs.Body, func(n ast.Node) bool {
		if _, isLit := n.(*ast.FuncLit); isLit {
			return false
		}
		ret, ok := n.(*ast.ReturnStmt)
		if !ok {
			return true
		}
		nret++
		for _, fact := range factsAtPos(info, f.g, f.dom, ret.Pos()) {
			if fact.at != nil && len(fact.at.Nodes) > 0 && (fact.at.Nodes[0].Pos() < rs.Body.Pos() || fact.at.Nodes[0].Pos() >= rs.Body.End()) {
				continue // a condition outside the loop
			}
			ast.Inspect(fact.expr, func(m ast.Node) bool {
				x, ok := m.(ast.Expr)
				if !ok || bad != "" {
					return bad == ""
				}
				switch x.(type) {
				case *ast.SelectorExpr, *ast.IndexExpr, *ast.Ident:
				default:
					return true
				}
				full := expandAlias(info, body, x)
				rv, ok := c12RootVar(info, full).(*types.Var)
				if !ok {
					return true
				}
				key := c12PlaceKey(info, rv, full)
				for k, e := range written {
					if e.root == rv && (key == k || strings.HasPrefix(key, k) || strings.HasPrefix(k, key+"[") || strings.HasPrefix(k, key+".")) {
						bad = "`" + src(r.P.Fset, ret) + "` is guarded by `" + src(r.P.Fset, fact.expr) + "`, which reads " + src(r.P.Fset, x) + ", written by the iterations themselves (`" + src(r.P.Fset, e.node) + "`)"
						badAt = ret
					}
				}
				return true
			})
		}
		return true
	})
	switch {
	case bad != "":
		r.Unknown(c, badAt.Pos(), "%s: whether the computation fails may depend on which iterations of the range over the map %s came before (only a condition that is monotone in that state would not)", bad, src(r.P.Fset, rs.X))
	case nret == 0:
		r.OKTrivial(c, rs.Pos(), "no return under the range over %s", src(r.P.Fset, rs.X))
	default:
		r.OK(c, rs.Pos(), "%d return(s) under the range over %s; none of their guards inside the loop reads state written by the iterations", nret, src(r.P.Fset, rs.X))
	}
}
