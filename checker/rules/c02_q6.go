package rules

import (
	"fmt"
	"go/ast"
	"go/token"
	"go/types"
	"strings"

	"osmcheck/core"
)

// ---------------------------------------------------------------- Q6

// c02Storage is the verdict on where a reference handed to the workers points.
type c02Storage int

const (
	c02Fresh   c02Storage = iota // a new allocation for every value (or nil)
	c02Unknown                   // a shape the rule cannot resolve
	c02Shared                    // storage that outlives the block and is written again
)

type c02Prov struct {
	m    *pbfModel
	seen map[types.Object]bool
	why  []string // reasons for shared / unknown
	// hoisted: arguments on the definition chain that are made once outside a loop and used by every iteration
	hoisted []string
}

func (p *c02Prov) note(format string, args ...interface{}) {
	p.why = append(p.why, fmt.Sprintf(format, args...))
}

func c02Worse(a, b c02Storage) c02Storage {
	if b > a {
		return b
	}
	return a
}

// storage decides, flow-insensitively and through locals, parameters (the argument at every call / go statement) and
// results of declared functions (every return statement), what a pointer expression can point to.
func (p *c02Prov) storage(e ast.Expr, depth int) c02Storage {
	m := p.m
	info := m.info
	e = ast.Unparen(e)
	if depth > 12 {
		p.note("`%s`: definition chain too long", src(m.p.Fset, e))
		return c02Unknown
	}
	if isNilIdent(e) {
		return c02Fresh
	}
	switch x := e.(type) {
	case *ast.UnaryExpr:
		if x.Op != token.AND {
			break
		}
		switch y := ast.Unparen(x.X).(type) {
		case *ast.CompositeLit:
			return c02Fresh
		case *ast.IndexExpr:
			p.note("`%s` at %s is the address of an element of `%s`, storage that outlives the block and is filled again for a later block", src(m.p.Fset, e), m.p.Rel(e.Pos()), src(m.p.Fset, y.X))
			return c02Shared
		case *ast.SelectorExpr:
			p.note("`%s` at %s is the address of a field, storage that outlives the block", src(m.p.Fset, e), m.p.Rel(e.Pos()))
			return c02Shared
		case *ast.Ident:
			// the address of a local variable is a new allocation each time the declaration executes: fresh when
			// the variable is declared in the same function as the `&v` and inside every loop that encloses the `&v`
			if o, ok := objOf(info, y).(*types.Var); ok && !o.IsField() && p.perExecution(o, x) {
				return c02Fresh
			}
			p.note("`%s` at %s is the address of a variable that is not declared anew for every block (package level, captured, a parameter, or declared outside the enclosing loop)", src(m.p.Fset, e), m.p.Rel(e.Pos()))
			return c02Shared
		}
	case *ast.SelectorExpr:
		// a field of a struct value held in a local (a result struct, a grouped hand-over): what the field was given
		if base, f := m.structLocalField(x); base != nil {
			if inits, ok := m.fieldInits(base, 0, f, map[types.Object]bool{}, 0); ok {
				v := c02Fresh
				for _, in := range inits {
					v = c02Worse(v, p.storage(in, depth+1))
				}
				return v
			}
		}
		if f := fieldOf(info, x); f != nil {
			p.note("`%s` at %s is read from a field, storage that outlives the block", src(m.p.Fset, e), m.p.Rel(e.Pos()))
			return c02Shared
		}
	case *ast.IndexExpr:
		p.note("`%s` at %s is an element of a longer-lived collection", src(m.p.Fset, e), m.p.Rel(e.Pos()))
		return c02Shared
	case *ast.CallExpr:
		if builtinName(info, x) == "new" {
			return c02Fresh
		}
		return p.result(x, 0, depth)
	case *ast.Ident:
		o, ok := objOf(info, x).(*types.Var)
		if !ok || o.IsField() {
			break
		}
		if o.Pkg() != nil && o.Parent() == o.Pkg().Scope() {
			p.note("`%s` is a package-level variable, storage shared by all blocks", o.Name())
			return c02Shared
		}
		if p.seen[o] {
			return c02Fresh // a cycle (`b = f(b)`): decided by the other definitions
		}
		p.seen[o] = true
		defer delete(p.seen, o)
		defs := m.defsOf(o)
		if len(defs) == 0 {
			p.note("`%s` has no definition the rule can see", o.Name())
			return c02Unknown
		}
		v := c02Fresh
		for _, d := range defs {
			switch d.kind {
			case "zero":
			case "assign", "arg":
				if call, ok := d.stmt.(*ast.CallExpr); ok && d.kind == "arg" {
					// an argument handed in from a loop must be made inside that loop
					if w := c02HoistedAt(m, d.e, call, d.fi); w != "" {
						p.hoisted = append(p.hoisted, fmt.Sprintf("the argument `%s` of `%s` is %s", src(m.p.Fset, d.e), src(m.p.Fset, call), w))
					}
				}
				v = c02Worse(v, p.storage(d.e, depth+1))
			case "result":
				call, _ := ast.Unparen(d.e).(*ast.CallExpr)
				if call == nil {
					p.note("`%s` is defined by `%s`", o.Name(), src(m.p.Fset, d.e))
					v = c02Worse(v, c02Unknown)
					continue
				}
				v = c02Worse(v, p.result(call, d.idx, depth+1))
			case "range-value", "range-key":
				p.note("`%s` at %s ranges over `%s`, a longer-lived collection", o.Name(), m.p.Rel(o.Pos()), src(m.p.Fset, d.e))
				v = c02Worse(v, c02Shared)
			default:
				p.note("`%s` at %s is defined in a way the rule does not follow (%s)", o.Name(), m.p.Rel(o.Pos()), d.kind)
				v = c02Worse(v, c02Unknown)
			}
		}
		return v
	}
	p.note("`%s` at %s is not an allocation, a variable or a call the rule can follow", src(m.p.Fset, e), m.p.Rel(e.Pos()))
	return c02Unknown
}

// perExecution: local variable o is declared in the innermost function that contains node at, and inside every loop
// of that function that encloses at (so each evaluation of `&o` there refers to a new variable).
func (p *c02Prov) perExecution(o *types.Var, at ast.Node) bool {
	m := p.m
	fi := m.funcAt(at.Pos())
	if fi == nil || m.funcAt(o.Pos()) != fi || c01ParamIndex(m.info, fi, o) >= 0 {
		return false
	}
	par := m.view.parents(fi)
	for q := par[at]; q != nil && q != ast.Node(fi.Decl); q = par[q] {
		switch l := q.(type) {
		case *ast.FuncLit:
			// the variable must be declared inside this literal (not captured)
			if !(o.Pos() > l.Pos() && o.Pos() < l.End()) {
				return false
			}
			if l.Type.Params != nil {
				for _, fld := range l.Type.Params.List {
					for _, nm := range fld.Names {
						if m.info.Defs[nm] == types.Object(o) {
							return false
						}
					}
				}
			}
		case *ast.ForStmt:
			if !(o.Pos() > l.Body.Pos() && o.Pos() < l.Body.End()) {
				return false
			}
		case *ast.RangeStmt:
			if !(o.Pos() > l.Body.Pos() && o.Pos() < l.Body.End()) {
				return false
			}
		}
	}
	if fi.Decl.Recv != nil {
		for _, fld := range fi.Decl.Recv.List {
			for _, nm := range fld.Names {
				if m.info.Defs[nm] == types.Object(o) {
					return false
				}
			}
		}
	}
	return true
}

// result: the idx-th result of a call; for a function declared in the package every return statement is followed.
func (p *c02Prov) result(call *ast.CallExpr, idx int, depth int) c02Storage {
	m := p.m
	fn := callee(m.info, call)
	if fn == nil || m.funcs[fn] == nil {
		p.note("`%s` at %s is the result of a function outside the package", src(m.p.Fset, call), m.p.Rel(call.Pos()))
		return c02Unknown
	}
	rets := m.returnsOf(m.funcs[fn], idx)
	if len(rets) == 0 {
		p.note("%s has no return statement", fn.Name())
		return c02Unknown
	}
	v := c02Fresh
	for _, ret := range rets {
		if ret == nil {
			p.note("%s returns through named results", fn.Name())
			v = c02Worse(v, c02Unknown)
			continue
		}
		v = c02Worse(v, p.storage(ret, depth+1))
	}
	return v
}

// c02Q6: what the reader hands to a worker must be storage of its own. Every reference the reader puts into a pair for
// the input queue (the pointer / slice / map typed fields of the pair type, i.e. the blob) is, on every definition
// chain through locals, parameters and helper results, a fresh allocation (`&T{}`, `new(T)`, a constructor) - never
// the address of a slice element, a field, or another value that outlives the block and is filled again -, and inside
// the read loop it is re-defined in every iteration before the pair is built (an allocation hoisted out of the loop is
// one value shared by all blocks). The reader's scratch buffers may be reused only because of this (and of Q4).
func c02Q6(r *core.R) {
	m := modelOrAnchor(r)
	if m == nil {
		return
	}
	f := c09Resolve(r, m)
	if f == nil {
		return
	}
	info := m.info
	g := m.goOf("reader")
	if g == nil {
		r.Anchor("reader goroutine")
		return
	}
	p := &c02Pipe{m: m, info: info, in: f.in, out: f.out, queue: f.queue, ops: m.chanOps()}
	loop := p.mainLoop(g, f.in)
	n := 0
	judged := map[ast.Node]bool{}
	judge := func(b c09Build, fi *FuncInfo, inLoop bool) {
		if judged[b.src] {
			return
		}
		judged[b.src] = true
		n++
		where := "restart"
		if inLoop {
			where = "loop"
		}
		c := fmt.Sprintf("fresh-storage@%s %s pair", g.unit.name, where)
		prov := &c02Prov{m: m, seen: map[types.Object]bool{}}
		v := prov.storage(b.blob, 0)
		hoisted := ""
		if v == c02Fresh {
			hoisted = c02HoistedAt(m, b.blob, b.src, fi)
			if hoisted == "" && len(prov.hoisted) > 0 {
				hoisted = prov.hoisted[0]
			}
		}
		switch {
		case v == c02Shared:
			r.Bad(c, b.pos, "the %s handed to a worker in `%s` is not storage of its own: %s; the reader fills it again (proto.Unmarshal resets the message) while a worker may still be decoding the earlier block: a data race and blocks decoded from another block's data", f.blobIn.Name(), src(r.P.Fset, b.src), strings.Join(c02Uniq(prov.why), "; "))
		case v == c02Unknown:
			r.Unknown(c, b.pos, "could not decide that the %s handed to a worker in `%s` is a fresh allocation for every block: %s", f.blobIn.Name(), src(r.P.Fset, b.src), strings.Join(c02Uniq(prov.why), "; "))
		case hoisted != "":
			r.Bad(c, b.pos, "the %s handed to a worker in `%s` is %s: one value is shared by all blocks and refilled while workers still read it", f.blobIn.Name(), src(r.P.Fset, b.src), hoisted)
		default:
			r.OK(c, b.pos, "the %s in `%s` is, on every definition chain (locals, parameters, helper results), a fresh allocation made for this block", f.blobIn.Name(), src(r.P.Fset, b.src))
		}
	}
	siteInLoop := func(s *pbfSite, x ast.Node) bool {
		if loop == nil {
			return false
		}
		rp := s.rootPos(x)
		return loop.Pos() <= rp && rp <= loop.End()
	}
	m.deepWalkOpt(g.unit, false, func(s *pbfSite, x ast.Node) bool {
		// pairs built in the code the reader runs
		for _, b := range c02BuildsAt(m, f, x, s.unit().fi) {
			judge(b, s.unit().fi, siteInLoop(s, x))
		}
		// pairs built elsewhere (in the spawner) and handed to the reader: found from the send that dispatches them
		if snd, ok := x.(*ast.SendStmt); ok && m.chanClass(nil, snd.Chan) == f.in {
			for _, sb := range c09SentBuilds(m, f, snd.Value, s.unit().fi, map[types.Object]bool{}, 0) {
				judge(sb.c09Build, sb.fi, siteInLoop(s, x))
			}
		}
		return true
	})
	if n == 0 {
		r.Anchor("construction of a data pair carrying a blob in the reader")
	}
}

// c02BuildsAt lists the pair constructions (with a blob) that node x itself is: a composite literal, or an assignment
// to the blob field of a pair variable.
func c02BuildsAt(m *pbfModel, f *c09Fields, x ast.Node, fi *FuncInfo) []c09Build {
	switch y := x.(type) {
	case *ast.CompositeLit:
		if t, ok := m.info.TypeOf(y).(*types.Named); ok && t == f.inPairT {
			if blob := c09LitField(m.info, y, f.blobIn); blob != nil {
				return []c09Build{{pos: y.Pos(), blob: blob, src: y}}
			}
		}
	case *ast.AssignStmt:
		var out []c09Build
		for _, b := range c09Builds(m, f, y, fi) {
			if b.src == ast.Node(y) {
				out = append(out, b)
			}
		}
		return out
	}
	return nil
}

// c02HoistedAt: expression e is used at node at (in function fi). For every loop of that function that encloses at, the
// value must be produced inside the loop: a variable declared outside the loop needs a definition inside the loop that
// dominates at (and that definition, when it copies another variable, is checked the same way); otherwise one value
// made before the loop is used by every iteration. It returns "" when the value is per-iteration.
func c02HoistedAt(m *pbfModel, e ast.Expr, at ast.Node, fi *FuncInfo) string {
	info := m.info
	if fi == nil {
		return ""
	}
	par := m.view.parents(fi)
	body := fi.Decl.Body
	var loops []ast.Node
	var loopBodies []*ast.BlockStmt
walk:
	for q := par[at]; q != nil && q != ast.Node(fi.Decl); q = par[q] {
		switch l := q.(type) {
		case *ast.ForStmt:
			loops, loopBodies = append(loops, l), append(loopBodies, l.Body)
		case *ast.RangeStmt:
			loops, loopBodies = append(loops, l), append(loopBodies, l.Body)
		case *ast.FuncLit:
			body = l.Body // the innermost function literal: its CFG holds at; loops outside it run the literal anew
			break walk
		}
	}
	if len(loops) == 0 {
		return ""
	}
	c := m.cfgOf(body)
	seen := map[types.Object]bool{}
	var check func(e ast.Expr, at token.Pos, lb *ast.BlockStmt) string
	check = func(e ast.Expr, at token.Pos, lb *ast.BlockStmt) string {
		o, ok := objOf(info, e).(*types.Var)
		if !ok || o.IsField() || seen[o] {
			return ""
		}
		seen[o] = true
		defer delete(seen, o)
		inside := o.Pos() > lb.Pos() && o.Pos() < lb.End()
		var inLoopDefs []pbfOrigin
		for _, d := range m.defsOf(o) {
			if d.stmt != nil && d.stmt.Pos() > lb.Pos() && d.stmt.Pos() < lb.End() && (d.kind == "assign" || d.kind == "result") {
				inLoopDefs = append(inLoopDefs, d)
			}
		}
		if !inside {
			dominated := false
			for _, d := range inLoopDefs {
				if posDominates(c.g, c.dom, d.stmt.Pos(), at) {
					dominated = true
				}
			}
			if !dominated {
				return fmt.Sprintf("held in `%s`, which is declared outside the loop at %s and not re-defined in every iteration before it is used at %s", o.Name(), m.p.Rel(lb.Pos()), m.p.Rel(at))
			}
		}
		for _, d := range inLoopDefs {
			if d.kind == "assign" && d.e != nil {
				if w := check(d.e, d.stmt.Pos(), lb); w != "" {
					return w
				}
			}
		}
		return ""
	}
	for _, lb := range loopBodies {
		if w := check(e, at.Pos(), lb); w != "" {
			return w
		}
	}
	return ""
}

func c02Uniq(in []string) []string {
	seen := map[string]bool{}
	var out []string
	for _, s := range in {
		if !seen[s] {
			seen[s] = true
			out = append(out, s)
		}
	}
	return out
}

var _ = core.Discharged
