package rules

// Comparators behind the sort methods (C11.A4 order@, C11.A6 order@): found by role and evaluated as a table.
//
// The sort method (SortByIDVersion / SortByIndex) is executed by the interpreter and the comparator is what it
// hands to the sorting function, in whatever representation:
//   - sort.Sort / sort.Stable(adapter): the Less method of the adapter's type, executed with the receiver bound
//     to the very value that was handed over: a converted slice (`nodesSort(ns)`) or a struct that carries the
//     slice and the ordering in FIELDS (`sorter{us: us, less: lessByIndex}`; a field of function type is called
//     like the function or literal it holds);
//   - sort.Slice / sort.SliceStable(x, func(i, j int) bool {...}): the function literal.
// The comparator is then evaluated on every combination of relations (lt, eq, gt) between the two elements'
// fields, an oracle deciding the comparisons, and the value returned is compared with the strict
// lexicographic order.

import (
	"go/ast"
	"go/token"
	"go/types"
	"strings"

	"golang.org/x/tools/go/packages"
)

type c11Cmp struct {
	desc   string
	pos    token.Pos
	pi, pj *c11V
	run    func(oracle func(*c11St, *c11V) c11Tri) ([]c11Out, []string)
}

// c11SortArgType resolves the named type of the value handed to sort.Sort / sort.Stable by fi or an unexported helper it calls.
func c11SortArgType(pk *packages.Package, fi *FuncInfo) *types.Named {
	var res *types.Named
	inspectDeep(pk, fi, 2, func(site deepSite, n ast.Node) bool {
		call, ok := n.(*ast.CallExpr)
		if !ok {
			return true
		}
		fn := callee(pk.TypesInfo, call)
		if (isPkgFunc(fn, "sort", "Sort") || isPkgFunc(fn, "sort", "Stable")) && len(call.Args) == 1 {
			t := pk.TypesInfo.TypeOf(call.Args[0])
			if p, ok := t.(*types.Pointer); ok {
				t = p.Elem()
			}
			if nt, ok := t.(*types.Named); ok {
				res = nt
			}
		}
		return true
	})
	return res
}

// c11FindComparator executes the sort method sfi and returns the comparator it sorts with; the second result
// names what was not found.
func c11FindComparator(pk *packages.Package, sfi *FuncInfo) (*c11Cmp, string) {
	it := c11NewInterp(pk)
	outs, fr := it.run(sfi, nil)
	if len(c11PathNotes(it, outs)) > 0 || len(outs) == 0 {
		return nil, "a call of sort.Sort / sort.Slice on every path"
	}
	// The path that sorts; a path that returns without sorting must have decided that there is nothing to
	// order (fewer than two elements), in any spelling.
	var st *c11St
	recvO := c11RecvObj(pk.TypesInfo, sfi.Decl)
	for _, o := range outs {
		sorts := false
		for _, ev := range o.st.ev {
			if ev.kind == "call" && ev.call.fn != nil && ev.call.fn.Pkg() != nil && ev.call.fn.Pkg().Path() == "sort" {
				sorts = true
			}
		}
		if sorts {
			if st == nil {
				st = o.st
			}
			continue
		}
		trivial := false
		if recvO != nil {
			n := &c11V{k: "call", name: "len", xs: []*c11V{c11Param(recvO)}}
			trivial = o.st.truth(c11Bin(token.LSS, n, c11Int(2))) == c11T || o.st.truth(c11Bin(token.LSS, n, c11Int(1))) == c11T ||
				o.st.truth(c11Bin(token.LSS, c11Int(1), n)) == c11F || o.st.truth(c11Bin(token.EQL, n, c11Int(0))) == c11T || o.st.truth(c11Bin(token.EQL, n, c11Int(1))) == c11T
		}
		if !trivial {
			return nil, "a path of the sort method returns without sorting although it has not decided that there are fewer than two elements; a call of sort.Sort / sort.Slice on every other path"
		}
	}
	if st == nil {
		return nil, "a call of sort.Sort / sort.Stable / sort.Slice"
	}
	for _, ev := range st.ev {
		if ev.kind != "call" || ev.call.fn == nil {
			continue
		}
		switch {
		case (isPkgFunc(ev.call.fn, "sort", "Sort") || isPkgFunc(ev.call.fn, "sort", "Stable")) && len(ev.call.xs) == 1:
			arg := ev.call.xs[0]
			ad := c11SortArgType(pk, sfi)
			if ad == nil {
				return nil, "the named type of the value handed to sort.Sort"
			}
			lf := findFunc(pk, ad.Obj().Name()+".Less")
			if lf == nil || lf.Decl.Body == nil {
				return nil, ad.Obj().Name() + ".Less"
			}
			recvO := c11RecvObj(pk.TypesInfo, lf.Decl)
			sig := lf.Obj.Type().(*types.Signature)
			if recvO == nil || sig.Params().Len() != 2 || sig.Params().At(0).Name() == "_" || sig.Params().At(1).Name() == "_" {
				return nil, "a Less method with a named receiver and two named parameters"
			}
			return &c11Cmp{desc: ad.Obj().Name() + ".Less", pos: lf.Decl.Pos(), pi: c11Param(sig.Params().At(0)), pj: c11Param(sig.Params().At(1)),
				run: func(oracle func(*c11St, *c11V) c11Tri) ([]c11Out, []string) {
					// Less is called from the state the sort method reached, so that function literals it
					// created (and the variables they capture) are still there
					it.oracle = oracle
					it.done = nil
					s2 := st.clone()
					var recv *c11V = arg
					o := it.callInline(fr, s2, lf, recv, []*c11V{c11Param(sig.Params().At(0)), c11Param(sig.Params().At(1))}, nil)
					return o, c11PathNotes(it, o)
				}}, ""
		case (isPkgFunc(ev.call.fn, "sort", "Slice") || isPkgFunc(ev.call.fn, "sort", "SliceStable")) && len(ev.call.xs) == 2 && ev.call.xs[1].k == "funclit" && ev.fr == "":
			lit := ev.call.xs[1].node.(*ast.FuncLit)
			var ps []types.Object
			for _, f := range lit.Type.Params.List {
				for _, nm := range f.Names {
					ps = append(ps, pk.TypesInfo.Defs[nm])
				}
			}
			if len(ps) != 2 || ps[0] == nil || ps[1] == nil {
				return nil, "a less function literal with two named parameters"
			}
			pi, pj := c11Param(ps[0]), c11Param(ps[1])
			return &c11Cmp{desc: "the less function handed to " + ev.call.fn.Name(), pos: lit.Pos(), pi: pi, pj: pj,
				run: func(oracle func(*c11St, *c11V) c11Tri) ([]c11Out, []string) {
					it.oracle = oracle
					it.done = nil
					s2 := st.clone()
					s2.env[ps[0]], s2.env[ps[1]] = pi, pj
					lfr := &c11Frame{pk: fr.pk, info: fr.info, lit: lit, path: "/less", depth: 1}
					o := it.execList(lfr, s2, lit.Body.List)
					return o, c11PathNotes(it, o)
				}}, ""
		}
	}
	return nil, "a call of sort.Sort / sort.Stable / sort.Slice"
}

// c11CmpTable evaluates the comparator on every combination of relations between the i-side and the j-side of
// the given element fields and compares the value it returns with the strict lexicographic order over them.
// Comparisons are recognised as terms: x.F < y.F, x.F == y.F (any spelling that normalises to them) and, for
// time.Time fields, x.F.Before(y.F), x.F.After(y.F), x.F.Equal(y.F), where x and y are elements B[i], B[j] of
// one slice B. bad: the table differs; unk: the comparator tests something else / is not decided.
func c11CmpTable(cmp *c11Cmp, fields []string) (bad, unk []string) {
	side := func(v *c11V) (string, string, string) {
		v = c11StripPtr(v)
		if v.k != "field" {
			return "", "", ""
		}
		el := c11StripPtr(v.xs[0])
		if el.k != "index" {
			return "", "", ""
		}
		switch el.xs[1].key() {
		case cmp.pi.key():
			return "i", v.obj.Name(), el.xs[0].key()
		case cmp.pj.key():
			return "j", v.obj.Name(), el.xs[0].key()
		}
		return "", "", ""
	}
	flip := map[string]string{"lt": "gt", "gt": "lt", "eq": "eq"}
	var combos []map[string]string
	var gen func(n int, cur map[string]string)
	gen = func(n int, cur map[string]string) {
		if n == len(fields) {
			m := map[string]string{}
			for k, v := range cur {
				m[k] = v
			}
			combos = append(combos, m)
			return
		}
		for _, rl := range []string{"lt", "eq", "gt"} {
			cur[fields[n]] = rl
			gen(n+1, cur)
		}
	}
	gen(0, map[string]string{})
	for _, rel := range combos {
		rel := rel
		oracle := func(st *c11St, v *c11V) c11Tri {
			var a, b *c11V
			want := ""
			switch {
			case v.k == "bin" && v.op == token.LSS:
				a, b, want = v.xs[0], v.xs[1], "lt"
			case v.k == "bin" && v.op == token.EQL:
				a, b, want = v.xs[0], v.xs[1], "eq"
			case v.k == "call" && v.recv && v.fn != nil && len(v.xs) == 2 && namedPath(v.fn.Type().(*types.Signature).Recv().Type()) == "time.Time":
				a, b = v.xs[0], v.xs[1]
				want = map[string]string{"Before": "lt", "After": "gt", "Equal": "eq"}[v.fn.Name()]
			}
			if want == "" {
				return c11U
			}
			sa, fa, ba := side(a)
			sb, fb, bb := side(b)
			if sa == "" || sb == "" || fa != fb || sa == sb || ba != bb || rel[fa] == "" {
				return c11U
			}
			rl := rel[fa] // relation of the i side to the j side
			if sa == "j" {
				rl = flip[rl]
			}
			if rl == want {
				return c11T
			}
			return c11F
		}
		expect := false
		for _, f := range fields {
			if rel[f] == "lt" {
				expect = true
			}
			if rel[f] != "eq" {
				break
			}
		}
		var desc []string
		for _, f := range fields {
			desc = append(desc, f+"_i "+rel[f]+" "+f+"_j")
		}
		outs, notes := cmp.run(oracle)
		if len(notes) > 0 || len(outs) != 1 || len(outs[0].res) != 1 {
			unk = append(unk, "for "+strings.Join(desc, ", ")+" the comparator does not reduce to one decided path (it tests something other than comparisons of these fields of the two elements)")
			continue
		}
		got := outs[0].st.truthAt(outs[0].res[0], -1, func(v *c11V) c11Tri { return oracle(outs[0].st, v) })
		switch {
		case got == c11U:
			unk = append(unk, "for "+strings.Join(desc, ", ")+" the returned value "+c11Trunc(outs[0].res[0].key())+" is not decided by the field relations")
		case (got == c11T) != expect:
			bad = append(bad, "for "+strings.Join(desc, ", ")+" the comparator returns "+map[bool]string{true: "true", false: "false"}[got == c11T])
		}
	}
	return bad, unk
}
