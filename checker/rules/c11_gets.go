package rules

import (
	"go/types"
	"strings"

	"golang.org/x/tools/go/packages"

	"osmcheck/core"
)

// c11A4Gets: every ChildList a Datasourcer.Get of package annotate returns is nil, the result of a builder, or
// directly the user's AsChildren result.
func c11A4Gets(r *core.R, apk *packages.Package, newIt func() *c11Interp, isBuilder map[*types.Func]bool) {
	cpk := r.P.Pkg("annotate/internal/core")
	var iface *types.Interface
	if cpk != nil {
		if o := cpk.Types.Scope().Lookup("Datasourcer"); o != nil {
			iface, _ = o.Type().Underlying().(*types.Interface)
		}
	}
	if iface == nil {
		r.Anchor("core.Datasourcer")
		return
	}
	n := 0
	for _, fi := range allFuncs(apk) {
		sig := fi.Obj.Type().(*types.Signature)
		if sig.Recv() == nil || fi.Obj.Name() != "Get" || !types.Implements(sig.Recv().Type(), iface) {
			continue
		}
		n++
		c := "get@" + fi.Name()
		it := newIt()
		outs, _ := it.run(fi, nil)
		if notes := c11PathNotes(it, outs); len(notes) > 0 {
			r.Unknown(c, fi.Decl.Pos(), "%s could not be followed on every path: %s", fi.Name(), strings.Join(notes, "; "))
			continue
		}
		var via, user, own, bad []string
		for _, o := range outs {
			if o.ctl != c11Return || len(o.res) == 0 {
				continue
			}
			v := o.res[0]
			if v.k == "res" && v.id == 0 {
				v = v.xs[0]
			}
			switch {
			case v.k == "nil":
			case v.k == "call" && v.fn != nil && isBuilder[v.fn]:
				via = append(via, v.fn.Name())
			case v.k == "call" && v.fn != nil && v.recv && types.IsInterface(v.fn.Type().(*types.Signature).Recv().Type()):
				user = append(user, v.fn.Name())
			case v.k == "call" && strings.HasPrefix(v.name, "make@") && isBuilder[fi.Obj]:
				own = append(own, "a list it builds itself")
			default:
				bad = append(bad, "`"+src(r.P.Fset, o.ret)+"` ("+c11Trunc(v.key())+")")
			}
		}
		switch {
		case len(bad) > 0:
			r.Unknown(c, fi.Decl.Pos(), "%s returns a child list that is neither built by a checked list builder nor the user's AsChildren result: %s", fi.Name(), strings.Join(c11Uniq(bad), ", "))
		case len(via)+len(own) > 0:
			r.OK(c, fi.Decl.Pos(), "every returned list comes from %s", strings.Join(c11Uniq(append(via, own...)), ", "))
		default:
			r.OKTrivial(c, fi.Decl.Pos(), "returns the user datasource's %s unchanged (trusted: version-sorted, VersionIndex == position)", strings.Join(c11Uniq(user), ", "))
		}
	}
	if n == 0 {
		r.Anchor("Get methods of package annotate implementing core.Datasourcer")
	}
}

// c11A4Order: the comparator behind osm.<T>.SortByIDVersion orders by ascending ID, equal ids by strictly
// ascending Version. Finite-domain evaluation: for each of the 3x3 relations between (ID_i, ID_j) and
// (Version_i, Version_j) the comparator is executed with an oracle deciding its comparisons; the value it
// returns must be `ID_i < ID_j || (ID_i == ID_j && Version_i < Version_j)`.
func c11A4Order(r *core.R, tname string) {
	pk := r.P.Pkg("")
	c := "order@" + tname + ".SortByIDVersion"
	sfi := findFunc(pk, tname+".SortByIDVersion")
	if sfi == nil {
		r.Anchor("osm." + tname + ".SortByIDVersion")
		return
	}
	cmp, anchor := c11FindComparator(pk, sfi)
	if cmp == nil {
		r.Anchor(anchor + " in osm." + tname + ".SortByIDVersion")
		return
	}
	bad, unk := c11CmpTable(cmp, []string{"ID", "Version"})
	switch {
	case len(bad) > 0:
		r.Bad(c, cmp.pos, "%s: %s; it must be ID_i < ID_j || (ID_i == ID_j && Version_i < Version_j): versions of one element must be ordered by strictly ascending Version, otherwise VersionIndex does not count versions from lowest to highest", cmp.desc, strings.Join(bad, "; "))
	case len(unk) > 0:
		r.Unknown(c, cmp.pos, "%s: %s", cmp.desc, strings.Join(c11Uniq(unk), "; "))
	default:
		r.OK(c, cmp.pos, "%s evaluated on all 9 relations of (ID, Version): true exactly when ID_i < ID_j or ID_i == ID_j && Version_i < Version_j", cmp.desc)
	}
}
