package rules

import (
	"fmt"
	"go/ast"
	"go/types"
	"strings"

	"osmcheck/core"
)

// G7: for area ways a CLOSED polygon.
//
// Role: a *way polygon site* is a composite literal orb.Polygon{R} with one ring outside the multipolygon builder
// (c17_role.go); R is made from the line of a way (every opaque orb.LineString value of the run). The function
// containing the site, or its unexported callers as long as the call is not inside a loop, is interpreted
// symbolically (c17_sym.go) for every input line of 0..5 points, open (all points distinct) and closed (last point
// identical to the first), with points as tokens of which only identity is known. Whatever helper closes the ring,
// wherever it lives and however its guards are spelled, every ring R that reaches a site must satisfy:
//   - R starts with the input points, in order;
//   - an input that is already closed (first == last) is left as it is;
//   - an open input of two or more points gets exactly one more point, its first one (so R is closed);
//
// and no path may index the line out of range. Inputs the converter rejects before the site (one-point ways) simply
// produce no observation.
func c17G7(r *core.R) {
	pk := r.P.Pkg(c17GeoPkg)
	if pk == nil {
		r.Anchor("package osmgeojson")
		return
	}
	a := c17NewPkg(r.P, pk)
	info, fset := a.info, a.fset
	// sites and the functions to interpret
	roots := map[*c17Fn]bool{}
	var order []*c17Fn
	nsites := 0
	for _, fn := range a.list {
		if a.polygonOnly(fn, map[*c17Fn]bool{}) {
			continue
		}
		has := false
		inspectNoLit(fn.Decl.Body, func(n ast.Node) bool {
			if cl, ok := n.(*ast.CompositeLit); ok && namedPath(info.TypeOf(cl)) == c17PolygonPath && len(cl.Elts) == 1 {
				has = true
				nsites++
			}
			return true
		})
		if !has {
			continue
		}
		for _, root := range c17G7Roots(a, fn, 3, map[*c17Fn]bool{}) {
			if !roots[root] {
				roots[root] = true
				order = append(order, root)
			}
		}
	}
	if nsites == 0 {
		r.Anchor("orb.Polygon{ring} built from the line of a way outside the multipolygon builder")
		return
	}
	for _, root := range order {
		c := "ring@" + root.Name()
		var bad, unknown []string
		observed, cases := 0, 0
		for n := 0; n <= 5; n++ {
			for _, closed := range []bool{false, true} {
				if closed && n < 2 {
					continue
				}
				input := make([]string, n)
				for i := range input {
					input[i] = fmt.Sprintf("p%d", i)
				}
				if closed {
					input[n-1] = "p0"
				}
				cases++
				label := fmt.Sprintf("%d point(s), %s", n, map[bool]string{true: "first == last", false: "all distinct"}[closed])
				sym := &c17Sym{a: a, input: input}
				sym.observe = func(lit *ast.CompositeLit, ring c17SV) {
					observed++
					if ring.kind != c17List {
						unknown = append(unknown, fmt.Sprintf("for a line of %s the ring in `%s` is not determined by the interpreter", label, src(fset, lit)))
						return
					}
					if why := c17RingVerdict(input, ring.list); why != "" {
						bad = append(bad, fmt.Sprintf("for a line of %s [%s] the ring of `%s` is [%s]: %s", label, strings.Join(input, " "), src(fset, lit), strings.Join(ring.list, " "), why))
					}
				}
				env := c17Env{}
				sig := root.Obj.Type().(*types.Signature)
				for i := 0; i < sig.Params().Len(); i++ {
					env[sig.Params().At(i)] = sym.opaque(sig.Params().At(i).Type())
				}
				sym.block(root.Decl.Body.List, env, func(c17Env) {}, func([]c17SV) {})
				for _, p := range sym.panics {
					bad = append(bad, fmt.Sprintf("for a line of %s `%s` (%s) indexes out of range: the conversion would panic", label, src(fset, p), r.P.Rel(p.Pos())))
				}
				for _, g := range sym.gaveUp {
					unknown = append(unknown, fmt.Sprintf("`%s` (%s) is outside what the interpreter follows", src(fset, g), r.P.Rel(g.Pos())))
				}
			}
		}
		switch {
		case len(bad) > 0:
			r.Bad(c, root.Decl.Pos(), "%s; an area way must become a polygon whose ring is closed by repeating its first point, nothing else (%d violation(s) in all)", bad[0], len(bad))
		case len(unknown) > 0:
			r.Unknown(c, root.Decl.Pos(), "%s", unknown[0])
		case observed == 0:
			r.Unknown(c, root.Decl.Pos(), "no path of %s reaches its orb.Polygon{ring} for any line of 0..5 points", root.Name())
		default:
			r.OK(c, root.Decl.Pos(), "symbolic evaluation over %d input lines (0..5 points, open and closed): %d ring(s) reached an orb.Polygon literal; each starts with the input points, an already closed line is unchanged, an open line gets exactly its first point appended; no index out of range", cases, observed)
		}
	}
	r.Stat("way_polygon_sites", nsites)
}

// c17RingVerdict compares the ring handed to the polygon with the input line.
func c17RingVerdict(in, out []string) string {
	n := len(in)
	if len(out) < n {
		return "points of the way are dropped"
	}
	for i := range in {
		if out[i] != in[i] {
			return "the points of the way are reordered or replaced"
		}
	}
	closedIn := n >= 1 && in[0] == in[n-1]
	switch {
	case n == 0 || closedIn:
		if len(out) != n {
			return "a point is added to a line that is already closed"
		}
	case len(out) == n:
		return "the ring is left open (first != last)"
	case len(out) > n+1:
		return "more than one point is added"
	case out[n] != in[0]:
		return "the ring is closed with a point other than its first one"
	}
	return ""
}

// c17G7Roots climbs from the function containing a site to the functions to interpret: an unexported function all of
// whose uses are static calls outside loops is interpreted from its callers (they may have rejected short lines).
func c17G7Roots(a *c17Pkg, fn *c17Fn, depth int, seen map[*c17Fn]bool) []*c17Fn {
	if seen[fn] {
		return nil
	}
	seen[fn] = true
	if depth == 0 || !a.onlyCalled(fn.Obj) {
		return []*c17Fn{fn}
	}
	var out []*c17Fn
	for _, cs := range a.calls[fn.Obj] {
		if len(cs.fn.loopsAround(cs.call)) > 0 || a.polygonOnly(cs.fn, map[*c17Fn]bool{}) || fn.Obj.Type().(*types.Signature).Results().Len() != 1 {
			return []*c17Fn{fn}
		}
		if enclosing(cs.fn.parents(), cs.call, func(n ast.Node) bool { _, ok := n.(*ast.FuncLit); return ok }) != nil {
			return []*c17Fn{fn}
		}
	}
	for _, cs := range a.calls[fn.Obj] {
		out = append(out, c17G7Roots(a, cs.fn, depth-1, seen)...)
	}
	if len(out) == 0 {
		return []*c17Fn{fn}
	}
	return out
}
