package rules

import (
	"go/ast"
	"go/token"
	"go/types"
	"sort"
	"strings"

	"osmcheck/core"
)

// N5: the effects performed under a map range do not depend on the order of the iterations.
//
// "Identical annotated elements" is decided by what the body of a range over a map writes into state that outlives
// one iteration: variables declared outside the loop, and whatever the functions reached from the body (static calls,
// and every implementation in the annotate tree of an interface method that is called: Parent.SetChild ...) write
// through their receivers, pointer/slice/map parameters and package-level variables. Each such write must commute
// with the writes of the other iterations and be idempotent:
//   - a store into a slot keyed by the data of the current call (`Members[idx].Version = child.Version`,
//     `ways[child.Way.ID] = child.Way`), a delete of such a key;
//   - a lazy initialisation: `if p == nil { p = make(...) }` with a value that does not depend on the current call;
//   - a constant store into a place nothing accumulates into; a counter that is not read under the loop;
//   - an append to a list that N1 shows to be sorted into a total order before it escapes.
// A write that replaces accumulated state (p = nil, p = make(...) without the nil guard, while other writes insert
// into p), that keeps the first or the last value seen (`if p == nil { p = child }`, `p = child`), that deletes a key
// not derived from the current call, or a counter that is read, is order-dependent. Anything else is undecided.

type c12Effect struct {
	fn     *c12Fn
	node   ast.Node
	lhs    ast.Expr // alias-expanded left-hand side (the place written)
	root   types.Object
	key    string // owner type + field path, index steps as []
	kind   string // "store", "append", "incdec", "delete"
	rhs    ast.Expr
	inLoop *ast.RangeStmt // set for writes of the function that contains the map range
}

type c12Effects struct {
	r     *core.R
	s     *c12Sorter
	seen  map[*types.Func]bool
	all   []*c12Effect
	edges map[*types.Func][]c12Edge // the calls under the loop that enter each reached function
	loop  *ast.RangeStmt
	loopF *c12Fn
}

type c12Edge struct {
	from *c12Fn
	call *ast.CallExpr
}

func c12N5(r *core.R) {
	s := c12NewSorter(r.P)
	n := 0
	for _, pk := range annotateTree(r.P) {
		info := pk.TypesInfo
		for _, fi := range allFuncs(pk) {
			fi := fi
			ast.Inspect(fi.Decl.Body, func(x ast.Node) bool {
				rs, ok := x.(*ast.RangeStmt)
				if !ok {
					return true
				}
				if t := info.TypeOf(rs.X); t == nil {
					return true
				} else if _, isMap := t.Underlying().(*types.Map); !isMap {
					return true
				}
				f := s.fn(fi.Obj)
				if f == nil {
					return true
				}
				n++
				ef := &c12Effects{r: r, s: s, seen: map[*types.Func]bool{fi.Obj: true}, edges: map[*types.Func][]c12Edge{}, loop: rs, loopF: f}
				ef.collect(f, rs.Body, rs)
				ef.reach(f, rs.Body, 4)
				ef.judge(f, rs)
				ef.judgeFailure(f, rs)
				return true
			})
		}
	}
	if n == 0 {
		r.Anchor("range over a map in the annotate tree")
	}
}

// reach follows the calls made in node: static calls of repository functions, and for calls of interface methods
// every implementation declared in the annotate tree.
func (ef *c12Effects) reach(f *c12Fn, node ast.Node, depth int) {
	if depth <= 0 {
		return
	}
	info := f.info()
	ast.Inspect(node, func(n ast.Node) bool {
		call, ok := n.(*ast.CallExpr)
		if !ok {
			return true
		}
		fn := callee(info, call)
		if fn == nil {
			return true
		}
		var targets []*types.Func
		if recv := fn.Type().(*types.Signature).Recv(); recv != nil && types.IsInterface(recv.Type()) {
			targets = c12Implementations(ef.r.P, recv.Type(), fn)
		} else {
			targets = []*types.Func{fn}
		}
		for _, t := range targets {
			ef.edges[t] = append(ef.edges[t], c12Edge{from: f, call: call})
			if ef.seen[t] {
				continue
			}
			ef.seen[t] = true
			if h := ef.s.fn(t); h != nil {
				ef.collect(h, h.fi.Decl.Body, nil)
				ef.reach(h, h.fi.Decl.Body, depth-1)
			}
		}
		return true
	})
}

// c12Implementations lists the methods of named types of the annotate tree that implement interface method m.
func c12Implementations(p *core.Program, iface types.Type, m *types.Func) []*types.Func {
	it, ok := iface.Underlying().(*types.Interface)
	if !ok {
		return nil
	}
	var out []*types.Func
	for _, pk := range annotateTree(p) {
		sc := pk.Types.Scope()
		names := sc.Names()
		sort.Strings(names)
		for _, nm := range names {
			tn, ok := sc.Lookup(nm).(*types.TypeName)
			if !ok || types.IsInterface(tn.Type()) {
				continue
			}
			ptr := types.NewPointer(tn.Type())
			if !types.Implements(ptr, it) {
				continue
			}
			if sel := types.NewMethodSet(ptr).Lookup(m.Pkg(), m.Name()); sel != nil {
				if mf, ok := sel.Obj().(*types.Func); ok {
					out = append(out, mf)
				}
			}
		}
	}
	return out
}

// collect records the writes of node (the body of a reached function, or the body of the map range itself) into
// state that outlives the call / the iteration.
func (ef *c12Effects) collect(f *c12Fn, node ast.Node, loop *ast.RangeStmt) {
	info := f.info()
	body := f.fi.Decl.Body
	add := func(n ast.Node, lhs, rhs ast.Expr, kind string) {
		full := expandAlias(info, body, lhs)
		root := c12RootVar(info, full)
		v, ok := root.(*types.Var)
		if !ok {
			return
		}
		// a local that holds a pointer, map or slice taken from longer-lived state (`m := r.byID[k]; m.x = ...`) writes
		// that state: the place is named through what the local was read from
		for i := 0; i < 2 && c12ParamPos(info, f.fi.Decl, v) < 0 && !c12IsPkgVar(v); i++ {
			if _, plain := ast.Unparen(full).(*ast.Ident); plain {
				break
			}
			switch v.Type().Underlying().(type) {
			case *types.Pointer, *types.Map, *types.Slice:
			default:
				i = 2
				continue
			}
			rhs := c12SingleDef(info, body, v)
			if rhs == nil || c12IsFreshOrConst(info, rhs) {
				break
			}
			if _, isCall := ast.Unparen(rhs).(*ast.CallExpr); isCall {
				break
			}
			rv, ok := c12RootVar(info, rhs).(*types.Var)
			if !ok || rv == v {
				break
			}
			loc := v
			full = rewriteRoot(full, func(id *ast.Ident) ast.Expr {
				if info.Uses[id] == types.Object(loc) {
					return &ast.ParenExpr{X: rhs}
				}
				return nil
			})
			v = rv
		}
		if loop != nil {
			if v.Pos() >= loop.Pos() && v.Pos() < loop.End() && !c12IsPkgVar(v) {
				return // declared by or inside the loop: per-iteration state
			}
		} else if !c12IsPkgVar(v) {
			if c12ParamPos(info, f.fi.Decl, v) < 0 || !c12SharedStore(v.Type(), info, full) {
				return // a local, or a field of a by-value parameter
			}
			if _, plain := ast.Unparen(full).(*ast.Ident); plain {
				return // rebinding the parameter variable itself is local to the call
			}
		}
		ef.all = append(ef.all, &c12Effect{fn: f, node: n, lhs: full, root: v, key: c12PlaceKey(info, v, full), kind: kind, rhs: rhs, inLoop: loop})
	}
	ast.Inspect(node, func(n ast.Node) bool {
		switch x := n.(type) {
		case *ast.AssignStmt:
			if x.Tok == token.DEFINE {
				// := may still assign to an existing outer variable only when it redeclares; those are new variables here
				return true
			}
			for i, l := range x.Lhs {
				if id, ok := ast.Unparen(l).(*ast.Ident); ok && id.Name == "_" {
					continue
				}
				var rhs ast.Expr
				if len(x.Lhs) == len(x.Rhs) {
					rhs = x.Rhs[i]
				}
				kind := "store"
				if x.Tok != token.ASSIGN {
					kind = "incdec"
				} else if c, ok := ast.Unparen(rhs).(*ast.CallExpr); ok && rhs != nil && builtinName(info, c) == "append" {
					kind = "append"
				}
				add(x, l, rhs, kind)
			}
		case *ast.IncDecStmt:
			add(x, x.X, nil, "incdec")
		case *ast.CallExpr:
			switch builtinName(info, x) {
			case "delete":
				if len(x.Args) == 2 {
					add(x, &ast.IndexExpr{X: x.Args[0], Index: x.Args[1]}, nil, "delete")
				}
			case "copy", "clear":
				if len(x.Args) >= 1 {
					add(x, x.Args[0], nil, "bulk")
				}
			}
		}
		return true
	})
}

func c12IsPkgVar(v *types.Var) bool {
	return v.Pkg() != nil && v.Parent() == v.Pkg().Scope()
}

// c12SharedStore: a store into lhs (rooted at a parameter of type t) is visible to the caller: the parameter is a
// pointer, map or slice, or the path to the stored place goes through one.
func c12SharedStore(t types.Type, info *types.Info, lhs ast.Expr) bool {
	switch t.Underlying().(type) {
	case *types.Pointer, *types.Map, *types.Slice:
		return true
	}
	shared := false
	for e := ast.Unparen(lhs); ; {
		var inner ast.Expr
		switch x := e.(type) {
		case *ast.SelectorExpr:
			inner = x.X
		case *ast.IndexExpr:
			inner = x.X
		case *ast.StarExpr:
			inner = x.X
		case *ast.ParenExpr:
			inner = x.X
		default:
			return shared
		}
		if it := info.TypeOf(inner); it != nil {
			switch it.Underlying().(type) {
			case *types.Pointer, *types.Map, *types.Slice:
				if _, isRoot := ast.Unparen(inner).(*ast.Ident); !isRoot {
					shared = true
				}
			}
		}
		e = ast.Unparen(inner)
	}
}

// c12PlaceKey names a written place independently of variable names: the type of the root and the path of fields,
// with `[]` for index steps.
func c12PlaceKey(info *types.Info, root *types.Var, lhs ast.Expr) string {
	var steps []string
	for e := ast.Unparen(lhs); ; {
		switch x := e.(type) {
		case *ast.SelectorExpr:
			steps = append(steps, "."+x.Sel.Name)
			e = ast.Unparen(x.X)
			continue
		case *ast.IndexExpr:
			steps = append(steps, "[]")
			e = ast.Unparen(x.X)
			continue
		case *ast.StarExpr:
			e = ast.Unparen(x.X)
			continue
		}
		break
	}
	owner := types.TypeString(root.Type(), func(p *types.Package) string { return p.Name() })
	if c12IsPkgVar(root) {
		owner = root.Pkg().Name() + "." + root.Name()
	}
	var b strings.Builder
	b.WriteString(strings.TrimPrefix(owner, "*"))
	for i := len(steps) - 1; i >= 0; i-- {
		b.WriteString(steps[i])
	}
	return b.String()
}
