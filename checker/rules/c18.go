package rules

import (
	"encoding/json"
	"fmt"
	"os"
	"path/filepath"

	"osmcheck/core"
)

// C18 — area classification of ways follows the published polygon-features rules.
//
// Anchors: exported API (*Way).Polygon, (*Relation).Polygon, Tags.Find, Way.Nodes, WayNode.ID, Way.Tags.
// Everything else is resolved by role:
//   - the conditions table   = the one package-level slice of structs whose fields carry the JSON
//     names key/polygon/values (the names of the published file format);
//   - the rule loop          = whatever loop iterates that table (range, or the canonical index loop)
//     in (*Way).Polygon or in any function of the package it calls, found by evaluating the code;
//   - the embedded literal   = the constant behind the first argument of the one json.Unmarshal call whose
//     target is &table or a local slice of the table's type (directly, or through the parameters of a
//     wrapping helper); L2 follows that slice through locals, helper results and assignments into the table;
//   - the condition values   = package-level constants/variables of the condition field's type.
// No unexported identifier is matched by name, no file name is used, and no verdict depends on the
// statement shape: the decision procedures are *executed* on abstract inputs (c18_interp.go ...),
// the init ordering is a path-insensitive must-analysis that follows calls (c18_init.go, c18_flow.go),
// and the read-only rule is decided on expression types (c18_reads.go).
//
// Files: c18.go (registration, external table), c18_resolve.go, c18_literal.go (L1), c18_l2.go,
// c18_init.go + c18_flow.go + c18_sorted.go + c18_immutable.go (L2 b/c), c18_l3.go, c18_reads.go, c18_l4.go,
// c18_interp.go + c18_exec.go + c18_stmt.go + c18_eval.go + c18_compare.go + c18_calls.go (the evaluator),
// c18_maps.go (lookup tables), c18_concrete.go (literal slices/structs), c18_tags.go (witness tag lists, rule-key index), c18_loops.go, c18_flowfix.go (fixpoint of the init analysis),
// c18_benign.go + c18_variants.go + c18_round5*.go + c18_round7*.go + c18_round8.go (behaviour-preserving variants), c18_seeded.go (defects seeded into them).

func init() {
	c18Prop := &core.Property{
		ID:    "C18",
		Title: "Area classification of ways follows the published polygon-features rules",
		Explanation: "Decided statically: (L1) the JSON literal unmarshalled into the conditions table, read as a constant through the type checker, equals tables/polygon-features.json (the published Overpass-turbo/osmtogeojson list) as a map key -> (all|whitelist|blacklist, value set), both directions, no duplicates; the published key `area` may be absent because the code handles it (L3). " +
			"(L2) every binary search evaluated while (*Way).Polygon (or a function of the package it calls) decides a whitelist or blacklist entry searches that entry's value list for the tag value found under the entry's key; the value lists are sorted before any call (literal already sorted, or on every path through package initialisation - the call in the table's declaration, then the init functions - the unmarshal of the literal into the table or into a local slice is followed by a complete loop over that slice in which every iteration sorts the entry's list in place, directly or in helpers, and that slice is, is returned into, or is assigned to the table; slices assigned from one another share their entries); nothing else writes the table (assignments during initialisation are followed by the same analysis; local pointers to an entry must be read-only). " +
			"(L3) (*Way).Polygon, executed over the control-flow graphs of itself and of every package function it calls (parameters, receivers, multi-value results, closures, function values, never-written lookup-table maps, re-assigned locals and pointer aliases are followed) for every combination of the finite abstractions {len(nodes) 0..5} x {closed, open} x {area: absent, no, other...} and, per rule entry, {value: absent, no, other...} x {all, whitelist, blacklist} x {search index at end, inside} x {element equal, different} (and, for the list kinds, witness lists of 0, 2, 3 and 4 ascending elements with the value before, at, between and behind them, so that a hand-written search is executed rather than recognised), returns exactly what the published algorithm returns, never indexes out of range, the blacklist truth table is the complement of the whitelist one, an element without tags is answered false (at once or through the table), code that walks the tags itself (one pass over the tags with the rules looked up in a key index filled once, completely, from the table in init; bodies of Tags methods other than Find) is run on witness tag lists with unrelated tags before and behind, absent values spelled as present-but-empty tags, the entry's tag before the area tag, and a second tag of the entry's key, and gives the same answers (so the result is a function of the first value per key), an iteration of the rule loop that does not return leaves every local of the prefix unchanged (so the loop is `first matching entry wins`), and every expression of way, node-list, way-node or tag-list type in the evaluated functions is a len/index/ID read or a Tags.Find with the key `area` or the entry's key (so the answer depends on closedness and the tag set only). " +
			"(L4) (*Relation).Polygon (evaluated the same way; a literal table of rule structs it may be routed through is evaluated on its actual contents, sort.SearchStrings on the literal order) is true exactly for type in {multipolygon, boundary} and consults no tag but `type`. " +
			"NOT decided: behaviour for node counts above 5 beyond `4 behaves like 5` (the rule loop may not compare the node count); value lists longer than 4 elements; correctness of sort.SearchStrings/sort.Strings/encoding/json themselves; tag lists holding the same key twice (Find returns the first); calls to Polygon from another package-level initialiser that runs before polygon.go's init.",
		Assumptions: []string{"go/types constant evaluation, go/cfg (x/tools v0.29.0)", "encoding/json.Unmarshal field matching by struct tag (case-insensitive)", "sort.SearchStrings returns the insertion index in [0,len] on a sorted slice", "sort.Strings / sort.StringSlice.Sort / slices.Sort sort in place", "package init runs before any exported call", "Tags.Find(k) returns the value of the first tag with key k, \"\" when absent (it is the primitive through which tags are read; its body is not evaluated)", "tables/polygon-features.json is a faithful transcription of the published list"},
		LevelText:   "The embedded rule table is compared entry by entry with the published polygon-features list, and the decision procedure of Way.Polygon / Relation.Polygon is evaluated over its control-flow graph for every combination of a finite abstraction of its inputs (node count, closedness, area tag class, per-entry value class, condition kind, binary-search outcome); together with the sorted-before-search precondition this fixes the function's result for every tag set without duplicate keys.",
		LevelNote:   "Trusts the type checker's constant folding, go/cfg, encoding/json and package sort; the table file is a hand transcription of the published list (differences with the repository literal are reported, not copied).",
		Technique:   "constant-literal extraction + external table comparison; finite-domain evaluation by an interprocedural abstract interpreter over the CFGs (environment, calls into package functions, short-circuit order, out-of-range hazards, loop induction with an unchanged-environment check); interprocedural path-insensitive must-analysis for unmarshal-then-sort-every-entry; type-directed read-only scan",
		DesignRef:   "DESIGN.md §5 C18",
		// Floors count roles, not syntactic sites: L1 = source + 27 published keys; L2 = one lookup obligation per
		// condition kind with a list (whitelist, blacklist) + sorted + immutable; L3 = 5 prefix clauses + skip +
		// 3 kinds + negation + after-loop + empty tag set + tag order/duplicates + reads + condition values; L4 = 2 accepted types + others + reads.
		Rules: []*core.Rule{
			{ID: "L1", Floor: 28, Doc: "embedded JSON literal equals the published polygon-features table (per key, both directions)", Run: c18L1},
			{ID: "L2", Floor: 4, Doc: "binary searches (in Polygon or its helpers) run on the entry's value list for the entry's tag value; the lists are sorted on every path through init before use; the table is never rewritten", Run: c18L2},
			{ID: "L3", Floor: 15, Doc: "Way.Polygon (with the package functions it calls) equals the published algorithm on every abstract input; reads only node ids and Tags.Find", Run: c18L3},
			{ID: "L4", Floor: 4, Doc: "Relation.Polygon (with the package functions it calls) accepts exactly the types multipolygon and boundary and reads only Tags.Find(type)", Run: c18L4},
		},
		Mutants: []core.Mutant{
			{Name: "lit-drop-key", File: "polygon.go", Find: "    {\n        \"key\": \"craft\",\n        \"polygon\": \"all\"\n    },\n", Replace: "", ExpectRule: "L1", ExpectConstruct: "key craft"},
			{Name: "lit-aeroway-whitelist", File: "polygon.go", Find: "\"key\": \"aeroway\",\n        \"polygon\": \"blacklist\"", Replace: "\"key\": \"aeroway\",\n        \"polygon\": \"whitelist\"", ExpectRule: "L1", ExpectConstruct: "key aeroway"},
			{Name: "lit-drop-value", File: "polygon.go", Find: "            \"arete\",\n            \"tree_row\"\n", Replace: "            \"arete\"\n", ExpectRule: "L1", ExpectConstruct: "key natural"},
			{Name: "lit-extra-key", File: "polygon.go", Find: "    {\n        \"key\": \"golf\",", Replace: "    {\n        \"key\": \"route\",\n        \"polygon\": \"all\"\n    },\n    {\n        \"key\": \"golf\",", ExpectRule: "L1", ExpectConstruct: "key route"},
			{Name: "lit-extra-value", File: "polygon.go", Find: "            \"cutline\",\n", Replace: "            \"cutline\",\n            \"pier\",\n", ExpectRule: "L1", ExpectConstruct: "key man_made"},
			{Name: "init-no-sort", File: "polygon.go", Find: "sort.StringSlice(p.Values).Sort()", Replace: "_ = p", ExpectRule: "L2", ExpectConstruct: "sorted@"},
			{Name: "init-sort-copy", File: "polygon.go", Find: "sort.StringSlice(p.Values).Sort()", Replace: "sort.Strings(append([]string(nil), p.Values...))", ExpectRule: "L2", ExpectConstruct: "sorted@"},
			{Name: "init-sort-some", File: "polygon.go", Find: "\t\tsort.StringSlice(p.Values).Sort()", Replace: "\t\tif len(p.Values) > 4 {\n\t\t\tcontinue\n\t\t}\n\t\tsort.StringSlice(p.Values).Sort()", ExpectRule: "L2", ExpectConstruct: "sorted@"},
			{Name: "search-wrong-needle", File: "polygon.go", Find: "index := sort.SearchStrings(c.Values, v)", Nth: 2, Replace: "index := sort.SearchStrings(c.Values, c.Key)", ExpectRule: "L2", ExpectConstruct: "search@"},
			{Name: "len-gt-2", File: "polygon.go", Find: "len(w.Nodes) <= 3", Replace: "len(w.Nodes) <= 2", ExpectRule: "L3", ExpectConstruct: "len(nodes) > 3"},
			{Name: "closed-not-tested", File: "polygon.go", Find: "w.Nodes[0].ID != w.Nodes[len(w.Nodes)-1].ID", Replace: "w.Nodes[0].ID != w.Nodes[0].ID", ExpectRule: "L3", ExpectConstruct: "closed"},
			{Name: "area-no-true", File: "polygon.go", Find: "area == \"no\" {\n\t\treturn false", Replace: "area == \"no\" {\n\t\treturn true", ExpectRule: "L3", ExpectConstruct: "area=no"},
			{Name: "area-other-ignored", File: "polygon.go", Find: "} else if area != \"\" {\n\t\treturn true\n\t}", Replace: "}", ExpectRule: "L3", ExpectConstruct: "area=<other>"},
			{Name: "skip-no-removed", File: "polygon.go", Find: "if v == \"\" || v == \"no\" {", Replace: "if v == \"\" {", ExpectRule: "L3", ExpectConstruct: "skip"},
			{Name: "blacklist-as-whitelist", File: "polygon.go", Find: "if index == len(c.Values) || c.Values[index] != v {", Replace: "if index != len(c.Values) && c.Values[index] == v {", ExpectRule: "L3", ExpectConstruct: "blacklist"},
			{Name: "whitelist-no-compare", File: "polygon.go", Find: "if index != len(c.Values) && c.Values[index] == v {", Replace: "if index != len(c.Values) {", ExpectRule: "L3", ExpectConstruct: "branch whitelist"},
			{Name: "whitelist-no-bound", File: "polygon.go", Find: "if index != len(c.Values) && c.Values[index] == v {", Replace: "if c.Values[index] == v {", ExpectRule: "L3", ExpectConstruct: "branch whitelist"},
			{Name: "cond-value-renamed", File: "polygon.go", Find: "conditionWhitelist conditionType = \"whitelist\"", Replace: "conditionWhitelist conditionType = \"include\"", ExpectRule: "L3", ExpectConstruct: "branch whitelist"},
			{Name: "branch-all-removed", File: "polygon.go", Find: "if c.Condition == conditionAll {\n\t\t\treturn true\n\t\t} else if", Replace: "if", ExpectRule: "L3", ExpectConstruct: "branch all"},
			{Name: "tags-order-dependent", File: "polygon.go", Find: "\t\tv := w.Tags.Find(c.Key)\n", Replace: "\t\tv := w.Tags.Find(c.Key)\n\t\tif len(w.Tags) > 1 && w.Tags[0].Key == \"fixme\" {\n\t\t\tcontinue\n\t\t}\n", ExpectRule: "L3", ExpectConstruct: "tags"},
			{Name: "relation-accepts-route", File: "polygon.go", Find: "t == \"multipolygon\" || t == \"boundary\"", Replace: "t == \"multipolygon\" || t == \"boundary\" || t == \"route\"", ExpectRule: "L4", ExpectConstruct: "others"},
			{Name: "relation-drops-boundary", File: "polygon.go", Find: "t == \"multipolygon\" || t == \"boundary\"", Replace: "t == \"multipolygon\"", ExpectRule: "L4", ExpectConstruct: "type=boundary"},
		},
		Benign: c18Benign(),
	}
	c18Prop.Mutants = append(c18Prop.Mutants, c18ShapeMutants()...)
	c18Prop.Mutants = append(c18Prop.Mutants, c18Round5Mutants()...)
	c18Prop.Benign = append(c18Prop.Benign, c18Round5Benign()...)
	c18Prop.Mutants = append(c18Prop.Mutants, c18Round5bMutants()...)
	c18Prop.Benign = append(c18Prop.Benign, c18Round5bBenign()...)
	c18Prop.Mutants = append(c18Prop.Mutants, c18Round7Mutants()...)
	c18Prop.Benign = append(c18Prop.Benign, c18Round7Benign()...)
	c18Prop.Benign = append(c18Prop.Benign, c18Round7bBenign()...)
	c18Prop.Mutants = append(c18Prop.Mutants, c18Round8Mutants()...)
	c18Prop.Benign = append(c18Prop.Benign, c18Round8Benign()...)
	register(c18Prop)
}

// ---------------------------------------------------------------------------
// external table

type c18Feature struct {
	Key         string   `json:"key"`
	Polygon     string   `json:"polygon"`
	Values      []string `json:"values"`
	CodeHandled bool     `json:"code_handled"`
}

type c18Table struct {
	RelationTypes []string     `json:"relation_area_types"`
	Features      []c18Feature `json:"features"`
}

func c18LoadTable() (*c18Table, error) {
	// TablesDir first; the sensitivity suite re-executes the binary without -verif, so also look
	// next to the executable (<verif>/osmcheck or <verif>/bin/osmcheck -> <verif>/tables).
	dirs := []string{TablesDir}
	if exe, e := os.Executable(); e == nil {
		dirs = append(dirs, filepath.Join(filepath.Dir(exe), "tables"), filepath.Join(filepath.Dir(exe), "..", "tables"))
	}
	var b []byte
	var err error
	for _, d := range dirs {
		var e error
		if b, e = os.ReadFile(filepath.Join(d, "polygon-features.json")); e == nil {
			err = nil
			break
		} else if err == nil {
			err = e // report the configured directory
		}
	}
	if err != nil {
		return nil, err
	}
	var t c18Table
	if err := json.Unmarshal(b, &t); err != nil {
		return nil, err
	}
	if len(t.Features) < 20 || len(t.RelationTypes) == 0 {
		return nil, fmt.Errorf("table has %d features and %d relation types", len(t.Features), len(t.RelationTypes))
	}
	seen := map[string]bool{}
	for _, f := range t.Features {
		switch f.Polygon {
		case "all":
		case "whitelist", "blacklist":
			if len(f.Values) == 0 {
				return nil, fmt.Errorf("table key %q: %s without values", f.Key, f.Polygon)
			}
		default:
			return nil, fmt.Errorf("table key %q: unknown polygon kind %q", f.Key, f.Polygon)
		}
		if seen[f.Key] || f.Key == "" {
			return nil, fmt.Errorf("table key %q empty or duplicated", f.Key)
		}
		seen[f.Key] = true
	}
	return &t, nil
}
