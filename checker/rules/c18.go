package rules

import (
	"encoding/json"
	"fmt"
	"go/ast"
	"go/constant"
	"go/token"
	"go/types"
	"os"
	"path/filepath"
	"reflect"
	"sort"
	"strings"

	"golang.org/x/tools/go/cfg"
	"golang.org/x/tools/go/packages"

	"osmcheck/core"
)

// C18 — area classification of ways follows the published polygon-features rules.
//
// Anchors: exported API (*Way).Polygon, (*Relation).Polygon, Tags.Find, Way.Nodes, WayNode.ID, Way.Tags.
// Everything else is resolved by role:
//   - the conditions table   = the package-level slice variable (*Way).Polygon ranges over;
//   - its key/condition/values fields = the struct fields whose JSON names are key/polygon/values
//     (the names of the published file format);
//   - the embedded literal   = the constant behind the first argument of the json.Unmarshal call
//     whose second argument is &table;
//   - the condition values   = package-level constants/variables of the condition field's type.
// No unexported identifier is matched by name.

func init() {
	register(&core.Property{
		ID:    "C18",
		Title: "Area classification of ways follows the published polygon-features rules",
		Explanation: "Decided statically: (L1) the JSON literal unmarshalled into the conditions table, read as a constant through the type checker, equals tables/polygon-features.json (the published Overpass-turbo/osmtogeojson list) as a map key -> (all|whitelist|blacklist, value set), both directions, no duplicates; the published key `area` may be absent because the code handles it (L3). " +
			"(L2) every binary search in (*Way).Polygon searches the current entry's value list for the tag value found under the entry's key, the value lists are sorted before any call (literal already sorted, or init sorts every entry in place on every iteration after the unmarshal), and nothing else writes the table. " +
			"(L3) (*Way).Polygon, evaluated over its control-flow graph for every combination of the finite abstractions {len(nodes) 0..5} x {closed, open} x {area: absent, no, other...} and, per rule entry, {value: absent, no, other...} x {all, whitelist, blacklist} x {search index at end, inside} x {element equal, different}, returns exactly what the published algorithm returns, never indexes out of range, the blacklist truth table is the complement of the whitelist one, and tags are read only through Tags.Find with constant or table keys (so the answer depends on the tag set only). " +
			"(L4) (*Relation).Polygon is true exactly for type in {multipolygon, boundary}. " +
			"NOT decided: correctness of sort.SearchStrings/sort.Strings/encoding/json themselves; tag lists holding the same key twice (Find returns the first); calls to Polygon from another package-level initialiser that runs before polygon.go's init.",
		Assumptions: []string{"go/types constant evaluation, go/cfg (x/tools v0.29.0)", "encoding/json.Unmarshal field matching by struct tag (case-insensitive)", "sort.SearchStrings returns the insertion index in [0,len] on a sorted slice", "sort.Strings / sort.StringSlice.Sort / slices.Sort sort in place", "package init runs before any exported call", "tables/polygon-features.json is a faithful transcription of the published list"},
		LevelText:   "The embedded rule table is compared entry by entry with the published polygon-features list, and the decision procedure of Way.Polygon / Relation.Polygon is evaluated over its control-flow graph for every combination of a finite abstraction of its inputs (node count, closedness, area tag class, per-entry value class, condition kind, binary-search outcome); together with the sorted-before-search precondition this fixes the function's result for every tag set without duplicate keys.",
		LevelNote:   "Trusts the type checker's constant folding, go/cfg, encoding/json and package sort; the table file is a hand transcription of the published list (differences with the repository literal are reported, not copied).",
		Technique:   "constant-literal extraction + external table comparison; finite-domain abstract evaluation of the CFG (boolean structure with short-circuit order, out-of-range hazards); dominance rules for sort-before-search",
		DesignRef:   "DESIGN.md §5 C18",
		Rules: []*core.Rule{
			{ID: "L1", Floor: 28, Doc: "embedded JSON literal equals the published polygon-features table (per key, both directions)", Run: c18L1},
			{ID: "L2", Floor: 4, Doc: "binary searches run on the entry's value list, which is sorted before use and never rewritten", Run: c18L2},
			{ID: "L3", Floor: 13, Doc: "Way.Polygon decision procedure equals the published algorithm on every abstract input", Run: c18L3},
			{ID: "L4", Floor: 4, Doc: "Relation.Polygon accepts exactly the types multipolygon and boundary", Run: c18L4},
		},
		Mutants: []core.Mutant{
			{Name: "lit-drop-key", File: "polygon.go", Find: "    {\n        \"key\": \"craft\",\n        \"polygon\": \"all\"\n    },\n", Replace: "", ExpectRule: "L1", ExpectConstruct: "key craft"},
			{Name: "lit-aeroway-whitelist", File: "polygon.go", Find: "\"key\": \"aeroway\",\n        \"polygon\": \"blacklist\"", Replace: "\"key\": \"aeroway\",\n        \"polygon\": \"whitelist\"", ExpectRule: "L1", ExpectConstruct: "key aeroway"},
			{Name: "lit-drop-value", File: "polygon.go", Find: "            \"arete\",\n            \"tree_row\"\n", Replace: "            \"arete\"\n", ExpectRule: "L1", ExpectConstruct: "key natural"},
			{Name: "lit-extra-key", File: "polygon.go", Find: "    {\n        \"key\": \"golf\",", Replace: "    {\n        \"key\": \"route\",\n        \"polygon\": \"all\"\n    },\n    {\n        \"key\": \"golf\",", ExpectRule: "L1", ExpectConstruct: "key route"},
			{Name: "lit-extra-value", File: "polygon.go", Find: "            \"cutline\",\n", Replace: "            \"cutline\",\n            \"pier\",\n", ExpectRule: "L1", ExpectConstruct: "key man_made"},
			{Name: "init-no-sort", File: "polygon.go", Find: "sort.StringSlice(p.Values).Sort()", Replace: "_ = p", ExpectRule: "L2", ExpectConstruct: "sorted@"},
			{Name: "init-sort-copy", File: "polygon.go", Find: "sort.StringSlice(p.Values).Sort()", Replace: "sort.Strings(append([]string(nil), p.Values...))", ExpectRule: "L2", ExpectConstruct: "sorted@"},
			{Name: "init-sort-some", File: "polygon.go", Find: "\t\tsort.StringSlice(p.Values).Sort()", Replace: "\t\tif len(p.Values) > 4 {\n\t\t\tcontinue\n\t\t}\n\t\tsort.StringSlice(p.Values).Sort()", ExpectRule: "L2", ExpectConstruct: "sorted@"},
			{Name: "search-wrong-needle", File: "polygon.go", Find: "index := sort.SearchStrings(c.Values, v)", Nth: 2, Replace: "index := sort.SearchStrings(c.Values, c.Key)", ExpectRule: "L2", ExpectConstruct: "search@"},
			{Name: "len-gt-2", File: "polygon.go", Find: "len(w.Nodes) <= 3", Replace: "len(w.Nodes) <= 2", ExpectRule: "L3", ExpectConstruct: "len(nodes) > 3"},
			{Name: "closed-not-tested", File: "polygon.go", Find: "w.Nodes[0].ID != w.Nodes[len(w.Nodes)-1].ID", Replace: "w.Nodes[0].ID != w.Nodes[0].ID", ExpectRule: "L3", ExpectConstruct: "closed"},
			{Name: "area-no-true", File: "polygon.go", Find: "area == \"no\" {\n\t\treturn false", Replace: "area == \"no\" {\n\t\treturn true", ExpectRule: "L3", ExpectConstruct: "area=no"},
			{Name: "area-other-ignored", File: "polygon.go", Find: "} else if area != \"\" {\n\t\treturn true\n\t}", Replace: "}", ExpectRule: "L3", ExpectConstruct: "area=<other>"},
			{Name: "skip-no-removed", File: "polygon.go", Find: "if v == \"\" || v == \"no\" {", Replace: "if v == \"\" {", ExpectRule: "L3", ExpectConstruct: "skip"},
			{Name: "blacklist-as-whitelist", File: "polygon.go", Find: "if index == len(c.Values) || c.Values[index] != v {", Replace: "if index != len(c.Values) && c.Values[index] == v {", ExpectRule: "L3", ExpectConstruct: "blacklist"},
			{Name: "whitelist-no-compare", File: "polygon.go", Find: "if index != len(c.Values) && c.Values[index] == v {", Replace: "if index != len(c.Values) {", ExpectRule: "L3", ExpectConstruct: "branch whitelist"},
			{Name: "whitelist-no-bound", File: "polygon.go", Find: "if index != len(c.Values) && c.Values[index] == v {", Replace: "if c.Values[index] == v {", ExpectRule: "L3", ExpectConstruct: "branch whitelist"},
			{Name: "cond-value-renamed", File: "polygon.go", Find: "conditionWhitelist conditionType = \"whitelist\"", Replace: "conditionWhitelist conditionType = \"include\"", ExpectRule: "L3", ExpectConstruct: "branch whitelist"},
			{Name: "branch-all-removed", File: "polygon.go", Find: "if c.Condition == conditionAll {\n\t\t\treturn true\n\t\t} else if", Replace: "if", ExpectRule: "L3", ExpectConstruct: "branch all"},
			{Name: "tags-order-dependent", File: "polygon.go", Find: "\t\tv := w.Tags.Find(c.Key)\n", Replace: "\t\tv := w.Tags.Find(c.Key)\n\t\tif len(w.Tags) > 1 && w.Tags[0].Key == \"fixme\" {\n\t\t\tcontinue\n\t\t}\n", ExpectRule: "L3", ExpectConstruct: "tags"},
			{Name: "relation-accepts-route", File: "polygon.go", Find: "t == \"multipolygon\" || t == \"boundary\"", Replace: "t == \"multipolygon\" || t == \"boundary\" || t == \"route\"", ExpectRule: "L4", ExpectConstruct: "others"},
			{Name: "relation-drops-boundary", File: "polygon.go", Find: "t == \"multipolygon\" || t == \"boundary\"", Replace: "t == \"multipolygon\"", ExpectRule: "L4", ExpectConstruct: "type=boundary"},
		},
	})
}

// ---------------------------------------------------------------------------
// external table

type c18Feature struct {
	Key         string   `json:"key"`
	Polygon     string   `json:"polygon"`
	Values      []string `json:"values"`
	CodeHandled bool     `json:"code_handled"`
}

type c18Table struct {
	RelationTypes []string     `json:"relation_area_types"`
	Features      []c18Feature `json:"features"`
}

func c18LoadTable() (*c18Table, error) {
	// TablesDir first; the sensitivity suite re-executes the binary without -verif, so also look
	// next to the executable (<verif>/osmcheck or <verif>/bin/osmcheck -> <verif>/tables).
	dirs := []string{TablesDir}
	if exe, e := os.Executable(); e == nil {
		dirs = append(dirs, filepath.Join(filepath.Dir(exe), "tables"), filepath.Join(filepath.Dir(exe), "..", "tables"))
	}
	var b []byte
	var err error
	for _, d := range dirs {
		var e error
		if b, e = os.ReadFile(filepath.Join(d, "polygon-features.json")); e == nil {
			err = nil
			break
		} else if err == nil {
			err = e // report the configured directory
		}
	}
	if err != nil {
		return nil, err
	}
	var t c18Table
	if err := json.Unmarshal(b, &t); err != nil {
		return nil, err
	}
	if len(t.Features) < 20 || len(t.RelationTypes) == 0 {
		return nil, fmt.Errorf("table has %d features and %d relation types", len(t.Features), len(t.RelationTypes))
	}
	seen := map[string]bool{}
	for _, f := range t.Features {
		switch f.Polygon {
		case "all":
		case "whitelist", "blacklist":
			if len(f.Values) == 0 {
				return nil, fmt.Errorf("table key %q: %s without values", f.Key, f.Polygon)
			}
		default:
			return nil, fmt.Errorf("table key %q: unknown polygon kind %q", f.Key, f.Polygon)
		}
		if seen[f.Key] || f.Key == "" {
			return nil, fmt.Errorf("table key %q empty or duplicated", f.Key)
		}
		seen[f.Key] = true
	}
	return &t, nil
}

// ---------------------------------------------------------------------------
// resolution of the mechanism by role

type c18Ctx struct {
	pk    *packages.Package
	info  *types.Info
	fi    *FuncInfo // (*Way).Polygon
	recv  types.Object
	loop  *ast.RangeStmt // the rule loop
	table *types.Var     // package-level conditions table
	keyF  *types.Var
	condF *types.Var
	valsF *types.Var
	// declared values of the condition type: object -> constant string
	condVals map[types.Object]string
}

// c18FuncDecls lists every function declaration with a body (including init functions).
func c18FuncDecls(pk *packages.Package) []*ast.FuncDecl {
	var out []*ast.FuncDecl
	for _, f := range pk.Syntax {
		for _, d := range f.Decls {
			if fd, ok := d.(*ast.FuncDecl); ok && fd.Body != nil {
				out = append(out, fd)
			}
		}
	}
	return out
}

// c18VarInit returns the initialiser expression of a package-level variable or constant.
func c18VarInit(pk *packages.Package, obj types.Object) ast.Expr {
	for _, f := range pk.Syntax {
		for _, d := range f.Decls {
			gd, ok := d.(*ast.GenDecl)
			if !ok {
				continue
			}
			for _, sp := range gd.Specs {
				vs, ok := sp.(*ast.ValueSpec)
				if !ok {
					continue
				}
				for i, nm := range vs.Names {
					if pk.TypesInfo.Defs[nm] == obj && len(vs.Values) == len(vs.Names) {
						return vs.Values[i]
					}
				}
			}
		}
	}
	return nil
}

// c18JSONName is the name encoding/json uses for field i ("" when the field is skipped).
func c18JSONName(st *types.Struct, i int) string {
	f := st.Field(i)
	if !f.Exported() {
		return ""
	}
	tag := reflect.StructTag(st.Tag(i)).Get("json")
	if tag == "-" {
		return ""
	}
	name := strings.Split(tag, ",")[0]
	if name == "" {
		name = f.Name()
	}
	return name
}

func c18Resolve(r *core.R) *c18Ctx {
	pk := r.P.Pkg("")
	fi := findFunc(pk, "(*Way).Polygon")
	if fi == nil || fi.Decl.Body == nil || fi.Decl.Recv == nil || len(fi.Decl.Recv.List) != 1 || len(fi.Decl.Recv.List[0].Names) != 1 {
		r.Anchor("(*Way).Polygon with a named receiver")
		return nil
	}
	c := &c18Ctx{pk: pk, info: pk.TypesInfo, fi: fi, condVals: map[types.Object]string{}}
	c.recv = c.info.Defs[fi.Decl.Recv.List[0].Names[0]]
	var loops []*ast.RangeStmt
	inspectNoLit(fi.Decl.Body, func(n ast.Node) bool {
		rs, ok := n.(*ast.RangeStmt)
		if !ok {
			return true
		}
		v, _ := objOf(c.info, rs.X).(*types.Var)
		if v == nil || v.Parent() != pk.Types.Scope() {
			return true
		}
		if sl, ok := v.Type().Underlying().(*types.Slice); ok {
			if _, ok := sl.Elem().Underlying().(*types.Struct); ok {
				loops = append(loops, rs)
				c.table = v
			}
		}
		return true
	})
	if len(loops) != 1 {
		r.Anchor(fmt.Sprintf("(*Way).Polygon: exactly one range loop over a package-level table of rule structs (found %d)", len(loops)))
		return nil
	}
	c.loop = loops[0]
	st := c.table.Type().Underlying().(*types.Slice).Elem().Underlying().(*types.Struct)
	for i := 0; i < st.NumFields(); i++ {
		switch n := c18JSONName(st, i); {
		case strings.EqualFold(n, "key"):
			c.keyF = st.Field(i)
		case strings.EqualFold(n, "polygon"):
			c.condF = st.Field(i)
		case strings.EqualFold(n, "values"):
			c.valsF = st.Field(i)
		}
	}
	if c.keyF == nil || c.condF == nil || c.valsF == nil {
		r.Anchor("fields of the rule struct with JSON names key, polygon, values (the published file format)")
		return nil
	}
	if b, ok := c.keyF.Type().Underlying().(*types.Basic); !ok || b.Kind() != types.String {
		r.Anchor("rule struct field `key` of string type")
		return nil
	}
	if b, ok := c.condF.Type().Underlying().(*types.Basic); !ok || b.Kind() != types.String {
		r.Anchor("rule struct field `polygon` of string type")
		return nil
	}
	if sl, ok := c.valsF.Type().Underlying().(*types.Slice); !ok || !types.Identical(sl.Elem(), types.Typ[types.String]) {
		r.Anchor("rule struct field `values` of type []string")
		return nil
	}
	if _, named := c.condF.Type().(*types.Named); named {
		sc := pk.Types.Scope()
		for _, nm := range sc.Names() {
			o := sc.Lookup(nm)
			if !types.Identical(o.Type(), c.condF.Type()) {
				continue
			}
			switch o := o.(type) {
			case *types.Const:
				if o.Val().Kind() == constant.String {
					c.condVals[o] = constant.StringVal(o.Val())
				}
			case *types.Var:
				if e := c18VarInit(pk, o); e != nil {
					if s, ok := constString(c.info, e); ok {
						c.condVals[o] = s
					}
				}
			}
		}
	}
	return c
}

// c18Writes lists the places where a package-level object is (or may be) written:
// assignment through it, ++/--, address taken, destination of copy. allow filters accepted nodes.
func c18Writes(pk *packages.Package, obj types.Object, allow func(ast.Node) bool) []token.Pos {
	info := pk.TypesInfo
	var out []token.Pos
	add := func(n ast.Node) {
		if allow == nil || !allow(n) {
			out = append(out, n.Pos())
		}
	}
	for _, f := range pk.Syntax {
		ast.Inspect(f, func(n ast.Node) bool {
			switch x := n.(type) {
			case *ast.AssignStmt:
				for _, l := range x.Lhs {
					if rootObj(info, l) == obj {
						add(x)
					}
				}
			case *ast.IncDecStmt:
				if rootObj(info, x.X) == obj {
					add(x)
				}
			case *ast.UnaryExpr:
				if x.Op == token.AND && rootObj(info, x.X) == obj {
					add(x)
				}
			case *ast.RangeStmt:
				if x.Tok == token.ASSIGN && ((x.Key != nil && rootObj(info, x.Key) == obj) || (x.Value != nil && rootObj(info, x.Value) == obj)) {
					add(x)
				}
			case *ast.CallExpr:
				if builtinName(info, x) == "copy" && len(x.Args) == 2 && rootObj(info, x.Args[0]) == obj {
					add(x)
				}
			}
			return true
		})
	}
	return out
}

// ---------------------------------------------------------------------------
// the embedded literal

type c18Lit struct {
	text   string
	expr   ast.Expr       // the constant string expression
	srcVar *types.Var     // package variable holding the bytes (nil when inline)
	call   *ast.CallExpr  // json.Unmarshal(bytes, &table)
	fd     *ast.FuncDecl  // function containing the call
	addr   *ast.UnaryExpr // &table
}

func c18FindLiteral(c *c18Ctx) (*c18Lit, string) {
	var found []*c18Lit
	for _, fd := range c18FuncDecls(c.pk) {
		fd := fd
		ast.Inspect(fd.Body, func(n ast.Node) bool {
			call, ok := n.(*ast.CallExpr)
			if !ok || len(call.Args) != 2 || !isPkgFunc(callee(c.info, call), "encoding/json", "Unmarshal") {
				return true
			}
			ue, ok := ast.Unparen(call.Args[1]).(*ast.UnaryExpr)
			if !ok || ue.Op != token.AND || objOf(c.info, ue.X) != c.table {
				return true
			}
			found = append(found, &c18Lit{call: call, fd: fd, addr: ue})
			return true
		})
	}
	if len(found) != 1 {
		return nil, fmt.Sprintf("expected exactly one json.Unmarshal(..., &%s) in package osm, found %d", c.table.Name(), len(found))
	}
	l := found[0]
	e := ast.Unparen(l.call.Args[0])
	if v, ok := objOf(c.info, e).(*types.Var); ok && v.Parent() == c.pk.Types.Scope() {
		l.srcVar = v
		e = c18VarInit(c.pk, v)
		if e == nil {
			return nil, "the byte variable " + v.Name() + " has no initialiser"
		}
		e = ast.Unparen(e)
	}
	// []byte(<constant string>)
	if conv, ok := e.(*ast.CallExpr); ok && len(conv.Args) == 1 {
		if tv, ok := c.info.Types[conv.Fun]; ok && tv.IsType() {
			if s, ok := constString(c.info, conv.Args[0]); ok {
				l.text, l.expr = s, conv.Args[0]
				return l, ""
			}
		}
	}
	return nil, "the first argument of json.Unmarshal is not `[]byte(<constant string>)` or a package variable initialised that way"
}

type c18Entry struct {
	key, cond string
	values    []string
}

// c18ParseLiteral decodes the literal the way encoding/json fills the rule struct.
func c18ParseLiteral(c *c18Ctx, text string) ([]c18Entry, error) {
	var raw []map[string]json.RawMessage
	if err := json.Unmarshal([]byte(text), &raw); err != nil {
		return nil, err
	}
	st := c.table.Type().Underlying().(*types.Slice).Elem().Underlying().(*types.Struct)
	names := map[*types.Var]string{}
	for i := 0; i < st.NumFields(); i++ {
		names[st.Field(i)] = c18JSONName(st, i)
	}
	var out []c18Entry
	for i, m := range raw {
		var e c18Entry
		for k, v := range m {
			var err error
			switch {
			case strings.EqualFold(k, names[c.keyF]):
				err = json.Unmarshal(v, &e.key)
			case strings.EqualFold(k, names[c.condF]):
				err = json.Unmarshal(v, &e.cond)
			case strings.EqualFold(k, names[c.valsF]):
				err = json.Unmarshal(v, &e.values)
			}
			if err != nil {
				return nil, fmt.Errorf("entry %d, member %q: %v", i, k, err)
			}
		}
		out = append(out, e)
	}
	return out, nil
}

// c18LitPos maps an offset inside a raw string literal to a source position (diagnostics only).
func c18LitPos(l *c18Lit, needle string) token.Pos {
	if bl, ok := ast.Unparen(l.expr).(*ast.BasicLit); ok && strings.HasPrefix(bl.Value, "`") {
		if i := strings.Index(l.text, needle); i >= 0 {
			return bl.Pos() + token.Pos(1+i)
		}
	}
	return l.expr.Pos()
}

func c18Set(vs []string) []string {
	m := map[string]bool{}
	for _, v := range vs {
		m[v] = true
	}
	var out []string
	for v := range m {
		out = append(out, v)
	}
	sort.Strings(out)
	return out
}

func c18Diff(a, b []string) []string {
	in := map[string]bool{}
	for _, v := range b {
		in[v] = true
	}
	var out []string
	for _, v := range a {
		if !in[v] {
			out = append(out, v)
		}
	}
	return out
}

func c18L1(r *core.R) {
	c := c18Resolve(r)
	if c == nil {
		return
	}
	tab, err := c18LoadTable()
	if err != nil {
		r.Anchor("tables/polygon-features.json: " + err.Error())
		return
	}
	lit, why := c18FindLiteral(c)
	if lit == nil {
		r.Anchor("JSON literal unmarshalled into " + c.table.Name() + ": " + why)
		return
	}
	srcC := "source@" + c.table.Name()
	entries, perr := c18ParseLiteral(c, lit.text)
	if perr != nil {
		r.Bad(srcC, lit.expr.Pos(), "the embedded literal does not decode into []%s (%v): init panics and no way is ever classified", c.table.Type().Underlying().(*types.Slice).Elem(), perr)
		return
	}
	if lit.srcVar != nil {
		if w := c18Writes(c.pk, lit.srcVar, nil); len(w) > 0 {
			r.Bad(srcC, w[0], "the byte variable %s holding the literal is written at %s: the table parsed at init is not the embedded constant", lit.srcVar.Name(), r.P.Rel(w[0]))
		} else {
			r.OK(srcC, lit.call.Pos(), "json.Unmarshal(%s, &%s) reads package variable %s = []byte(<constant of %d bytes>), never written elsewhere; %d entries decode into the rule struct", lit.srcVar.Name(), c.table.Name(), lit.srcVar.Name(), len(lit.text), len(entries))
		}
	} else {
		r.OK(srcC, lit.call.Pos(), "json.Unmarshal([]byte(<constant of %d bytes>), &%s); %d entries decode into the rule struct", len(lit.text), c.table.Name(), len(entries))
	}
	r.Stat("literal_entries", len(entries))
	byKey := map[string][]c18Entry{}
	for _, e := range entries {
		byKey[e.key] = append(byKey[e.key], e)
	}
	inTable := map[string]bool{}
	for _, f := range tab.Features {
		inTable[f.Key] = true
		cn := "key " + f.Key
		pos := c18LitPos(lit, `"`+f.Key+`"`)
		es := byKey[f.Key]
		switch {
		case len(es) == 0 && f.CodeHandled:
			r.OKTrivial(cn, lit.expr.Pos(), "published as polygon=%s; not in the literal because the code decides it before the rule loop (checked by C18.L3 area=no / area=<other>)", f.Polygon)
		case len(es) == 0:
			r.Bad(cn, lit.expr.Pos(), "the published list has key %q (polygon=%s %v) but the embedded literal has no entry for it: a closed way tagged only %s=* is no longer an area", f.Key, f.Polygon, f.Values, f.Key)
		case len(es) > 1:
			r.Bad(cn, pos, "key %q occurs %d times in the embedded literal; the entries are or-ed, which is not the published single rule", f.Key, len(es))
		case es[0].cond != f.Polygon:
			r.Bad(cn, pos, "key %q has polygon=%q in the embedded literal, the published list says %q %v: values of %s are classified the other way round", f.Key, es[0].cond, f.Polygon, f.Values, f.Key)
		case f.Polygon == "all":
			r.OK(cn, pos, "polygon=all in literal and published list")
		default:
			got, want := c18Set(es[0].values), c18Set(f.Values)
			miss, extra := c18Diff(want, got), c18Diff(got, want)
			if len(miss)+len(extra) > 0 {
				r.Bad(cn, pos, "key %q (%s): value set differs from the published list: missing %v, extra %v; %s=<those values> is misclassified", f.Key, f.Polygon, miss, extra, f.Key)
			} else {
				r.OK(cn, pos, "polygon=%s with the published value set %v", f.Polygon, want)
			}
		}
	}
	var extraKeys []string
	for k := range byKey {
		if !inTable[k] {
			extraKeys = append(extraKeys, k)
		}
	}
	sort.Strings(extraKeys)
	for _, k := range extraKeys {
		r.Bad("key "+k, c18LitPos(lit, `"`+k+`"`), "the embedded literal has key %q (polygon=%q) which is not in the published list: closed ways tagged %s=* become areas although the published rules say they are lines", k, byKey[k][0].cond, k)
	}
}

// ---------------------------------------------------------------------------
// L2: lookup precondition

// c18EntryOf reports whether e denotes the current element of a range loop over the table:
// the range value variable, or table[<range key variable>].
func c18EntryOf(info *types.Info, table types.Object, rs *ast.RangeStmt, e ast.Expr) bool {
	e = ast.Unparen(e)
	if rs == nil {
		return false
	}
	if id, ok := e.(*ast.Ident); ok {
		return rs.Value != nil && objOf(info, rs.Value) != nil && objOf(info, id) == objOf(info, rs.Value)
	}
	if ix, ok := e.(*ast.IndexExpr); ok {
		return rs.Key != nil && objOf(info, ix.X) == table && objOf(info, rs.Key) != nil && objOf(info, ix.Index) == objOf(info, rs.Key)
	}
	return false
}

// c18EntryField reports whether e is <entry>.f for the loop rs.
func c18EntryField(info *types.Info, table types.Object, rs *ast.RangeStmt, e ast.Expr, f *types.Var) bool {
	if fieldOf(info, e) != f {
		return false
	}
	return c18EntryOf(info, table, rs, ast.Unparen(e).(*ast.SelectorExpr).X)
}

// c18IsConv reports whether call is a conversion to the named type path and returns its operand.
func c18IsConv(info *types.Info, e ast.Expr, path string) ast.Expr {
	call, ok := ast.Unparen(e).(*ast.CallExpr)
	if !ok || len(call.Args) != 1 {
		return nil
	}
	if tv, ok := info.Types[call.Fun]; !ok || !tv.IsType() || namedPath(tv.Type) != path {
		return nil
	}
	return call.Args[0]
}

// c18SortTarget recognises the in-place ascending string sorts
//
//	sort.Strings(X)   slices.Sort(X)   sort.StringSlice(X).Sort()
//	sort.Sort(sort.StringSlice(X))   sort.Stable(sort.StringSlice(X))
//
// and returns X.
func c18SortTarget(info *types.Info, call *ast.CallExpr) ast.Expr {
	fn := callee(info, call)
	switch {
	case (isPkgFunc(fn, "sort", "Strings") || isPkgFunc(fn, "slices", "Sort")) && len(call.Args) == 1:
		return call.Args[0]
	case (isPkgFunc(fn, "sort", "Sort") || isPkgFunc(fn, "sort", "Stable")) && len(call.Args) == 1:
		return c18IsConv(info, call.Args[0], "sort.StringSlice")
	case isMethod(fn, "sort.StringSlice", "Sort") && len(call.Args) == 0:
		if sel, ok := ast.Unparen(call.Fun).(*ast.SelectorExpr); ok {
			return c18IsConv(info, sel.X, "sort.StringSlice")
		}
	}
	return nil
}

func c18IsPanicExit(info *types.Info, b *cfg.Block) bool {
	if len(b.Nodes) == 0 {
		return false
	}
	es, ok := b.Nodes[len(b.Nodes)-1].(*ast.ExprStmt)
	if !ok {
		return false
	}
	call, ok := es.X.(*ast.CallExpr)
	return ok && builtinName(info, call) == "panic"
}

func c18L2(r *core.R) {
	c := c18Resolve(r)
	if c == nil {
		return
	}
	info := c.info
	fname := c.fi.Name()
	x := c18NewExec(r, c.pk, c.fi.Decl, c)

	// (a) every search in Way.Polygon is sort.SearchStrings(<entry>.values, <value found under entry.key>)
	nsearch := 0
	inspectNoLit(c.fi.Decl.Body, func(n ast.Node) bool {
		call, ok := n.(*ast.CallExpr)
		if !ok {
			return true
		}
		fn := callee(info, call)
		if fn == nil || fn.Pkg() == nil || (fn.Pkg().Path() != "sort" && fn.Pkg().Path() != "slices") {
			return true
		}
		nsearch++
		cn := "search@" + fname + " " + src(r.P.Fset, call)
		if !isPkgFunc(fn, "sort", "SearchStrings") || len(call.Args) != 2 {
			r.Unknown(cn, call.Pos(), "call to %s.%s in the classification is not among the recognised lookups (sort.SearchStrings(entry.values, value))", fn.Pkg().Path(), fn.Name())
			return true
		}
		if !c18EntryField(info, c.table, c.loop, call.Args[0], c.valsF) {
			r.Bad(cn, call.Pos(), "the slice searched, `%s`, is not the value list (%s) of the entry of %s the loop is at: membership is decided against another list", src(r.P.Fset, call.Args[0]), c.valsF.Name(), c.table.Name())
			return true
		}
		if ts, ok := x.tagSource(call.Args[1]); !ok || !ts.entry {
			r.Bad(cn, call.Pos(), "the needle `%s` is not the tag value found under the entry's key (Tags.Find(entry.%s)): the whitelist/blacklist is consulted for the wrong string", src(r.P.Fset, call.Args[1]), c.keyF.Name())
			return true
		}
		r.OK(cn, call.Pos(), "binary search of the current entry's %s for the value of Tags.Find(entry.%s)", c.valsF.Name(), c.keyF.Name())
		return true
	})
	r.Stat("search_sites", nsearch)

	// (b) the value lists are sorted before any search
	sc := "sorted@" + c.table.Name()
	lit, why := c18FindLiteral(c)
	if lit == nil {
		r.Anchor("JSON literal unmarshalled into " + c.table.Name() + ": " + why)
		return
	}
	entries, perr := c18ParseLiteral(c, lit.text)
	if perr != nil {
		r.Bad(sc, lit.expr.Pos(), "the embedded literal does not decode (%v)", perr)
		return
	}
	var unsorted []string
	for _, e := range entries {
		if !sort.StringsAreSorted(e.values) {
			unsorted = append(unsorted, e.key)
		}
	}
	c18CheckSorted(r, c, lit, sc, unsorted)

	// (c) nobody else writes the table
	ic := "immutable@" + c.table.Name()
	ws := c18Writes(c.pk, c.table, func(n ast.Node) bool { return n == lit.addr })
	switch {
	case len(ws) == 0:
		r.OK(ic, lit.call.Pos(), "%s is written only through &%s in the json.Unmarshal call of %s (plus the in-place sort of its value lists)", c.table.Name(), c.table.Name(), lit.fd.Name.Name)
	case lit.fd.Body.Pos() <= ws[0] && ws[0] <= lit.fd.Body.End():
		r.Unknown(ic, ws[0], "%s is also written at %s inside %s; the rule only understands unmarshal followed by an in-place sort", c.table.Name(), r.P.Rel(ws[0]), lit.fd.Name.Name)
	default:
		r.Bad(ic, ws[0], "%s is written at %s outside its initialiser: the table (or the sortedness of its value lists) can change after init", c.table.Name(), r.P.Rel(ws[0]))
	}
}

// c18CheckSorted discharges "value lists sorted before use".
func c18CheckSorted(r *core.R, c *c18Ctx, lit *c18Lit, sc string, unsorted []string) {
	info := c.info
	if len(unsorted) == 0 {
		r.OKTrivial(sc, lit.expr.Pos(), "every value list of the embedded literal is already in ascending order")
		return
	}
	need := fmt.Sprintf("value lists of %v are not in ascending order in the literal, and sort.SearchStrings on an unsorted list misses members", unsorted)
	fd := lit.fd
	if fd.Name.Name != "init" || fd.Recv != nil {
		r.Unknown(sc, lit.call.Pos(), "%s; the unmarshal is in %s, not in a package init function, so the rule cannot order it before the first search", need, fd.Name.Name)
		return
	}
	g := newCFG(info, fd.Body)
	dom := dominators(g)
	var reasons []string
	ok := false
	var okLoop *ast.RangeStmt
	var okCall *ast.CallExpr
	inspectNoLit(fd.Body, func(n ast.Node) bool {
		rs, isRange := n.(*ast.RangeStmt)
		if !isRange || objOf(info, rs.X) != c.table {
			return true
		}
		// sort calls on <entry>.values inside the body
		var sorts []*ast.CallExpr
		copyAssign := false
		inspectNoLit(rs.Body, func(m ast.Node) bool {
			switch y := m.(type) {
			case *ast.CallExpr:
				if t := c18SortTarget(info, y); t != nil && c18EntryField(info, c.table, rs, t, c.valsF) {
					sorts = append(sorts, y)
				}
			case *ast.AssignStmt:
				for _, l := range y.Lhs {
					if fieldOf(info, l) == c.valsF && rs.Value != nil && rootObj(info, l) == objOf(info, rs.Value) {
						copyAssign = true
					}
				}
			}
			return true
		})
		if len(sorts) == 0 {
			if copyAssign {
				reasons = append(reasons, fmt.Sprintf("the loop at %s assigns to the %s field of the range-value copy, which never reaches %s", r.P.Rel(rs.Pos()), c.valsF.Name(), c.table.Name()))
			} else {
				reasons = append(reasons, fmt.Sprintf("the loop at %s contains no in-place sort (sort.Strings / sort.StringSlice(..).Sort() / sort.Sort(sort.StringSlice(..)) / slices.Sort) of the entry's %s", r.P.Rel(rs.Pos()), c.valsF.Name()))
			}
			return true
		}
		var head, body, done *cfg.Block
		for _, b := range g.Blocks {
			if b.Stmt == rs {
				switch b.Kind {
				case cfg.KindRangeLoop:
					head = b
				case cfg.KindRangeBody:
					body = b
				case cfg.KindRangeDone:
					done = b
				}
			}
		}
		if head == nil || body == nil || done == nil {
			reasons = append(reasons, "range loop not found in the control-flow graph")
			return true
		}
		// 1. the unmarshal happens before the loop
		if !posDominates(g, dom, lit.call.Pos(), rs.X.Pos()) {
			reasons = append(reasons, fmt.Sprintf("json.Unmarshal does not dominate the sorting loop at %s (sorting an empty table)", r.P.Rel(rs.Pos())))
			return true
		}
		// 2. every iteration sorts: from the body entry nothing but the sort block leads back to the head or out
		sb, _ := blockOf(g, sorts[0].Pos())
		if sb == nil {
			reasons = append(reasons, "sort call not found in the control-flow graph")
			return true
		}
		if sb != body {
			reach := reachableFrom([]*cfg.Block{body}, func(b *cfg.Block) bool { return b == sb })
			skipped := false
			for b := range reach {
				if b == sb {
					continue
				}
				if b == head || b == done || (len(b.Succs) == 0 && !c18IsPanicExit(info, b)) {
					skipped = true
				}
			}
			if skipped {
				reasons = append(reasons, fmt.Sprintf("some iterations of the loop at %s reach the next entry or leave the loop without passing `%s`: those entries stay unsorted", r.P.Rel(rs.Pos()), src(r.P.Fset, sorts[0])))
				return true
			}
		}
		// 3. every normal exit of init is behind the completed loop
		for _, b := range g.Blocks {
			if !b.Live || len(b.Succs) != 0 || c18IsPanicExit(info, b) {
				continue
			}
			if b != done && !dom[b][done] {
				reasons = append(reasons, fmt.Sprintf("init can finish without completing the sorting loop at %s", r.P.Rel(rs.Pos())))
				return true
			}
		}
		ok, okLoop, okCall = true, rs, sorts[0]
		return true
	})
	if ok {
		r.OK(sc, okCall.Pos(), "literal lists of %v are unsorted, but init: json.Unmarshal dominates the loop over %[2]s (element `%[1]s`), every iteration passes `%s` (in place on the shared backing array), and every normal exit of init is dominated by the end of that loop", unsorted, src(r.P.Fset, okLoop.Value), c.table.Name(), src(r.P.Fset, okCall))
		return
	}
	if len(reasons) == 0 {
		reasons = append(reasons, "init has no loop over "+c.table.Name()+" after the unmarshal")
	}
	r.Bad(sc, lit.call.Pos(), "%s; %s", need, strings.Join(reasons, "; "))
}

// ---------------------------------------------------------------------------
// finite-domain abstract evaluation of a classification function over its CFG

// c18TagSrc says where a string came from: Tags.Find(<constant key>) or Tags.Find(<entry>.key).
type c18TagSrc struct {
	key   string
	entry bool
}

// c18Scen is one abstract input.
type c18Scen struct {
	n      int64             // len(receiver.Nodes); -1 when the function has no node list
	closed bool              // first and last node id are equal
	tags   map[string]string // value Tags.Find returns for a constant key ("" = absent)
	inBody bool              // the per-entry atoms below are defined
	v      string            // value Tags.Find returns for the entry's key
	cond   string            // the entry's condition kind
	p      bool              // the search index equals len(values) (value greater than every element)
	q      bool              // values[index] == value (only meaningful when !p)
}

func (s *c18Scen) String() string {
	var parts []string
	if s.n >= 0 {
		parts = append(parts, fmt.Sprintf("len(nodes)=%d", s.n), map[bool]string{true: "closed", false: "open"}[s.closed])
	}
	var ks []string
	for k := range s.tags {
		ks = append(ks, k)
	}
	sort.Strings(ks)
	for _, k := range ks {
		parts = append(parts, fmt.Sprintf("%s=%q", k, s.tags[k]))
	}
	if s.inBody {
		parts = append(parts, fmt.Sprintf("entry.polygon=%s", s.cond), fmt.Sprintf("<entry.key>=%q", s.v))
		if s.p {
			parts = append(parts, "search index = len(values)")
		} else {
			parts = append(parts, "search index < len(values)", fmt.Sprintf("values[index]==value is %v", s.q))
		}
	}
	return strings.Join(parts, ", ")
}

// c18Out is what the function does on one abstract input.
type c18Out struct {
	kind  string // "true" | "false" (returned) | "head" (next entry / reaches the rule loop) | "break" | "end" | "panic" | "unknown"
	pos   token.Pos
	note  string
	trace []string
}

func (o c18Out) describe() string {
	var s string
	switch o.kind {
	case "true", "false":
		s = "returns " + o.kind
	case "head":
		s = "goes on to the next rule entry"
	case "break":
		s = "leaves the rule loop"
	case "end":
		s = "falls off the end"
	case "panic":
		s = "panics: " + o.note
	default:
		s = "cannot be evaluated: " + o.note
	}
	if len(o.trace) > 0 {
		s += " [path: " + strings.Join(o.trace, "; ") + "]"
	}
	return s
}

type c18Exec struct {
	r     *core.R
	pk    *packages.Package
	info  *types.Info
	fd    *ast.FuncDecl
	par   map[ast.Node]ast.Node
	g     *cfg.CFG
	recv  types.Object
	ctx   *c18Ctx // nil when the function has no rule table (Relation.Polygon)
	head  *cfg.Block
	body  *cfg.Block
	done  *cfg.Block
	tagV  map[types.Object]c18TagSrc
	idxV  map[types.Object]bool
	multi []string // variables with a recognised source but several definitions
}

func c18NewExec(r *core.R, pk *packages.Package, fd *ast.FuncDecl, ctx *c18Ctx) *c18Exec {
	x := &c18Exec{r: r, pk: pk, info: pk.TypesInfo, fd: fd, ctx: ctx, tagV: map[types.Object]c18TagSrc{}, idxV: map[types.Object]bool{}}
	x.par = r.P.Parents(r.P.FileOf(pk, fd.Pos()))
	x.g = newCFG(x.info, fd.Body)
	if fd.Recv != nil && len(fd.Recv.List) == 1 && len(fd.Recv.List[0].Names) == 1 {
		x.recv = x.info.Defs[fd.Recv.List[0].Names[0]]
	}
	if ctx != nil {
		for _, b := range x.g.Blocks {
			if b.Stmt == ctx.loop {
				switch b.Kind {
				case cfg.KindRangeLoop:
					x.head = b
				case cfg.KindRangeBody:
					x.body = b
				case cfg.KindRangeDone:
					x.done = b
				}
			}
		}
	}
	// local variables defined from Tags.Find(...) or sort.SearchStrings(entry.values, value)
	defs := map[types.Object]int{}
	inspectNoLit(fd.Body, func(n ast.Node) bool {
		switch s := n.(type) {
		case *ast.AssignStmt:
			for _, l := range s.Lhs {
				if o := objOf(x.info, l); o != nil {
					defs[o]++
				}
			}
		case *ast.IncDecStmt:
			if o := objOf(x.info, s.X); o != nil {
				defs[o] += 2
			}
		case *ast.UnaryExpr:
			if o := objOf(x.info, s.X); o != nil && s.Op == token.AND {
				defs[o] += 2
			}
		case *ast.RangeStmt:
			for _, e := range []ast.Expr{s.Key, s.Value} {
				if e != nil {
					if o := objOf(x.info, e); o != nil {
						defs[o]++
					}
				}
			}
		}
		return true
	})
	// two passes: index variables need the value variables
	for pass := 0; pass < 2; pass++ {
		inspectNoLit(fd.Body, func(n ast.Node) bool {
			as, ok := n.(*ast.AssignStmt)
			if !ok || len(as.Lhs) != 1 || len(as.Rhs) != 1 {
				return true
			}
			o := objOf(x.info, as.Lhs[0])
			if o == nil {
				return true
			}
			if pass == 0 {
				if ts, ok := x.findCall(as.Rhs[0]); ok {
					if defs[o] != 1 {
						x.multi = append(x.multi, o.Name())
					} else {
						x.tagV[o] = ts
					}
				}
				return true
			}
			if call, ok := ast.Unparen(as.Rhs[0]).(*ast.CallExpr); ok && ctx != nil && len(call.Args) == 2 && isPkgFunc(callee(x.info, call), "sort", "SearchStrings") {
				if ts, ok := x.tagSource(call.Args[1]); ok && ts.entry && c18EntryField(x.info, ctx.table, ctx.loop, call.Args[0], ctx.valsF) {
					if defs[o] != 1 {
						x.multi = append(x.multi, o.Name())
					} else {
						x.idxV[o] = true
					}
				}
			}
			return true
		})
	}
	return x
}

// findCall recognises <receiver>.Tags.Find(<constant>) and <receiver>.Tags.Find(<entry>.key).
func (x *c18Exec) findCall(e ast.Expr) (c18TagSrc, bool) {
	call, ok := ast.Unparen(e).(*ast.CallExpr)
	if !ok || len(call.Args) != 1 || !isMethod(callee(x.info, call), core.ModulePath+".Tags", "Find") {
		return c18TagSrc{}, false
	}
	sel, ok := ast.Unparen(call.Fun).(*ast.SelectorExpr)
	if !ok || !x.recvField(sel.X, "Tags") {
		return c18TagSrc{}, false
	}
	if k, ok := constString(x.info, call.Args[0]); ok {
		return c18TagSrc{key: k}, true
	}
	if x.ctx != nil && c18EntryField(x.info, x.ctx.table, x.ctx.loop, call.Args[0], x.ctx.keyF) {
		return c18TagSrc{entry: true}, true
	}
	return c18TagSrc{}, false
}

// tagSource resolves an expression to the Tags.Find call it stands for.
func (x *c18Exec) tagSource(e ast.Expr) (c18TagSrc, bool) {
	e = ast.Unparen(e)
	if id, ok := e.(*ast.Ident); ok {
		ts, ok := x.tagV[objOf(x.info, id)]
		return ts, ok
	}
	return x.findCall(e)
}

// recvField reports whether e is <receiver>.<name>.
func (x *c18Exec) recvField(e ast.Expr, name string) bool {
	f := fieldOf(x.info, e)
	if f == nil || f.Name() != name || x.recv == nil {
		return false
	}
	return objOf(x.info, ast.Unparen(e).(*ast.SelectorExpr).X) == x.recv
}

func (x *c18Exec) entryField(e ast.Expr, f *types.Var) bool {
	return x.ctx != nil && c18EntryField(x.info, x.ctx.table, x.ctx.loop, e, f)
}

// c18Eval carries the side results of evaluating one node.
type c18Eval struct {
	hazard  string
	unknown string
}

func (x *c18Exec) evalStr(e ast.Expr, s *c18Scen) (string, bool) {
	e = ast.Unparen(e)
	if v, ok := constString(x.info, e); ok {
		return v, true
	}
	if ts, ok := x.tagSource(e); ok {
		if ts.entry {
			return s.v, s.inBody
		}
		return s.tags[ts.key], true
	}
	if x.ctx != nil {
		if x.entryField(e, x.ctx.condF) {
			return s.cond, s.inBody
		}
		if o := objOf(x.info, e); o != nil {
			if v, ok := x.ctx.condVals[o]; ok {
				return v, true
			}
		}
	}
	// string(<expr>) / conditionType(<expr>)
	if call, ok := e.(*ast.CallExpr); ok && len(call.Args) == 1 {
		if tv, ok := x.info.Types[call.Fun]; ok && tv.IsType() {
			if b, ok := tv.Type.Underlying().(*types.Basic); ok && b.Kind() == types.String {
				if at, ok := x.info.TypeOf(call.Args[0]).Underlying().(*types.Basic); ok && at.Info()&types.IsString != 0 {
					return x.evalStr(call.Args[0], s)
				}
			}
		}
	}
	return "", false
}

func (x *c18Exec) evalInt(e ast.Expr, s *c18Scen) (int64, bool) {
	e = ast.Unparen(e)
	if v, ok := constInt(x.info, e); ok {
		return v, true
	}
	switch t := e.(type) {
	case *ast.CallExpr:
		if builtinName(x.info, t) == "len" && len(t.Args) == 1 {
			if x.recvField(t.Args[0], "Nodes") {
				return s.n, s.n >= 0
			}
			if x.ctx != nil && x.entryField(t.Args[0], x.ctx.valsF) {
				return 1, s.inBody // abstract list of one element
			}
		}
	case *ast.Ident:
		if x.idxV[objOf(x.info, t)] {
			if s.p {
				return 1, s.inBody
			}
			return 0, s.inBody
		}
	case *ast.BinaryExpr:
		a, ok1 := x.evalInt(t.X, s)
		b, ok2 := x.evalInt(t.Y, s)
		if ok1 && ok2 {
			switch t.Op {
			case token.ADD:
				return a + b, true
			case token.SUB:
				return a - b, true
			}
		}
	}
	return 0, false
}

// nodeID recognises <receiver>.Nodes[i].ID and returns the concrete index i.
func (x *c18Exec) nodeID(e ast.Expr, s *c18Scen, ev *c18Eval) (int64, bool) {
	f := fieldOf(x.info, e)
	if f == nil || f.Name() != "ID" {
		return 0, false
	}
	ix, ok := ast.Unparen(ast.Unparen(e).(*ast.SelectorExpr).X).(*ast.IndexExpr)
	if !ok || !x.recvField(ix.X, "Nodes") {
		return 0, false
	}
	i, ok := x.evalInt(ix.Index, s)
	if !ok {
		return 0, false
	}
	if i < 0 || i >= s.n {
		ev.hazard = fmt.Sprintf("`%s` indexes %d in a node list of length %d", src(x.r.P.Fset, ix), i, s.n)
	}
	return i, true
}

// valueAt recognises <entry>.values[<index variable>].
func (x *c18Exec) valueAt(e ast.Expr) bool {
	ix, ok := ast.Unparen(e).(*ast.IndexExpr)
	if !ok || x.ctx == nil || !x.entryField(ix.X, x.ctx.valsF) {
		return false
	}
	return x.idxV[objOf(x.info, ix.Index)]
}

func c18CmpInt(op token.Token, a, b int64) (bool, bool) {
	switch op {
	case token.EQL:
		return a == b, true
	case token.NEQ:
		return a != b, true
	case token.LSS:
		return a < b, true
	case token.LEQ:
		return a <= b, true
	case token.GTR:
		return a > b, true
	case token.GEQ:
		return a >= b, true
	}
	return false, false
}

// evalBool evaluates a condition on one abstract input with Go's short-circuit order.
func (x *c18Exec) evalBool(e ast.Expr, s *c18Scen, ev *c18Eval) (bool, bool) {
	e = ast.Unparen(e)
	if tv, ok := x.info.Types[e]; ok && tv.Value != nil && tv.Value.Kind() == constant.Bool {
		return constant.BoolVal(tv.Value), true
	}
	switch t := e.(type) {
	case *ast.UnaryExpr:
		if t.Op == token.NOT {
			v, ok := x.evalBool(t.X, s, ev)
			return !v, ok
		}
	case *ast.BinaryExpr:
		switch t.Op {
		case token.LAND, token.LOR:
			a, ok := x.evalBool(t.X, s, ev)
			if !ok || ev.hazard != "" {
				return false, ok
			}
			if a == (t.Op == token.LOR) {
				return a, true
			}
			return x.evalBool(t.Y, s, ev)
		case token.EQL, token.NEQ, token.LSS, token.LEQ, token.GTR, token.GEQ:
			eq := t.Op == token.EQL
			if t.Op == token.EQL || t.Op == token.NEQ {
				// closedness: ids of two nodes of the receiver
				i, ok1 := x.nodeID(t.X, s, ev)
				j, ok2 := x.nodeID(t.Y, s, ev)
				if ok1 && ok2 {
					switch {
					case ev.hazard != "":
						return false, true
					case i == j:
						return eq, true
					case (i == 0 && j == s.n-1) || (j == 0 && i == s.n-1):
						return s.closed == eq, true
					}
					ev.unknown = fmt.Sprintf("`%s` compares the ids of nodes %d and %d, which says nothing about the way being closed", src(x.r.P.Fset, t), i, j)
					return false, false
				}
				// membership: values[index] against the value
				for _, pr := range [][2]ast.Expr{{t.X, t.Y}, {t.Y, t.X}} {
					if x.valueAt(pr[0]) {
						if ts, ok := x.tagSource(pr[1]); ok && ts.entry && s.inBody {
							if s.p {
								ev.hazard = fmt.Sprintf("`%s` is evaluated when the search index equals len(values) (the value sorts after every list element): index out of range", src(x.r.P.Fset, pr[0]))
								return false, true
							}
							return s.q == eq, true
						}
					}
				}
			}
			if a, ok := x.evalInt(t.X, s); ok {
				if b, ok := x.evalInt(t.Y, s); ok {
					return c18CmpInt(t.Op, a, b)
				}
			}
			if t.Op == token.EQL || t.Op == token.NEQ {
				if a, ok := x.evalStr(t.X, s); ok {
					if b, ok := x.evalStr(t.Y, s); ok {
						return (a == b) == eq, true
					}
				}
			}
		}
	}
	if ev.unknown == "" {
		ev.unknown = fmt.Sprintf("condition `%s` is not built from the recognised atoms (len(nodes) vs constant, first/last node id, Tags.Find(const|entry.key) vs constant, entry.polygon vs declared kind, search index vs len(values), values[index] vs value)", src(x.r.P.Fset, e))
	}
	return false, false
}

// scanHazards looks for out-of-range indexing in a straight-line node.
func (x *c18Exec) scanHazards(n ast.Node, s *c18Scen, ev *c18Eval) {
	inspectNoLit(n, func(m ast.Node) bool {
		ix, ok := m.(*ast.IndexExpr)
		if !ok {
			return true
		}
		if x.recvField(ix.X, "Nodes") {
			if i, ok := x.evalInt(ix.Index, s); ok && (i < 0 || i >= s.n) {
				ev.hazard = fmt.Sprintf("`%s` indexes %d in a node list of length %d", src(x.r.P.Fset, ix), i, s.n)
			}
		}
		if x.valueAt(ix) && s.inBody && s.p {
			ev.hazard = fmt.Sprintf("`%s` is evaluated when the search index equals len(values)", src(x.r.P.Fset, ix))
		}
		return true
	})
}

// run walks the CFG from block b on abstract input s until the function returns, panics,
// reaches the head of the rule loop (next entry) or leaves the loop.
func (x *c18Exec) run(b *cfg.Block, s *c18Scen) c18Out {
	var out c18Out
	seen := map[*cfg.Block]bool{}
	first := true
	for {
		if !first {
			if b == x.head && x.head != nil {
				out.kind = "head"
				return out
			}
			if b == x.done && x.done != nil && s.inBody {
				out.kind = "break"
				return out
			}
		}
		first = false
		if seen[b] {
			out.kind, out.note = "unknown", "the path loops without reaching the rule loop head"
			return out
		}
		seen[b] = true
		isCond := len(b.Succs) == 2 && b.Kind != cfg.KindRangeLoop
		for i, n := range b.Nodes {
			ev := &c18Eval{}
			out.pos = n.Pos()
			if isCond && i == len(b.Nodes)-1 {
				ce, _ := n.(ast.Expr)
				var val, ok bool
				if ce == nil {
					ev.unknown = "branch node is not an expression"
				} else if cc, isCase := x.par[ce].(*ast.CaseClause); isCase {
					// switch-form: `switch TAG { case ce: ...` is TAG == ce; tagless switch is ce itself
					var sw *ast.SwitchStmt
					if blk, ok := x.par[cc].(*ast.BlockStmt); ok {
						sw, _ = x.par[blk].(*ast.SwitchStmt)
					}
					switch {
					case sw == nil:
						ev.unknown = "case clause outside an expression switch"
					case sw.Tag == nil:
						val, ok = x.evalBool(ce, s, ev)
					default:
						a, ok1 := x.evalStr(sw.Tag, s)
						c2, ok2 := x.evalStr(ce, s)
						val, ok = a == c2, ok1 && ok2
						if !ok {
							ev.unknown = fmt.Sprintf("switch on `%s` with case `%s` is not a comparison of recognised strings", src(x.r.P.Fset, sw.Tag), src(x.r.P.Fset, ce))
						}
					}
				} else {
					val, ok = x.evalBool(ce, s, ev)
				}
				if ev.hazard != "" {
					out.kind, out.note = "panic", ev.hazard
					return out
				}
				if !ok {
					out.kind, out.note = "unknown", ev.unknown
					return out
				}
				out.trace = append(out.trace, fmt.Sprintf("`%s` is %v", src(x.r.P.Fset, ce), val))
				if val {
					b = b.Succs[0]
				} else {
					b = b.Succs[1]
				}
				goto next
			}
			if ret, ok := n.(*ast.ReturnStmt); ok {
				if len(ret.Results) != 1 {
					out.kind, out.note = "unknown", "return without exactly one result"
					return out
				}
				val, ok := x.evalBool(ret.Results[0], s, ev)
				switch {
				case ev.hazard != "":
					out.kind, out.note = "panic", ev.hazard
				case !ok:
					out.kind, out.note = "unknown", ev.unknown
				default:
					out.kind = fmt.Sprint(val)
					if _, isConst := x.info.Types[ret.Results[0]]; !isConst || x.info.Types[ret.Results[0]].Value == nil {
						out.trace = append(out.trace, fmt.Sprintf("`%s` is %v", src(x.r.P.Fset, ret.Results[0]), val))
					}
				}
				return out
			}
			x.scanHazards(n, s, ev)
			if ev.hazard != "" {
				out.kind, out.note = "panic", ev.hazard
				return out
			}
		}
		switch len(b.Succs) {
		case 0:
			if c18IsPanicExit(x.info, b) {
				out.kind, out.note = "panic", "explicit panic"
			} else {
				out.kind = "end"
			}
			return out
		case 1:
			b = b.Succs[0]
		default:
			out.kind, out.note = "unknown", "a loop other than the rule loop (or a select/type switch) is on the path"
			return out
		}
	next:
	}
}

// c18Strings collects every constant string mentioned in the function (scenario values).
func (x *c18Exec) constStrings() []string {
	m := map[string]bool{}
	inspectNoLit(x.fd.Body, func(n ast.Node) bool {
		if e, ok := n.(ast.Expr); ok {
			if v, ok := constString(x.info, e); ok {
				m[v] = true
			}
		}
		return true
	})
	var out []string
	for v := range m {
		out = append(out, v)
	}
	sort.Strings(out)
	return out
}

// ---------------------------------------------------------------------------
// L3: the decision procedure of (*Way).Polygon

// c18Clause accumulates the verdict of one clause over its abstract inputs.
type c18Clause struct {
	name  string
	n     int
	pos   token.Pos
	bad   string
	unk   string
	proof string
}

func (cl *c18Clause) expect(s *c18Scen, got c18Out, want string, wantText string) {
	cl.n++
	if !cl.pos.IsValid() {
		cl.pos = got.pos
	}
	if got.kind == want {
		return
	}
	msg := fmt.Sprintf("on {%s} the published rules require that the function %s, but it %s", s, wantText, got.describe())
	if got.kind == "unknown" {
		if cl.unk == "" {
			cl.unk, cl.pos = msg, got.pos
		}
		return
	}
	if cl.bad == "" {
		cl.bad, cl.pos = msg, got.pos
	}
}

func (cl *c18Clause) emit(r *core.R, fallback token.Pos) {
	pos := cl.pos
	if !pos.IsValid() {
		pos = fallback
	}
	switch {
	case cl.bad != "":
		r.Bad(cl.name, pos, "%s", cl.bad)
	case cl.unk != "":
		r.Unknown(cl.name, pos, "%s", cl.unk)
	case cl.n == 0:
		r.Unknown(cl.name, pos, "no abstract input exercised this clause")
	default:
		r.OK(cl.name, pos, "%s (%d abstract inputs evaluated over the control-flow graph)", cl.proof, cl.n)
	}
}

const c18Fresh = "«unlisted»"

func c18L3(r *core.R) {
	c := c18Resolve(r)
	if c == nil {
		return
	}
	fname := c.fi.Name()
	x := c18NewExec(r, c.pk, c.fi.Decl, c)
	if x.head == nil || x.body == nil || x.done == nil {
		r.Anchor("rule loop of " + fname + " in the control-flow graph")
		return
	}
	if len(x.multi) > 0 {
		r.Unknown("single-assignment@"+fname, c.fi.Decl.Pos(), "variables %v hold a tag value or a search index but are assigned more than once; the evaluation needs single-assignment locals", x.multi)
		return
	}
	at := func(s string) string { return s + "@" + fname }
	vals := []string{"", "no", "yes", c18Fresh}
	have := map[string]bool{"": true, "no": true, "yes": true, c18Fresh: true}
	for _, v := range x.constStrings() {
		if !have[v] {
			have[v] = true
			vals = append(vals, v)
		}
	}
	r.Stat("cfg_blocks", len(x.g.Blocks))

	// ---- prefix: from the entry to the rule loop
	clLen := &c18Clause{name: at("precondition len(nodes) > 3"), proof: "every input with at most 3 node refs returns false without indexing an empty list, and 4 refs behave like 5"}
	clClosed := &c18Clause{name: at("precondition closed"), proof: "every input whose first and last node ids differ returns false whatever the tags"}
	clNo := &c18Clause{name: at("area=no"), proof: "closed, >3 refs, area=no returns false before the rule loop"}
	clOther := &c18Clause{name: at("area=<other>"), proof: "closed, >3 refs, any non-empty area value other than no returns true before the rule loop"}
	clAbsent := &c18Clause{name: at("area absent -> rule loop"), proof: "closed, >3 refs, no area value reaches the rule loop"}
	entry := x.g.Blocks[0]
	nruns := 0
	for _, area := range vals {
		for _, closed := range []bool{true, false} {
			outs := map[int64]c18Out{}
			for n := int64(0); n <= 5; n++ {
				s := &c18Scen{n: n, closed: closed, tags: map[string]string{"area": area}}
				o := x.run(entry, s)
				outs[n] = o
				nruns++
				switch {
				case n <= 3:
					clLen.expect(s, o, "false", "returns false (a polygon needs more than 3 node refs)")
				case !closed:
					clClosed.expect(s, o, "false", "returns false (the way is not closed)")
				case n == 4:
					// boundary of the length test: 4 refs must be treated like 5
				case area == "no":
					clNo.expect(s, o, "false", "returns false (area=no is never an area)")
				case area != "":
					clOther.expect(s, o, "true", "returns true (a non-empty area value other than no always is an area)")
				default:
					clAbsent.expect(s, o, "head", "evaluates the rule table")
				}
			}
			if closed && outs[4].kind != outs[5].kind {
				s := &c18Scen{n: 4, closed: true, tags: map[string]string{"area": area}}
				clLen.n++
				if clLen.bad == "" {
					clLen.bad = fmt.Sprintf("on {%s} the function %s, while with 5 node refs it %s: the length threshold is not `more than 3`", s, outs[4].describe(), outs[5].describe())
					clLen.pos = outs[4].pos
				}
			}
		}
	}
	for _, cl := range []*c18Clause{clLen, clClosed, clNo, clOther, clAbsent} {
		cl.emit(r, c.fi.Decl.Pos())
	}

	// ---- one iteration of the rule loop
	clSkip := &c18Clause{name: at("skip \"\" and \"no\""), proof: "an absent value and the value no go on to the next entry for every condition kind and search outcome"}
	branch := map[string]*c18Clause{}
	declared := map[string]string{}
	for o, v := range c.condVals {
		declared[v] = o.Name()
	}
	for _, kind := range []string{"all", "whitelist", "blacklist"} {
		d := "compared as a literal"
		if nm, ok := declared[kind]; ok {
			d = "declared as " + nm
		}
		branch[kind] = &c18Clause{name: at("branch " + kind), proof: map[string]string{
			"all":       "polygon=all (" + d + "): every value other than \"\"/no returns true",
			"whitelist": "polygon=whitelist (" + d + "): returns true exactly when index < len(values) && values[index] == value, otherwise next entry; values[index] is never evaluated at index == len(values)",
			"blacklist": "polygon=blacklist (" + d + "): returns true exactly when index == len(values) || values[index] != value, otherwise next entry; values[index] is never evaluated at index == len(values)",
		}[kind]}
	}
	truth := map[string]map[[2]bool]string{"whitelist": {}, "blacklist": {}}
	for _, kind := range []string{"all", "whitelist", "blacklist"} {
		for _, v := range vals {
			for _, p := range []bool{true, false} {
				for _, q := range []bool{true, false} {
					s := &c18Scen{n: 5, closed: true, tags: map[string]string{"area": ""}, inBody: true, v: v, cond: kind, p: p, q: q}
					o := x.run(x.body, s)
					nruns++
					member := !p && q
					switch {
					case v == "" || v == "no":
						clSkip.expect(s, o, "head", "skips the entry (absent value / value no never makes an area)")
					case kind == "all":
						branch[kind].expect(s, o, "true", "returns true")
					case kind == "whitelist" && member, kind == "blacklist" && !member:
						branch[kind].expect(s, o, "true", "returns true (value "+map[bool]string{true: "is", false: "is not"}[member]+" in the list)")
					default:
						branch[kind].expect(s, o, "head", "goes on to the next entry (value "+map[bool]string{true: "is", false: "is not"}[member]+" in the list)")
					}
					if v == c18Fresh && kind != "all" {
						truth[kind][[2]bool{p, q}] = o.kind
					}
				}
			}
		}
	}
	clSkip.emit(r, c.loop.Pos())
	for _, kind := range []string{"all", "whitelist", "blacklist"} {
		branch[kind].emit(r, c.loop.Pos())
	}
	// blacklist is the exact negation of whitelist on the (index at end, element equal) truth table
	neg := at("blacklist = NOT whitelist")
	var rows []string
	okNeg, decided := true, true
	for _, pq := range [][2]bool{{true, true}, {true, false}, {false, true}, {false, false}} {
		w, b := truth["whitelist"][pq], truth["blacklist"][pq]
		rows = append(rows, fmt.Sprintf("end=%v,eq=%v: whitelist %s / blacklist %s", pq[0], pq[1], w, b))
		isRes := func(k string) bool { return k == "true" || k == "head" }
		if !isRes(w) || !isRes(b) {
			decided = false
		} else if w == b {
			okNeg = false
		}
	}
	switch {
	case !decided:
		r.Unknown(neg, c.loop.Pos(), "truth tables could not be evaluated: %s", strings.Join(rows, "; "))
	case !okNeg:
		r.Bad(neg, c.loop.Pos(), "the blacklist branch is not the negation of the whitelist membership test `index < len(values) && values[index] == value`: %s (true = area, head = next entry)", strings.Join(rows, "; "))
	default:
		r.OK(neg, c.loop.Pos(), "truth tables over (index == len(values), values[index] == value) are complementary: %s", strings.Join(rows, "; "))
	}

	// ---- after the loop
	clAfter := &c18Clause{name: at("no entry matched -> false"), proof: "leaving the rule loop returns false"}
	{
		s := &c18Scen{n: 5, closed: true, tags: map[string]string{"area": ""}}
		clAfter.expect(s, x.run(x.done, s), "false", "returns false (no rule matched)")
		nruns++
	}
	clAfter.emit(r, c.loop.End())
	r.Stat("abstract_inputs_evaluated", nruns)

	// ---- reads: receiver only through len/index of Nodes and Tags.Find(const | entry.key)
	c18Reads(r, x, at("tags and nodes read-only, Find(const|entry key) only"))

	// ---- declared condition values never change
	cv := "condition values immutable@" + c.condF.Type().String()
	var names []string
	bad := ""
	var badPos token.Pos
	for o := range c.condVals {
		names = append(names, fmt.Sprintf("%s=%q", o.Name(), c.condVals[o]))
		if _, isVar := o.(*types.Var); isVar {
			if w := c18Writes(c.pk, o, nil); len(w) > 0 && bad == "" {
				bad, badPos = o.Name(), w[0]
			}
		}
	}
	sort.Strings(names)
	switch {
	case bad != "":
		r.Bad(cv, badPos, "the condition value %s is a variable written at %s: the branch it selects no longer corresponds to the kind named in the table", bad, r.P.Rel(badPos))
	case len(names) == 0:
		r.OKTrivial(cv, c.fi.Decl.Pos(), "no named condition values are declared; branches compare against literals")
	default:
		r.OK(cv, c.fi.Decl.Pos(), "declared values %v are constants or package variables that are never assigned or address-taken", names)
	}
}

// c18Reads checks that the function touches its receiver only by reading Nodes (len, index) and by
// calling Tags.Find with a constant or the entry's key: the result is then a function of the tag set.
func c18Reads(r *core.R, x *c18Exec, cn string) {
	info := x.info
	nuse := 0
	var bad string
	var badPos token.Pos
	note := func(n ast.Node, why string) {
		if bad == "" {
			bad, badPos = fmt.Sprintf("`%s`: %s", src(r.P.Fset, n), why), n.Pos()
		}
	}
	inspectNoLit(x.fd.Body, func(n ast.Node) bool {
		id, ok := n.(*ast.Ident)
		if !ok || info.Uses[id] != x.recv {
			return true
		}
		nuse++
		sel, ok := x.par[id].(*ast.SelectorExpr)
		if !ok || sel.X != id {
			note(x.par[id], "the receiver is used as a whole")
			return true
		}
		up := x.par[sel]
		for {
			if p, ok := up.(*ast.ParenExpr); ok {
				up = x.par[p]
				continue
			}
			break
		}
		switch {
		case x.recvField(sel, "Nodes"):
			switch p := up.(type) {
			case *ast.CallExpr:
				if builtinName(info, p) != "len" {
					note(p, "the node list is passed to a call")
				}
			case *ast.IndexExpr:
				if as, ok := enclosing(x.par, p, func(m ast.Node) bool { _, ok := m.(*ast.AssignStmt); return ok }).(*ast.AssignStmt); ok {
					for _, l := range as.Lhs {
						if rootObj(info, l) == x.recv {
							note(as, "the node list is written")
						}
					}
				}
			default:
				note(up, "the node list is used other than through len() and indexing")
			}
		case x.recvField(sel, "Tags"):
			msel, ok := up.(*ast.SelectorExpr)
			call, ok2 := x.par[msel].(*ast.CallExpr)
			if !ok || !ok2 || call.Fun != msel {
				note(up, "tags are read other than through Tags.Find; the answer may depend on tag order or on unrelated tags")
				return true
			}
			if _, ok := x.findCall(call); !ok {
				note(call, "tags are read through something other than Tags.Find(<constant> | <entry>.key)")
			}
		default:
			note(sel, "receiver field other than Nodes and Tags takes part in the classification")
		}
		return true
	})
	switch {
	case bad != "":
		r.Bad(cn, badPos, "%s", bad)
	case nuse == 0:
		r.Unknown(cn, x.fd.Pos(), "the receiver is never used")
	default:
		r.OK(cn, x.fd.Pos(), "all %d uses of the receiver are len()/index reads of Nodes or Tags.Find(<constant> | <entry>.key); Find depends only on the key->value mapping, so tag order and unrelated tags cannot matter", nuse)
	}
}

// ---------------------------------------------------------------------------
// L4: (*Relation).Polygon

func c18L4(r *core.R) {
	pk := r.P.Pkg("")
	fi := findFunc(pk, "(*Relation).Polygon")
	if fi == nil || fi.Decl.Body == nil {
		r.Anchor("(*Relation).Polygon")
		return
	}
	tab, err := c18LoadTable()
	if err != nil {
		r.Anchor("tables/polygon-features.json: " + err.Error())
		return
	}
	fname := fi.Name()
	x := c18NewExec(r, pk, fi.Decl, nil)
	if len(x.multi) > 0 {
		r.Unknown("single-assignment@"+fname, fi.Decl.Pos(), "variables %v hold a tag value but are assigned more than once", x.multi)
		return
	}
	accept := map[string]bool{}
	for _, t := range tab.RelationTypes {
		accept[t] = true
	}
	vals := []string{"", "no", "yes", "route", "Multipolygon", "multipolygon ", c18Fresh}
	have := map[string]bool{}
	for _, v := range vals {
		have[v] = true
	}
	for _, v := range x.constStrings() {
		if !have[v] && !accept[v] {
			have[v] = true
			vals = append(vals, v)
		}
	}
	entry := x.g.Blocks[0]
	for _, t := range tab.RelationTypes {
		cl := &c18Clause{name: "type=" + t + "@" + fname, proof: "a relation with type=" + t + " is an area"}
		s := &c18Scen{n: -1, tags: map[string]string{"type": t}}
		cl.expect(s, x.run(entry, s), "true", "returns true")
		cl.emit(r, fi.Decl.Pos())
	}
	cl := &c18Clause{name: "others rejected@" + fname, proof: fmt.Sprintf("absent type and every other type value (%d probes, including each string constant of the function) return false", len(vals))}
	for _, v := range vals {
		s := &c18Scen{n: -1, tags: map[string]string{"type": v}}
		cl.expect(s, x.run(entry, s), "false", "returns false (only multipolygon and boundary relations are areas)")
	}
	cl.emit(r, fi.Decl.Pos())
	c18ReadsRel(r, x, "reads only Tags.Find(\"type\")@"+fname)
}

// c18ReadsRel: the relation classification reads nothing but Tags.Find("type").
func c18ReadsRel(r *core.R, x *c18Exec, cn string) {
	nuse, nfind := 0, 0
	var bad string
	var badPos token.Pos
	inspectNoLit(x.fd.Body, func(n ast.Node) bool {
		id, ok := n.(*ast.Ident)
		if !ok || x.info.Uses[id] != x.recv {
			return true
		}
		nuse++
		sel, _ := x.par[id].(*ast.SelectorExpr)
		var call *ast.CallExpr
		if sel != nil && x.recvField(sel, "Tags") {
			if msel, ok := x.par[sel].(*ast.SelectorExpr); ok {
				if c2, ok := x.par[msel].(*ast.CallExpr); ok && c2.Fun == msel {
					call = c2
				}
			}
		}
		if call != nil {
			if ts, ok := x.findCall(call); ok && !ts.entry && ts.key == "type" {
				nfind++
				return true
			}
		}
		if bad == "" {
			bad, badPos = fmt.Sprintf("`%s` reads the relation other than through Tags.Find(\"type\")", src(x.r.P.Fset, x.par[id])), id.Pos()
		}
		return true
	})
	switch {
	case bad != "":
		r.Bad(cn, badPos, "%s: the answer no longer depends on the type tag alone", bad)
	case nfind == 0:
		r.Bad(cn, x.fd.Pos(), "the function never reads the type tag")
	default:
		r.OK(cn, x.fd.Pos(), "all %d uses of the receiver are Tags.Find(\"type\")", nuse)
	}
}
