package rules

import "osmcheck/core"

// Round 5, part 3: further representation changes (callbacks to a shared iteration helper, lookup tables).

var c13Benign5c = []core.Mutant{
	{Name: "iteration-helper-with-callbacks", File: c13Chg, Find: c13SrcAddUpdate, Replace: `func eachElement(o *osm.OSM, node func(*osm.Node) error, way func(*osm.Way) error, relation func(*osm.Relation) error) error {
	for _, n := range o.Nodes {
		if err := node(n); err != nil {
			return err
		}
	}
	for _, w := range o.Ways {
		if err := way(w); err != nil {
			return err
		}
	}
	for _, r := range o.Relations {
		if err := relation(r); err != nil {
			return err
		}
	}
	return nil
}

func addUpdate(ctx context.Context, actions []osm.Action, o *osm.OSM, actionType osm.ActionType, ds osm.HistoryDatasourcer, ignoreMissing bool) ([]osm.Action, error) {
	if o == nil {
		return actions, nil
	}
	visible := actionType != osm.ActionDelete
	err := eachElement(o,
		func(n *osm.Node) error {
			old, err := findPreviousNode(ctx, n, ds, ignoreMissing)
			if e := checkErr(ds, ignoreMissing, err, n.FeatureID()); e != nil {
				return e
			}
			if old == nil {
				n.Visible = true
				actions = append(actions, osm.Action{Type: osm.ActionCreate, OSM: &osm.OSM{Nodes: osm.Nodes{n}}})
				return nil
			}
			n.Visible = visible
			actions = append(actions, osm.Action{Type: actionType, Old: &osm.OSM{Nodes: osm.Nodes{old}}, New: &osm.OSM{Nodes: osm.Nodes{n}}})
			return nil
		},
		func(w *osm.Way) error {
			old, err := findPreviousWay(ctx, w, ds, ignoreMissing)
			if e := checkErr(ds, ignoreMissing, err, w.FeatureID()); e != nil {
				return e
			}
			if old == nil {
				w.Visible = true
				actions = append(actions, osm.Action{Type: osm.ActionCreate, OSM: &osm.OSM{Ways: osm.Ways{w}}})
				return nil
			}
			w.Visible = visible
			actions = append(actions, osm.Action{Type: actionType, Old: &osm.OSM{Ways: osm.Ways{old}}, New: &osm.OSM{Ways: osm.Ways{w}}})
			return nil
		},
		func(r *osm.Relation) error {
			old, err := findPreviousRelation(ctx, r, ds, ignoreMissing)
			if e := checkErr(ds, ignoreMissing, err, r.FeatureID()); e != nil {
				return e
			}
			if old == nil {
				r.Visible = true
				actions = append(actions, osm.Action{Type: osm.ActionCreate, OSM: &osm.OSM{Relations: osm.Relations{r}}})
				return nil
			}
			r.Visible = visible
			actions = append(actions, osm.Action{Type: actionType, Old: &osm.OSM{Relations: osm.Relations{old}}, New: &osm.OSM{Relations: osm.Relations{r}}})
			return nil
		})
	if err != nil {
		return nil, err
	}
	return actions, nil
}
`},
	{Name: "visibility-from-local-lookup-table", File: c13Chg, Find: c13SrcVisible,
		Replace: "\tcurrentVisible := map[osm.ActionType]bool{osm.ActionModify: true, osm.ActionDelete: false}[actionType]\n"},
	{Name: "visibility-from-package-lookup-table", File: c13Chg, Find: c13SrcCallsAndAddUpdate,
		Replace: c13SrcModDel + "}\n\nvar visibleAfter = map[osm.ActionType]bool{\n\tosm.ActionModify: true,\n\tosm.ActionDelete: false,\n}\n\n" +
			c13Sub(c13SrcAddUpdate, c13SrcVisible, "\tcurrentVisible := visibleAfter[actionType]\n")},
}
