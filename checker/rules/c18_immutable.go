package rules

import (
	"fmt"
	"go/ast"
	"go/token"
	"go/types"

	"osmcheck/core"
)

// C18.L2 (c): immutability of the table.

// c18VarReadOnly reports whether local pointer o (an alias of a table element) is only read in fd:
// field reads, copies through *o, nil tests, and calls of package functions/methods that only read the
// corresponding parameter.
func c18VarReadOnly(r *core.R, c *c18Ctx, fd *ast.FuncDecl, o types.Object, depth int) bool {
	info := c.info
	par := r.P.Parents(r.P.FileOf(c.pk, fd.Pos()))
	ok := true
	ast.Inspect(fd.Body, func(n ast.Node) bool {
		id, isID := n.(*ast.Ident)
		if !isID || info.Uses[id] != o {
			return true
		}
		// climb the selector/index/deref chain the identifier roots
		var top ast.Node = id
		up := par[id]
		method := false
		for {
			switch p := up.(type) {
			case *ast.ParenExpr:
				top, up = p, par[p]
				continue
			case *ast.SelectorExpr:
				if p.X == top {
					if s := info.Selections[p]; s != nil && s.Kind() != types.FieldVal {
						method = true
					}
					top, up = p, par[p]
					if method {
						break
					}
					continue
				}
			case *ast.IndexExpr:
				if p.X == top {
					top, up = p, par[p]
					continue
				}
			case *ast.StarExpr:
				top, up = p, par[p]
				continue
			}
			break
		}
		if method {
			call, isCall := up.(*ast.CallExpr)
			sel := top.(*ast.SelectorExpr)
			fn, _ := info.Selections[sel].Obj().(*types.Func)
			if !isCall || call.Fun != top || fn == nil {
				ok = false
				return true
			}
			if _, ptr := fn.Type().(*types.Signature).Recv().Type().(*types.Pointer); !ptr {
				return true // value receiver: the method works on a copy of the struct
			}
			fd2 := c.funcs[fn]
			if fd2 == nil || depth <= 0 || fd2.Recv == nil || len(fd2.Recv.List) != 1 || len(fd2.Recv.List[0].Names) != 1 {
				ok = false
				return true
			}
			if ro := info.Defs[fd2.Recv.List[0].Names[0]]; ro == nil || !c18VarReadOnly(r, c, fd2, ro, depth-1) {
				ok = false
			}
			return true
		}
		switch p := up.(type) {
		case *ast.AssignStmt:
			for _, l := range p.Lhs {
				if ast.Node(l) == top && top != ast.Node(id) {
					ok = false // store through the alias
				}
			}
			for _, rh := range p.Rhs {
				if ast.Node(rh) == top && top == ast.Node(id) {
					ok = false // the pointer itself is copied to another variable
				}
			}
		case *ast.IncDecStmt:
			ok = false
		case *ast.UnaryExpr:
			if p.Op == token.AND {
				ok = false
			}
		case *ast.CallExpr:
			if top != ast.Node(id) {
				return true // a field value is passed (same as through the range copy)
			}
			fn := callee(info, p)
			fd2 := c.funcs[fn]
			if fd2 == nil || depth <= 0 {
				ok = false
				return true
			}
			pi, found := 0, false
			for _, fld := range fd2.Type.Params.List {
				if len(fld.Names) == 0 {
					pi++
				}
				for _, nm := range fld.Names {
					if pi < len(p.Args) && ast.Node(p.Args[pi]) == top {
						found = true
						if po := info.Defs[nm]; po == nil || !c18VarReadOnly(r, c, fd2, po, depth-1) {
							ok = false
						}
					}
					pi++
				}
			}
			if !found {
				ok = false
			}
		case *ast.ReturnStmt, *ast.CompositeLit, *ast.KeyValueExpr, *ast.SendStmt:
			if top == ast.Node(id) {
				ok = false // the pointer escapes
			}
		}
		return true
	})
	return ok
}

// c18ReadOnlyAlias: n is `&table[i]` bound to a local pointer that is only read.
func c18ReadOnlyAlias(r *core.R, c *c18Ctx, n ast.Node) bool {
	ue, ok := n.(*ast.UnaryExpr)
	if !ok || ue.Op != token.AND {
		return false
	}
	if _, isIdx := ast.Unparen(ue.X).(*ast.IndexExpr); !isIdx {
		return false
	}
	f := r.P.FileOf(c.pk, ue.Pos())
	if f == nil {
		return false
	}
	par := r.P.Parents(f)
	var fd *ast.FuncDecl
	for p := par[ue]; p != nil; p = par[p] {
		if d, ok := p.(*ast.FuncDecl); ok {
			fd = d
			break
		}
	}
	if fd == nil {
		return false
	}
	var o types.Object
	switch p := par[ue].(type) {
	case *ast.AssignStmt:
		for i, rh := range p.Rhs {
			if rh == ast.Expr(ue) && len(p.Lhs) == len(p.Rhs) {
				o = objOf(c.info, p.Lhs[i])
			}
		}
	case *ast.ValueSpec:
		for i, v := range p.Values {
			if v == ast.Expr(ue) && len(p.Names) == len(p.Values) {
				o = c.info.Defs[p.Names[i]]
			}
		}
	}
	if v, isVar := o.(*types.Var); !isVar || v.Parent() == c.pk.Types.Scope() || v.IsField() {
		return false
	}
	return c18VarReadOnly(r, c, fd, o, 3)
}

func c18CheckImmutable(r *core.R, c *c18Ctx, lit *c18Lit, res *c18InitResult) {
	ic := "immutable@" + c.table.Name()
	naliases := 0
	ws := c18Writes(c.pk, c.table, func(n ast.Node) bool {
		if n == ast.Node(lit.addr) || res.writes[n] {
			return true // the unmarshal target, or an assignment during initialisation that L2 (sorted@) has followed
		}
		if c18ReadOnlyAlias(r, c, n) {
			naliases++
			return true
		}
		return false
	})
	inInit := func(p token.Pos) bool { return lit.fd.Body.Pos() <= p && p <= lit.fd.Body.End() }
	switch {
	case len(ws) == 0:
		extra := ""
		if naliases > 0 {
			extra = fmt.Sprintf("; %d local pointer(s) to the current entry are only read", naliases)
		}
		r.OK(ic, lit.call.Pos(), "%s is written only during package initialisation (json.Unmarshal in %s; %d assignment(s) of the decoded slice followed by C18.L2 sorted@; the in-place sort of its value lists)%s", c.table.Name(), lit.fd.Name.Name, len(res.writes), extra)
	case inInit(ws[0]):
		r.Unknown(ic, ws[0], "%s is also written at %s inside %s; the rule only understands unmarshal followed by an in-place sort", c.table.Name(), r.P.Rel(ws[0]), lit.fd.Name.Name)
	default:
		r.Bad(ic, ws[0], "%s is written (assigned, address-taken into something other than a read-only local, or copied over) at %s outside its initialiser: the table (or the sortedness of its value lists) can change after init", c.table.Name(), r.P.Rel(ws[0]))
	}
}
